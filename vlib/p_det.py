"""C11: generation is deterministic and idempotent."""
import hashlib, os, shutil, subprocess
from . import common as C
from . import declgen as G
from . import render
from .lean import lean_obligations, prepare

TRUSTED = [
    "Lean 4.33.0 kernel; axioms allowed: propext, Classical.choice, Quot.sound (audited per theorem)",
    "factgen (go/types): the list of range-over-map sites, go statements and calls into time / rand / os environment in internal/kessoku, internal/migrate, internal/pkg, regenerated on every run",
    "go/format and go/packages are deterministic functions of their input (trusted); the run-to-run comparison below validates it on samples",
]

PROBE_FILES = {
 "a/config/c.go": "package config\ntype A struct{}\nfunc New() *A { return &A{} }\n",
 "b/config/c.go": "package config\ntype B struct{}\nfunc New() *B { return &B{} }\n",
 "c/rand/r.go": "package rand\ntype R struct{}\nfunc New() (*R, error) { return &R{}, nil }\n",
 "app/kessoku.go": '''package app

import (
	"demo/a/config"
	bconfig "demo/b/config"
	"demo/c/rand"
	mrand "math/rand"

	"github.com/mazrean/kessoku"
)

type App struct {
	a *config.A
	b *bconfig.B
}

type Errgroup struct{}
type Context struct{}

func NewApp(a *config.A, b *bconfig.B, r *rand.R, m *mrand.Rand, e Errgroup) (*App, error) { return &App{a, b}, nil }
func NewMath() *mrand.Rand { return nil }
func NewEg() Errgroup { return Errgroup{} }

// an injector named like the variable the generator derives for its own result
var _ = kessoku.Inject[*App]("app",
	kessoku.Async(kessoku.Provide(config.New)),
	kessoku.Async(kessoku.Provide(bconfig.New)),
	kessoku.Async(kessoku.Provide(rand.New)),
	kessoku.Provide(NewMath),
	kessoku.Provide(NewEg),
	kessoku.Provide(NewApp),
)

var _ = kessoku.Inject[*App]("InitApp",
	kessoku.Provide(config.New),
	kessoku.Async(kessoku.Provide(bconfig.New)),
	kessoku.Async(kessoku.Provide(rand.New)),
	kessoku.Provide(NewMath),
	kessoku.Provide(NewEg),
	kessoku.Provide(NewApp),
)
''',
 "app/second.go": '''package app

import (
	"demo/a/config"

	"github.com/mazrean/kessoku"
)

type Second struct{ a *config.A }

func NewSecond(a *config.A) *Second { return &Second{a} }

var _ = kessoku.Inject[*Second]("second",
	kessoku.Async(kessoku.Provide(config.New)),
	kessoku.Provide(NewSecond),
)
''',
 "app/third.go": '''package app

import "github.com/mazrean/kessoku"

type Wrapper struct{ s *Second }

func NewWrapper(s *Second) *Wrapper { return &Wrapper{s} }

// an injector composed from an injector that is generated for another file of the same invocation
var _ = kessoku.Inject[*Wrapper]("InitWrapper",
	kessoku.Provide(second),
	kessoku.Provide(NewWrapper),
)
''',
}

def sha(path):
    try:
        return hashlib.sha256(open(path, "rb").read()).hexdigest()[:16]
    except OSError:
        return "absent"

def check_c11(tier, seed):
    R = C.Result("C11", tier, seed)
    repo_dir = C.ensure_repo_build()
    lean_obligations(R, "C11", repo_dir)
    cli = os.path.join(repo_dir, "kessoku")
    runs = 0
    samples = []
    distinct = set()
    # ---------------------------------------------------------------- 1. probe package + seeded packages
    M = render.Module("c11_%d" % seed)
    try:
        for rel, txt in PROBE_FILES.items():
            p = os.path.join(M.root, rel)
            os.makedirs(os.path.dirname(p), exist_ok=True)
            open(p, "w").write(txt)
        open(os.path.join(M.root, "go.mod"), "w").write(render.GOMOD.replace("module e2e", "module demo") % C.REPO)
        rng = G.SplitMix64(seed * 977 + 5)
        lines = []
        prepare(repo_dir)
        while len(lines) < (40 if tier == "quick" else 400):
            l = G.gen_decl(rng, "valid")
            lines.append(l)
        model = C.lean_driver(["D " + l for l in lines])
        decls = [(i, l) for i, (l, m) in enumerate(zip(lines, model)) if m.startswith("OK")]
        # rendered with module path e2e -> rewrite imports to demo
        files = M.write_decls(decls, perfile=10, rng=G.SplitMix64(seed + 7))
        for f in files:
            s = open(f).read().replace('"e2e/rt"', '"demo/rt"')
            open(f, "w").write(s)
        targets = [["app/kessoku.go", "app/second.go", "app/third.go"], ["app/second.go", "app/kessoku.go"]] + [[os.path.relpath(f, M.root)] for f in files[:3]] + [[os.path.relpath(f, M.root) for f in files[:8]]]      # (one invocation loads the package once per file)
        env = M.env()
        def gen(tg, extra=None):
            nonlocal runs
            e = dict(env)
            if extra:
                e.update(extra)
            runs += 1
            return C.run([cli] + tg, cwd=M.root, extra_env=e, timeout=1800)
        def outs(tg):
            return [os.path.join(M.root, t[:-3] + "_band.go") for t in tg]
        def clean():
            for d, _, fs in os.walk(M.root):
                for f in fs:
                    if f.endswith("_band.go"):
                        os.remove(os.path.join(d, f))
        for tg in targets:
            clean()
            rc, out = gen(tg)
            if rc != 0:
                R.violation("generator fails on the determinism probe %s: %s" % (tg, out[-300:]), {"kind": "input", "failing_input": tg, "output": out[-1500:]})
                continue
            missing = [o for o in outs(tg) if not os.path.exists(o)]
            if missing:
                R.violation("the generator exits 0 but writes no output for %s (invocation: %s)" % ([os.path.relpath(o, M.root) for o in missing], tg),
                            {"kind": "input", "failing_input": {"files": tg, "sources": PROBE_FILES if tg[0].startswith("app/") else "seeded package"}, "output": out[-1500:],
                             "reproduce": "run `kessoku %s` in a clean copy of the sources" % " ".join(tg)})
                continue
            ref = [open(o, "rb").read() for o in outs(tg)]
            distinct.update(hashlib.sha256(b).hexdigest() for b in ref)
            def compare(what, repro):
                cur = [open(o, "rb").read() if os.path.exists(o) else b"" for o in outs(tg)]
                for o, a, b in zip(outs(tg), ref, cur):
                    if a != b:
                        import difflib
                        d = "\n".join(list(difflib.unified_diff(a.decode(errors="replace").split("\n"), b.decode(errors="replace").split("\n"), lineterm="", n=0))[:12])
                        fid = None
                        R.finding("nondeterministic:" + what.split(":")[0],
                                  "output of %s differs from the first run: %s\n%s" % (os.path.relpath(o, M.root), what, d),
                                  {"kind": "input", "failing_input": {"files": tg, "sources": {k: v for k, v in PROBE_FILES.items()} if tg[0].startswith("app/") else "seeded package (see reproduce)"},
                                   "history": repro, "diff": d, "reproduce": "run `kessoku %s` in a module containing the sources, following the history" % " ".join(tg)})
                        return False
                return True
            # repeated runs from scratch under different GOMAXPROCS, several processes
            for gmp in (["1", "2", "16"] if tier == "quick" else ["1", "2", "3", "4", "6", "8", "12", "16"]):
                for rep in range(2 if tier == "quick" else 3):
                    clean()
                    gen(tg, {"GOMAXPROCS": gmp})
                    if not compare("fresh-run: fresh directory, GOMAXPROCS=%s" % gmp, ["fresh run", "fresh run again with GOMAXPROCS=" + gmp]):
                        break
            # the same sources at another absolute path (nothing of the location may leak into the output)
            if tg is targets[0] or tier != "quick":
                moved = M.root + "_moved"
                shutil.rmtree(moved, ignore_errors=True)
                clean()
                shutil.copytree(M.root, moved)
                try:
                    runs += 1
                    C.run([cli] + tg, cwd=moved, extra_env=dict(env), timeout=1800)
                    for o, a in zip(outs(tg), ref):
                        mo = os.path.join(moved, os.path.relpath(o, M.root))
                        b = open(mo, "rb").read() if os.path.exists(mo) else b""
                        if a != b:
                            R.finding("nondeterministic:location", "output of %s differs when the same sources live at another absolute path" % os.path.relpath(o, M.root),
                                      {"kind": "input", "failing_input": {"files": tg}, "history": ["generate in directory A", "copy the sources to directory B", "generate there"],
                                       "reproduce": "generate the same package at two different absolute paths and diff the outputs"})
                            break
                finally:
                    shutil.rmtree(moved, ignore_errors=True)
            # edited source: generate, edit the declarations (one removed, the others reordered), generate again - the
            # result must be what a clean directory gives for the edited source
            if tg is targets[0]:
                kpath = os.path.join(M.root, "app", "kessoku.go")
                v1 = open(kpath).read()
                parts = v1.split("var _ = kessoku.Inject")
                if len(parts) == 3:
                    v2 = parts[0] + "var _ = kessoku.Inject" + parts[2]          # the first declaration ("app") removed
                    clean(); gen(tg)
                    open(kpath, "w").write(v2)
                    try:
                        gen(tg)
                        edited = [open(o, "rb").read() if os.path.exists(o) else b"" for o in outs(tg)]
                        clean(); gen(tg)
                        fresh = [open(o, "rb").read() if os.path.exists(o) else b"" for o in outs(tg)]
                        for o, a2, b2 in zip(outs(tg), edited, fresh):
                            if a2 != b2:
                                import difflib
                                dd = "\n".join(list(difflib.unified_diff(b2.decode(errors="replace").split("\n"), a2.decode(errors="replace").split("\n"), lineterm="", n=0))[:12])
                                R.finding("nondeterministic:edited-source", "after removing a declaration from the source, regenerating over the previous output gives %s different from a clean directory\n%s" % (os.path.relpath(o, M.root), dd),
                                          {"kind": "input", "failing_input": {"files": tg, "v1": v1, "v2": v2}, "history": ["generate from v1", "replace app/kessoku.go by v2", "generate again", "compare with a clean generation from v2"], "diff": dd})
                                break
                    finally:
                        open(kpath, "w").write(v1)
                        clean()
                        gen(tg)
            # renamed declarations: the previous output declares an injector under a name the user's sources now use for
            # something else (an injector renamed, its old name reused for a provider function / a function of another
            # signature declared in a file that sorts before or after the output)
            if tg is targets[0]:
                for variant, userfile in (("after", "types.go"), ("before", "a_types.go")):
                    rd = os.path.join(M.root, "rn_" + variant)
                    shutil.rmtree(rd, ignore_errors=True)
                    os.makedirs(rd)
                    inj = "package rn\n\nimport \"github.com/mazrean/kessoku\"\n\nvar _ = kessoku.Inject[*App](\"%s\", kessoku.Provide(NewConfig), kessoku.Provide(%s))\n"
                    typ = "package rn\n\ntype Config struct{}\n\ntype App struct{ C *Config }\n\nfunc NewConfig() *Config { return &Config{} }\n\nfunc %s(c *Config) *App { return &App{C: c} }\n"
                    rel = os.path.join("rn_" + variant, "inject.go")
                    band = os.path.join(rd, "inject_band.go")
                    open(os.path.join(rd, "inject.go"), "w").write(inj % ("NewApp", "newApp"))
                    open(os.path.join(rd, userfile), "w").write(typ % "newApp")
                    C.run([cli, rel], cwd=M.root, extra_env=dict(env), timeout=600)
                    v1b = open(band).read() if os.path.exists(band) else None
                    open(os.path.join(rd, "inject.go"), "w").write(inj % ("InitApp", "NewApp"))
                    open(os.path.join(rd, userfile), "w").write(typ % "NewApp")
                    rc_s, out_s = C.run([cli, rel], cwd=M.root, extra_env=dict(env), timeout=600)
                    stale = open(band).read() if os.path.exists(band) else None
                    os.remove(band) if os.path.exists(band) else None
                    rc_f, out_f = C.run([cli, rel], cwd=M.root, extra_env=dict(env), timeout=600)
                    fresh_b = open(band).read() if os.path.exists(band) else None
                    runs_extra = 3
                    if v1b is None or fresh_b is None:
                        R.violation("harness error: the rename probe does not generate (%s)" % (out_f or "")[-200:], {"kind": "correspondence-broken", "correspondence": "rename probe"})
                    elif stale != fresh_b:
                        R.finding("nondeterministic:renamed-declaration", "after renaming an injector and reusing its name for a provider (declared in a file sorting %s the output), regenerating over the previous output gives a different inject_band.go than a clean directory (exit %d)" % (variant, rc_s),
                                  {"kind": "input", "failing_input": {"inject.go v1": inj % ("NewApp", "newApp"), userfile + " v1": typ % "newApp", "inject.go v2": inj % ("InitApp", "NewApp"), userfile + " v2": typ % "NewApp"},
                                   "history": ["generate from v1", "rename (v2)", "generate again over the previous output", "compare with a clean generation from v2"],
                                   "with_previous_output": stale, "clean": fresh_b})
                    shutil.rmtree(rd, ignore_errors=True)
            # leftover output of the previous run
            clean(); gen(tg); gen(tg)
            compare("leftover: second run with the previous output present", ["fresh run", "run again without deleting *_band.go"])
            gen(tg)
            compare("leftover: third run", ["fresh run", "run twice more"])
            # truncated leftover
            for frac in (0.3, 0.7):
                clean(); gen(tg)
                for o in outs(tg):
                    b = open(o, "rb").read()
                    open(o, "wb").write(b[: int(len(b) * frac)])
                gen(tg)
                compare("truncated: previous output truncated to %d%%" % int(frac * 100), ["fresh run", "truncate *_band.go", "run again"])
            # longer leftover: the previous output followed by functions of injectors that were since removed
            clean(); gen(tg)
            for o in outs(tg):
                b = open(o, "rb").read()
                open(o, "wb").write(b + b"".join(b"\nfunc RemovedInjector%d() int {\n\treturn %d\n}\n" % (i, i) for i in range(12)))
            gen(tg)
            compare("longer: previous output was longer than the new one (injectors removed since)", ["fresh run", "append functions to *_band.go", "run again"])
            # stale leftover: output of a different declaration set with other names and imports
            clean(); gen(tg)
            for o in outs(tg):
                open(o, "w").write("// Code generated by kessoku. DO NOT EDIT.\n\npackage %s\n\nimport (\n\t\"context\"\n\terrgroup \"fmt\"\n)\n\nfunc app(ctx context.Context) {}\nfunc InitApp() {}\nfunc second() {}\nfunc Stale() { errgroup.Println() }\nvar config0, ctx, eg, err, a, b int\n" % ("app" if "app/" in o else "p"))
            gen(tg)
            compare("stale: previous output replaced by a stale generated file declaring other names", ["write a stale *_band.go", "run"])
            samples.append({"files": tg, "sha256": [sha(o) for o in outs(tg)]})
    finally:
        M.close()
    # ---------------------------------------------------------------- 2. checked-in examples
    ex_root = os.path.join(C.CACHE, "tmp", "ex_%d" % os.getpid())
    shutil.rmtree(ex_root, ignore_errors=True)
    try:
        subprocess.run(["rsync", "-a", "--exclude", ".git", C.REPO + "/", ex_root + "/"], check=True)
        nex = 0
        for d in sorted(os.listdir(os.path.join(ex_root, "examples"))):
            exd = os.path.join(ex_root, "examples", d)
            src = os.path.join(exd, "kessoku.go")
            band = os.path.join(exd, "kessoku_band.go")
            if not os.path.exists(src) or not os.path.exists(band):
                continue
            want = open(band, "rb").read()
            for mode in ("leftover-present", "fresh"):
                if mode == "fresh":
                    os.remove(band)
                rc, out = C.run([cli, "kessoku.go"], cwd=exd, timeout=300); runs += 1
                got = open(band, "rb").read() if os.path.exists(band) else b""
                nex += 1
                if rc != 0 or got != want:
                    import difflib
                    dd = "\n".join(list(difflib.unified_diff(want.decode(errors="replace").split("\n"), got.decode(errors="replace").split("\n"), lineterm="", n=0))[:12])
                    R.finding("example:" + d, "examples/%s/kessoku_band.go is not what the current generator produces (%s, rc=%d)\n%s" % (d, mode, rc, dd),
                              {"kind": "input", "failing_input": "examples/%s/kessoku.go" % d, "mode": mode, "diff": dd, "reproduce": "cd examples/%s && kessoku kessoku.go && git diff" % d})
                    break
        R.coverage["examples_checked"] = nex
    finally:
        shutil.rmtree(ex_root, ignore_errors=True)
    R.samples = samples
    R.coverage.update({"evaluations": runs, "distinct_nontrivial": len(distinct), "traces_validated_against_impl": runs,
                       "rule": "generator runs over a probe package (same-named imports, user types named Errgroup/Context, injector named like its own result variable, two files) and seeded packages, each target set: fresh runs under GOMAXPROCS in {1,2,16} (quick) / {1,2,3,4,6,8,12,16} (thorough), re-runs over the previous output, over truncated (30%, 70%), longer and stale output; every examples/* regenerated with and without the checked-in output present; distinct = distinct output files"})
    return R.finish("cd lean && lake build KV.Props.C11 && lake env lean <audit of Props/C11 theorems>", TRUSTED)
