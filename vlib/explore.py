"""Explicit-state search over the interleaving semantics of an *extracted* emitted program (the E-dump recovered from
the real *_band.go by harness/extract): all schedules x failure sets x one caller cancellation at any point.

This is the failing-input search of DESIGN §2.4 — it is used only after a proof obligation or the emission
correspondence has broken, to turn "the emitted code is not what the model says" into a concrete schedule; it proves
nothing.  The semantics mirrors KV/T1F.lean: close makes every later receive ready; a ctx-aware wait may leave through
ctx.Done() once the derived context is done (caller cancelled, or the errgroup recorded an error, or eg.Wait returned);
a plain wait only through the channel; a failing goroutine provider ends its thread and makes the errgroup cancel; a
failing main-thread provider returns at once without cancel or Wait; eg.Wait needs every goroutine to have ended."""
import itertools

MAX_STATES = 150000

def compile_prog(E, honours_ctx=True):
    """threads of micro-ops: ('wait', ch, aware) | ('call', head, fallible, takes_ctx) | ('close', [ch])"""
    chan_of = {}
    for th in E["threads"]:
        for c in th:
            for j, r in enumerate(c["rets"]):
                if r["chan"]:
                    v = c["head"] if c["head"].startswith("F") else "%s.%d" % (c["head"], j)
                    chan_of[v] = v
    threads = []
    for th in E["threads"]:
        ops = []
        for c in th:
            seen = []
            for kind in ("W", "w"):
                for a in c["args"]:
                    if a["wait"] and a["wait"][0] == kind and a["val"] not in seen:
                        seen.append(a["val"])
                        ops.append(("wait", a["val"], kind == "W"))
            takes_ctx = any(a["val"] == "A0" for a in c["args"])
            ops.append(("call", c["head"], c["fallible"], takes_ctx))
            cl = [c["head"] if c["head"].startswith("F") else "%s.%d" % (c["head"], j) for j, r in enumerate(c["rets"]) if r["chan"]]
            if cl:
                ops.append(("close", tuple(cl)))
        threads.append(ops)
    return threads

def explore(E, fail_set, allow_cancel, honours_ctx=True):
    """returns list of findings: dict(kind='hang'|'leak', trace=[...], ...) (first of each kind)"""
    T = compile_prog(E)
    n = len(T)
    has_err = E["err"]
    # state: (pcs tuple, outcomes tuple (None|'ok'|'err'|'ctx'), egErr (bool), callerCancelled, mainReturned(None|'ok'|'err'|'ctx'), egWaited)
    init = (tuple([0] * n), tuple([None] * n), False, False, None, False)
    seen = {init: None}
    stack = [init]
    found = {}
    def closed(pcs, ch):
        for t in range(n):
            for i in range(min(pcs[t], len(T[t]))):
                op = T[t][i]
                if op[0] == "close" and ch in op[1]:
                    return True
        return False
    def steps(st):
        pcs, outs, egerr, cc, mret, egw = st
        ctxdone = cc or egerr or egw
        res = []
        for t in range(n):
            if outs[t] is not None:
                continue
            if t == 0 and mret is not None:
                continue
            if pcs[t] >= len(T[t]):
                if t == 0:
                    # eg.Wait then return
                    if n == 1 or all(outs[g] is not None for g in range(1, n)):
                        res.append(("main:egwait+return", (pcs, outs, egerr, cc, ("err" if (egerr and has_err) else "ok"), True)))
                else:
                    o = list(outs); o[t] = "ok"
                    res.append(("g%d:end" % t, (pcs, tuple(o), egerr, cc, mret, egw)))
                continue
            op = T[t][pcs[t]]
            def adv():
                p = list(pcs); p[t] += 1
                return tuple(p)
            def end_thread(kind, label):
                o = list(outs); o[t] = kind
                if t == 0:
                    return (label, (pcs, tuple(o), egerr, cc, kind, egw))
                return (label, (pcs, tuple(o), True, cc, mret, egw))      # errgroup records the error and cancels
            if op[0] == "wait":
                if closed(pcs, op[1]):
                    res.append(("t%d:recv %s" % (t, op[1]), (adv(), outs, egerr, cc, mret, egw)))
                if op[2] and ctxdone and (t != 0 or has_err):
                    res.append(end_thread("ctx", "t%d:ctx.Done at wait %s" % (t, op[1])))
            elif op[0] == "call":
                if op[2] and op[1] in fail_set:
                    res.append(end_thread("err", "t%d:%s fails" % (t, op[1])))
                else:
                    if honours_ctx and op[2] and op[3] and ctxdone:
                        res.append(end_thread("ctx", "t%d:%s returns ctx error" % (t, op[1])))
                    else:
                        res.append(("t%d:%s" % (t, op[1]), (adv(), outs, egerr, cc, mret, egw)))
            else:
                res.append(("t%d:close" % t, (adv(), outs, egerr, cc, mret, egw)))
        if allow_cancel and not cc:
            res.append(("caller cancels", (pcs, outs, egerr, True, mret, egw)))
        return res
    def trace_of(st):
        tr = []
        while seen[st] is not None:
            prev, label = seen[st]
            tr.append(label); st = prev
        return tr[::-1]
    count = 0
    while stack:
        st = stack.pop()
        count += 1
        if count > MAX_STATES:
            break
        nxt = steps(st)
        pcs, outs, egerr, cc, mret, egw = st
        thread_steps = [x for x in nxt if x[0] != "caller cancels"]
        if not thread_steps and (cc or not allow_cancel):
            if mret is None and "hang" not in found:
                found["hang"] = dict(kind="hang", trace=trace_of(st), cancelled=cc, failed=sorted(fail_set))
            elif mret is not None and any(outs[g] is None for g in range(1, n)) and "leak" not in found:
                blocked = [g for g in range(1, n) if outs[g] is None]
                found["leak"] = dict(kind="leak", trace=trace_of(st), cancelled=cc, failed=sorted(fail_set), main=mret, blocked=blocked,
                                     main_failed=(mret == "err" and outs[0] == "err"))
        for label, s2 in nxt:
            if s2 not in seen:
                seen[s2] = (st, label)
                stack.append(s2)
    return list(found.values()), count

def verdict(E, fails, cancel):
    """(main can get stuck, goroutines can stay blocked after main returned) under exactly this failure set, without the
    rendered providers' habit of honouring the context: comparable with the Lean enumeration"""
    fnd, _ = explore(E, set(fails), cancel, honours_ctx=False)
    return (any(f["kind"] == "hang" for f in fnd), any(f["kind"] == "leak" for f in fnd))

def search(E, max_fail=2):
    """all failure sets up to max_fail fallible providers, with and without a caller cancellation"""
    fallible = [c["head"] for th in E["threads"] for c in th if c["fallible"]]
    out = []
    states = 0
    for k in range(0, max_fail + 1):
        for fs in itertools.combinations(fallible, k):
            for cancel in ((False, True) if 0 in E["args"] else (False,)):
                if k == 0 and not cancel:
                    fnd, c = explore(E, set(), False)
                else:
                    fnd, c = explore(E, set(fs), cancel)
                states += c
                for f in fnd:
                    f["with_cancel"] = cancel
                    # providers that actually failed on this schedule (a provider of the failure set may never be reached)
                    f["failed"] = sorted(lab.split(":")[1].split()[0] for lab in f["trace"] if lab.endswith(" fails"))
                    out.append(f)
            if len(out) > 40:
                return out, states
    return out, states
