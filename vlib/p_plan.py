"""Checks whose tie is the planner correspondence (in-process): C01, C02, C03, C05, C09, C10."""
import collections, os
from . import common as C
from . import declgen as G
from . import progcheck as PC
from .lean import lean_obligations

TRUSTED = [
    "Lean 4.33.0 kernel; axioms allowed: propext, Classical.choice, Quot.sound (audited per theorem)",
    "the hand-written executable model KV.plan (newGraph2/build2/buildStmts2) of NewGraph/Build/buildStmts, tied to the code by the differential correspondence run (not by translation)",
    "the model's reading of the emitted program (KV.emitPlan/T1.emit: wait-call-close blocks per statement, spawn-all-first, eg.Wait before return) and of Go channel/goroutine/errgroup semantics (T1, T1F)",
    "the verif-tagged in-process driver in internal/kessoku (builds BuildDirectives with synthetic types and dumps the real NewGraph/Build result)",
]

_stream_cache = {}

def plan_stream(tier, seed, repo_dir):
    """seeded declarations through both the Lean model and the real planner; returns per-line records"""
    key = (tier, seed, repo_dir)
    if key in _stream_cache:
        return _stream_cache[key]
    n = 20000 if tier == "quick" else 120000
    rng = G.SplitMix64(seed * 1000003 + 17)
    lines, modes = [], []
    corpus = os.path.join(C.ROOT, "corpus", "plan.txt")
    if os.path.exists(corpus):
        for l in open(corpus):
            l = l.strip()
            if l and not l.startswith("#"):
                lines.append("D " + l); modes.append("corpus")
    # complete enumeration of the small shapes (every dependency pattern x Async/fallible marking): 1-3 providers in
    # the quick tier, 4 providers in the thorough tier
    nex = 0
    for k in ((1, 2, 3) if tier == "quick" else (1, 2, 3, 4)):
        for l in G.small_exhaustive(k):
            lines.append("D " + l); modes.append("exhaustive-%d" % k); nex += 1
    for i in range(n):
        m = "malformed" if rng.chance(0.3) else "valid"
        lines.append("D " + G.gen_decl(rng, m)); modes.append(m)
    model = C.lean_driver(lines, timeout=3600)
    rc, impl, out = C.go_driver(repo_dir, "kessoku", lines, timeout=3600)
    if len(impl) < len(lines):
        impl = impl + ["NO-ANSWER (driver stopped: %s)" % out.strip()[-200:]] * (len(lines) - len(impl))
    res = dict(lines=lines, modes=modes, model=model, impl=impl, exhaustive_small=nex)
    _stream_cache[key] = res
    return res

def stream_stats(S):
    st = collections.Counter()
    threads = collections.Counter()
    waits = 0
    for m in S["impl"]:
        k = m.split()[0] + (":" + m.split()[1] if m.startswith("ERR") and len(m.split()) > 1 else "")
        st[k] += 1
        if m.startswith("OK"):
            threads[m.count(" | ") + (0 if "go=[]" in m else 1) + 1] += 1
            if "w," in m or "w)" in m:
                waits += 1
    return {"verdicts": dict(st), "threads_histogram": dict(sorted(threads.items())), "programs_with_cross_thread_waits": waits}

_W = {}

def _check_chunk(rng_):
    a, b = rng_
    S, checks, nontrivial, needs_decl = _W["S"], _W["checks"], _W["nontrivial"], _W["needs_decl"]
    distinct, nviol, best = set(), 0, None
    for i in range(a, b):
        line, impl = S["lines"][i], S["impl"][i]
        if not impl.startswith("OK "):
            continue
        try:
            P = PC.parse_dump(impl)
        except ValueError as e:
            return ((str(e), line), distinct, nviol, best)
        decl = G.parse_decl(line[2:]) if needs_decl else None
        bad = checks(P, decl)
        if nontrivial(P):
            distinct.add(impl)
        if bad:
            nviol += 1
            if best is None or len(line) < len(best[0]):
                best = (line, impl, bad, i)
    return (None, distinct, nviol, best)

def run_plan_property(prop, tier, seed, checks, nontrivial, describe, known_filter=None, needs_decl=False, extra_obligations=None, e2e_checks=None):
    R = C.Result(prop, tier, seed)
    repo_dir = C.ensure_repo_build()
    lean_obligations(R, prop, repo_dir)
    S = plan_stream(tier, seed, repo_dir)
    diffs = [i for i, (a, b) in enumerate(zip(S["model"], S["impl"])) if a != b]
    R.oblige("correspondence: KV.plan = real NewGraph/Build on %d seeded declarations" % len(S["lines"]), not diffs,
             "%d differing lines; first: %s" % (len(diffs), [(S["lines"][i][:200], S["model"][i][:200], S["impl"][i][:200]) for i in diffs[:1]]))
    # proved-sound structural conditions, evaluated on the *implementation's* plan of every sampled declaration
    distinct = set()
    nviol = 0
    best = None
    # (the conditions are evaluated in parallel worker processes: forked, so that the closures are shared)
    _W.update(S=S, checks=checks, nontrivial=nontrivial, needs_decl=needs_decl)
    n = len(S["lines"])
    chunks = [(a, min(a + 2000, n)) for a in range(0, n, 2000)]
    if n > 4000:
        import multiprocessing as mp
        with mp.get_context("fork").Pool(min(14, len(chunks))) as pool:
            parts = pool.map(_check_chunk, chunks)
    else:
        parts = [_check_chunk(c) for c in chunks]
    for err, dist, nv, bst in parts:
        if err:
            R.violation("unparsable implementation dump: %s" % err[0], {"kind": "correspondence-broken", "line": err[1]})
            break
        distinct.update(dist)
        nviol += nv
        if bst is not None and (best is None or len(bst[0]) < len(best[0])):
            best = bst
    if best:
        line, impl, bad, i = best
        R.violation("%s: %s  [declaration #%d: %s]" % (describe, bad[0], i, line[2:]),
                    {"kind": "input", "failing_input": line[2:], "index": i, "seed": seed, "implementation_plan": impl,
                     "model_plan": S["model"][i], "violations": bad[:10], "cases_failing": nviol,
                     "reproduce": "echo '%s' > ops; VERIF_OPS=ops VERIF_OUT=out go test -tags verif -run TestVerifDriver ./internal/kessoku (in /repo); the dumped plan violates the condition above" % line})
    if extra_obligations:
        extra_obligations(R, S, repo_dir)
    # end-to-end tie: the same property-level conditions on what the real CLI emits through the real parser
    from . import p_e2e
    try:
        ES, ediffs = p_e2e.emission_obligation(R, tier, seed)
        if ediffs and not R.violations:
            for i, l, a, b in ediffs:
                if not b.startswith("OK"):
                    continue
                try:
                    EP = PC.parse_edump(b)
                except ValueError:
                    continue
                ebad = e2e_checks(EP, G.parse_decl(l)) if e2e_checks else []
                if ebad:
                    R.violation("%s (end to end): %s  [declaration: %s]" % (describe, ebad[0], l),
                                {"kind": "input", "failing_input": l, "emitted": b, "model": a, "violations": ebad[:5],
                                 "reproduce": "render the declaration (vlib/render.py) and run `kessoku` on it; the emitted function has the structure shown"})
                    break
        if prop == "C09" and not R.violations:
            p_e2e.pinpoint_refusal(R, ES, seed, prop)
        # fault-free runs of the compiled injectors (plain and under random provider latencies): order of provider entries,
        # returned value, termination, goroutines joined
        if prop in ("C01", "C02", "C03", "C05") and not R.violations:
            given = p_e2e.run_runtime(ES, tier, seed, fault_free_only=True)
            nrun, rstats = p_e2e.judge_runtime(R, ES, tier, seed, {prop}, given=given)
            R.coverage["fault_free_runs_of_compiled_injectors"] = nrun
            if prop == "C05":
                R.coverage["overlap_runs_all_input_free_async_providers_held_inside_together"] = (rstats or {}).get("overlap", 0)
            if prop == "C01" and given[0] is not None and not R.violations:
                # the same fault-free runs under the race detector (the statement's last clause)
                rc_r, out_r = ES["E"].build_runner(race=True)
                if rc_r != 0:
                    R.violation("the runner does not build with -race: %s" % out_r[-400:], {"kind": "correspondence-broken", "correspondence": "race build of the rendered package", "detail": out_r[-1500:]})
                else:
                    sp = given[0] if tier != "quick" else given[0][:140]
                    clean = [{k: v for k, v in x.items() if k in ("Name", "Fail", "DelayIn", "CancelOn", "Hold", "Timeout")} for x in sp]
                    res_r, err_r = ES["E"].run_specs(clean, race=True, timeout=1200)
                    R.coverage["race_detector_runs"] = len(res_r)
                    if "DATA RACE" in (err_r or ""):
                        m = __import__("re").search(r"e2e/p\.(Init\d+)", err_r)
                        inj = m.group(1) if m else None
                        k = int(inj[4:]) if inj else None
                        R.violation("the race detector reports a data race in the generated injector %s  [declaration: %s]" % (inj, ES["E"].decls.get(k)),
                                    {"kind": "input", "failing_input": ES["E"].decls.get(k), "injector": inj, "race_report": err_r[:3000],
                                     "reproduce": "render the declaration (vlib/render.py), run kessoku, build cmd/run with -race and call the injector"})
        if ediffs and not R.violations:
            if True:
                i, l, a, b = ediffs[0]
                R.violation("the emitted code differs from the model's emission on %d declarations; the property's conditions hold on every emitted function" % len(ediffs),
                            {"kind": "correspondence-broken", "correspondence": "KV.planDumpE vs harness/extract of *_band.go", "case": l, "model": a, "impl": b})
    finally:
        p_e2e.close_streams()
    # hand-written probes: inputs found by reading the code / by the defect hunt (recorded findings and repaired defects)
    from . import probes
    probes.run(R, prop, repo_dir)
    # multi-package end-to-end stream (types spread over same-named packages, imports synthesised by the generator)
    if prop in ("C02", "C09", "C10"):
        from . import xpkg
        try:
            xpkg.judge(R, xpkg.xpkg_stream(tier, seed), {prop})
        finally:
            xpkg.close_streams()
    if diffs and not R.violations:
        i = diffs[0]
        R.violation("model and implementation plans differ on %d declarations but every implementation plan satisfies the property's structural conditions" % len(diffs),
                    {"kind": "correspondence-broken", "correspondence": "KV.plan vs NewGraph/Build (stream dag+malformed)", "case": S["lines"][i],
                     "model": S["model"][i], "impl": S["impl"][i]})
    st = stream_stats(S)
    R.samples = [{"declaration": S["lines"][i][2:], "model": S["model"][i], "implementation": S["impl"][i]} for i in range(0, min(len(S["lines"]), 2000), 400)]
    R.coverage.update({"evaluations": len(S["lines"]), "distinct_nontrivial": len(distinct), "programs": len(S["lines"]),
                       "disagreements_checked": len(diffs), "input_distribution": st, "exhaustively_enumerated_small_declarations": S.get("exhaustive_small", 0),
                       "rule": "every declaration with 1-3 (quick) / 1-4 (thorough) single-result function providers over one argument type (all dependency patterns x Async/fallible markings, enumerated completely), then seeded random declarations (profiles dag/zero/ctx/wide/multi/shared/huge; 30%% with a planted back edge / duplicate supplier / orphan Struct / unsupplied result) through the Lean model and the real planner; distinct = distinct canonical plans; non-trivial = %s" % nontrivial.__doc__})
    return R

# ------------------------------------------------------------------------------------------------ C01

def check_c01(tier, seed):
    def nt(P):
        "at least two threads and one cross-thread wait"
        return len(P["threads"]) > 1 and any(a["wait"] for th in P["threads"] for c in th for a in c["args"])
    R = run_plan_property("C01", tier, seed, lambda P, d: PC.check_dataflow(P), nt,
                          "a provider can be entered before / concurrently with the write of one of its inputs")
    R.assumptions = ["data race = two enabled conflicting accesses under interleaving semantics (DRF-SC of the Go memory model is trusted)",
                     "runtime replay of schedules on the compiled injector is done by the C02/C03 end-to-end checks, not here"]
    return R.finish("cd lean && lake build KV.Props.C01 && lake env lean <audit of Props/C01 theorems>", TRUSTED)

def check_c03(tier, seed):
    def nt(P):
        "at least two threads"
        return len(P["threads"]) > 1
    R = run_plan_property("C03", tier, seed, lambda P, d: PC.check_deadlock(P) + [b for b in PC.check_dataflow(P) if "no emitted statement produces" in b], nt,
                          "the injector can block forever on a fault-free run")
    return R.finish("cd lean && lake build KV.Props.C03 && lake env lean <audit of Props/C03 theorems>", TRUSTED)

def check_c05(tier, seed):
    def nt(P):
        "at least two input-free Async providers"
        return sum(1 for th in P["threads"] for c in th if c["isasync"] and not c["args"] and c["kind"] == "P") >= 2
    R = run_plan_property("C05", tier, seed, lambda P, d: PC.check_zero_async(P), nt,
                          "input-free Async providers cannot all overlap", e2e_checks=e2e_zero_async)
    return R.finish("cd lean && lake build KV.Props.C05 && lake env lean <audit of Props/C05 theorems>", TRUSTED)

def check_c02(tier, seed):
    def nt(P):
        "at least three provider calls"
        return sum(len(th) for th in P["threads"]) >= 3
    R = run_plan_property("C02", tier, seed, lambda P, d: PC.check_values(P, d[0], d[1]) + PC.check_dataflow(P), nt,
                          "the planned wiring differs from sequential evaluation of the declaration", needs_decl=True)
    R.assumptions = ["values are Herbrand terms: providers are uninterpreted functions, type identity is the type key",
                     "Set regrouping / declaration order / go/packages decoding are covered by the end-to-end stream, not by this in-process stream"]
    return R.finish("cd lean && lake build KV.Props.C02 && lake env lean <audit of Props/C02 theorems>", TRUSTED)

def e2e_signature(EP, d):
    return PC.check_signature(dict(args=EP["args"], err=EP["err"]), d[0], d[1])

def e2e_zero_async(EP, d):
    ret, provs = d
    bad = []
    def is_async(c):
        import re as _re
        m = _re.match(r"P(\d+)$", c["head"])
        return bool(m and provs[int(m.group(1))]['a'])
    # calls of the injector's own flow that are emitted before a goroutine is started run to completion before the
    # providers of that goroutine can be entered
    import re as _re2
    for m in _re2.finditer(r"goroutine-(\d+)-spawned-after-(\d+)-main-calls", EP.get("odd", "") or ""):
        g, n = int(m.group(1)), int(m.group(2))
        early = [c for c in EP["threads"][0] if not c["head"].startswith("F")][:n]
        if g < len(EP["threads"]):
            late = [c for c in EP["threads"][g] if is_async(c) and not c["args"]]
            for c in early:
                if is_async(c) and not c["args"] and late:
                    bad.append("input-free Async provider %s runs on the injector's own flow before the goroutine of input-free Async provider %s is started" % (c["tok"], late[0]["tok"]))
    for t, th in enumerate(EP["threads"]):
        for i, c in enumerate(th):
            if is_async(c) and not c["args"]:
                for pc in th[:i]:
                    if is_async(pc):
                        bad.append("input-free Async provider %s is emitted after Async provider %s in the same thread %d" % (c["tok"], pc["tok"], t))
                    elif pc["args"]:
                        bad.append("input-free Async provider %s is emitted after %s, which has inputs" % (c["tok"], pc["tok"]))
    return bad

def check_c10(tier, seed):
    def nt(P):
        "at least one parameter"
        return len(P["args"]) >= 1
    R = run_plan_property("C10", tier, seed, lambda P, d: PC.check_signature(P, d[0], d[1]), nt,
                          "the injector signature differs from the one the declaration determines", needs_decl=True, e2e_checks=e2e_signature)
    return R.finish("cd lean && lake build KV.Props.C10 && lake env lean <audit of Props/C10 theorems>", TRUSTED)

def check_c09(tier, seed):
    def nt(P):
        "accepted plan (refusals are counted separately)"
        return True
    def extra(R, S, repo_dir):
        # verdict of the implementation against the reference classification written from the statement
        wrong_accept, wrong_refuse, known = [], [], 0
        kinds = collections.Counter()
        for i, (line, impl) in enumerate(zip(S["lines"], S["impl"])):
            ret, provs = G.parse_decl(line[2:])
            defects, supplied = PC.classify(ret, provs)
            kinds[",".join(sorted(defects)) or "none"] += 1
            if defects:
                if impl.startswith("OK"):
                    wrong_accept.append((len(line), i, sorted(defects)))
                elif impl.startswith("ERR"):
                    k = impl.split()[1]
                    if k not in ("dup", "orphan", "cycle"):
                        wrong_refuse.append((len(line), i, "refused with diagnostic kind '%s' although the defect is %s" % (k, sorted(defects))))
            else:
                if not impl.startswith("OK"):
                    if not supplied and impl == "ERR noInitial":
                        known += 1
                    else:
                        wrong_refuse.append((len(line), i, "valid declaration refused: %s" % impl))
        R.coverage["reference_classification"] = dict(kinds)
        if known:
            R.finding("identity-injector-refused", "identity injector (requested type has no supplier) is refused with 'no initial pools found' (%d sampled cases)" % known,
                      {"kind": "input", "failing_input": "1 ; ", "expected": "accepted", "observed": "ERR noInitial"})
        for lst, what in ((wrong_accept, "accepted (exit 0, file written) although the declaration is unsatisfiable"), (wrong_refuse, "wrongly refused")):
            if lst:
                _, i, d = min(lst)
                R.violation("%s: %s  [declaration #%d: %s] implementation says: %s" % (what, d, i, S["lines"][i][2:], S["impl"][i]),
                            {"kind": "input", "failing_input": S["lines"][i][2:], "index": i, "implementation": S["impl"][i],
                             "model": S["model"][i], "cases": len(lst)})
    def e2e(R, S, repo_dir):
        """end to end: exit code, diagnostic, output file untouched (fresh and with a previous output present)"""
        from . import render as RD
        extra(R, S, repo_dir)
        cli = os.path.join(repo_dir, "kessoku")
        want = {"dup": 3, "cycle": 3, "orphan": 2, "none": 2} if tier == "quick" else {"dup": 12, "cycle": 12, "orphan": 8, "none": 8}
        picked = []
        for i, (line, impl) in enumerate(zip(S["lines"], S["impl"])):
            ret, provs = G.parse_decl(line[2:])
            defects, supplied = PC.classify(ret, provs)
            k = "none" if not defects else sorted(defects)[0]
            if not defects and not supplied:
                continue
            if want.get(k, 0) > 0 and len(line) < 400:
                want[k] -= 1
                picked.append((i, line[2:], k))
        M = RD.Module("c09_%d" % seed)
        runs = 0
        try:
            for n, (i, line, kind) in enumerate(picked):
                d = os.path.join(M.root, "c%d" % n)
                os.makedirs(d)
                src, mk, _ = RD.render_decl(n, line)
                body = ["package c%d" % n, "", "import (", '\t"context"', '\t"e2e/rt"', '\t"github.com/mazrean/kessoku"', ")", "", "var _ context.Context", "var _ = rt.Enter", ""] + src
                open(os.path.join(d, "k.go"), "w").write("\n".join(body) + "\n")
                band = os.path.join(d, "k_band.go")
                ret, provs = G.parse_decl(line)
                dt = PC.defect_types(ret, provs)
                for prior in ("fresh", "previous-output"):
                    if os.path.exists(band):
                        os.remove(band)
                    prev = "// Code generated by kessoku. DO NOT EDIT.\n\npackage c%d\n\nfunc Previous() {}\n" % n
                    if prior == "previous-output":
                        open(band, "w").write(prev)
                    rc, out = C.run([cli, "c%d/k.go" % n], cwd=M.root, extra_env=M.env(), timeout=300); runs += 1
                    now = open(band).read() if os.path.exists(band) else None
                    rp = {"kind": "input", "failing_input": line, "prior_output": prior, "defect": kind, "exit": rc, "stderr": out[-600:],
                          "reproduce": "render the declaration (vlib/render.render_decl), run `kessoku k.go`%s" % (" with an existing k_band.go" if prior != "fresh" else "")}
                    if kind == "none":
                        nfunc = len(re.findall(r"^func ", now or "", re.M))
                        if rc != 0 or now is None or nfunc != 1:
                            R.violation("valid declaration: exit %d, %s functions emitted (want exit 0 and exactly one)  [%s]" % (rc, nfunc if now else "no file,", line), rp)
                        continue
                    if rc == 0:
                        R.violation("declaration with a %s defect is accepted by the CLI (exit 0)  [%s]" % (kind, line), rp)
                        continue
                    names = ["D%dT%d" % (n, t) for t in sorted(dt[kind])]
                    if names and not any(nm in out for nm in names):
                        R.violation("the %s diagnostic names none of the types involved %s: %s  [%s]" % (kind, names, out.strip().splitlines()[-1][:200], line), rp)
                    if prior == "fresh" and now is not None:
                        R.violation("refused declaration (%s) but an output file was created  [%s]" % (kind, line), rp)
                    if prior == "previous-output" and now != prev:
                        R.violation("refused declaration (%s) but the existing output file was %s  [%s]" % (kind, "deleted" if now is None else "modified", line), rp)
            # ---- declarations whose defect lies in how the Struct directives are *written* (the line format of the plan
            # stream has one form per struct): the same directive reached through two Sets, pointer and value form of one
            # struct, a struct type derived from another (`type B A`), a value form nothing supplies
            hdr = "package %s\n\nimport \"github.com/mazrean/kessoku\"\n\n"
            types_ = ("type F0 string\ntype F1 int\n\ntype Cfg struct {\n\tA F0\n\tB F1\n}\n\ntype Derived Cfg\n\nfunc LoadCfg() *Cfg { return &Cfg{} }\nfunc DefaultCfg() Cfg { return Cfg{} }\n"
                      "func LoadDerived() *Derived { return &Derived{} }\n\ntype App struct{}\n\nfunc NewApp(a F0, b F1) *App { return &App{} }\n\n")
            written = [
                ("single-pointer-form", "accept", [], "var _ = kessoku.Inject[*App](\"Init\", kessoku.Set(kessoku.Provide(LoadCfg), kessoku.Struct[*Cfg]()), kessoku.Provide(NewApp))"),
                ("single-value-form", "accept", [], "var _ = kessoku.Inject[*App](\"Init\", kessoku.Provide(DefaultCfg), kessoku.Struct[Cfg](), kessoku.Provide(NewApp))"),
                ("set-variable-declared-inside-a-function", "accept", [],
                 "func setup() {\n\tvar local = kessoku.Set(kessoku.Provide(LoadCfg), kessoku.Struct[*Cfg]())\n\t_ = kessoku.Inject[*App](\"Init\", local, kessoku.Provide(NewApp))\n}"),
                ("set-variable-inside-a-function-with-duplicate", "dup", ["Cfg"],
                 "func setup() {\n\tvar local = kessoku.Set(kessoku.Provide(LoadCfg), kessoku.Provide(LoadCfg2))\n\t_ = kessoku.Inject[*App](\"Init\", local, kessoku.Struct[*Cfg](), kessoku.Provide(NewApp))\n}\n\nfunc LoadCfg2() *Cfg { return &Cfg{} }"),
                ("same-directive-through-two-sets", "dup", ["F0", "F1"],
                 "var SetA = kessoku.Set(kessoku.Provide(LoadCfg), kessoku.Struct[*Cfg]())\nvar SetB = kessoku.Set(kessoku.Struct[*Cfg]())\n\nvar _ = kessoku.Inject[*App](\"Init\", SetA, SetB, kessoku.Provide(NewApp))"),
                ("pointer-and-value-form", "dup", ["F0", "F1"],
                 "var SetA = kessoku.Set(kessoku.Provide(LoadCfg), kessoku.Struct[*Cfg]())\nvar SetB = kessoku.Set(kessoku.Provide(DefaultCfg), kessoku.Struct[Cfg]())\n\nvar _ = kessoku.Inject[*App](\"Init\", SetA, SetB, kessoku.Provide(NewApp))"),
                ("derived-struct-type", "dup", ["F0", "F1"],
                 "var _ = kessoku.Inject[*App](\"Init\", kessoku.Provide(LoadCfg), kessoku.Struct[*Cfg](), kessoku.Provide(LoadDerived), kessoku.Struct[*Derived](), kessoku.Provide(NewApp))"),
                ("value-form-nothing-supplies", "orphan", ["Cfg"],
                 "var _ = kessoku.Inject[*App](\"Init\", kessoku.Provide(LoadCfg), kessoku.Struct[*Cfg](), kessoku.Struct[Cfg](), kessoku.Provide(NewApp))"),
            ]
            for n, (label, kind, names, decl) in enumerate(written):
                pk = "w%d" % n
                d = os.path.join(M.root, pk)
                os.makedirs(d)
                src = hdr % pk + types_ + decl + "\n"
                open(os.path.join(d, "k.go"), "w").write(src)
                band = os.path.join(d, "k_band.go")
                prev = "// Code generated by kessoku. DO NOT EDIT.\n\npackage %s\n\nfunc Previous() {}\n" % pk
                for prior in ("fresh", "previous-output"):
                    if os.path.exists(band):
                        os.remove(band)
                    if prior == "previous-output":
                        open(band, "w").write(prev)
                    rc, out = C.run([cli, "%s/k.go" % pk], cwd=M.root, extra_env=M.env(), timeout=300); runs += 1
                    now = open(band).read() if os.path.exists(band) else None
                    rp = {"kind": "input", "failing_input": src, "case": label, "prior_output": prior, "exit": rc, "stderr": out[-600:],
                          "reproduce": "save failing_input as k.go in a package with github.com/mazrean/kessoku available, run `kessoku k.go`"}
                    if kind == "accept":
                        nfunc = len(re.findall(r"^func ", now or "", re.M))
                        if rc != 0 or now is None or nfunc != 1:
                            R.violation("valid declaration (%s): exit %d, %s functions emitted (want exit 0 and exactly one)" % (label, rc, nfunc if now else "no file,"), rp)
                        elif not re.search(r"^func Init\(\) \*App \{", now, re.M):
                            # every type the injector needs is supplied by the declaration: no parameters
                            R.violation("valid declaration (%s): the injector is %s, the declaration supplies everything (want func Init() *App)" % (
                                label, (re.findall(r"^func .*$", now, re.M) or ["?"])[0]), rp)
                        continue
                    if rc == 0:
                        R.violation("declaration with a %s defect (%s) is accepted by the CLI (exit 0)" % (kind, label), rp)
                        continue
                    if not any(nm in out for nm in names):
                        R.violation("the %s diagnostic (%s) names none of the types involved %s: %s" % (kind, label, names, out.strip().splitlines()[-1][:200]), rp)
                    if prior == "fresh" and now is not None:
                        R.violation("refused declaration (%s) but an output file was created" % label, rp)
                    if prior == "previous-output" and now != prev:
                        R.violation("refused declaration (%s) but the existing output file was %s" % (label, "deleted" if now is None else "modified"), rp)
            R.coverage["written_form_cases"] = [w[0] for w in written]
        finally:
            M.close()
        R.coverage["cli_runs_on_planted_defects"] = runs
    import re
    R = run_plan_property("C09", tier, seed, lambda P, d: [], nt, "", extra_obligations=e2e)
    R.assumptions = ["'exits non-zero and leaves the output file alone' is tied by the regenerated call order of processFile (Props/C09) and by the end-to-end stream"]
    return R.finish("cd lean && lake build KV.Props.C09 && lake env lean <audit of Props/C09 theorems>", TRUSTED)
