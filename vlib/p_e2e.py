"""Checks whose tie is the end-to-end pipeline (render -> real CLI -> emitted Go -> extract / vet / run):
C04 (compilable, hygienic output), C06/C07/C08 (failures, cancellation, leaked goroutines), C11 (determinism),
and the emission correspondence shared with C01-C03."""
import collections, hashlib, json, os, re
from . import common as C
from . import declgen as G
from . import progcheck as PC
from . import e2e as X
from .lean import lean_obligations, prepare

TRUSTED = [
    "Lean 4.33.0 kernel; axioms allowed: propext, Classical.choice, Quot.sound (audited per theorem)",
    "the hand-written models KV.plan / KV.emittedF (planner and emitted program with wait flavours, fallible exits, eg.Wait form), tied to the code by differential correspondence: in-process on the planner, and end-to-end on the text of the emitted *_band.go recovered by harness/extract",
    "T1F: the model's reading of Go channels, select, goroutines, errgroup.WithContext / Wait and context cancellation (modelled; validated by running compiled injectors under failure/cancellation/delay specs)",
    "render (abstract declaration -> Go package with instrumented providers) and the reflective runner",
]

_cache = {}

def e2e_stream(tier, seed):
    """generate, extract, vet, build the runner once per (tier, seed, tree)"""
    repo_dir = C.ensure_repo_build()
    key = (tier, seed, repo_dir)
    if key in _cache:
        return _cache[key]
    tools = C.ensure_tools()
    prepare(repo_dir)
    n = 160 if tier == "quick" else 1200
    rng = G.SplitMix64(seed * 104729 + 11)
    lines = []
    corpus = os.path.join(C.ROOT, "corpus", "e2e.txt")
    if os.path.exists(corpus):
        lines += [l.strip() for l in open(corpus) if l.strip() and not l.startswith("#")]
    tries = 0
    while len(lines) < n and tries < 20 * n:
        tries += 1
        lines.append(G.gen_decl(rng, "valid"))
    model = C.lean_driver(["E " + l for l in lines])
    ok = [(i, l) for i, (l, m) in enumerate(zip(lines, model)) if m.startswith("OK")]
    E = X.E2E("s%d" % seed, repo_dir, tools)
    res = dict(E=E, lines=lines, model=model, ok=ok)
    res["gen"] = E.generate(ok, rng=G.SplitMix64(seed + 99), perfile=20, per_invocation=4)
    res["extract"] = E.extract()
    res["vet"] = E.vet()
    _cache[key] = res
    return res

def need_runner(S):
    if "runner" not in S:
        S["runner"] = S["E"].build_runner() if S["vet"][0] == 0 else (1, "not built: package does not type-check:\n" + S["vet"][1][-600:])
    return S["runner"]

def close_streams():
    for v in _cache.values():
        v["E"].close()
    _cache.clear()

def emission_diffs(S):
    diffs = []
    for i, l in S["ok"]:
        a = S["model"][i]; b = S["extract"].get("Init%d" % i, "MISSING")
        if a != b:
            diffs.append((i, l, a, b))
    return diffs

def vet_errors(out):
    errs = []
    for l in out.splitlines():
        m = re.match(r"^(?:vet: )?(p/\S+?):(\d+):(\d+): (.*)$", l.strip())
        if m:
            errs.append(dict(file=m.group(1), line=int(m.group(2)), msg=m.group(4)))
    return errs

def classify_vet(msg):
    if "no new variables on left side of :=" in msg:
        return "field-define-under-predeclared"
    if "cannot use nil as" in msg and "in return statement" in msg:
        return "return-nil-non-nillable"
    if "declared and not used" in msg:
        return "unused-variable"
    if "redeclared" in msg:
        return "redeclared"
    if "undefined" in msg:
        return "undefined"
    if "imported and not used" in msg:
        return "unused-import"
    return "other"

def find_injector_at(E, file, line):
    """name of the generated function containing a line of a band file"""
    try:
        src = open(os.path.join(E.M.root, file)).read().split("\n")
    except OSError:
        return None
    for i in range(min(line, len(src)) - 1, -1, -1):
        m = re.match(r"^func (\w+)\(", src[i])
        if m:
            return m.group(1)
    return None

def compile_errors(E):
    """all type errors of package p (no limit on the number reported)"""
    E.M.write_registry()
    rc, out = C.run(["go", "build", "-gcflags=-e", "-o", os.devnull, "./p/"], cwd=E.M.root, extra_env=E.M.env(), timeout=1200)
    errs = []
    for l in out.splitlines():
        m = re.match(r"^(p/\S+?):(\d+):(\d+): (.*)$", l.strip())
        if m:
            errs.append(dict(file=m.group(1), line=int(m.group(2)), msg=m.group(4)))
    return rc, errs, out

def check_c04(tier, seed):
    R = C.Result("C04", tier, seed)
    repo_dir = C.ensure_repo_build()
    lean_obligations(R, "C04", repo_dir)
    S = e2e_stream(tier, seed)
    E = S["E"]
    bad_gen = [(rc, out, fs) for rc, out, fs in S["gen"] if rc != 0]
    for rc, out, fs in bad_gen[:1]:
        R.violation("the generator refuses declarations the model accepts: %s" % out.strip()[-300:],
                    {"kind": "correspondence-broken", "correspondence": "KV.plan accepts / CLI exit code", "files": fs, "output": out[-2000:]})
    rc, errs, raw = compile_errors(E)
    byclass = collections.defaultdict(list)
    for e in errs:
        if not e["file"].endswith("_band.go"):
            continue
        e["injector"] = find_injector_at(E, e["file"], e["line"])
        byclass[classify_vet(e["msg"])].append(e)
    if rc != 0 and not errs:
        R.violation("the package with the generated files does not build: %s" % raw[-400:], {"kind": "input", "failing_input": "see output", "output": raw[-3000:]})
    for cls, es in sorted(byclass.items()):
        e = es[0]
        k = int(e["injector"][4:]) if e["injector"] and e["injector"].startswith("Init") else None
        decl = E.decls.get(k)
        R.finding("compile:" + cls,
                  "generation succeeded but the package does not compile (%s): %s:%d: %s  [%d generated functions affected; first: %s from declaration: %s]" % (
                      cls, e["file"], e["line"], e["msg"], len(set(x["injector"] for x in es)), e["injector"], decl),
                  {"kind": "input", "failing_input": decl, "generated_function": e["injector"], "error": e["msg"], "class": cls,
                   "affected": len(es), "reproduce": "render the declaration (vlib/render.py), run `kessoku` on it, `go build ./p/`"})
    diffs = emission_diffs(S)
    R.oblige("correspondence: text of the emitted functions = model emission (KV.planDumpE) on %d declarations" % len(S["ok"]), not diffs,
             "%d differ; first: %s" % (len(diffs), [d[1:] for d in diffs[:1]]))
    if diffs and not R.violations:
        i, l, a, b = diffs[0]
        R.violation("emitted code differs from the model's emission on %d declarations, and the package compiles" % len(diffs),
                    {"kind": "correspondence-broken", "correspondence": "KV.planDumpE vs harness/extract of *_band.go", "case": l, "model": a, "impl": b})
    nfun = len(S["extract"])
    R.samples = [{"declaration": l, "emitted": S["extract"].get("Init%d" % i)} for i, l in S["ok"][:4]]
    R.coverage.update({"evaluations": len(S["ok"]), "distinct_nontrivial": len(set(S["extract"].values())), "programs": nfun,
                       "disagreements_checked": len(diffs), "compile_errors_by_class": {k: len(v) for k, v in byclass.items()},
                       "rule": "seeded declarations accepted by the model, rendered with Set nesting / Value / Bind / Struct / multi-value providers, 20 injectors per file and 4 files per CLI invocation; every generated file type-checked by the real compiler (go build -gcflags=-e); distinct = distinct emitted structures"})
    R.assumptions = ["'compiles' is the verdict of the real Go type checker on the rendered package; Lean contains no model of go/types"]
    R.level = "proof"
    return R.finish("cd lean && lake build KV.Props.C04 && lake env lean <audit of Props/C04 theorems>", TRUSTED)
