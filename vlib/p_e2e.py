"""Checks whose tie is the end-to-end pipeline (render -> real CLI -> emitted Go -> extract / vet / run):
C04 (compilable, hygienic output), C06/C07/C08 (failures, cancellation, leaked goroutines), C11 (determinism),
and the emission correspondence shared with C01-C03."""
import collections, hashlib, json, os, re
from . import common as C
from . import declgen as G
from . import progcheck as PC
from . import e2e as X
from .lean import lean_obligations, prepare

TRUSTED = [
    "Lean 4.33.0 kernel; axioms allowed: propext, Classical.choice, Quot.sound (audited per theorem)",
    "the hand-written models KV.plan / KV.emittedF (planner and emitted program with wait flavours, fallible exits, eg.Wait form), tied to the code by differential correspondence: in-process on the planner, and end-to-end on the text of the emitted *_band.go recovered by harness/extract",
    "T1F: the model's reading of Go channels, select, goroutines, errgroup.WithContext / Wait and context cancellation (modelled; validated by running compiled injectors under failure/cancellation/delay specs)",
    "render (abstract declaration -> Go package with instrumented providers) and the reflective runner",
]

_cache = {}

def e2e_stream(tier, seed):
    """generate, extract, vet, build the runner once per (tier, seed, tree)"""
    repo_dir = C.ensure_repo_build()
    key = (tier, seed, repo_dir)
    if key in _cache:
        return _cache[key]
    tools = C.ensure_tools()
    prepare(repo_dir)
    n = 160 if tier == "quick" else 400
    rng = G.SplitMix64(seed * 104729 + 11)
    lines = []
    corpus = os.path.join(C.ROOT, "corpus", "e2e.txt")
    if os.path.exists(corpus):
        lines += [l.strip() for l in open(corpus) if l.strip() and not l.startswith("#")]
    # half of the budget: the generator's own distribution; the other half: picked from a 12x larger pool so that
    # structurally rare shapes (measured on the model's emission) are present in every run
    while len(lines) < n // 2:
        lines.append(G.gen_decl(rng, "valid"))
    pool = [G.gen_decl(rng, "valid") for _ in range(12 * n)]
    pool = [l for l in pool if len(l) < 900]
    pm = C.lean_driver(["E " + l for l in pool])
    feats = [emission_features(m) | decl_features(l) for l, m in zip(pool, pm)]
    counts = collections.Counter(f for fs in feats for f in fs)
    taken = set()
    quota = max(2, (n - len(lines)) // max(1, len(counts)))
    for f, _ in sorted(counts.items(), key=lambda kv: kv[1]):          # rarest feature first
        got = 0
        for j, fs in enumerate(feats):
            if got >= quota or len(lines) >= n:
                break
            if f in fs and j not in taken:
                taken.add(j); lines.append(pool[j]); got += 1
    j = 0
    while len(lines) < n and j < len(pool):
        if j not in taken:
            lines.append(pool[j])
        j += 1
    model = C.lean_driver(["E " + l for l in lines])
    ok = [(i, l) for i, (l, m) in enumerate(zip(lines, model)) if m.startswith("OK")]
    E = X.E2E("s%d" % seed, repo_dir, tools)
    res = dict(E=E, lines=lines, model=model, ok=ok,
               features=dict(collections.Counter(f for i, l in ok for f in (emission_features(model[i]) | decl_features(l)))))
    res["gen"] = E.generate(ok, rng=G.SplitMix64(seed + 99), perfile=20, per_invocation=4)
    res["extract"] = E.extract()
    _cache[key] = res
    return res

def decl_features(line):
    """declaration-level features: the minimal cases on which one lost flag flips the signature or the result"""
    ret, provs = G.parse_decl(line)
    sup = PC.suppliers(ret, provs)
    need, args = PC.needed(ret, provs, sup)
    np = [provs[k[1]] for k in need if k[0] == 'P']
    fs = set()
    asy = [p for p in np if p['a']]
    fal = [p for p in np if p['e']]
    bound = lambda p: any(len(g) > 1 for g in p['groups'])
    if len(asy) == 1:
        fs.add("single-needed-async" + ("-is-bound" if bound(asy[0]) else ""))
    if asy and all(bound(p) for p in asy):
        fs.add("all-needed-async-are-bound")
    if len(fal) == 1:
        fs.add("single-needed-fallible" + ("-is-bound" if bound(fal[0]) else ""))
    if any(p['a'] for i, p in enumerate(provs) if p['kind'] == 0 and ('P', i) not in need) and not asy:
        fs.add("only-unneeded-providers-are-async")
    if any(p['e'] for i, p in enumerate(provs) if p['kind'] == 0 and ('P', i) not in need) and not fal:
        fs.add("only-unneeded-providers-are-fallible")
    if 0 in args and not asy:
        fs.add("ctx-parameter-without-async")
    if len(set(args)) >= 4:
        fs.add("parameters>=4")
    return fs

def emission_features(m):
    """structural features of a model emission line, used to steer the selection of end-to-end cases"""
    if not m.startswith("OK"):
        return set()
    E = PC.parse_edump(m)
    ths = E["threads"]
    fs = set()
    if len(ths) < 2:
        return fs
    fs.add("multi")
    if len(ths) >= 4:
        fs.add("threads>=4")
    if len(ths) >= 10:
        fs.add("threads>=10")
        if any(a.get("wait") and a["val"].split(".")[0] in set(c["head"] for c in ths[0]) for t in ths[1:9] for c in t for a in c["args"]):
            fs.add("threads>=10-and-early-goroutines-await-main")
    w = lambda th: set(a["val"] for c in th for a in c["args"] if a.get("wait"))
    own = lambda th: set(c["head"] for c in th)
    mw = w(ths[0])
    if any(mw & w(t) for t in ths[1:]):
        fs.add("main-and-goroutine-await-same-value" + ("+err" if E["err"] else ""))
    if mw & w(ths[-1]) and E["err"]:
        fs.add("main-and-last-goroutine-await-same-value+err")
    for t in ths[1:]:
        for v in w(t):
            prod = v.split(".")[0]
            if any(prod in own(t2) for t2 in ths[1:] if t2 is not t):
                fs.add("goroutine-awaits-goroutine")
            if prod in own(ths[0]):
                fs.add("goroutine-awaits-main")
    # a waiter whose producer can itself give up (it awaits something, or its provider takes the context / can fail)
    def can_give_up(t, upto_head):
        for c in t:
            # (the rendered providers honour the context only when they are fallible and are handed it)
            if any(a.get("wait") for a in c["args"]) or (c["fallible"] and any(a["val"] == "A0" for a in c["args"])):
                return True
            if c["head"] == upto_head:
                break
        return False
    for v in mw:
        prod = v.split(".")[0]
        for t in ths[1:]:
            if prod in own(t) and can_give_up(t, prod):
                fs.add("main-awaits-goroutine-that-can-give-up")
                if any(v in w(t2) for t2 in ths[1:]):
                    fs.add("main-and-goroutine-await-value-of-goroutine-that-can-give-up" + ("+err" if E["err"] else ""))
    kc = PC.k_conditions(E)
    for k, v in kc.items():
        if v:
            fs.add(k)
    if any(c["fallible"] for c in ths[0]) and any(c["fallible"] for t in ths[1:] for c in t):
        fs.add("fallible-in-main-and-goroutine")
    if any(a["val"] == "A0" for t in ths for c in t for a in c["args"]):
        fs.add("provider-takes-ctx")
    if any(c["head"].startswith("F") for t in ths for c in t):
        fs.add("field-read")
    for t in ths:
        for c in t:
            vals = [a["val"] for a in c["args"] if a.get("wait")]
            if len(vals) != len(set(vals)):
                fs.add("same-awaited-value-twice-in-one-call")
    if not E["err"]:
        fs.add("no-error-result")
    return fs

def need_vet(S):
    if "vet" not in S:
        S["vet"] = S["E"].vet()
    return S["vet"]

def excise_broken(S):
    """when some generated functions do not compile, cut them out of the *_band.go files so that the others can still be
    run (the compile errors themselves are C04's business and are reported there with the declaration)"""
    E = S["E"]
    rc, errs, raw = compile_errors(E)
    broken = set()
    for e in errs:
        if e["file"].endswith("_band.go"):
            nm = find_injector_at(E, e["file"], e["line"])
            if nm:
                broken.add((e["file"], nm))
    if not broken:
        return set()
    for f in set(f for f, _ in broken):
        path = os.path.join(E.M.root, f)
        txt = open(path).read()
        for _, nm in [b for b in broken if b[0] == f]:
            txt = re.sub(r"(?ms)^func %s\(.*?^}\n" % re.escape(nm), "", txt)
        open(path, "w").write(txt)
    names = set(nm for _, nm in broken)
    E.M.names = [n for n in E.M.names if n not in names]
    # imports that only the removed functions used would now be unused: let goimports-like pruning be done by the compiler
    # errors of a second pass (unused imports are removed textually)
    for _ in range(3):
        rc2, errs2, raw2 = compile_errors(E)
        unused = [e for e in errs2 if "imported and not used" in e["msg"] and e["file"].endswith("_band.go")]
        if not unused:
            break
        for e in unused:
            path = os.path.join(E.M.root, e["file"])
            lines = open(path).read().split("\n")
            if 0 < e["line"] <= len(lines):
                lines[e["line"] - 1] = ""
            open(path, "w").write("\n".join(lines))
    return names

def need_runner(S):
    if "runner" not in S:
        # only functions that were really generated can be registered and run
        S["E"].M.names = [n for n in S["E"].M.names if n in S["extract"]]
    need_vet(S)
    if "runner" not in S:
        if S["vet"][0] != 0:
            S["excised"] = excise_broken(S)
            if S["excised"]:
                S["vet"] = S["E"].vet()
        S["runner"] = S["E"].build_runner() if S["vet"][0] == 0 else (1, "not built: package does not type-check:\n" + S["vet"][1][-600:])
    return S["runner"]

def close_streams():
    for v in _cache.values():
        v["E"].close()
    _cache.clear()

def emission_diffs(S):
    diffs = []
    for i, l in S["ok"]:
        a = S["model"][i]; b = S["extract"].get("Init%d" % i, "MISSING")
        if a != b:
            diffs.append((i, l, a, b))
    return diffs

def vet_errors(out):
    errs = []
    for l in out.splitlines():
        m = re.match(r"^(?:vet: )?(p/\S+?):(\d+):(\d+): (.*)$", l.strip())
        if m:
            errs.append(dict(file=m.group(1), line=int(m.group(2)), msg=m.group(4)))
    return errs

def classify_vet(msg):
    if "no new variables on left side of :=" in msg:
        return "field-define-under-predeclared"
    if "cannot use nil as" in msg and "in return statement" in msg:
        return "return-nil-non-nillable"
    if "declared and not used" in msg:
        return "unused-variable"
    if "redeclared" in msg:
        return "redeclared"
    if "undefined" in msg:
        return "undefined"
    if "imported and not used" in msg:
        return "unused-import"
    return "other"

def find_injector_at(E, file, line):
    """name of the generated function containing a line of a band file"""
    try:
        src = open(os.path.join(E.M.root, file)).read().split("\n")
    except OSError:
        return None
    for i in range(min(line, len(src)) - 1, -1, -1):
        m = re.match(r"^func (\w+)\(", src[i])
        if m:
            return m.group(1)
    return None

def compile_errors(E):
    """all type errors of package p (no limit on the number reported)"""
    E.M.write_registry()
    rc, out = C.run(["go", "build", "-gcflags=-e", "-o", os.devnull, "./p/"], cwd=E.M.root, extra_env=E.M.env(), timeout=1200)
    errs = []
    for l in out.splitlines():
        m = re.match(r"^(p/\S+?):(\d+):(\d+): (.*)$", l.strip())
        if m:
            errs.append(dict(file=m.group(1), line=int(m.group(2)), msg=m.group(4)))
    return rc, errs, out

def check_c04(tier, seed):
    R = C.Result("C04", tier, seed)
    repo_dir = C.ensure_repo_build()
    lean_obligations(R, "C04", repo_dir)
    S = e2e_stream(tier, seed)
    E = S["E"]
    bad_gen = [(rc, out, fs) for rc, out, fs in S["gen"] if rc != 0]
    for rc, out, fs in bad_gen[:1]:
        R.violation("the generator refuses declarations the model accepts: %s" % out.strip()[-300:],
                    {"kind": "correspondence-broken", "correspondence": "KV.plan accepts / CLI exit code", "files": fs, "output": out[-2000:]})
    rc, errs, raw = compile_errors(E)
    byclass = collections.defaultdict(list)
    for e in errs:
        if not e["file"].endswith("_band.go"):
            continue
        e["injector"] = find_injector_at(E, e["file"], e["line"])
        byclass[classify_vet(e["msg"])].append(e)
    if rc != 0 and not errs:
        R.violation("the package with the generated files does not build: %s" % raw[-400:], {"kind": "input", "failing_input": "see output", "output": raw[-3000:]})
    for cls, es in sorted(byclass.items()):
        e = es[0]
        k = int(e["injector"][4:]) if e["injector"] and e["injector"].startswith("Init") else None
        decl = E.decls.get(k)
        R.finding("compile:" + cls,
                  "generation succeeded but the package does not compile (%s): %s:%d: %s  [%d generated functions affected; first: %s from declaration: %s]" % (
                      cls, e["file"], e["line"], e["msg"], len(set(x["injector"] for x in es)), e["injector"], decl),
                  {"kind": "input", "failing_input": decl, "generated_function": e["injector"], "error": e["msg"], "class": cls,
                   "affected": len(es), "reproduce": "render the declaration (vlib/render.py), run `kessoku` on it, `go build ./p/`"})
    # ---- type universe and adversarial names: one source file per case, generated and compiled separately
    from . import typestream as TS
    from . import render as RD
    TM = RD.Module("c04ty%d" % seed)
    ty_cases = 0
    ty_bad = []
    try:
        cli = os.path.join(repo_dir, "kessoku")
        items = [("ty", lbl, fn) for lbl, fn, n in TS.render_types(TM.root)]
        items += [("nm", lbl, fn) for lbl, fn, picked in TS.render_names(TM.root, G.SplitMix64(seed * 13 + 1), nfiles=8 if tier == "quick" else 60)]
        refused = []
        for pkgd, lbl, fn in items:
            ty_cases += 1
            rc2, out2 = C.run([cli, os.path.relpath(fn, TM.root)], cwd=TM.root, extra_env=TM.env(), timeout=300)
            if rc2 != 0:
                refused.append((lbl, out2.strip().splitlines()[-1][:200] if out2.strip() else ""))
        R.coverage["type_universe_refused_by_generator"] = refused
        # hand-written invocations: several packages with one name in one invocation, files generated by other tools,
        # user types named like the emitter's hard-coded locals
        for lbl, pkgs, files in TS.render_special(TM.root, G.SplitMix64(seed * 29 + 11), 6 if tier == "quick" else 60):
            ty_cases += 1
            rc2, out2 = C.run([cli] + files, cwd=TM.root, extra_env=TM.env(), timeout=300)
            if rc2 != 0:
                R.violation("the generator refuses the hand-written case '%s' (which is a valid input): %s" % (lbl, out2.strip().splitlines()[-1][:300] if out2.strip() else ""),
                            {"kind": "input", "failing_input": {f: open(os.path.join(TM.root, f)).read() for f in files}, "invocation": "kessoku " + " ".join(files), "output": out2[-1500:]})
                continue
            rc3, out3 = C.run(["go", "vet"] + pkgs, cwd=TM.root, extra_env=TM.env(), timeout=600)
            if rc3 != 0:
                msgs = [l.strip() for l in out3.splitlines() if re.match(r"^\S+\.go:\d+", l.strip())]
                srcs = {f: open(os.path.join(TM.root, f)).read() for f in files}
                R.finding("special:" + lbl, "generation succeeded but the output does not compile for case '%s': %s" % (lbl, (msgs or [out3[-200:]])[0]),
                          {"kind": "input", "failing_input": srcs, "invocation": "kessoku " + " ".join(files), "case": lbl, "errors": msgs[:5]})
        for pkgd in ("ty", "nm"):
            rc3, out3 = C.run(["go", "build", "-gcflags=-e", "-o", os.devnull, "./%s/" % pkgd], cwd=TM.root, extra_env=TM.env(), timeout=1200)
            per = collections.defaultdict(list)
            for l in out3.splitlines():
                m = re.match(r"^(%s/\S+?)_band\.go:(\d+):(\d+): (.*)$" % pkgd, l.strip())
                if m:
                    per[m.group(1)].append(m.group(4))
            for f, msgs in sorted(per.items()):
                lbl = [l for p2, l, fn in items if fn.endswith(os.path.basename(f) + ".go")]
                lbl = lbl[0] if lbl else f
                src = open(os.path.join(TM.root, f + ".go")).read()
                ty_bad.append(lbl)
                R.finding("type:" + lbl, "generation succeeded but the output does not compile for case '%s': %s" % (lbl, msgs[0]),
                          {"kind": "input", "failing_input": src, "case": lbl, "errors": msgs[:5],
                           "reproduce": "save failing_input as a file of a package with github.com/mazrean/kessoku available, run kessoku on it, go build"})
            if rc3 != 0 and not per:
                R.violation("package %s does not build: %s" % (pkgd, out3[-400:]), {"kind": "input", "failing_input": "type universe package", "output": out3[-2000:]})
    finally:
        TM.close()
    R.coverage["type_and_name_cases"] = ty_cases
    from . import probes
    probes.run(R, "C04", repo_dir)
    # createASTTypeExpr on constructed types: model (KV/GenConv.lean) vs implementation, and a read-back judgement
    from . import typeconv_stream as TCS
    ng = 4000 if tier == "quick" else 60000
    grng = G.SplitMix64(seed * 15485863 + 11)
    gl = [TCS.gen_line_g(grng) for _ in range(ng)]
    glines = [l for l, _ in gl]
    gmodel = C.lean_driver(glines)
    rc_g, gimpl, out_g = C.go_driver(repo_dir, "kessoku", glines)
    if len(gimpl) < len(glines):
        gimpl += ["NO-ANSWER"] * (len(glines) - len(gimpl))
    gdiffs = [i for i, (a, b) in enumerate(zip(gmodel, gimpl)) if a != b]
    R.oblige("correspondence: GConv.render (KV/GenConv.lean) = createASTTypeExpr + import table on %d constructed types" % ng, not gdiffs,
             "%d differ; first: %s" % (len(gdiffs), [(glines[i], gmodel[i], gimpl[i]) for i in gdiffs[:1]]))
    src_c = open(os.path.join(C.REPO, "internal", "kessoku", "const.go")).read()
    reserved = set(re.findall(r'"([a-zA-Z0-9_]+)"', src_c))
    gbad = [(len(glines[i]), i, w) for i, w in ((i, TCS.judge(gl[i][1], gimpl[i], reserved)) for i in range(ng)) if w]
    if gbad:
        _, i, w = min(gbad)
        R.violation("a type is not spelled as the type it denotes: %s  [%s -> %s]" % (w, glines[i], gimpl[i]),
                    {"kind": "input", "failing_input": glines[i], "observed": gimpl[i], "model": gmodel[i], "cases_failing": len(gbad),
                     "reproduce": "echo '%s' > ops; VERIF_OPS=ops VERIF_OUT=out go test -tags verif -run TestVerifDriver ./internal/kessoku (in /repo)" % glines[i]})
    R.coverage["type_expressions"] = {"types": ng, "with_renamed_import": sum(1 for a in gimpl if re.search(r"[a-z]\d+\.N", a)),
                                      "with_type_arguments": sum(1 for a in gimpl if re.search(r"N\d+\[", a)), "function_types": sum(1 for a in gimpl if "func(" in a),
                                      "struct_literals": sum(1 for a in gimpl if "struct{" in a), "interface_literals_with_methods": sum(1 for a in gimpl if "interface{M" in a),
                                      "with_registered_names": sum(1 for _, m in gl if m["pre"])}
    from . import xpkg
    try:
        xpkg.judge(R, xpkg.xpkg_stream(tier, seed), {"C04"})
    finally:
        xpkg.close_streams()
    diffs = emission_diffs(S)
    R.oblige("correspondence: text of the emitted functions = model emission (KV.planDumpE) on %d declarations" % len(S["ok"]), not diffs,
             "%d differ; first: %s" % (len(diffs), [d[1:] for d in diffs[:1]]))
    if gdiffs and not R.violations:
        i = gdiffs[0]
        R.violation("the createASTTypeExpr model and the implementation differ on %d types; every implementation answer denotes the type it was made from" % len(gdiffs),
                    {"kind": "correspondence-broken", "correspondence": "GConv.render vs createASTTypeExpr", "case": glines[i], "model": gmodel[i], "impl": gimpl[i]})
    if diffs and not R.violations:
        i, l, a, b = diffs[0]
        R.violation("emitted code differs from the model's emission on %d declarations, and the package compiles" % len(diffs),
                    {"kind": "correspondence-broken", "correspondence": "KV.planDumpE vs harness/extract of *_band.go", "case": l, "model": a, "impl": b})
    nfun = len(S["extract"])
    R.samples = [{"declaration": l, "emitted": S["extract"].get("Init%d" % i)} for i, l in S["ok"][:4]]
    R.coverage.update({"evaluations": len(S["ok"]) + ty_cases, "distinct_nontrivial": len(set(S["extract"].values())) + ty_cases, "programs": nfun,
                       "disagreements_checked": len(diffs), "compile_errors_by_class": {k: len(v) for k, v in byclass.items()},
                       "rule": "seeded declarations accepted by the model, rendered with Set nesting / Value / Bind / Struct / multi-value providers, 20 injectors per file and 4 files per CLI invocation; every generated file type-checked by the real compiler (go build -gcflags=-e); plus one source file per entry of the type universe (qualified, aliased imports, pointer, slice, array, map, channel, function incl. variadic, struct and interface literals, generic instances: each as injector argument, predeclared variable and result) and adversarial-name packages; distinct = distinct emitted structures + type/name cases"})
    R.assumptions = ["'compiles' is the verdict of the real Go type checker on the rendered package; Lean contains no model of go/types"]
    R.level = "proof"
    return R.finish("cd lean && lake build KV.Props.C04 && lake env lean <audit of Props/C04 theorems>", TRUSTED)

# ------------------------------------------------------------------------------------------------ runtime

def dependents(ret, provs):
    """provider index -> set of provider indices that (transitively) depend on it, through the supplier map"""
    sup = PC.suppliers(ret, provs)
    direct = collections.defaultdict(set)      # producer key -> consumers
    def key(s):
        return ('P', s[1]) if s[0] == 'P' else s
    for i, p in enumerate(provs):
        if p['kind'] == 0:
            for t in p['req']:
                if t in sup:
                    direct[key(sup[t])].add(('P', i))
        else:
            for fname, ft in p['fields']:
                if p['sty'] in sup:
                    direct[key(sup[p['sty']])].add(('F', i, fname))
    out = {}
    for i, p in enumerate(provs):
        if p['kind'] != 0:
            continue
        seen, todo = set(), [('P', i)]
        while todo:
            k = todo.pop()
            for c in direct.get(k, ()):
                if c not in seen:
                    seen.add(c); todo.append(c)
        out[i] = set(c[1] for c in seen if c[0] == 'P')
    return out

def build_specs(S, tier, rng, fault_free_only=False):
    """run specs per accepted declaration: fault-free (with and without delays), every needed fallible provider
    failing alone, cancellation before the call and at provider events"""
    specs = []
    for k, line in S["ok"]:
        if "Init%d" % k in S.get("excised", ()) or "Init%d" % k not in S["extract"]:
            continue
        E = PC.parse_edump(S["model"][k])
        ret, provs = G.parse_decl(line)
        sup = PC.suppliers(ret, provs)
        need, _ = PC.needed(ret, provs, sup)
        needed_p = sorted(x[1] for x in need if x[0] == 'P')
        vids = S["E"].M.value_ids.get(k, set())
        kc = PC.k_conditions(E)
        name = "Init%d" % k
        pid = lambda i: "D%dP%d" % (k, i)
        base = dict(Name=name, k=k)
        specs.append(dict(base, kind="plain"))
        if len(E["threads"]) > 1:
            d = {pid(i): rng.randint(0, 3) for i in needed_p if i not in vids}
            specs.append(dict(base, kind="delays", DelayIn=d))
        # C05 executed: every needed input-free Async provider stays inside until the next one (cyclically) has been
        # entered; all of them must be inside at the same time for any of them to leave before the hold gives up
        zero_async = [i for i in needed_p if provs[i]['kind'] == 0 and provs[i]['a'] and not provs[i]['req'] and i not in vids]
        if len(zero_async) >= 2:
            ring = {pid(a): "enter:" + pid(zero_async[(j + 1) % len(zero_async)]) for j, a in enumerate(zero_async)}
            specs.append(dict(base, kind="overlap", Hold=ring, ring=zero_async, Timeout=6000))
        if fault_free_only:
            continue
        fallible = [i for i in needed_p if provs[i]['e'] and i not in vids]
        for f in fallible[: (2 if tier == "quick" else 6)]:
            specs.append(dict(base, kind="fail", fail=f, Fail={pid(f): True}, Timeout=1500))
            if len(E["threads"]) > 1:
                # let the failure happen while the others are slow: exercises the cancellation paths
                d = {pid(i): 5 for i in needed_p if i != f and i not in vids}
                specs.append(dict(base, kind="fail", fail=f, Fail={pid(f): True}, DelayIn=d, Timeout=1500))
        # double faults: one failing provider in a goroutine and one on the injector's own goroutine (both orders)
        if len(E["threads"]) > 1:
            main_heads = set(c["head"] for c in E["threads"][0])
            f_main = [i for i in fallible if "P%d" % i in main_heads]
            f_go = [i for i in fallible if "P%d" % i not in main_heads]
            pairs = [(a, b) for a in f_go for b in f_main][: (1 if tier == "quick" else 4)]
            for a, b in pairs:
                for slow in (a, b):
                    specs.append(dict(base, kind="fail2", fail=[a, b], Fail={pid(a): True, pid(b): True}, DelayIn={pid(slow): 5}, Timeout=1500))
        if 0 in E["args"]:
            to = 500 if kc["K7"] else 1500
            specs.append(dict(base, kind="cancel", CancelOn="before", Timeout=to))
            evs = [i for i in needed_p if i not in vids]
            for i in evs[: (2 if tier == "quick" else 5)]:
                specs.append(dict(base, kind="cancel", CancelOn="enter:" + pid(i), DelayIn={pid(j): 3 for j in evs}, Timeout=to))
    return specs

def run_runtime(S, tier, seed, fault_free_only=False):
    key = "runtime_ff" if fault_free_only else "runtime"
    if key in S:
        return S[key]
    if fault_free_only and "runtime" in S and S["runtime"][0] is not None:
        sp, rs, er = S["runtime"]
        keep = [(a, b) for a, b in zip(sp, rs) if a["kind"] in ("plain", "delays", "overlap")]
        S[key] = ([a for a, b in keep], [b for a, b in keep], er)
        return S[key]
    rc, out = need_runner(S)
    if rc != 0:
        S[key] = (None, None, "the runner does not build: " + out[-800:])
        return S[key]
    rng = G.SplitMix64(seed * 31 + 5)
    specs = build_specs(S, tier, rng, fault_free_only)
    clean = [{k: v for k, v in s.items() if k in ("Name", "Fail", "DelayIn", "CancelOn", "Hold", "Timeout")} for s in specs]
    results, stderr = S["E"].run_specs(clean, timeout=1200)
    S[key] = (specs, results, stderr)
    return S[key]

def deep_specs(S, ks, rng):
    """intensive run specs for a few declarations (used when the emitted code differs from the model's emission):
    every fallible provider alone (fast / others slow / itself slow), every pair and triple of fallible providers,
    cancellation before the call and at every provider entry and exit, under three latency patterns"""
    specs = []
    for k in ks:
        line = S["E"].decls[k]
        E = PC.parse_edump(S["model"][k])
        ret, provs = G.parse_decl(line)
        sup = PC.suppliers(ret, provs)
        need, _ = PC.needed(ret, provs, sup)
        needed_p = sorted(x[1] for x in need if x[0] == 'P')
        vids = S["E"].M.value_ids.get(k, set())
        kc = PC.k_conditions(E)
        pid = lambda i: "D%dP%d" % (k, i)
        base = dict(Name="Init%d" % k, k=k)
        live = [i for i in needed_p if i not in vids]
        fallible = [i for i in live if provs[i]['e']]
        main_heads = set(c["head"] for c in E["threads"][0])
        pats = [{}, {pid(i): 4 for i in live}, {pid(i): rng.randint(0, 6) for i in live}]
        specs.append(dict(base, kind="plain"))
        specs.append(dict(base, kind="delays", DelayIn=pats[2]))
        for f in fallible[:6]:
            for d in ({}, {pid(i): 5 for i in live if i != f}, {pid(f): 8}):
                specs.append(dict(base, kind="fail", fail=f, Fail={pid(f): True}, DelayIn=d, Timeout=1200))
        import itertools
        for a, b in list(itertools.combinations(fallible, 2))[:10]:
            # the judgement wants (goroutine one, main one) when there is such a split; otherwise any order
            if "P%d" % a in main_heads and "P%d" % b not in main_heads:
                a, b = b, a
            for slow in (a, b, None):
                d = {pid(slow): 6} if slow is not None else {}
                specs.append(dict(base, kind="fail2", fail=[a, b], Fail={pid(a): True, pid(b): True}, DelayIn=d, Timeout=1200))
        for tr in list(itertools.combinations(fallible, 3))[:4]:
            go_first = sorted(tr, key=lambda i: "P%d" % i in main_heads)
            specs.append(dict(base, kind="fail2", fail=[go_first[0], go_first[-1]], Fail={pid(i): True for i in tr}, Timeout=1200))
        if 0 in E["args"]:
            to = 400 if kc["K7"] else 1200
            for d in pats:
                specs.append(dict(base, kind="cancel", CancelOn="before", DelayIn=d, Timeout=to))
            for i in live[:8]:
                for ev in ("enter", "exit"):
                    for d in pats[1:]:
                        specs.append(dict(base, kind="cancel", CancelOn="%s:%s" % (ev, pid(i)), DelayIn=d, Timeout=to))
    return specs

def judge_runtime(R, S, tier, seed, props, given=None):
    """property-level judgement of every run; props: subset of {C01, C02, C03, C05, C06, C07, C08}"""
    specs, results, err = given if given is not None else run_runtime(S, tier, seed)
    if specs is None:
        R.violation("runtime runs impossible: " + err, {"kind": "correspondence-broken", "correspondence": "rendered package + generated injectors compile", "detail": err})
        return 0, 0
    stats = collections.Counter()
    # a run that did not return within its time limit is repeated once, alone, with a four times longer limit before it
    # counts as a hang (a loaded machine must not turn into a verdict)
    results = list(results)
    for idx, (sp, rs) in enumerate(zip(specs, results)):
        if not rs.get("Returned") and not rs.get("Panic") and S["E"].runner:
            if sp["kind"] == "cancel" and PC.k_conditions(PC.parse_edump(S["model"][sp["k"]]))["K7"]:
                continue        # the recorded finding K7: these do hang
            clean = {k2: v for k2, v in sp.items() if k2 in ("Name", "Fail", "DelayIn", "CancelOn", "Hold")}
            clean["Timeout"] = 4 * int(sp.get("Timeout") or 3000)
            again, _ = S["E"].run_specs([clean], timeout=120)
            if again and again[0].get("Returned"):
                results[idx] = again[0]
                stats["slow-run-repeated"] += 1
    if given is None:
        S["runtime"] = (specs, results, err)
    for sp, rs in zip(specs, results):
        k = sp["k"]; line = S["E"].decls[k]
        ret, provs = G.parse_decl(line)
        E = PC.parse_edump(S["model"][k])
        kc = PC.k_conditions(E)
        vids = S["E"].M.value_ids.get(k, set())
        pid = lambda i: "D%dP%d" % (k, i)
        ev = rs.get("Events") or []
        entered = collections.Counter(e["ID"] for e in ev if e["Kind"] == "enter")
        failed = [e["ID"] for e in ev if e["Kind"] == "fail"]
        stats[sp["kind"]] += 1
        # what the semantics allows for the model's emission under this failure set / cancellation (None: not enumerated);
        # a recorded finding is recognised only where the model itself predicts that outcome for this declaration
        allowed = S.get("allowed", {}).get(id(sp))
        def model_allows(pred, coarse):
            if allowed is None:
                return coarse
            return any(pred(t) for t in allowed)
        def viol(prop, fid, text, extra=None):
            if prop not in props:
                return
            rp = {"kind": "input", "failing_input": line, "injector": sp["Name"], "spec": {a: b for a, b in sp.items() if a not in ("k",)},
                  "observed": {a: rs.get(a) for a in ("Returned", "Term", "IsZero", "Err", "Leaked", "LeakedAt", "Panic")},
                  "events": ev[:60], "model_emission": S["model"][k],
                  "reproduce": "render the declaration (vlib/render.py), run kessoku, build cmd/run, feed the spec as one JSON line"}
            if extra:
                rp.update(extra)
            if fid:
                R.finding(fid, text, rp)
            else:
                R.violation(text + "  [declaration: %s]" % line, rp)
        if rs.get("Panic"):
            viol(props and sorted(props)[0], None, "%s %s: injector panicked: %s" % (sp["Name"], sp["kind"], rs["Panic"]))
            continue
        want = X.herbrand(ret, provs)
        sup = PC.suppliers(ret, provs)
        need, _ = PC.needed(ret, provs, sup)
        needed_p = set(x[1] for x in need if x[0] == 'P')
        if sp["kind"] in ("plain", "delays"):
            if not rs["Returned"]:
                viol("C03", None, "%s: fault-free, uncancelled call does not return (deadlock)" % sp["Name"])
                continue
            if rs.get("Err"):
                viol("C02", None, "%s: fault-free call returned an error: %s" % (sp["Name"], rs["Err"]))
            if rs.get("Term") != want:
                viol("C02", None, "%s: result differs from sequential evaluation: got %s, want %s" % (sp["Name"], rs.get("Term"), want))
            for i, p in enumerate(provs):
                if p['kind'] != 0 or i in vids:
                    continue
                n = entered.get(pid(i), 0)
                if (i in needed_p and n != 1) or (i not in needed_p and n != 0):
                    viol("C02", None, "%s: provider %s invoked %d times (needed: %s)" % (sp["Name"], pid(i), n, i in needed_p))
            if rs.get("Leaked", 0) > 0:
                viol("C03", None, "%s: %d goroutine(s) of the injector still running after a successful return" % (sp["Name"], rs["Leaked"]))
            # C01 at run time: every provider entered after all its producers exited
            exited_at = {e["ID"]: e["Seq"] for e in ev if e["Kind"] == "exit"}
            for e in ev:
                if e["Kind"] != "enter":
                    continue
                m = re.match(r"D\d+P(\d+)$", e["ID"])
                i = int(m.group(1))
                for t in provs[i]['req']:
                    s = sup.get(t)
                    while s is not None and s[0] == 'F':      # a field value is produced by the struct's producer
                        s = sup.get(provs[s[1]]['sty'])
                    prod = s[1] if s is not None else None
                    if prod is not None and prod not in vids and provs[prod]['kind'] == 0:
                        if exited_at.get(pid(prod), 10**9) > e["Seq"]:
                            viol("C01", None, "%s: %s entered before its producer %s returned" % (sp["Name"], e["ID"], pid(prod)))
        elif sp["kind"] == "overlap":
            seq = {(e["Kind"], e["ID"]): e["Seq"] for e in ev}
            ring = sp["ring"]
            if not rs["Returned"]:
                viol("C03", None, "%s: fault-free call with overlapping input-free Async providers does not return" % sp["Name"])
            for j, a in enumerate(ring):
                b = ring[(j + 1) % len(ring)]
                ea, xb = seq.get(("enter", pid(b))), seq.get(("exit", pid(a)))
                if ea is None or (xb is not None and xb < ea):
                    viol("C05", None, "%s: input-free Async provider %s was %s although %s stayed inside waiting for it: the two cannot be in flight together" % (
                        sp["Name"], pid(b), "never entered" if ea is None else "entered only after %s had returned" % pid(a), pid(a)))
                    break
        elif sp["kind"] == "fail":
            f = sp["fail"]
            invoked_fail = pid(f) in failed
            if not rs["Returned"]:
                viol("C06", None, "%s: provider %s fails and the injector does not return" % (sp["Name"], pid(f)))
            elif invoked_fail:
                if not rs.get("Err"):
                    viol("C06", None, "%s: invoked provider %s returned an error but the injector returned no error (result %s)" % (sp["Name"], pid(f), rs.get("Term")))
                elif rs["Err"] not in ["prov:" + x for x in failed]:
                    # (any provider that really failed will do: a provider that honours its context fails too once the
                    # errgroup has cancelled it)
                    fid = "K6-main-ctx-wait-substitutes-error" if (rs["Err"] == "ctx:canceled" and model_allows(lambda t: t.startswith("err:ctx"), kc["K6"])) else None
                    viol("C06", fid, "%s: provider %s failed but the injector returned %s instead of that failure%s" % (
                        sp["Name"], pid(f), rs["Err"], " (main-thread ctx-aware wait observed the errgroup's cancellation)" if fid else ""))
            deps = dependents(ret, provs).get(f, set())
            if invoked_fail:
                for d in deps:
                    if entered.get(pid(d), 0) > 0:
                        viol("C06", None, "%s: %s was invoked although it depends on the failed provider %s" % (sp["Name"], pid(d), pid(f)))
            if rs["Returned"] and rs.get("Leaked", 0) > 0:
                main_fail = any(c["head"] == "P%d" % f for c in E["threads"][0])
                fid = "K8-main-error-return-leaks-goroutine" if (main_fail and model_allows(lambda t: t.endswith("+leak"), kc["K8"])) else None
                viol("C08", fid, "%s: after the injector returned (%s failed) %d goroutine(s) remain blocked: %s" % (
                    sp["Name"], pid(f), rs["Leaked"], [a[:60] for a in (rs.get("LeakedAt") or [])][:2]))
        elif sp["kind"] == "fail2":
            fa, fb = sp["fail"]            # fa runs in a goroutine, fb on the injector's own goroutine
            if not rs["Returned"]:
                viol("C06", None, "%s: providers %s and %s fail and the injector does not return" % (sp["Name"], pid(fa), pid(fb)))
            elif failed:
                if not rs.get("Err"):
                    viol("C06", None, "%s: providers %s failed but the injector returned no error" % (sp["Name"], failed))
                elif rs["Err"] not in ["prov:" + x for x in failed]:
                    fid = "K6-main-ctx-wait-substitutes-error" if (rs["Err"] == "ctx:canceled" and model_allows(lambda t: t.startswith("err:ctx"), kc["K6"])) else None
                    viol("C06", fid, "%s: providers %s failed but the injector returned %s" % (sp["Name"], failed, rs["Err"]))
            if rs["Returned"] and rs.get("Leaked", 0) > 0:
                # a failure recorded by the errgroup cancels the derived context, which releases every ctx-aware wait:
                # with a goroutine provider's failure on record nothing may stay blocked, whatever the main thread did
                if pid(fa) in failed:
                    viol("C08", None, "%s: %s failed in a goroutine and %s on the injector's goroutine; after the injector returned %d goroutine(s) remain blocked: %s" % (
                        sp["Name"], pid(fa), pid(fb), rs["Leaked"], [a[:60] for a in (rs.get("LeakedAt") or [])][:2]))
                else:
                    fid = "K8-main-error-return-leaks-goroutine" if (pid(fb) in failed and model_allows(lambda t: t.endswith("+leak"), kc["K8"])) else None
                    viol("C08", fid, "%s: after the injector returned (%s failed) %d goroutine(s) remain blocked" % (sp["Name"], failed, rs["Leaked"]))
        elif sp["kind"] == "cancel":
            if not rs["Returned"]:
                fid = "K7-no-error-result-hangs-on-cancel" if (kc["K7"] and model_allows(lambda t: t == "stuck", True)) else None
                viol("C07", fid, "%s: context cancelled (%s) and the injector never returns" % (sp["Name"], sp["CancelOn"]))
                continue
            if not rs.get("Err"):
                if rs.get("Term") != want:
                    fid = "K7-no-error-result-zero-value-on-cancel" if (kc["K7"] or not E["err"]) and len(E["threads"]) > 1 else None
                    viol("C07", fid, "%s: context cancelled (%s): returned %s with no error (a complete result would be %s)" % (
                        sp["Name"], sp["CancelOn"], rs.get("Term") or "<zero>", want))
            elif not E["err"]:
                viol("C07", None, "%s: error returned by an injector without error result?" % sp["Name"])
            if rs.get("Leaked", 0) > 0:
                viol("C08", None, "%s: after returning on cancellation %d goroutine(s) remain blocked" % (sp["Name"], rs["Leaked"]))
    if err and "DATA RACE" in err:
        viol = None
        if "C01" in props:
            R.violation("the race detector reported a data race in a generated injector", {"kind": "input", "failing_input": "see output", "output": err[-3000:]})
    return len(specs), stats


def model_search(R, S, prop, diffs, seed):
    """failing-input search in the interleaving semantics of the emitted programs that differ from the model's emission"""
    from . import explore as XP
    total = 0
    for i, l, a, b in sorted(diffs, key=lambda d: len(d[1]))[:40]:
        if not b.startswith("OK"):
            continue
        try:
            EI = PC.parse_edump(b)
        except ValueError:
            continue
        kc = PC.k_conditions(EI)
        fnd, states = XP.search(EI, max_fail=2)
        total += states
        main_heads = set(c["head"] for c in EI["threads"][0])
        for f in fnd:
            what = None
            if f["kind"] == "hang" and f["cancelled"] and not f["failed"]:
                if prop == "C07" and EI["err"]:
                    what = "the caller cancels and the injector never returns"
            elif f["kind"] == "hang" and not f["cancelled"] and f["failed"]:
                if prop == "C06":
                    what = "providers %s fail and the injector never returns" % f["failed"]
            elif f["kind"] == "leak" and prop == "C08":
                only_main = all(h in main_heads for h in f["failed"])
                if f["cancelled"] or not (f.get("main_failed") and only_main and kc["K8"]):
                    what = "after the injector returned (failed: %s) goroutine(s) %s stay blocked forever" % (f["failed"], f["blocked"])
            if not what:
                continue
            # try to reproduce on the compiled injector
            pid = lambda h: "D%dP%s" % (i, h[1:])
            fail = {pid(h): True for h in f["failed"]}
            calls = [lab.split(":")[1].split()[0] for lab in f["trace"] if lab.startswith("t") and ":P" in lab and "fails" not in lab and "ctx" not in lab]
            ci = f["trace"].index("caller cancels") if "caller cancels" in f["trace"] else None
            cands = [None]
            if ci is not None:
                before = [lab.split(":")[1].split()[0] for lab in f["trace"][:ci] if lab.startswith("t") and ":P" in lab and "fails" not in lab and "ctx" not in lab]
                cands = ["before"] + ["%s:%s" % (ev, pid(h)) for h in before[-3:] for ev in ("exit", "enter")]
            live = sorted(set(pid(c["head"]) for th in EI["threads"] for c in th if c["head"].startswith("P")))
            pats = [{}, {p: 4 for p in live}, {p: (7 * k) % 9 for k, p in enumerate(live)}]
            specs = [dict(Name="Init%d" % i, Fail=fail, DelayIn=d, Timeout=900, **({"CancelOn": c} if c else {})) for c in cands for d in pats]
            # faithful replay at provider granularity: the calls made before the cancellation happen in the order of the
            # schedule (each is held inside until its predecessor has returned), the cancellation fires when the last of
            # them returns, every other provider is slow
            if ci is not None:
                hold = {pid(b2): "exit:" + pid(a2) for a2, b2 in zip(before, before[1:])}
                slow = {p2: 40 for p2 in live if p2 not in [pid(h) for h in before]}
                specs.insert(0, dict(Name="Init%d" % i, Fail=fail, Hold=hold, DelayIn=slow, Timeout=1500,
                                     CancelOn=("exit:" + pid(before[-1])) if before else "before"))
            res, _ = S["E"].run_specs(specs, timeout=300)
            repro = None
            for sp, rs in zip(specs, res):
                if (f["kind"] == "hang" and not rs.get("Returned")) or (f["kind"] == "leak" and rs.get("Returned") and rs.get("Leaked", 0) > 0):
                    repro = (sp, {a2: rs.get(a2) for a2 in ("Returned", "Err", "Leaked", "LeakedAt")})
                    break
            if not repro:
                # a schedule of the extracted program that the compiled injector does not follow is only a hint
                # (the extraction is an abstraction of the text); the violation stays "no failing input found"
                R.coverage.setdefault("model_search_unreproduced", []).append({"injector": "Init%d" % i, "what": what, "schedule": f["trace"][:40], "emitted": b})
                continue
            R.violation("%s: %s  [declaration: %s]" % ("Init%d" % i, what + " (schedule found in the interleaving semantics of the emitted code and reproduced on the compiled injector)", l),
                        {"kind": "input", "failing_input": l, "injector": "Init%d" % i, "emitted": b, "model_emission": a, "schedule": f["trace"],
                         "failed_providers": f["failed"], "caller_cancelled": f["cancelled"], "reproduced_at_runtime": bool(repro),
                         "runtime_spec": repro[0] if repro else None, "runtime_observed": repro[1] if repro else None,
                         "reproduce": "render the declaration (vlib/render.py), run kessoku, read the emitted function; the schedule lists the steps (tN = thread N, 0 = the injector's own goroutine)"})
            R.coverage["model_search_states"] = total
            return
    R.coverage["model_search_states"] = total

def conformance(R, S, specs, results, limit=4000):
    """Tier 1's own tie: what the compiled injector did in every run must be one of the outcomes the interleaving
    semantics KV.T1F allows for the model's emission of that declaration under that failure set / cancellation
    (enumerated by the driver's `X` request through T1F.stepList, proved equivalent to T1F.Step)."""
    import itertools
    cache = {}
    queries = []
    plan = []
    skipped_big = 0
    for sp, rs in list(zip(specs, results))[:limit]:
        k = sp["k"]
        line = S["E"].decls[k]
        EM = PC.parse_edump(S["model"][k])
        if len(EM["threads"]) > 6 or sum(len(t) for t in EM["threads"]) > 14:
            skipped_big += 1        # the interleavings of big programs exceed the enumeration's fuel
            continue
        ret, provs = G.parse_decl(line)
        vids = S["E"].M.value_ids.get(k, set())
        sup = PC.suppliers(ret, provs)
        need, _ = PC.needed(ret, provs, sup)
        needed_p = sorted(x[1] for x in need if x[0] == 'P')
        fails = sorted(int(re.match(r"D\d+P(\d+)$", f).group(1)) for f in (sp.get("Fail") or {}))
        cancel = 1 if sp.get("CancelOn") else 0
        # fallible providers that are handed the context return its error once it is done (rendered that way):
        # for the semantics that is a failure of that provider
        hon = [i for i in needed_p if provs[i]['e'] and 0 in provs[i]['req'] and i not in vids and i not in fails][:3]
        alts = []
        for r in range(len(hon) + 1):
            for hs in itertools.combinations(hon, r):
                key = (line, tuple(sorted(fails + list(hs))), cancel)
                alts.append((key, set(hs)))
                if key not in cache:
                    cache[key] = None
                    queries.append(key)
        plan.append((sp, rs, alts))
    out = C.lean_driver(["X %s | fails %s | cancel %d" % (l, " ".join(map(str, f)), c) for l, f, c in queries], timeout=3600)
    for key, o in zip(queries, out):
        cache[key] = o
    bad, fuel, n = [], 0, 0
    for sp, rs, alts in plan:
        if rs.get("Panic"):
            continue
        n += 1
        if not rs.get("Returned"):
            obs = "stuck"
        else:
            e = rs.get("Err") or ""
            m = re.match(r"prov:D\d+P(\d+)$", e)
            obs = "value" if not e else ("err:P%s" % m.group(1) if m else ("err:ctx" if e.startswith("ctx:") else "err:other"))
            if rs.get("Leaked", 0) > 0:
                obs += "+leak"
        allowed = set()
        exhausted = False
        for key, hs in alts:
            o = cache.get(key) or ""
            if " FUEL" in o:
                exhausted = True
            for tok in o.replace(" FUEL", "").split()[1:]:
                allowed.add(tok)
        if exhausted:
            fuel += 1
            continue
        S.setdefault("allowed", {})[id(sp)] = allowed
        if obs not in allowed:
            bad.append((sp["Name"], {a: b for a, b in sp.items() if a in ("kind", "Fail", "CancelOn", "DelayIn")}, obs, sorted(allowed), S["E"].decls[sp["k"]]))
    R.oblige("conformance: the outcome of every run of a compiled injector is one the interleaving semantics T1F allows for the model's emission (%d runs, %d skipped: search fuel)" % (n, fuel),
             not bad, "%d runs outside the model's outcome set; first: %s" % (len(bad), bad[:1]))
    R.coverage["semantics_conformance"] = {"runs": n, "outside": len(bad), "skipped_fuel": fuel, "skipped_big_programs": skipped_big, "model_queries": len(queries)}
    return bad

def explorer_agreement(R, S, tier):
    """the Python explorer used for the failing-input search and the Lean enumeration (T1F.stepList, proved equivalent to
    T1F.Step) must agree on "can get stuck" / "can leak" for the model's emissions"""
    from . import explore as XP
    qs, meta = [], []
    for k, l in S["ok"]:
        E = PC.parse_edump(S["model"][k])
        if len(E["threads"]) < 2 or len(E["threads"]) > 5 or sum(len(t) for t in E["threads"]) > 10:
            continue
        fall = [int(c["head"][1:]) for th in E["threads"] for c in th if c["fallible"] and c["head"].startswith("P")]
        for fails in [[]] + [[f] for f in fall[:2]]:
            for cancel in ((0, 1) if 0 in E["args"] else (0,)):
                qs.append("X %s | fails %s | cancel %d" % (l, " ".join(map(str, fails)), cancel))
                meta.append((k, E, fails, cancel))
        if len(qs) > (120 if tier == "quick" else 1200):
            break
    out = C.lean_driver(qs)
    bad = []
    for q, o, (k, E, fails, cancel) in zip(qs, out, meta):
        if " FUEL" in o:
            continue
        toks = o.split()[1:]
        lean = ("stuck" in toks, any(t.endswith("+leak") for t in toks))
        py = XP.verdict(E, ["P%d" % f for f in fails], bool(cancel))
        if lean != py:
            bad.append((q[:200], "lean(stuck,leak)=%s python=%s" % (lean, py)))
    R.oblige("the explicit-state search used for failing inputs agrees with the Lean enumeration of T1F on stuck / leak verdicts (%d queries)" % len(qs),
             not bad, "%d disagree; first: %s" % (len(bad), bad[:1]))

def run_failure_property(prop, tier, seed, note):
    R = C.Result(prop, tier, seed)
    repo_dir = C.ensure_repo_build()
    lean_obligations(R, prop, repo_dir)
    S = e2e_stream(tier, seed)
    diffs = emission_diffs(S)
    R.oblige("correspondence: text of the emitted functions = model emission (wait flavours, error checks, closes, eg.Wait form) on %d declarations" % len(S["ok"]),
             not diffs, "%d differ; first: %s" % (len(diffs), [d[1:] for d in diffs[:1]]))
    conf_bad = []
    rt0 = run_runtime(S, tier, seed)
    if rt0[0] is not None:
        conf_bad = conformance(R, S, rt0[0], rt0[1])
    n, stats = judge_runtime(R, S, tier, seed, {prop})
    if prop == "C08":
        explorer_agreement(R, S, tier)
    if diffs and not R.violations and S.get("runtime", (None,))[0] is not None:
        # the emitted code is not what the model says: search the differing declarations for a run that breaks the property
        ks = [i for i, l, a, b in sorted(diffs, key=lambda d: len(d[1]))[:40] if b.startswith("OK") and "Init%d" % i in S["extract"]]
        dspecs = deep_specs(S, ks, G.SplitMix64(seed * 131 + 7))
        clean = [{k: v for k, v in sp.items() if k in ("Name", "Fail", "DelayIn", "CancelOn", "Hold", "Timeout")} for sp in dspecs]
        dres, derr = S["E"].run_specs(clean, timeout=1800)
        n2, stats2 = judge_runtime(R, S, tier, seed, {prop}, given=(dspecs, dres, derr))
        R.coverage["deep_search_runs_on_differing_declarations"] = n2
        n += n2
    if diffs and not R.violations:
        # exhaustive search over schedules x failure sets x cancellation of the *extracted* programs that differ
        model_search(R, S, prop, diffs, seed)
    if conf_bad and not R.violations:
        nm, spc, obs, allowed, decl = conf_bad[0]
        R.violation("%d runs of compiled injectors ended in a way the semantics T1F does not allow for the model's emission (e.g. %s under %s: observed %s, allowed %s); the property itself held in every run" % (
                        len(conf_bad), nm, spc, obs, allowed),
                    {"kind": "correspondence-broken", "correspondence": "T1F semantics (Lean, executable form proved equivalent) vs the Go runtime on compiled injectors",
                     "first": [dict(injector=a, spec=b, observed=c, allowed=d, declaration=e) for a, b, c, d, e in conf_bad[:5]]})
    if diffs and not R.violations:
        i, l, a, b = diffs[0]
        R.violation("emitted code differs from the model's emission on %d declarations; no run of the compiled injectors violated the property" % len(diffs),
                    {"kind": "correspondence-broken", "correspondence": "KV.planDumpE vs harness/extract of *_band.go", "case": l, "model": a, "impl": b})
    specs, results, _ = S.get("runtime", (None, None, None))
    if specs:
        R.samples = [{"declaration": S["E"].decls[sp["k"]], "spec": {a: b for a, b in sp.items() if a != "k"},
                      "observed": {a: rs.get(a) for a in ("Returned", "Term", "Err", "Leaked")}} for sp, rs in list(zip(specs, results))[:400:57]]
    multi = sum(1 for k, l in S["ok"] if " | " in S["model"][k] or "go=[]" not in S["model"][k])
    R.coverage.update({"evaluations": n, "distinct_nontrivial": len(set(S["extract"].values())), "programs": len(S["ok"]), "traces_validated_against_impl": n,
                       "disagreements_checked": len(diffs), "runs_by_kind": dict(stats) if stats else {}, "multi_threaded_programs": multi,
                       "emission_features_of_selected_declarations": S.get("features", {}),
                       "rule": "every model-accepted seeded declaration is rendered, generated by the real CLI, compiled, and run under: fault-free (plain and with random provider latencies), each needed fallible provider failing alone (fast and while the others are slow), pairs of failures (one in a goroutine, one on the injector's goroutine, both orders), cancellation before the call and at provider entries; distinct = distinct emitted structures; non-trivial = every run with >= 1 goroutine, a failure or a cancellation"})
    R.assumptions = [note, "schedules of the real runtime are steered only through provider latencies, failures and cancellation points; the model predicts a set of outcomes and the run must satisfy the property"]
    return R.finish("cd lean && lake build KV.Props.%s && lake env lean <audit of Props/%s theorems>" % (prop, prop), TRUSTED)

def check_c06(tier, seed):
    return run_failure_property("C06", tier, seed, "clause 2 (identity of the error) is false of the generator: known finding K6, proved as C06_identity_neg")

def check_c07(tier, seed):
    return run_failure_property("C07", tier, seed, "false for injectors without an error result: known finding K7, proved as C07_neg")

def check_c08(tier, seed):
    return run_failure_property("C08", tier, seed, "false after a main-thread provider-error return: known finding K8, proved as C08_neg")


def emission_obligation(R, tier, seed):
    """shared by the planner-level checks: the text the real CLI emits for seeded declarations (through go/packages,
    provider-type decoding, Set flattening, Bind/Async nesting, Value) has the structure the model's emission predicts"""
    S = e2e_stream(tier, seed)
    bad_gen = [(rc, out, fs) for rc, out, fs in S["gen"] if rc != 0]
    diffs = emission_diffs(S)
    R.oblige("correspondence (end to end): structure of the emitted *_band.go = KV.planDumpE on %d rendered declarations" % len(S["ok"]),
             not diffs and not bad_gen, "%d differ, %d invocations failed; first: %s" % (len(diffs), len(bad_gen), [d[1:] for d in diffs[:1]] or [b[1][-200:] for b in bad_gen[:1]]))
    R.coverage["end_to_end_declarations"] = len(S["ok"])
    return S, diffs

def pinpoint_refusal(R, S, seed, prop):
    """an invocation of the real CLI failed although the model accepts every declaration in it: find one declaration that
    is refused on its own (rendered exactly as in the sample) and report it as the failing input"""
    bad_gen = [(rc, out, fs) for rc, out, fs in S["gen"] if rc != 0]
    if not bad_gen:
        return False
    from . import render as RD
    missing = [(k, l) for k, l in S["ok"] if "Init%d" % k not in S["extract"]]
    E = S["E"]
    M = RD.Module("pin%d" % seed)
    try:
        for k, l in sorted(missing, key=lambda kl: len(kl[1]))[:60]:
            # same rendering as in the sample (the per-declaration choices of aliases / Value / Set nesting are seeded)
            src = None
            for f in E.M.files:
                txt = open(f).read()
                m = re.search(r"(?ms)^type D%dT\d+ .*?^var _ = kessoku\.Inject\[[^\n]*\(\"Init%d\",.*?^\)\n" % (k, k), txt)
                if m:
                    src = m.group(0)
                    break
            if src is None:
                continue
            d = os.path.join(M.root, "q%d" % k)
            os.makedirs(d, exist_ok=True)
            body = 'package q%d\n\nimport (\n\t"context"\n\t"e2e/rt"\n\t"github.com/mazrean/kessoku"\n)\n\nvar _ context.Context\nvar _ = rt.Enter\n\n%s' % (k, src)
            open(os.path.join(d, "k.go"), "w").write(body)
            rc, out = C.run([E.cli, "q%d/k.go" % k], cwd=M.root, extra_env=M.env(), timeout=300)
            if rc != 0:
                msg = (out.strip().splitlines() or ["?"])[-1][:300]
                R.violation("a declaration the model accepts (no cycle, no duplicate supplier, no orphan Struct) is refused by the generator: %s  [declaration: %s]" % (msg, l),
                            {"kind": "input", "failing_input": {"declaration": l, "source": body}, "observed": out[-1200:], "expected": "exit 0 and one generated function",
                             "reproduce": "save failing_input.source as k.go of a package (module with github.com/mazrean/kessoku and the rt helper package), run `kessoku k.go`"})
                return True
    finally:
        M.close()
    return False

def names_e2e(R, repo_dir, tier, seed):
    """C12 end to end: pre-registration of package-level names happens in the parser, so it is only visible through
    the real CLI: adversarial-name packages, a file generated by another tool, two packages with one name"""
    from . import typestream as TS
    from . import render as RD
    TM = RD.Module("c12nm%d" % seed)
    n = 0
    try:
        cli = os.path.join(repo_dir, "kessoku")
        for lbl, pkgs, files in TS.render_special(TM.root, G.SplitMix64(seed * 29 + 11), 6 if tier == "quick" else 60):
            n += 1
            rc2, out2 = C.run([cli] + files, cwd=TM.root, extra_env=TM.env(), timeout=300)
            if rc2 != 0:
                continue
            rc3, out3 = C.run(["go", "vet"] + pkgs, cwd=TM.root, extra_env=TM.env(), timeout=600)
            if rc3 != 0:
                msgs = [l.strip() for l in out3.splitlines() if re.match(r"^(vet: )?\S+\.go:\d+", l.strip())]
                R.violation("generation succeeded but the output does not compile: a generated identifier is invalid or collides with a declared name (case '%s'): %s" % (lbl, (msgs or [out3[-200:]])[0]),
                            {"kind": "input", "failing_input": {f: open(os.path.join(TM.root, f)).read() for f in files}, "invocation": "kessoku " + " ".join(files), "errors": msgs[:5]})
        items = TS.render_names(TM.root, G.SplitMix64(seed * 17 + 3), nfiles=8 if tier == "quick" else 80)
        for lbl, fn, picked in items:
            n += 1
            C.run([cli, os.path.relpath(fn, TM.root)], cwd=TM.root, extra_env=TM.env(), timeout=300)
        rc3, out3 = C.run(["go", "vet", "./nm/"], cwd=TM.root, extra_env=TM.env(), timeout=900)
        if rc3 != 0:
            msgs = [l.strip() for l in out3.splitlines() if re.match(r"^(vet: )?nm/\S+\.go:\d+", l.strip())]
            R.violation("adversarial-name package: generated code does not compile: %s" % (msgs or [out3[-300:]])[0],
                        {"kind": "input", "failing_input": "vlib/typestream.render_names(seed=%d)" % (seed * 17 + 3), "errors": msgs[:8]})
    finally:
        TM.close()
    R.coverage["end_to_end_name_cases"] = n
