"""C15 (atomic installation under crashes and faults) and C16 (every agent installs where documented)."""
import os, re, shutil, stat
from . import common as C
from . import fsrun as F
from .lean import lean_obligations

TRUSTED = [
    "Lean 4.33.0 kernel; axioms allowed: propext, Classical.choice, Quot.sound (audited per theorem)",
    "factgen (go/ast translator of InstallFile/Install/agents/README into Lean terms) and the meaning the model gives each step (KV/InstallModel.lean)",
    "POSIX rename atomicity, os.CreateTemp name freshness, kill -9 leaves completed syscalls' effects (modelled, validated by the crash matrix)",
    "the verif-tagged hook in internal/llmsetup (verifPoint/verifPartial) placing crash/fault points after each step",
]

def model_states(queries):
    return C.lean_driver(["F " + q for q in queries])

def parse_sfile(s):
    # absent | old | old:<m> | new:<cont>:<mode|oldmode>
    parts = s.split(":")
    return parts

def expect_file(sym, old, new_bytes, j=0):
    """concretise the model's symbolic file: returns None (absent) or (mode, bytes or ('prefix', bytes))"""
    p = sym.split(":")
    if p[0] == "absent":
        return None
    if p[0] == "old":
        if old is None:
            return None
        return (int(p[1]) if len(p) > 1 else old[0], old[1])
    if p[0] == "new":
        mode = (old[0] if old else 0) if p[2] == "oldmode" else int(p[2])
        if p[1] == "full":
            return (mode, new_bytes)
        if p[1] == "empty":
            return (mode, b"")
        return (mode, new_bytes[:j])
    raise ValueError(sym)

def matches(actual, exp):
    if exp is None:
        return actual is None
    if actual is None or actual[0] != 'f':
        return False
    if actual[1] != exp[0]:
        return False
    return actual[2] == exp[1]

def check_c15(tier, seed):
    R = C.Result("C15", tier, seed)
    repo_dir = C.ensure_repo_build()
    lean_obligations(R, "C15", repo_dir)
    cli = os.path.join(repo_dir, "kessoku")
    tree = F.embedded_tree()
    files = sorted(tree)         # fs.WalkDir visits in lexical order
    sb = F.Sandbox("c15")
    runs = 0
    samples = []
    diffs = []          # model vs implementation
    try:
        rc, points = F.trace_points(cli, sb, "claude-code")
        steps = model_states(["steps"])[0][2:].split()
        step_names = [s.split("!")[0] for s in steps]
        R.coverage["hook_points"] = points
        R.coverage["model_steps"] = steps
        if rc != 0 or not points:
            R.violation("installer fails on a fresh directory or the verif hook is not compiled in", {"kind": "input", "failing_input": "llm-setup claude-code in an empty project", "rc": rc})
        # which file each point belongs to
        file_of, k_of = [], []
        fi = 0
        for n in points:
            file_of.append(fi)
            if n == "file-done":
                k_of.append(None); fi += 1
            else:
                nm = n[len("after-"):]
                k_of.append(step_names.index(nm) + 1 if nm in step_names else None)
        priors_all = F.prior_states(tree)
        prior_names = ["absent", "older", "identical-other-mode", "older-symlinked"] if tier == "quick" else list(priors_all)
        skill = os.path.join(sb.cwd, ".claude", "skills", "kessoku-di")

        def prepare(pn):
            sb.reset()
            F.lay_down(skill, priors_all[pn], symlink=pn in F.SYMLINKED)
            return {r: priors_all[pn].get(r) for r in files}

        def judge(kind, pn, point_desc, snap, old, fi_cur, model_line, crashed, envx, j=0):
            """property-level judgement + model correspondence for one run"""
            nonlocal diffs
            rel_of = lambda f: os.path.join(".claude", "skills", "kessoku-di", f)
            for idx, f in enumerate(files):
                v = snap.get(rel_of(f))
                cls = F.classify_dest(v, old[f], tree[f])
                ok = cls in ("old", "new") or (cls == "absent" and old[f] is None)
                if kind == "fault" and idx == fi_cur and not (cls == "old" or (cls == "absent" and old[f] is None)):
                    ok = False
                if not ok:
                    R.violation("%s at %s over prior state '%s': destination %s is %s (previous: %s)" % (
                        kind, point_desc, pn, f, cls, F.short(('f',) + old[f]) if old[f] else "absent"),
                        {"kind": "input", "failing_input": {"agent": "claude-code", "prior": pn, "env": envx, "file": f},
                         "observed": cls, "expected": "previous content or complete new content with mode 0644",
                         "reproduce": "build ./cmd/kessoku with -tags verif, lay down prior state '%s' (vlib/fsrun.prior_states), run `kessoku llm-setup claude-code` with %s" % (pn, envx)})
            tmps = F.temp_files(snap)
            if kind == "fault":
                # whatever its name and wherever it lies: after a reported failure nothing but the tree's own files (and
                # what was there before) may exist below the working directory
                allowed = set(rel_of(f) for f in files)
                stray = sorted(k2 for k2, v2 in snap.items() if v2[0] != 'd' and k2 not in allowed and ".link-targets" not in k2 and k2 not in tmps)
                if stray:
                    R.violation("fault at %s over prior '%s': files left behind: %s" % (point_desc, pn, stray[:4]),
                                {"kind": "input", "failing_input": {"agent": "claude-code", "prior": pn, "env": envx}, "observed": stray,
                                 "expected": "no file other than the skill tree's own files after a reported failure"})
            if kind == "fault" and tmps:
                R.violation("fault at %s over prior '%s': temporary file left behind: %s" % (point_desc, pn, tmps),
                            {"kind": "input", "failing_input": {"agent": "claude-code", "prior": pn, "env": envx}, "observed": tmps,
                             "expected": "no .tmp-* file after a reported failure"})
            # model correspondence for the file being installed
            if model_line is not None and fi_cur < len(files):
                f = files[fi_cur]
                m = dict(kv.split("=") for kv in model_line[2:].split())
                exp_d = expect_file(m["dest"], old[f], tree[f], j)
                act_d = snap.get(rel_of(f))
                if not matches(act_d, exp_d):
                    diffs.append({"case": "%s %s prior=%s" % (kind, point_desc, pn), "file": f, "model": m["dest"], "impl": F.short(act_d)})
                exp_t = expect_file(m["tmp"], None, tree[f], j)
                dirn = os.path.dirname(rel_of(f))
                here = [t for t in tmps if os.path.dirname(t) == dirn]
                if exp_t is None and here:
                    diffs.append({"case": "%s %s prior=%s" % (kind, point_desc, pn), "file": f, "model": "tmp absent", "impl": "tmp present %s" % here})
                if exp_t is not None:
                    if len(here) != 1 or not matches(snap.get(here[0]), exp_t):
                        diffs.append({"case": "%s %s prior=%s" % (kind, point_desc, pn), "file": f, "model": "tmp " + m["tmp"],
                                      "impl": [F.short(snap.get(t)) for t in here]})

        for pn in prior_names:
            ex = lambda f: "true" if priors_all[pn].get(f) is not None else "false"
            # ---- crash after each point
            for i, n in enumerate(points):
                old = prepare(pn)
                envx = {"KESSOKU_VERIF_CRASH": str(i)}
                rc, out, err = F.run_cli(cli, sb, ["claude-code"], envx); runs += 1
                snap = F.follow_links(sb.cwd, F.snapshot(sb.cwd))
                fi_cur = file_of[i]
                ml = None
                if k_of[i] is not None and fi_cur < len(files):
                    ml = model_states(["crashstate %s %d true" % (ex(files[fi_cur]), k_of[i])])[0]   # nothing of the next step happened: torn with 0 bytes
                if rc != -9:
                    R.violation("crash point %d (%s) did not kill the process (rc=%d)" % (i, n, rc), {"kind": "input", "failing_input": envx})
                # files before fi_cur are complete, after are untouched
                old_eff = dict(old)
                judge("crash", pn, "point %d (%s, file %d)" % (i, n, fi_cur), snap, old_eff, fi_cur if n != "file-done" else len(files), ml, True, envx)
                if len(samples) < 6:
                    samples.append({"kind": "crash", "prior": pn, "point": "%d:%s" % (i, n), "model": ml,
                                    "observed": {f: F.classify_dest(snap.get(os.path.join(".claude", "skills", "kessoku-di", f)), old[f], tree[f]) for f in files}})
                # a later successful run completes the installation
                rc2, out2, err2 = F.run_cli(cli, sb, ["claude-code"]); runs += 1
                snap2 = F.follow_links(sb.cwd, F.snapshot(sb.cwd))
                bad = [f for f in files if F.classify_dest(snap2.get(os.path.join(".claude", "skills", "kessoku-di", f)), None, tree[f]) != "new"]
                if rc2 != 0 or bad:
                    R.violation("re-run after crash at point %d (%s) over prior '%s' does not complete the installation: rc=%d, not new: %s" % (i, n, pn, rc2, bad),
                                {"kind": "input", "failing_input": {"prior": pn, "env": envx, "then": "plain re-run"}, "observed": {"rc": rc2, "stderr": err2[-300:], "bad": bad}})
            # ---- crash inside the write of each file
            for fi_cur, f in enumerate(files):
                L = len(tree[f])
                for j in sorted(set([0, 1, L // 2, L - 1])):
                    old = prepare(pn)
                    envx = {"KESSOKU_VERIF_PARTIAL": "%d:%d" % (fi_cur, j)}
                    rc, out, err = F.run_cli(cli, sb, ["claude-code"], envx); runs += 1
                    snap = F.follow_links(sb.cwd, F.snapshot(sb.cwd))
                    kw = step_names.index("write") if "write" in step_names else None
                    ml = model_states(["crashstate %s %d true" % (ex(f), kw)])[0] if kw is not None else None
                    if rc != -9:
                        R.violation("torn-write point (file %d, %d bytes) did not kill the process (rc=%d)" % (fi_cur, j, rc), {"kind": "input", "failing_input": envx})
                    judge("crash", pn, "torn write of file %d after %d bytes" % (fi_cur, j), snap, old, fi_cur, ml, True, envx, j)
            # ---- single injected failure after each point (= the next step fails without effect)
            for i, n in enumerate(points):
                if n == "after-rename":
                    continue        # the next step belongs to the following file: covered by file-done
                fi_cur = file_of[i] + (1 if n == "file-done" else 0)
                if fi_cur >= len(files):
                    continue
                k = 0 if n == "file-done" else k_of[i]
                old = prepare(pn)
                envx = {"KESSOKU_VERIF_FAIL": str(i)}
                rc, out, err = F.run_cli(cli, sb, ["claude-code"], envx); runs += 1
                snap = F.follow_links(sb.cwd, F.snapshot(sb.cwd))
                ml = model_states(["failstate %s %d false" % (ex(files[fi_cur]), k)])[0] if k is not None else None
                if rc == 0 or "Error" not in err:
                    R.violation("injected failure after point %d (%s) is not reported (rc=%d, stderr=%r)" % (i, n, rc, err[-200:]),
                                {"kind": "input", "failing_input": {"prior": pn, "env": envx}, "observed": {"rc": rc, "stderr": err[-300:]}})
                judge("fault", pn, "after point %d (%s; step %s of file %d fails)" % (i, n, k, fi_cur), snap, old, fi_cur, ml, False, envx)
                if ml is not None and "reported=true" not in ml:
                    diffs.append({"case": "fault after point %d" % i, "model": ml, "impl": "rc=%d" % rc})
                if len(samples) < 12:
                    samples.append({"kind": "fault", "prior": pn, "point": "%d:%s" % (i, n), "model": ml, "rc": rc,
                                    "temp_files": F.temp_files(snap)})
    finally:
        sb.close()
    R.oblige("correspondence: crash/fault matrix, model state = observed state (dest and temp file)", not diffs, "%d differences" % len(diffs))
    if diffs and not R.violations:
        R.violation("the install model and the real installer disagree on %d crash/fault cases although every observed state satisfies the property" % len(diffs),
                    {"kind": "correspondence-broken", "correspondence": "Inst.sRunCrash/sRunFail over Gen.installSteps vs real CLI under the verif hook", "first": diffs[:5]})
    R.samples = samples
    R.coverage.update({"evaluations": runs, "distinct_nontrivial": runs, "exhaustive": True, "disagreements_checked": len(diffs),
                       "traces_validated_against_impl": runs,
                       "rule": "every hook point (crash after it; the following step failing) x every file of the embedded tree x torn writes at 0/1/half/len-1 bytes x prior states %s; each run is distinct; all are non-trivial (a crash or a fault happens in every one)" % prior_names})
    R.assumptions = ["a process crash is SIGKILL at a hook point or inside a write (bytes written so far persist); OS crash / power loss (un-fsynced directory entries) is outside the statement",
                     "a failing step has no effect except a failing write, which may be partial"]
    return R.finish("cd lean && lake build KV.Props.C15 && lake env lean <audit of Props/C15 theorems>", TRUSTED)

# ------------------------------------------------------------------------------------------------ C16

def readme_tables():
    rd = open(os.path.join(C.REPO, "README.md")).read()
    agents, paths = {}, {}
    for line in rd.split("\n"):
        if line.startswith("**Supported agents:**"):
            for item in line[len("**Supported agents:**"):].split(","):
                m = re.match(r"\s*(.*?)\(`(.*?)`\)", item)
                if m:
                    agents[m.group(1).strip()] = m.group(2)
        m = re.match(r"- \*\*(.*?):\*\* `(.*?)` \(project\) or `(.*?)` \(user\)", line)
        if m:
            paths[m.group(1)] = (m.group(2), m.group(3))
    return agents, paths

UMASK = os.umask(0)
os.umask(UMASK)

def check_c16(tier, seed):
    R = C.Result("C16", tier, seed)
    repo_dir = C.ensure_repo_build()
    lean_obligations(R, "C16", repo_dir)
    cli = os.path.join(repo_dir, "kessoku")
    tree = F.embedded_tree()
    ragents, rpaths = readme_tables()
    documented = {}      # cli name -> (project sub path, user sub path)
    for disp, name in ragents.items():
        if disp in rpaths:
            pr, us = rpaths[disp]
            documented[name] = (pr.rstrip("/"), us[2:].rstrip("/") if us.startswith("~/") else us.rstrip("/"))
    R.coverage["documented_agents"] = sorted(documented)
    sb = F.Sandbox("c16")
    runs = 0; samples = []
    try:
        # the CLI offers exactly the documented sub-commands
        rc, out, err = F.run_cli(cli, sb, ["--help"]); runs += 1
        offered = sorted(set(re.findall(r"^\s+llm-setup ([a-z0-9-]+)", out + err, re.M)))
        if not offered:
            offered = sorted(set(re.findall(r"^\s{2,}([a-z][a-z0-9-]+)\s{2,}Install", out + err, re.M)))
        R.coverage["cli_subcommands"] = offered
        if sorted(documented) != offered:
            R.violation("CLI sub-commands %s differ from the documented agents %s" % (offered, sorted(documented)),
                        {"kind": "input", "failing_input": "kessoku llm-setup --help", "observed": offered, "expected": sorted(documented)})
        for name in sorted(set(offered) - set(documented)):
            pass
        priors_all = F.prior_states(tree)
        prior_names = ["absent", "older", "identical-other-mode", "unrelated", "base-is-file", "base-is-relative-symlink", "base-is-absolute-symlink"]
        if tier != "quick":
            prior_names += ["older-partial", "older-readonly-mode", "skill-dir-has-extra"]
        # custom paths also include ones that merely *look* like an installation (last element named like the skill
        # directory, or like an agent's own sub-path): the skill directory is still created below them
        # the documented locations depend on $HOME and the working directory only: environment variables that other
        # tools honour for configuration directories (XDG_*, APPDATA, ...) must not redirect the installation
        foreign_env = {"XDG_CONFIG_HOME": os.path.join(sb.other, "xdg", "config"), "XDG_DATA_HOME": os.path.join(sb.other, "xdg", "data"),
                       "XDG_CACHE_HOME": os.path.join(sb.other, "xdg", "cache"), "APPDATA": os.path.join(sb.other, "appdata"),
                       "KESSOKU_HOME": os.path.join(sb.other, "kh"), "CLAUDE_CONFIG_DIR": os.path.join(sb.other, "ccd"), "CODEX_HOME": os.path.join(sb.other, "cxh")}
        modes = ["default", "user", "user-foreign-env", "default-foreign-env", "path-rel", "path-abs", "path-user", "path-rel-user", "path-rel-dotdot",
                 "path-rel-named-like-skill", "path-abs-named-like-skill-user", "path-rel-named-like-subpath"]
        for agent in sorted(documented):
            proj, user = documented[agent]
            for mode in modes:
                for pn in prior_names:
                    sb.reset()
                    args = [agent]
                    envx = foreign_env if mode.endswith("-foreign-env") else None
                    if mode in ("default", "default-foreign-env"):
                        base = os.path.join(sb.cwd, proj)
                    elif mode in ("user", "user-foreign-env"):
                        base = os.path.join(sb.home, user); args.append("--user")
                    elif mode == "path-rel":
                        base = os.path.join(sb.cwd, "custom", "dir"); args += ["--path", "custom/dir"]
                    elif mode == "path-abs":
                        base = os.path.join(sb.other, "abs", "p"); args += ["--path", base]
                    elif mode == "path-user":
                        base = os.path.join(sb.other, "both"); args += ["--path", base, "--user"]
                    elif mode == "path-rel-user":
                        base = os.path.join(sb.cwd, "tools", "skills"); args += ["--path", "tools/skills", "--user"]
                    elif mode == "path-rel-named-like-skill":
                        base = os.path.join(sb.cwd, "vendor", "kessoku-di"); args += ["--path", "vendor/kessoku-di"]
                    elif mode == "path-abs-named-like-skill-user":
                        base = os.path.join(sb.other, "kessoku-di"); args += ["--path", base, "--user"]
                    elif mode == "path-rel-named-like-subpath":
                        base = os.path.join(sb.cwd, "x", proj); args += ["--path", os.path.join("x", proj)]
                    else:
                        base = os.path.join(sb.root, "sibling", "x"); args += ["--path", "../sibling/x"]
                    skill = os.path.join(base, "kessoku-di")
                    # unrelated bystanders everywhere
                    sib = os.path.join(sb.root, "sibling")
                    shutil.rmtree(sib, ignore_errors=True)
                    for d in (sb.home, sb.cwd, sb.other):
                        os.makedirs(os.path.join(d, "keep"), exist_ok=True)
                        open(os.path.join(d, "keep", "a.txt"), "w").write("bystander")
                    expect_error = False
                    skill_alt = None
                    if pn in ("base-is-relative-symlink", "base-is-absolute-symlink"):
                        # the base directory is a link into a dotfiles directory elsewhere (stow style): the tree is
                        # installed through it, the link itself stays
                        target = os.path.join(sb.other, "dotfiles", "skills")
                        os.makedirs(target, exist_ok=True)
                        open(os.path.join(target, "mine.md"), "w").write("kept")
                        os.makedirs(os.path.dirname(base), exist_ok=True)
                        os.symlink(os.path.relpath(target, os.path.dirname(base)) if pn == "base-is-relative-symlink" else target, base)
                        skill_alt = os.path.join(target, "kessoku-di")
                    elif pn == "base-is-file":
                        os.makedirs(os.path.dirname(base), exist_ok=True)
                        open(base, "w").write("i am a file")
                        expect_error = True
                    elif pn == "unrelated":
                        os.makedirs(base, exist_ok=True)
                        open(os.path.join(base, "other-skill.md"), "w").write("unrelated")
                        os.makedirs(os.path.join(base, "other-skill"), exist_ok=True)
                        open(os.path.join(base, "other-skill", "SKILL.md"), "w").write("unrelated2")
                    elif pn == "skill-dir-has-extra":
                        F.lay_down(skill, priors_all["older"], {"notes/mine.md": b"user notes", "references/EXTRA.md": b"extra"})
                    elif pn != "absent":
                        F.lay_down(skill, priors_all[pn])
                    roots = (sb.home, sb.cwd, sb.other, sib)
                    before = {d: F.snapshot(d) for d in roots}
                    rc, out, err = F.run_cli(cli, sb, args, envx); runs += 1
                    after = {d: F.snapshot(d) for d in roots}
                    desc = {"agent": agent, "mode": mode, "args": args[1:], "prior": pn}
                    def viol(text, **kw):
                        rp = {"kind": "input", "failing_input": desc, "reproduce": "HOME=<home> kessoku llm-setup %s in <cwd> over prior state '%s'" % (" ".join(a.replace(sb.root, "<root>") for a in args), pn)}
                        rp.update(kw)
                        R.violation("%s %s over '%s': %s" % (agent, mode, pn, text), rp)
                    if expect_error:
                        if rc == 0:
                            viol("base path is a file but the installer reports success")
                        if before != after:
                            viol("base path is a file and the installer modified the file system")
                        continue
                    if rc != 0:
                        viol("installer failed: %s" % err.strip()[-200:]); continue
                    # 1. full tree, byte-identical, 0644, at the documented place
                    for rel, data in tree.items():
                        p = os.path.join(skill, rel)
                        if not os.path.isfile(p):
                            viol("missing %s under the documented location %s" % (rel, skill.replace(sb.root, "<root>"))); break
                        st = os.lstat(p)
                        if open(p, "rb").read() != data:
                            viol("%s differs from the embedded file" % rel); break
                        if stat.S_IMODE(st.st_mode) != 0o644:
                            viol("%s has mode %o, want 644" % (rel, stat.S_IMODE(st.st_mode))); break
                    # 2. nothing else created or modified (apart from parent directories of the skill dir)
                    for d in roots:
                        b, a = before[d], after[d]
                        for rel in sorted(set(a) | set(b)):
                            full = os.path.join(d, rel)
                            inside = (full == skill or full.startswith(skill + os.sep))
                            via = skill
                            if not inside and skill_alt and (full == skill_alt or full.startswith(skill_alt + os.sep)):
                                inside, via = True, skill_alt
                            if inside:
                                relk = os.path.relpath(full, via)
                                if relk in tree or a.get(rel, ('?',))[0] == 'd':
                                    if rel in b and rel not in a:
                                        viol("%s removed" % rel)
                                    # a directory the installer created: the documented directory mode (under the umask)
                                    if rel not in b and rel in a and a[rel][0] == 'd' and a[rel][1] != (0o755 & ~UMASK):
                                        viol("directory %s created with mode %o, want %o" % (rel, a[rel][1], 0o755 & ~UMASK))
                                    continue
                                # a file inside the skill dir that is not part of the tree: must be untouched
                                if a.get(rel) != b.get(rel):
                                    viol("unrelated file inside the skill directory changed: %s: %s -> %s" % (rel, F.short(b.get(rel)), F.short(a.get(rel))))
                                continue
                            is_parent = skill.startswith(full + os.sep) or bool(skill_alt and skill_alt.startswith(full + os.sep))
                            if rel not in b:
                                if is_parent and a[rel][0] == 'd':
                                    continue
                                viol("created outside the skill directory: %s (%s)" % (full.replace(sb.root, "<root>"), F.short(a[rel])))
                            elif rel not in a:
                                viol("removed outside the skill directory: %s" % full.replace(sb.root, "<root>"))
                            elif a[rel] != b[rel]:
                                viol("modified outside the skill directory: %s: %s -> %s" % (full.replace(sb.root, "<root>"), F.short(b[rel]), F.short(a[rel])))
                    if len(samples) < 10 and (agent, mode) in (("amp", "user"), ("claude-code", "default"), ("opencode", "path-rel"), ("goose", "path-user"), ("cursor", "path-abs")):
                        samples.append(dict(desc, rc=rc, installed_at=skill.replace(sb.root, "<root>"), files=len(tree)))
    finally:
        sb.close()
    R.samples = samples
    R.coverage.update({"evaluations": runs, "distinct_nontrivial": runs - 1, "exhaustive": True, "traces_validated_against_impl": runs,
                       "rule": "all documented agents x {default, --user, both again with XDG_* / APPDATA / tool-specific home variables pointing elsewhere, --path relative, --path absolute, --path absolute with --user, --path relative with --user, --path ../relative, --path whose last element is the skill directory's name (relative / absolute with --user), --path ending in the agent's own sub-path} x prior states %s, each with bystander files in $HOME, cwd and an unrelated directory; before/after snapshots of all three; every combination is distinct" % prior_names})
    R.assumptions = ["the README table is the documentation the property refers to", "kong dispatches a sub-command to the AgentCmd of the same field (validated by running every sub-command)"]
    return R.finish("cd lean && lake build KV.Props.C16 && lake env lean <audit of Props/C16 theorems>", TRUSTED)
