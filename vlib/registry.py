"""property id -> check function"""
import json
from . import p_fs, p_plan, p_names, p_e2e, p_det, p_migrate

CHECKS = {
    "C01": p_plan.check_c01,
    "C02": p_plan.check_c02,
    "C03": p_plan.check_c03,
    "C04": p_e2e.check_c04,
    "C05": p_plan.check_c05,
    "C06": p_e2e.check_c06,
    "C07": p_e2e.check_c07,
    "C08": p_e2e.check_c08,
    "C09": p_plan.check_c09,
    "C10": p_plan.check_c10,
    "C11": p_det.check_c11,
    "C12": p_names.check_c12,
    "C13": p_migrate.check_c13,
    "C14": p_migrate.check_c14,
    "C15": p_fs.check_c15,
    "C16": p_fs.check_c16,
}

def replay(prop, path):
    r = json.load(open(path))
    print(json.dumps(r, indent=1))
    print("re-running the check of %s (the replay file names the failing input; the check re-derives it)" % prop)
    return CHECKS[prop]("quick", int(r.get("seed", 1)))
