"""Executable structural conditions on a plan dump (the implementation's or the model's): the search side
of the failure path.  They mirror the hypotheses of the Tier 1 theorems (W1..W8, K6..K8 of DESIGN.md §3.3a)
and are used to look for a concrete declaration on which a property fails; they are not the proof."""
import re

CALL = re.compile(r"^([PF])(\d+)(?:\.(\w+))?@(-?\d+)(!?)(~?)\((.*?)\)->\((.*?)\)$")

def parse_call(tok):
    m = CALL.match(tok)
    if not m:
        raise ValueError("bad call token %r" % tok)
    kind, decl, field, node, bang, tilde, args, rets = m.groups()
    A = []
    for a in [x for x in args.split(",") if x]:
        if a[0] == "a":
            n, ty = a[1:].split(":")
            A.append(dict(kind="a", node=int(n), ty=int(ty), wait=False))
        else:
            w = a.endswith("w")
            n, g = a[1:].rstrip("w").split(".")
            A.append(dict(kind="v", node=int(n), group=int(g), wait=w))
    Rs = [dict(used=r.startswith("r"), chan=r.endswith("c")) for r in rets.split(",") if r]
    return dict(kind=kind, decl=int(decl), field=field, node=int(node), fallible=bang == "!", isasync=tilde == "~", args=A, rets=Rs, tok=tok)

def parse_dump(line):
    if not line.startswith("OK "):
        return None
    m = re.match(r"^OK async=(\w+) err=(\w+) args=\[(.*?)\] main=\[(.*?)\] go=\[(.*?)\] ret=(\S+)$", line)
    if not m:
        raise ValueError("bad dump line %r" % line)
    asy, err, args, main, go, ret = m.groups()
    threads = [[parse_call(t) for t in main.split()]]
    if go.strip():
        for g in go.split("|"):
            threads.append([parse_call(t) for t in g.split()])
    return dict(hasasync=asy == "true", err=err == "true", args=[int(x) for x in args.split(",") if x.strip()],
                threads=threads, ret=ret)

def producers(P):
    """(node, group) -> (thread, index, call)"""
    out = {}
    dup = []
    for t, th in enumerate(P["threads"]):
        for i, c in enumerate(th):
            for g in range(len(c["rets"])):
                if (c["node"], g) in out:
                    dup.append((c["node"], g))
                out[(c["node"], g)] = (t, i, c)
    return out, dup

def check_dataflow(P):
    """C01 / W1-W3: every non-parameter read has a producer that is same-thread-earlier or waited for
    through a channel; a field read never waits (the generator emits none), so it must be same-thread-earlier"""
    prod, dup = producers(P)
    bad = []
    for d in dup:
        bad.append("node %d group %d is produced twice" % d)
    for t, th in enumerate(P["threads"]):
        for i, c in enumerate(th):
            for a in c["args"]:
                if a["kind"] != "v":
                    continue
                key = (a["node"], a["group"])
                if key not in prod:
                    bad.append("%s reads v%d.%d which no emitted statement produces" % (c["tok"], a["node"], a["group"]))
                    continue
                pt, pi, pc = prod[key]
                if not pc["rets"][a["group"]]["used"]:
                    bad.append("%s reads v%d.%d but the producer discards it (`_`)" % (c["tok"], a["node"], a["group"]))
                if pt == t:
                    if pi >= i:
                        bad.append("%s reads v%d.%d before its producer %s runs in the same thread" % (c["tok"], a["node"], a["group"], pc["tok"]))
                else:
                    waited = a["wait"] and pc["rets"][a["group"]]["chan"] and c["kind"] != "F"
                    if not waited:
                        bad.append("%s (thread %d) reads v%d.%d written by %s (thread %d) without waiting for it: data race / read before write" % (
                            c["tok"], t, a["node"], a["group"], pc["tok"], pt))
    # the returned value
    m = re.match(r"v(\d+)\.(\d+)", P["ret"])
    if m:
        key = (int(m.group(1)), int(m.group(2)))
        if key not in prod:
            bad.append("the returned value %s is produced by no emitted statement" % P["ret"])
        elif not prod[key][2]["rets"][key[1]]["used"]:
            bad.append("the returned value %s is discarded by its producer" % P["ret"])
    return bad

def check_deadlock(P):
    """C03: a wait whose channel nobody closes, or a cyclic wait (thread order + close->wait edges)"""
    prod, _ = producers(P)
    bad = []
    # graph over (thread, index)
    edges = {}
    for t, th in enumerate(P["threads"]):
        for i, c in enumerate(th):
            deps = []
            if i > 0:
                deps.append((t, i - 1))
            for a in c["args"]:
                if a["kind"] == "v" and a["wait"]:
                    key = (a["node"], a["group"])
                    if key not in prod:
                        bad.append("%s waits for the completion of v%d.%d which nobody signals" % (c["tok"], a["node"], a["group"]))
                        continue
                    pt, pi, pc = prod[key]
                    if not pc["rets"][a["group"]]["chan"]:
                        continue       # no channel => the generator emits no wait at all
                    if c["kind"] == "F":
                        continue
                    deps.append((pt, pi))
            edges[(t, i)] = deps
    # cycle detection
    color = {}
    def dfs(u):
        color[u] = 1
        for v in edges.get(u, []):
            if color.get(v, 0) == 1:
                return [u, v]
            if color.get(v, 0) == 0:
                r = dfs(v)
                if r:
                    return r
        color[u] = 2
        return None
    import sys
    sys.setrecursionlimit(10000)
    for u in list(edges):
        if color.get(u, 0) == 0:
            r = dfs(u)
            if r:
                a, b = r
                bad.append("cyclic wait between %s and %s: deadlock in every schedule" % (P["threads"][a[0]][a[1]]["tok"], P["threads"][b[0]][b[1]]["tok"]))
                break
    if len(P["threads"]) > 1 and not P["hasasync"]:
        bad.append("goroutines are started but the injector has no context parameter")
    return bad

def check_zero_async(P):
    """C05: an input-free Async provider is preceded in its thread only by input-free synchronous providers"""
    bad = []
    seen_threads = {}
    for t, th in enumerate(P["threads"]):
        for i, c in enumerate(th):
            if c["isasync"] and not c["args"] and c["kind"] == "P":
                for pc in th[:i]:
                    if pc["isasync"]:
                        bad.append("input-free Async provider %s is sequenced after Async provider %s in thread %d: they can never overlap" % (c["tok"], pc["tok"], t))
                    elif pc["args"]:
                        if any(a["kind"] == "v" and a["wait"] for a in pc["args"]):
                            bad.append("input-free Async provider %s starts only after %s, which waits for another thread" % (c["tok"], pc["tok"]))
                        else:
                            bad.append("input-free Async provider %s is sequenced after %s, which has inputs" % (c["tok"], pc["tok"]))
    return bad

def check_goroutine_heads(P):
    """a goroutine never starts with a synchronous provider (Tier 2 fact used by buildStmts' dead branch)"""
    bad = []
    for t, th in enumerate(P["threads"][1:], 1):
        if not th:
            bad.append("empty goroutine %d" % t)
    return bad

def simulate_overlap(P):
    """C05 existential half, executed: run every thread up to (and into) its input-free Async call without
    passing any wait; returns the set of such calls that can be inside simultaneously"""
    inside = []
    for t, th in enumerate(P["threads"]):
        for i, c in enumerate(th):
            if c["isasync"] and not c["args"] and c["kind"] == "P":
                ok = all(not any(a["kind"] == "v" and a["wait"] for a in pc["args"]) and not pc["isasync"] for pc in th[:i])
                if ok:
                    inside.append(c["tok"])
                break
    return inside

def suppliers(ret, provs):
    """reference supplier map, written from the property statement: type key -> ('P', decl, group) |
    ('F', struct decl, field name)"""
    sup = {}
    for i, p in enumerate(provs):
        if p['kind'] == 0:
            for gi, g in enumerate(p['groups']):
                for t in g:
                    sup.setdefault(t, ('P', i, gi))
    for i, p in enumerate(provs):
        if p['kind'] == 1:
            for fname, ft in p['fields']:
                sup.setdefault(ft, ('F', i, fname))
    return sup

def needed(ret, provs, sup):
    """providers (and field reads) reachable from the requested type through the supplier map"""
    need, args, todo, seen = set(), [], [ret], set()
    while todo:
        t = todo.pop(0)
        if t in seen:
            continue
        seen.add(t)
        if t not in sup:
            args.append(t)
            continue
        s = sup[t]
        key = (s[0], s[1]) if s[0] == 'P' else s
        if key in need:
            continue
        need.add(key)
        if s[0] == 'P':
            todo += provs[s[1]]['req']
        else:
            todo.append(provs[s[1]]['sty'])
    return need, args

def check_values(P, ret, provs):
    """C02 at the level of Herbrand terms: every needed provider is called exactly once, unneeded ones
    never, every argument slot is fed by the supplier of its type, the result is the supplier of the
    requested type"""
    bad = []
    sup = suppliers(ret, provs)
    need, argtypes = needed(ret, provs, sup)
    by_node = {}
    calls = {}
    for th in P["threads"]:
        for c in th:
            by_node[c["node"]] = c
            key = ('P', c["decl"]) if c["kind"] == "P" else ('F', c["decl"], c["field"])
            calls[key] = calls.get(key, 0) + 1
    for k in need:
        if calls.get(k, 0) != 1:
            bad.append("needed %s is invoked %d times (want exactly once)" % (k, calls.get(k, 0)))
    for k, n in calls.items():
        if k not in need:
            bad.append("%s is invoked although the requested type does not need it" % (k,))
    def source_of(a):
        if a["kind"] == "a":
            return ('A', a["ty"])
        pc = by_node.get(a["node"])
        if pc is None:
            return ('?',)
        return ('P', pc["decl"], a["group"]) if pc["kind"] == "P" else ('F', pc["decl"], pc["field"])
    def want(t):
        return sup[t] if t in sup else ('A', t)
    for th in P["threads"]:
        for c in th:
            reqs = provs[c["decl"]]['req'] if c["kind"] == "P" else [provs[c["decl"]]['sty']]
            if len(reqs) != len(c["args"]):
                bad.append("%s is called with %d arguments, its provider takes %d" % (c["tok"], len(c["args"]), len(reqs)))
                continue
            for k, (t, a) in enumerate(zip(reqs, c["args"])):
                if source_of(a) != want(t):
                    bad.append("%s: argument %d (type key %d) is fed by %s, the declaration selects %s" % (c["tok"], k, t, source_of(a), want(t)))
    m = re.match(r"v(\d+)\.(\d+)", P["ret"])
    if m:
        got = source_of(dict(kind="v", node=int(m.group(1)), group=int(m.group(2))))
    else:
        m2 = re.match(r"a(\d+):(\d+)", P["ret"])
        got = ('A', int(m2.group(2))) if m2 else ('?',)
    if got != want(ret):
        bad.append("the injector returns %s, the declaration selects %s" % (got, want(ret)))
    return bad

def spec_signature(ret, provs):
    """C10, written from the statement: parameters = unsupplied types required by a needed provider (or
    the requested type), each once; context.Context (key 0) first iff a needed provider is Async (present
    iff that or it is itself unsupplied); error iff a needed provider is fallible"""
    sup = suppliers(ret, provs)
    need, argtypes = needed(ret, provs, sup)
    asy = any(provs[k[1]]['a'] for k in need if k[0] == 'P')
    # a field read inherits nothing: Struct(...) providers are never async/fallible themselves
    err = any(provs[k[1]]['e'] for k in need if k[0] == 'P')
    params = set(argtypes)
    if asy:
        params.add(0)
    return dict(params=params, ctx_first=asy, err=err)

def check_signature(P, ret, provs):
    bad = []
    sp = spec_signature(ret, provs)
    if sorted(P["args"]) != sorted(sp["params"]):
        bad.append("parameters %s, the declaration requires exactly %s (each once)" % (P["args"], sorted(sp["params"])))
    if sp["ctx_first"] and (not P["args"] or P["args"][0] != 0):
        bad.append("a needed provider is Async but context.Context is not the first parameter: %s" % P["args"])
    if P["err"] != sp["err"]:
        bad.append("error result = %s, the declaration requires %s" % (P["err"], sp["err"]))
    return bad

def classify(ret, provs):
    """C09 reference, written from the statement: which of the three refusal causes a declaration has"""
    defects = set()
    sup = {}
    def add(t, who):
        if t in sup and sup[t] != who:
            defects.add("dup")
        sup.setdefault(t, who)
    for i, p in enumerate(provs):
        if p['kind'] == 0:
            for g in p['groups']:
                for t in g:
                    add(t, ('P', i))
    # an expanded struct needs a source: a function provider, or a field of another expanded struct - in whatever
    # order the Struct providers are written (the statement speaks of the declaration, not of its order)
    for i, p in enumerate(provs):
        if p['kind'] == 1:
            for fname, ft in p['fields']:
                add(ft, ('F', i, fname))
    for i, p in enumerate(provs):
        if p['kind'] == 1 and p['sty'] not in sup:
            defects.add("orphan")
    # reachable cycle
    s2 = suppliers(ret, provs)
    color = {}
    def reqs_of(k):
        return provs[k[1]]['req'] if k[0] == 'P' else [provs[k[1]]['sty']]
    def key_of(t):
        s = s2.get(t)
        if s is None:
            return None
        return ('P', s[1]) if s[0] == 'P' else s
    def dfs(k):
        color[k] = 1
        for t in reqs_of(k):
            k2 = key_of(t)
            if k2 is None:
                continue
            if color.get(k2, 0) == 1:
                return True
            if color.get(k2, 0) == 0 and dfs(k2):
                return True
        color[k] = 2
        return False
    k0 = key_of(ret)
    if k0 is not None and "dup" not in defects and "orphan" not in defects:
        import sys
        sys.setrecursionlimit(10000)
        if dfs(k0):
            defects.add("cycle")
    return defects, (ret in s2)

# ------------------------------------------------------------------------------------------------ E dumps

ECALL = re.compile(r"^([PF][\w.?]*)\((.*?)\)->\((.*?)\)(!?)(.*)$")

def parse_ecall(tok):
    m = ECALL.match(tok)
    if not m:
        raise ValueError("bad e-call token %r" % tok)
    head, args, rets, bang, rest = m.groups()
    A = []
    for a in [x for x in args.split(",") if x]:
        val, _, kind = a.partition("^")
        A.append(dict(val=val, wait=kind))
    Rs = [dict(used=r.startswith("r"), chan=r.endswith("c")) for r in rets.split(",") if r]
    return dict(head=head, args=A, rets=Rs, fallible=bang == "!", odd=rest, tok=tok)

def parse_edump(line):
    if not line.startswith("OK "):
        return None
    m = re.match(r"^OK err=(\w+) args=\[(.*?)\] main=\[(.*?)\] go=\[(.*?)\] ret=(\S+) egwait=(\w+)(.*)$", line)
    if not m:
        raise ValueError("bad e-dump line %r" % line)
    err, args, main, go, ret, eg, rest = m.groups()
    threads = [[parse_ecall(t) for t in main.split()]]
    if go.strip():
        for g in go.split("|"):
            threads.append([parse_ecall(t) for t in g.split()])
    return dict(err=err == "true", args=[int(x) for x in args.split(",") if x.strip()], threads=threads, ret=ret, egwait=eg, odd=rest.strip())

def k_conditions(E):
    """the decidable side conditions that are false of current output and define the known findings"""
    main, gos = E["threads"][0], E["threads"][1:]
    main_ctx_wait = any(a["wait"].startswith("W") for c in main for a in c["args"])
    go_fallible = any(c["fallible"] for th in gos for c in th)
    go_wait = any(a["wait"] for th in gos for c in th for a in c["args"])
    main_fallible_with_chan = any(c["fallible"] for c in main) and bool(gos)
    return dict(K6=main_ctx_wait and go_fallible,            # main ctx-aware wait + fallible goroutine call
                K7=(not E["err"]) and go_wait,                 # no error result + a goroutine that waits
                K8=main_fallible_with_chan and go_wait)        # main-thread fallible call + goroutine waits

def defect_types(ret, provs):
    """type keys a diagnostic should name, per refusal cause (C09)"""
    out = {"dup": set(), "orphan": set(), "cycle": set()}
    sup = {}
    def add(t, who):
        if t in sup and sup[t] != who:
            out["dup"].add(t)
        sup.setdefault(t, who)
    for i, p in enumerate(provs):
        if p['kind'] == 0:
            for g in p['groups']:
                for t in g:
                    add(t, ('P', i))
    for i, p in enumerate(provs):
        if p['kind'] == 1:
            if p['sty'] not in sup:
                out["orphan"].add(p['sty'])
            for fname, ft in p['fields']:
                add(ft, ('F', i, fname))
    s2 = suppliers(ret, provs)
    # types whose supplier can reach itself
    def key_of(t):
        s = s2.get(t)
        return None if s is None else (('P', s[1]) if s[0] == 'P' else s)
    def reqs_of(k):
        return provs[k[1]]['req'] if k[0] == 'P' else [provs[k[1]]['sty']]
    keys = set(k for k in (key_of(t) for t in s2) if k)
    reach = {k: set() for k in keys}
    for k in keys:
        todo = [k]
        while todo:
            u = todo.pop()
            for t in reqs_of(u):
                v = key_of(t)
                if v is not None and v not in reach[k]:
                    reach[k].add(v); todo.append(v)
    for t in s2:
        k = key_of(t)
        if k in reach.get(k, ()):
            out["cycle"].add(t)
    return out
