"""Seeded generator and renderer of google/wire configurations (C13/C14): provider functions, NewSet with nesting
and set references, Bind, Value, InterfaceValue, Struct, FieldsOf, Build with or without error, 1..n files."""
import os

KINDS = ["fn", "fn", "fn", "fnerr", "bind", "value", "ivalue", "struct", "arg", "fieldsof"]

# wire.Value of a package-level constant: (type as consumers see it, declaration, printed value)
CONSTS = [("uint16", "const k%d uint16 = 8080", "8080"), ("int64", "const k%d int64 = 1 << 40", "1099511627776"), ("float32", "const k%d float32 = 1.5", "1.5"),
          ("rune", "const k%d rune = 'x'", "120"), ("Port", "const k%d Port = 443", "443"), ("int", "const k%d = 7", "7"), ("uint8", "const k%d byte = 9", "9")]

def gen_cfg(rng, profile="faithful"):
    """a tree-shaped dependency structure below the root type T0.
    profile 'faithful': only forms the migration is meant to preserve (constructors literally named New<T>, pointer
    forms of Struct / FieldsOf); 'any': also forms known to be migrated unfaithfully (for the known findings)."""
    n = rng.randint(2, 7)
    nodes = [dict(id=0, kind="fn", deps=[], name_style="New", err=rng.chance(0.3))]
    for i in range(1, n):
        parent = rng.randint(0, i - 1)
        while nodes[parent]["kind"] not in ("fn", "fnerr", "bind", "struct"):
            parent = rng.randint(0, i - 1) if rng.chance(0.7) else 0
        k = rng.choice(KINDS)
        nd = dict(id=i, kind=k, deps=[], name_style="New", err=(k == "fnerr"), form="ptr")
        if profile == "any":
            if k == "bind" and rng.chance(0.4):
                nd["name_style"] = rng.choice(["Provide", "Make"])
                nd["decoy"] = rng.chance(0.5)          # an unrelated function literally named New<T> exists
            elif k == "bind" and rng.chance(0.6):
                nd["apart"] = True                     # the provider sits in another element list than its wire.Bind
            if k in ("struct", "fieldsof") and rng.chance(0.4):
                nd["form"] = "value"
        if k in ("fn", "fnerr") and rng.chance(0.3):
            nd["name_style"] = rng.choice(["Provide", "Make"])      # harmless for plain providers
        if k in ("fn", "fnerr", "bind") and rng.chance(0.15):
            nd["selfarg"] = True               # the constructor of *T<i> also takes a T<i> by value, which is an injector argument
        if k == "arg" and rng.chance(0.3):
            nd["form"] = "value"               # the injector takes T<i> by value (its term stays empty: unexported field)
        if k == "struct" and nd.get("form", "ptr") == "ptr" and rng.chance(0.35):
            nd["helper"] = True                # a provider next to the Struct that takes the struct by value and is not needed by the injector
        if k == "bind" and rng.chance(0.35):
            nd["second_iface"] = True          # a second interface J<i> bound to the same implementation; the consumer takes both
        if nodes[parent]["kind"] == "struct":
            nd.pop("second_iface", None)
        nodes[parent]["deps"].append(i)
        nodes.append(nd)
    # some values are package-level constants of predeclared / defined types (each type at most once per configuration)
    free = list(range(len(CONSTS)))
    for nd in nodes:
        if nd["kind"] == "value" and free and rng.chance(0.5):
            nd["const"] = free.pop(rng.randint(0, len(free) - 1))
    # a shared dependency now and then (DAG, not only a tree): only onto fn-like leaves
    for nd in nodes:
        if nd["kind"] in ("fn", "fnerr") and rng.chance(0.25):
            cands = [m["id"] for m in nodes if m["id"] > nd["id"] and m["kind"] in ("fn", "fnerr", "arg", "value") and m["id"] not in nd["deps"]]
            if cands:
                nd["deps"].append(rng.choice(cands))
    # group fieldsof nodes under config structs
    cfgs = []
    fo = [m for m in nodes if m["kind"] == "fieldsof"]
    while fo:
        take = fo[: rng.randint(1, 3)]; fo = fo[len(take):]
        form = take[0].get("form", "ptr")
        cfgs.append(dict(id=len(cfgs), fields=[m["id"] for m in take], form=form))
        for m in take:
            m["cfg"] = cfgs[-1]["id"]
    # sets: random nesting of the items
    cfg = dict(nodes=nodes, cfgs=cfgs, nfiles=rng.randint(1, 2), set_layout=rng.randint(0, 4), inj_err=None, seed_note=profile)
    if cfg["set_layout"] == 4:
        # inline sets nested three levels deep inside wire.Build; every Bind stays next to its provider
        for nd in nodes:
            nd.pop("apart", None)
    # a second injector in the same package, for the sub-graph below one provider (shares providers with the first;
    # a bound implementation is requested directly, so its provider is listed without the Bind)
    cfg["second"] = None
    cfg["second_first"] = False
    if rng.chance(0.5):
        cands = [nd["id"] for nd in nodes if nd["id"] != 0 and nd["kind"] in ("fn", "fnerr", "bind")
                 and not any(nodes[d]["kind"] == "fieldsof" for d in subtree(nodes, nd["id"]))]
        binds = [c for c in cands if nodes[c]["kind"] == "bind"]
        if cands:
            cfg["second"] = rng.choice(binds) if binds and rng.chance(0.6) else rng.choice(cands)
            cfg["second_first"] = rng.chance(0.3)
    return cfg

def subtree(nodes, r):
    seen, todo = [], [r]
    while todo:
        x = todo.pop()
        if x in seen:
            continue
        seen.append(x)
        todo.extend(nodes[x]["deps"])
    return sorted(seen)

def ctype(nd):
    """type under which consumers see node nd"""
    k = nd["kind"]
    i = nd["id"]
    if k in ("bind", "ivalue"):
        return "I%d" % i
    if k == "value":
        return CONSTS[nd["const"]][0] if "const" in nd else "T%d" % i
    if k == "struct":
        return ("*T%d" if nd.get("form", "ptr") == "ptr" else "T%d") % i
    if k == "arg" and nd.get("form") == "value":
        return "T%d" % i
    return "*T%d" % i

def term_expr(nd, var):
    return var + ".Term()"

def render(cfg, pkgname):
    """returns {filename: source}: types + providers (shared), wire.go files (wireinject tag)"""
    N = cfg["nodes"]
    src = ["package %s" % pkgname, "", 'import (', '\t"fmt"', "", '\t"e2e/rt"', ")", "", "var _ = fmt.Sprint", "", "type Port int", ""]
    def argterm(d, var):
        if "const" in N[d]:
            return 'fmt.Sprintf("K%d=%%v", %s)' % (d, var)
        return var + ".Term()"
    needs_err = any(nd["err"] for nd in N if nd["kind"] in ("fn", "fnerr", "bind"))
    for nd in N:
        i = nd["id"]
        fields = ""
        if nd["kind"] == "struct":
            fields = "".join("; F%d %s" % (d, ctype(N[d])) for d in nd["deps"])
            if nd["deps"] and cfg["set_layout"] % 2 == 1:
                # (explicit field list in the wire file) a further field whose name differs from a listed one only in
                # case and that is not listed: wire leaves it alone
                fields += "; f%d string" % nd["deps"][0]
        if nd["kind"] == "struct":
            src.append("type T%d struct { %s }" % (i, fields.lstrip("; ")))
        else:
            src.append("type T%d struct { t string }" % i)
        if nd["kind"] == "struct":
            terms = ' + "," + '.join(argterm(d, "x.F%d" % d) for d in nd["deps"]) or '""'
            src.append('func (x T%d) Term() string { return "S%d{" + %s + "}" }' % (i, i, terms))
        else:
            src.append("func (x T%d) Term() string { return x.t }" % i)
        if nd["kind"] == "arg":
            src.append("func (x *T%d) SetTerm(s string) { x.t = s }" % i)
        if nd["kind"] in ("bind", "ivalue"):
            src.append("type I%d interface { Term() string; M%d() }" % (i, i))
            src.append("func (x *T%d) M%d() {}" % (i, i))
        if nd.get("second_iface"):
            src.append("type J%d interface { Term() string; N%d() }" % (i, i))
            src.append("func (x *T%d) N%d() {}" % (i, i))
    for c in cfg["cfgs"]:
        fs = "; ".join("F%d %s" % (f, ctype(N[f])) for f in c["fields"])
        src.append("type C%d struct { %s }" % (c["id"], fs))
        inits = ", ".join('F%d: &T%d{t: "C%d.F%d"}' % (f, f, c["id"], f) for f in c["fields"])
        if c["form"] == "ptr":
            src.append('func NewC%d() *C%d { rt.Enter("NewC%d"); rt.Exit("NewC%d"); return &C%d{%s} }' % (c["id"], c["id"], c["id"], c["id"], c["id"], inits))
        else:
            src.append('func NewC%d() C%d { rt.Enter("NewC%d"); rt.Exit("NewC%d"); return C%d{%s} }' % (c["id"], c["id"], c["id"], c["id"], c["id"], inits))
    def fname(nd):
        return "%sT%d" % (nd["name_style"], nd["id"])
    for nd in N:
        i = nd["id"]
        if nd["kind"] in ("fn", "fnerr", "bind"):
            params = ", ".join((["s%d T%d" % (i, i)] if nd.get("selfarg") else []) + ["a%d %s" % (d, ctype(N[d])) for d in nd["deps"]] + ["j%d J%d" % (d, d) for d in nd["deps"] if N[d].get("second_iface")])
            args = ' + "," + '.join(argterm(d, "a%d" % d) for d in nd["deps"]) or '""'
            ret = "(*T%d, error)" % i if nd["err"] else "*T%d" % i
            body = 'rt.Enter("%s"); ' % fname(nd)
            if nd["err"]:
                body += 'if err := rt.Fail("%s"); err != nil { return nil, err }; ' % fname(nd)
            body += 'rt.Exit("%s"); return &T%d{t: "P%d(" + %s + ")"}%s' % (fname(nd), i, i, args, ", nil" if nd["err"] else "")
            src.append("func %s(%s) %s { %s }" % (fname(nd), params, ret, body))
            if nd.get("decoy"):
                src.append('func NewT%d(s string, n int) *T%d { rt.Enter("DecoyNewT%d"); return &T%d{t: "DECOY%d"} }' % (i, i, i, i, i))
        if nd["kind"] == "ivalue":
            src.append('var iv%d = &T%d{t: "IV%d"}' % (i, i, i))
        if "const" in nd:
            src.append(CONSTS[nd["const"]][1] % i)
        if nd.get("helper"):
            src.append("type H%d struct{}" % i)
            src.append('func HelpT%d(v T%d) *H%d { rt.Enter("HelpT%d"); return &H%d{} }' % (i, i, i, i, i))
    files = {"types.go": "\n".join(src) + "\n"}
    # ---- wire items
    def item(nd):
        i = nd["id"]
        k = nd["kind"]
        if k in ("fn", "fnerr"):
            return [fname(nd)]
        if k == "bind":
            return [fname(nd), "wire.Bind(new(I%d), new(*T%d))" % (i, i)] + (["wire.Bind(new(J%d), new(*T%d))" % (i, i)] if nd.get("second_iface") else [])
        if k == "value":
            return ['wire.Value(k%d)' % i] if "const" in nd else ['wire.Value(T%d{t: "V%d"})' % (i, i)]
        if k == "ivalue":
            return ["wire.InterfaceValue(new(I%d), iv%d)" % (i, i)]
        if k == "struct":
            extra = ["HelpT%d" % i] if (nd.get("helper") and cfg["set_layout"] != 0) else []
            if not nd["deps"] or cfg["set_layout"] % 2 == 0:
                return ['wire.Struct(new(T%d), "*")' % i] + extra
            return ["wire.Struct(new(T%d), %s)" % (i, ", ".join('"F%d"' % d for d in nd["deps"]))] + extra
        return []
    items = []
    tail = []
    for nd in N:
        its = item(nd)
        if nd["kind"] == "bind" and nd.get("apart") and cfg["set_layout"] != 0:
            items.insert(0, (("f", nd["id"]), its[:1]))       # the provider first (ends up in the first set) ...
            tail.append((("b", nd["id"]), its[1:]))           # ... its Bind last (in the other element list)
        else:
            items.append((nd["id"], its))
    for c in cfg["cfgs"]:
        tgt = "new(*C%d)" if c["form"] == "ptr" else "new(C%d)"
        its = ["NewC%d" % c["id"]]
        if cfg["set_layout"] == 3 and len(c["fields"]) > 1:
            # two FieldsOf directives on the same struct (merged by migrate)
            its.append("wire.FieldsOf(%s, %s)" % (tgt % c["id"], '"F%d"' % c["fields"][0]))
            its.append("wire.FieldsOf(%s, %s)" % (tgt % c["id"], ", ".join('"F%d"' % f for f in c["fields"][1:])))
        else:
            its.append("wire.FieldsOf(%s, %s)" % (tgt % c["id"], ", ".join('"F%d"' % f for f in c["fields"])))
        items.append((-1 - c["id"], its))
    items += tail
    flat = [x for _, its in items for x in its]
    args = [nd for nd in N if nd["kind"] == "arg"]
    # value-form struct providers need the struct itself when consumed by value: handled by wire (provides T and *T)
    inj_err = any(nd["err"] for nd in N)
    root_ret = "(*T0, error)" if inj_err else "*T0"
    root_zero = "nil, nil" if inj_err else "nil"
    def plist(nodes_):
        return ", ".join(("a%d %s" % (nd["id"], ctype(nd))) if nd["kind"] == "arg" else ("s%d T%d" % (nd["id"], nd["id"])) for nd in nodes_)
    args = [nd for nd in N if nd["kind"] == "arg" or nd.get("selfarg")]
    params = plist(args)
    layout = cfg["set_layout"]
    wire_files = {}
    hdr = "//go:build wireinject\n\npackage %s\n\nimport \"github.com/google/wire\"\n\n" % pkgname
    shdr = "package %s\n\nimport \"github.com/google/wire\"\n\n" % pkgname
    if layout == 0 or len(flat) < 3:
        body = "func Init(%s) %s {\n\twire.Build(%s)\n\treturn %s\n}\n" % (params, root_ret, ", ".join(flat), root_zero)
        wire_files["wire.go"] = hdr + body
    else:
        half = len(items) // 2
        a = [x for _, its in items[:half] for x in its]
        b = [x for _, its in items[half:] for x in its]
        cfg["_first_list"] = [k for k, _ in items[:half]]     # which entries went into the first element list
        if layout == 4:
            third = max(1, len(items) // 3)
            c1 = [x for _, its in items[:third] for x in its]
            c2 = [x for _, its in items[third:2 * third] for x in its]
            c3 = [x for _, its in items[2 * third:] for x in its]
            cfg["_first_list"] = None
            inner = "wire.NewSet(%s)" % ", ".join(c3)
            mid = "wire.NewSet(%s)" % ", ".join(c2 + [inner])
            body = "func Init(%s) %s {\n\twire.Build(%s)\n\treturn %s\n}\n" % (params, root_ret, ", ".join(c1 + [mid]), root_zero)
            wire_files["wire.go"] = hdr + body
        elif layout == 1:
            # set reference + inline nested set
            s = "var SetA = wire.NewSet(%s)\n\n" % ", ".join(a) if a else ""
            build = (["SetA"] if a else []) + ["wire.NewSet(%s)" % ", ".join(b)]
            body = "func Init(%s) %s {\n\twire.Build(%s)\n\treturn %s\n}\n" % (params, root_ret, ", ".join(build), root_zero)
            if s:
                wire_files["sets.go"] = shdr + s
            wire_files["wire.go"] = hdr + body
        else:
            # two files: sets in one, injector in the other; SetB references SetA
            s1 = "var SetA = wire.NewSet(%s)\n" % ", ".join(a) if a else ""
            s2 = "var SetB = wire.NewSet(%s%s)\n\n" % ("SetA, " if a else "", ", ".join(b))
            body = "func Init(%s) %s {\n\twire.Build(SetB)\n\treturn %s\n}\n" % (params, root_ret, root_zero)
            if cfg["nfiles"] == 2 and s1:
                wire_files["sets_a.go"] = shdr + s1
                wire_files["sets_b.go"] = shdr + s2
            else:
                wire_files["sets.go"] = shdr + s1 + s2
            wire_files["wire.go"] = hdr + body
    if cfg.get("second") is not None:
        r = cfg["second"]
        sub = subtree(N, r)
        its2 = []
        for i in sub:
            it = item(N[i])
            if i == r and N[i]["kind"] == "bind":
                it = it[:1]                      # requested as *T directly: the binding would be unused
            its2.extend(it)
        args2 = [N[i] for i in sub if N[i]["kind"] == "arg" or N[i].get("selfarg")]
        err2 = any(N[i]["err"] for i in sub)
        ret2 = "(*T%d, error)" % r if err2 else "*T%d" % r
        body2 = "func Init2(%s) %s {\n\twire.Build(%s)\n\treturn %s\n}\n" % (
            plist(args2), ret2, ", ".join(its2), "nil, nil" if err2 else "nil")
        w = wire_files["wire.go"]
        if cfg.get("second_first"):
            k = w.index("func Init(")
            wire_files["wire.go"] = w[:k] + body2 + "\n" + w[k:]
        else:
            wire_files["wire.go"] = w + "\n" + body2
    files.update(wire_files)
    return files, dict(args=[nd["id"] for nd in args], inj_err=inj_err, wire_files=sorted(wire_files), second=cfg.get("second"))

def expected_term(cfg, root=0):
    """reference: what google/wire's injector computes (written from wire's documented resolution)"""
    N = cfg["nodes"]
    def term(i):
        nd = N[i]
        k = nd["kind"]
        if k in ("fn", "fnerr", "bind"):
            return "P%d(%s)" % (i, ",".join(term(d) for d in nd["deps"]))
        if k == "value":
            return "K%d=%s" % (i, CONSTS[nd["const"]][2]) if "const" in nd else "V%d" % i
        if k == "ivalue":
            return "IV%d" % i
        if k == "struct":
            return "S%d{%s}" % (i, ",".join(term(d) for d in nd["deps"]))
        if k == "arg":
            return "A%d" % i if nd.get("form") != "value" else ""
        if k == "fieldsof":
            return "C%d.F%d" % (nd["cfg"], i)
    return term(root)

def describe(cfg):
    N = cfg["nodes"]
    return " ".join("%d:%s%s%s(%s)" % (nd["id"], nd["kind"], "" if nd["name_style"] == "New" else "/" + nd["name_style"],
                                        ("/value" if nd.get("form") == "value" else "") + ("/const-%s" % CONSTS[nd["const"]][0] if "const" in nd else "") + ("/apart" if nd.get("apart") else "") + ("/2ifaces" if nd.get("second_iface") else "") + ("/selfarg" if nd.get("selfarg") else "") + ("/helper" if nd.get("helper") else ""), ",".join(map(str, nd["deps"]))) for nd in N) + \
        " layout=%d files=%d" % (cfg["set_layout"], cfg["nfiles"]) + \
        ("" if cfg.get("second") is None else " second=%d%s" % (cfg["second"], "(first)" if cfg.get("second_first") else ""))


def encode(cfg, root=0):
    """the configuration in the line format of the Lean wire/migrate model (Driver.lean, `W` lines);
    root != 0: the second injector (sub-graph below `root`, requested as *T<root>, root's own Bind left out)"""
    N = cfg["nodes"]
    keep = set(subtree(N, root)) if root else None
    def ty(nd):
        c = ctype(nd)
        if c.startswith("I"):
            return "i%d" % nd["id"]
        if c.startswith("*"):
            return "p%d" % nd["id"]
        return "v%d" % nd["id"]
    items, pkg, args = [], [], []
    parts = []
    first = cfg.get("_first_list") if (not root and cfg.get("set_layout", 0) != 0) else None
    def part(key):
        if first is None:
            return 0
        return 1 if key in first else 2
    for nd in N:
        i, k = nd["id"], nd["kind"]
        if keep is not None and i not in keep:
            if k in ("fn", "fnerr", "bind"):
                name = (1000 + i) if nd["name_style"] == "New" else (5000 + i)
                pkg.append("%d p%d : %s" % (name, i, " ".join((["v%d" % i] if nd.get("selfarg") else []) + [ty(N[d]) for d in nd["deps"]])))
                if nd.get("decoy"):
                    pkg.append("%d p%d : b0 b1" % (1000 + i, i))
            continue
        if k in ("fn", "fnerr", "bind"):
            name = (1000 + i) if nd["name_style"] == "New" else (5000 + i)
            f = "%d p%d : %s" % (name, i, " ".join((["v%d" % i] if nd.get("selfarg") else []) + [ty(N[d]) for d in nd["deps"]] + ["i%d" % (500 + d) for d in nd["deps"] if N[d].get("second_iface")]))
            if nd.get("selfarg"):
                args.append("v%d" % i)
            apart = k == "bind" and nd.get("apart") and cfg.get("set_layout", 0) != 0
            items.append("f " + f); pkg.append(f); parts.append(part(("f", i) if apart else i))
            if k == "bind" and not (root and i == root):
                items.append("b %d p%d" % (i, i)); parts.append(part(("b", i) if apart else i))
                if nd.get("second_iface"):
                    items.append("b %d p%d" % (500 + i, i)); parts.append(part(("b", i) if apart else i))
            if nd.get("decoy"):
                pkg.append("%d p%d : b0 b1" % (1000 + i, i))
        elif k == "value":
            f = "%d v%d :" % (6000 + i, i); items.append("f " + f); pkg.append(f); parts.append(part(i))
        elif k == "ivalue":
            f = "%d i%d :" % (7000 + i, i); items.append("f " + f); pkg.append(f); parts.append(part(i))
        elif k == "struct":
            items.append("s %d : %s" % (i, " ".join(ty(N[d]) for d in nd["deps"]))); parts.append(part(i))
            if nd.get("helper") and cfg.get("set_layout", 0) != 0 and not root:
                f = "%d p%d : v%d" % (9000 + i, 900 + i, i)
                items.append("f " + f); pkg.append(f); parts.append(part(i))
        elif k == "arg":
            args.append(("v%d" if nd.get("form") == "value" else "p%d") % i)
    for c in cfg["cfgs"]:
        if keep is not None:
            continue
        t = 100 + c["id"]
        f = "%d %s%d :" % (8000 + c["id"], "p" if c["form"] == "ptr" else "v", t)
        items.append("f " + f); pkg.append(f); parts.append(part(-1 - c["id"]))
        items.append("o %d %d : %s" % (t, 1 if c["form"] == "ptr" else 0, " ".join("p%d" % j for j in c["fields"]))); parts.append(part(-1 - c["id"]))
    return "ret p%d | args %s | pkg %s | items %s | parts %s" % (root, " ".join(args), " ; ".join(pkg), " ; ".join(items), " ".join(map(str, parts)))
