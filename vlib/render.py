"""Render abstract declarations into a scratch Go module: user package `p` with instrumented providers and
kessoku.Inject declarations, a tiny runtime package `rt` (event log, delays, failures, cancellation), and a
reflective runner `cmd/run` that calls any generated injector and reports what happened."""
import os, shutil
from . import common as C
from .declgen import parse_decl

RT_GO = r'''// Package rt: instrumentation used by rendered providers (event log, gates, failures).
package rt

import (
	"context"
	"errors"
	"fmt"
	"sync"
	"time"
)

type Event struct {
	Kind string // enter | exit | fail
	ID   string
	Seq  int
}

type Spec struct {
	Fail     map[string]bool  // provider id -> return an error
	DelayIn  map[string]int   // ms slept inside the provider before returning
	CancelOn string           // "enter:<id>" | "exit:<id>" | "before" | ""
	Hold     map[string]string // provider id -> "enter:<other>" : stay inside until that event happened
}

var (
	mu     sync.Mutex
	events []Event
	spec   Spec
	cancel context.CancelFunc
	cond   = sync.NewCond(&mu)
)

func Reset(s Spec, c context.CancelFunc) {
	mu.Lock()
	events = nil
	spec = s
	cancel = c
	mu.Unlock()
}

func Events() []Event {
	mu.Lock()
	defer mu.Unlock()
	return append([]Event(nil), events...)
}

func happened(key string) bool {
	for _, e := range events {
		if e.Kind+":"+e.ID == key {
			return true
		}
	}
	return false
}

func record(kind, id string) {
	mu.Lock()
	events = append(events, Event{kind, id, len(events)})
	key := kind + ":" + id
	c := cancel
	fire := spec.CancelOn == key
	cond.Broadcast()
	mu.Unlock()
	if fire && c != nil {
		c()
	}
}

// Enter is called first thing in a provider.
func Enter(id string) {
	record("enter", id)
	mu.Lock()
	hold := spec.Hold[id]
	d := spec.DelayIn[id]
	if hold != "" {
		deadline := time.Now().Add(2 * time.Second)
		for !happened(hold) && time.Now().Before(deadline) {
			mu.Unlock()
			time.Sleep(time.Millisecond)
			mu.Lock()
		}
	}
	mu.Unlock()
	if d > 0 {
		time.Sleep(time.Duration(d) * time.Millisecond)
	}
}

// Exit is called when a provider returns successfully.
func Exit(id string) { record("exit", id) }

// Fail reports whether the provider must fail; the failure is logged.
func Fail(id string) error {
	mu.Lock()
	f := spec.Fail[id]
	mu.Unlock()
	if f {
		record("fail", id)
		return &ProvErr{ID: id}
	}
	return nil
}

// FailCtx is what a provider that honours its context returns once the context is done: its own error
// (logged as a failure of that provider), as a dialer would wrap ctx.Err().
func FailCtx(id string) error {
	record("fail", id)
	return &ProvErr{ID: id}
}

// Err is an alias of error: provider signatures may spell their error result through it.
type Err = error

type ProvErr struct{ ID string }

func (e *ProvErr) Error() string { return "provider-failed:" + e.ID }

func IsProvErr(err error) (string, bool) {
	var pe *ProvErr
	if errors.As(err, &pe) {
		return pe.ID, true
	}
	return "", false
}

func Describe(err error) string {
	if err == nil {
		return ""
	}
	if id, ok := IsProvErr(err); ok {
		return "prov:" + id
	}
	if errors.Is(err, context.Canceled) {
		return "ctx:canceled"
	}
	if errors.Is(err, context.DeadlineExceeded) {
		return "ctx:deadline"
	}
	return fmt.Sprintf("other:%v", err)
}
'''

RUN_GO = r'''// Reflective runner: calls generated injectors of package p under a spec and prints one JSON line per run.
package main

import (
	"bufio"
	"context"
	"encoding/json"
	"fmt"
	"os"
	"reflect"
	"regexp"
	"runtime"
	"strings"
	"time"

	"e2e/p"
	"e2e/rt"
)

type Req struct {
	Name     string
	Fail     map[string]bool
	DelayIn  map[string]int
	CancelOn string
	Hold     map[string]string
	Timeout  int
}

type Res struct {
	Name      string
	Returned  bool
	Term      string
	IsZero    bool
	Err       string
	Events    []rt.Event
	Leaked    int
	LeakedAt  []string
	Goroutines int
	Panic     string
}

var reTy = regexp.MustCompile(`^D\d+T(\d+)$`)

func main() {
	sc := bufio.NewScanner(os.Stdin)
	sc.Buffer(make([]byte, 1<<20), 1<<20)
	out := bufio.NewWriter(os.Stdout)
	defer out.Flush()
	ctxT := reflect.TypeOf((*context.Context)(nil)).Elem()
	errT := reflect.TypeOf((*error)(nil)).Elem()
	for sc.Scan() {
		var rq Req
		if err := json.Unmarshal(sc.Bytes(), &rq); err != nil {
			continue
		}
		fn, ok := p.Injectors[rq.Name]
		res := Res{Name: rq.Name}
		if !ok {
			res.Panic = "no such injector"
			b, _ := json.Marshal(res)
			fmt.Fprintln(out, string(b))
			out.Flush()
			continue
		}
		ctx, cancel := context.WithCancel(context.Background())
		rt.Reset(rt.Spec{Fail: rq.Fail, DelayIn: rq.DelayIn, CancelOn: rq.CancelOn, Hold: rq.Hold}, cancel)
		if rq.CancelOn == "before" {
			cancel()
		}
		fv := reflect.ValueOf(fn)
		ft := fv.Type()
		args := make([]reflect.Value, ft.NumIn())
		for i := 0; i < ft.NumIn(); i++ {
			it := ft.In(i)
			if it == ctxT {
				args[i] = reflect.ValueOf(ctx)
				continue
			}
			m := reTy.FindStringSubmatch(it.Name())
			term := "A?"
			if m != nil {
				term = "A" + m[1]
			}
			args[i] = reflect.ValueOf(p.Mk[it.Name()](term))
		}
		before := runtime.NumGoroutine()
		done := make(chan []reflect.Value, 1)
		go func() {
			defer func() {
				if r := recover(); r != nil {
					res.Panic = fmt.Sprint(r)
					done <- nil
				}
			}()
			done <- fv.Call(args)
		}()
		to := rq.Timeout
		if to == 0 {
			to = 3000
		}
		select {
		case outs := <-done:
			res.Returned = outs != nil
			if outs != nil {
				if t, ok := outs[0].Interface().(interface{ Term() string }); ok {
					res.Term = t.Term()
				}
				res.IsZero = outs[0].IsZero()
				if len(outs) == 2 && ft.Out(1) == errT && !outs[1].IsNil() {
					res.Err = rt.Describe(outs[1].Interface().(error))
				}
			}
		case <-time.After(time.Duration(to) * time.Millisecond):
			res.Returned = false
		}
		// goroutines of the injector still alive after a grace period, without any further action by the caller
		deadline := time.Now().Add(300 * time.Millisecond)
		for {
			buf := make([]byte, 1<<20)
			n := runtime.Stack(buf, true)
			leaked := 0
			var at []string
			for _, g := range strings.Split(string(buf[:n]), "\n\n") {
				if strings.Contains(g, "e2e/p."+rq.Name) && !strings.Contains(g, "main.main.func") {
					leaked++
					first := strings.SplitN(g, "\n", 2)[0]
					at = append(at, first)
				}
			}
			// a goroutine that has not been scheduled yet shows no frame of the injector, so the verdict "none left" is
			// taken from the goroutine count (which includes unstarted ones); the stack scan only names the survivors
			extra := runtime.NumGoroutine() - before
			res.Leaked, res.LeakedAt = leaked, at
			if extra <= 0 {
				res.Leaked, res.LeakedAt = 0, nil
				break
			}
			if time.Now().After(deadline) || !res.Returned {
				if res.Returned && extra > res.Leaked {
					res.Leaked = extra
				}
				break
			}
			time.Sleep(5 * time.Millisecond)
		}
		res.Goroutines = runtime.NumGoroutine() - before
		res.Events = rt.Events()
		cancel()
		b, _ := json.Marshal(res)
		fmt.Fprintln(out, string(b))
		out.Flush()
		if !res.Returned || res.Leaked > 0 {
			// a hung injector keeps goroutines forever: start the next request from a clean process
			out.Flush()
			os.Exit(3)
		}
	}
}
'''

def type_sets(ret, provs):
    types = set([ret]); structs = {}; ifaces = {}
    for p in provs:
        types.update(p['req'])
        for g in p['groups']:
            types.update(g)
            for extra in g[1:]:
                ifaces[extra] = g[0]
        if p['kind'] == 1:
            types.add(p['sty']); structs.setdefault(p['sty'], p['fields'])
            for _, ft in p['fields']:
                types.add(ft)
    types.discard(0)
    return types, structs, ifaces

def render_decl(k, line, rng=None, name=None, shared=None):
    """Go source lines for declaration number k (shared: list collecting declarations that go into another file of the
    package, e.g. Set variables the Inject declaration refers to)"""
    ret, provs = parse_decl(line)
    name = name or "Init%d" % k
    T = lambda t: "context.Context" if t == 0 else "D%dT%d" % (k, t)
    types, structs, ifaces = type_sets(ret, provs)
    src = []
    mk = []
    for t in sorted(types):
        if t in ifaces and t not in structs:
            src.append("type %s interface { Term() string; M%dx%d() }" % (T(t), k, t))
            continue
        fs = ""
        if t in structs:
            fs = "; " + "; ".join("%s %s" % (n, T(ft)) for n, ft in structs[t])
        src.append("type %s struct { t string%s }" % (T(t), fs))
        src.append("func (x %s) Term() string { return x.t }" % T(t))
        mk.append('\t"%s": func(s string) any { return %s{t: s} },' % (T(t), T(t)))
    for it, impl in ifaces.items():
        if impl not in ifaces:
            src.append("func (%s) M%dx%d() {}" % (T(impl), k, it))
    def term_of(arg, t):
        if t == 0:
            return '"A0"'
        if t in ifaces and t not in structs:
            return arg + ".Term()"
        return arg + ".t"
    def value_lit(t, term_expr):
        # construct a value of concrete type t carrying the term; struct types also fill their fields
        if t in structs:
            fl = ", ".join("%s: %s" % (n, value_lit(ft, '"F." + "%s" + "(" + %s + ")"' % (n, term_expr))) for n, ft in structs[t]
                           if not (ft in ifaces and ft not in structs))
            return "%s{t: %s%s}" % (T(t), term_expr, (", " + fl) if fl else "")
        return "%s{t: %s}" % (T(t), term_expr)
    exprs = []
    value_ids = set()
    for i, p in enumerate(provs):
        pid = "D%dP%d" % (k, i)
        if p['kind'] == 1:
            e = "kessoku.Struct[%s]()" % T(p['sty'])
        else:
            params = ", ".join("a%d %s" % (j, T(t)) for j, t in enumerate(p['req']))
            rets = [T(g[0]) for g in p['groups']]
            if p['e']:
                # the error result is sometimes spelled through an alias of error declared in another package
                rets.append("rt.Err" if (rng is not None and rng.chance(0.12)) else "error")
            argterms = ' + "," + '.join(term_of("a%d" % j, t) for j, t in enumerate(p['req'])) or '""'
            body = ['\trt.Enter("%s")' % pid]
            zeros = ", ".join(["%s{}" % T(g[0]) for g in p['groups']] + (["err"] if p['e'] else []))
            if p['e']:
                body.append('\tif err := rt.Fail("%s"); err != nil {\n\t\treturn %s\n\t}' % (pid, zeros))
                # a fallible provider that is handed the context honours it, as a dialer would
                for j, t in enumerate(p['req']):
                    if t == 0:
                        body.append('\tif a%d.Err() != nil {\n\t\terr := rt.FailCtx("%s")\n\t\treturn %s\n\t}' % (j, pid, zeros))
                        break
            body.append('\targs := %s' % argterms)
            vals = [value_lit(g[0], '"P%d.%d(" + args + ")"' % (i, gi)) for gi, g in enumerate(p['groups'])]
            body.append('\trt.Exit("%s")' % pid)
            body.append("\treturn " + ", ".join(vals + (["nil"] if p['e'] else [])))
            use_value = (rng is not None and not p['req'] and len(p['groups']) == 1 and len(p['groups'][0]) == 1
                         and not p['e'] and not p['a'] and rng.chance(0.3))
            if use_value:
                value_ids.add(i)
                e = "kessoku.Value(%s)" % value_lit(p['groups'][0][0], '"P%d.0()"' % i)
            else:
                src.append("func %s(%s) (%s) {\n%s\n}" % (pid, params, ", ".join(rets), "\n".join(body)))
                e = "kessoku.Provide(%s)" % pid
                # other spellings of the same provider: a function literal, a method value, an instance of a generic function
                form = rng.choice(["named"] * 7 + ["literal", "method", "generic"]) if rng is not None else "named"
                call = "%s(%s)" % (pid, ", ".join("a%d" % j for j in range(len(p['req']))))
                if form == "literal":
                    e = "kessoku.Provide(func(%s) (%s) { return %s })" % (params, ", ".join(rets), call)
                elif form == "method":
                    src.append("type %sRecv struct{}" % pid)
                    src.append("func (%sRecv) Make(%s) (%s) { return %s }" % (pid, params, ", ".join(rets), call))
                    src.append("var %sObj %sRecv" % (pid[0].lower() + pid[1:], pid))
                    e = "kessoku.Provide(%sObj.Make)" % (pid[0].lower() + pid[1:])
                elif form == "generic":
                    src.append("func %sG[X any](%s) (%s) { return %s }" % (pid, params, ", ".join(rets), call))
                    e = "kessoku.Provide(%sG[int])" % pid
            binds = [extra for g in p['groups'] for extra in g[1:]]
            # both nestings are legal: Async(Bind[I](Provide(f))) and Bind[I](Async(Provide(f)))
            inner_async = bool(p['a'] and binds and rng is not None and rng.chance(0.5))
            if inner_async:
                e = "kessoku.Async(%s)" % e
            for extra in binds:
                e = "kessoku.Bind[%s](%s)" % (T(extra), e)
            if p['a'] and not inner_async:
                e = "kessoku.Async(%s)" % e
            exprs.append(e)
            continue
        if p['a']:
            e = "kessoku.Async(%s)" % e
        exprs.append(e)
    # random Set nesting (inline sets and package-level set variables)
    pre = []
    if rng is not None and len(exprs) >= 2 and rng.chance(0.5):
        a = rng.randint(0, len(exprs) - 2); b = rng.randint(a + 1, len(exprs) - 1)
        inner = exprs[a:b + 1]
        if len(inner) >= 3 and rng.chance(0.4):
            inner = [inner[0], "kessoku.Set(%s)" % ", ".join(inner[1:])]
        if rng.chance(0.5):
            # a package-level Set variable; sometimes it refers to a second Set variable, and sometimes both live in
            # another file of the package
            target = shared if (shared is not None and rng.chance(0.5)) else pre
            if len(inner) >= 2 and rng.chance(0.4):
                target.append("var D%dS1 = kessoku.Set(\n\t%s,\n)" % (k, ",\n\t".join(inner[1:])))
                inner = [inner[0], "D%dS1" % k]
            target.append("var D%dS0 = kessoku.Set(\n\t%s,\n)" % (k, ",\n\t".join(inner)))
            exprs = exprs[:a] + ["D%dS0" % k] + exprs[b + 1:]
        else:
            exprs = exprs[:a] + ["kessoku.Set(%s)" % ", ".join(inner)] + exprs[b + 1:]
    src += pre
    src.append('var _ = kessoku.Inject[%s]("%s",\n%s\n)' % (T(ret), name, "\n".join("\t%s," % e for e in exprs)))
    return src, mk, value_ids

GOMOD = """module e2e

go 1.24.0

require (
	github.com/mazrean/kessoku v0.0.0
	golang.org/x/sync v0.19.0
)

replace github.com/mazrean/kessoku => %s
"""

class Module:
    """a scratch module under .cache/tmp with package p, rt and the runner"""
    def __init__(self, tag):
        self.root = os.path.join(C.CACHE, "tmp", "e2e_%s_%d" % (tag, os.getpid()))
        shutil.rmtree(self.root, ignore_errors=True)
        os.makedirs(os.path.join(self.root, "p"))
        os.makedirs(os.path.join(self.root, "rt"))
        os.makedirs(os.path.join(self.root, "cmd", "run"))
        open(os.path.join(self.root, "go.mod"), "w").write(GOMOD % C.REPO)
        shutil.copy(os.path.join(C.REPO, "go.sum"), os.path.join(self.root, "go.sum"))
        open(os.path.join(self.root, "rt", "rt.go"), "w").write(RT_GO)
        open(os.path.join(self.root, "cmd", "run", "main.go"), "w").write(RUN_GO)
        self.files = []
        self.value_ids = {}
        self.shared_sets = []
    def env(self):
        return {"GOFLAGS": "-mod=mod", "GOWORK": "off", "GOTOOLCHAIN": "go1.25.5"}
    def write_decls(self, decls, perfile=20, rng=None, start=0):
        """decls: list of (k, line). Returns the kessoku source files written."""
        files = []
        allmk = []
        names = []
        for fi in range(0, len(decls), perfile):
            src = ["package p", "", "import (", '\t"context"', '\t"e2e/rt"', '\t"github.com/mazrean/kessoku"', ")", "", "var _ context.Context", 'var _ = rt.Enter', ""]
            for k, line in decls[fi:fi + perfile]:
                s, mk, vids = render_decl(k, line, rng, shared=self.shared_sets)
                self.value_ids[k] = vids
                src += s + [""]
                allmk += mk
                names.append("Init%d" % k)
            fn = os.path.join(self.root, "p", "k%d.go" % (start + fi // perfile))
            open(fn, "w").write("\n".join(src) + "\n")
            files.append(fn)
        if self.shared_sets:
            # Set variables referred to from the Inject declarations of other files
            body = ["package p", "", "import (", '\t"context"', '\t"e2e/rt"', '\t"github.com/mazrean/kessoku"', ")", "", "var _ context.Context", "var _ = rt.Enter", ""] + self.shared_sets
            open(os.path.join(self.root, "p", "shared_sets.go"), "w").write("\n\n".join(body) + "\n")
        self.files += files
        self.names = getattr(self, "names", []) + names
        self.mk = getattr(self, "mk", []) + allmk
        return files
    def write_registry(self, names=None):
        names = names if names is not None else self.names
        reg = ["package p", "", "// Mk constructs argument values by type name; Injectors lists the generated functions.",
               "var Mk = map[string]func(string) any{"] + sorted(set(self.mk)) + ["}", "", "var Injectors = map[string]any{"]
        reg += ['\t"%s": %s,' % (n, n) for n in names] + ["}"]
        open(os.path.join(self.root, "p", "registry.go"), "w").write("\n".join(reg) + "\n")
    def close(self):
        shutil.rmtree(self.root, ignore_errors=True)
