"""Lean side of a check: regenerate facts, build the property module, audit axioms, record obligations."""
import os, re
from . import common as C

_prepared = {}

def prepare(repo_dir):
    """facts in place and the model driver built (once per process)"""
    if repo_dir in _prepared:
        return _prepared[repo_dir]
    C.sync_facts(repo_dir)
    ok, out = C.lake_build(["kvdriver"])
    _prepared[repo_dir] = (ok, out)
    if not ok:
        raise C.BuildError("the executable model / driver does not build against the regenerated facts:\n" + out[-3000:])
    return ok, out

def lean_obligations(R, prop, repo_dir, module=None):
    """build KV.Props.<prop>, record one obligation per theorem; returns the list of broken theorem names"""
    prepare(repo_dir)
    module = module or "KV.Props." + prop
    rel = module.replace(".", "/") + ".lean"
    path = os.path.join(C.LEAN, rel)
    thms = C.theorems_in(path)
    ns = None
    m = re.search(r"^namespace\s+(\S+)", open(path).read(), re.M)
    if m:
        ns = m.group(1)
    ok, out = C.lake_build([module])
    broken = []
    bad_tokens = C.forbidden_tokens()
    if bad_tokens:
        R.oblige("no sorry/admit/axiom/native_decide/bv_decide/implemented_by/unsafe in lean/", False, "; ".join(bad_tokens[:5]))
        broken.append("forbidden-tokens")
    else:
        R.oblige("no sorry/admit/axiom/native_decide/bv_decide/implemented_by/unsafe in lean/", True)
    if ok:
        names = [(ns + "." + n if ns else n) for n, _, _ in thms]
        ax, raw = C.audit_axioms(module, names)
        for n in names:
            a = ax.get(n)
            if a is None:
                R.oblige("theorem " + n, False, "not found by #print axioms"); broken.append(n)
            elif not set(a) <= C.ALLOWED_AXIOMS:
                R.oblige("theorem " + n, False, "depends on axioms %s" % a); broken.append(n)
            else:
                R.oblige("theorem " + n, True, "axioms: %s" % (a or "none"))
        R.coverage.setdefault("axioms", {}).update({n: ax.get(n) for n in names})
    else:
        failed = C.failed_modules(out)
        errs = C.error_lines(out, rel)
        dep_failed = [f for f in failed if f != module]
        first_err = ""
        m = re.search(r"error: (.*(?:\n(?!error:|warning:|✖|✔|⚠).*){0,6})", out)
        if m:
            first_err = m.group(1)[:600]
        for n, s, e in thms:
            full = ns + "." + n if ns else n
            hit = any(s <= l <= e for l in errs)
            if hit or dep_failed or not errs:
                R.oblige("theorem " + full, False, "proof no longer checks" + (" (dependency %s failed)" % dep_failed if dep_failed else ""))
                broken.append(full)
            else:
                R.oblige("theorem " + full, False, "module did not build (error elsewhere in the file)")
        R.coverage["lean_error"] = first_err
        R.coverage["failed_modules"] = failed
    R.broken = broken
    return broken

def finalize(R, what_correspondences=""):
    """an undischarged obligation that no concrete failing input explains is still a violation"""
    bad = [o for o in R.obligations if not o[1]]
    if bad and not R.violations:
        R.violation("proof obligations no longer check and no failing input was found: %s" % ", ".join(b[0] for b in bad[:6]),
                    {"kind": "theorem-broken", "theorems": [b[0] for b in bad], "details": [b[2] for b in bad][:6],
                     "lean_error": R.coverage.get("lean_error", ""), "searched": what_correspondences})
