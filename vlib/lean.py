"""Lean side of a check: regenerate facts, build the property module, audit axioms, record obligations."""
import os, re
from . import common as C

_prepared = {}

def prepare(repo_dir):
    """facts in place and the model driver built (once per process)"""
    if repo_dir in _prepared:
        return _prepared[repo_dir]
    C.sync_facts(repo_dir)
    ok, out = C.lake_build(["kvdriver"])
    _prepared[repo_dir] = (ok, out)
    if not ok:
        raise C.BuildError("the executable model / driver does not build against the regenerated facts:\n" + out[-3000:])
    return ok, out

def lean_obligations(R, prop, repo_dir, module=None):
    """build every KV.Props.<prop>* module, record one obligation per theorem; returns broken theorem names"""
    prepare(repo_dir)
    import glob
    if module:
        modules = [module]
    else:
        modules = sorted("KV.Props." + os.path.basename(f)[:-5] for f in glob.glob(os.path.join(C.LEAN, "KV", "Props", prop + "*.lean")))
    broken = []
    bad_tokens = C.forbidden_tokens()
    R.oblige("no sorry/admit/axiom/native_decide/bv_decide/implemented_by/unsafe in lean/", not bad_tokens, "; ".join(bad_tokens[:5]))
    if bad_tokens:
        broken.append("forbidden-tokens")
    for module in modules:
        rel = module.replace(".", "/") + ".lean"
        path = os.path.join(C.LEAN, rel)
        thms = C.theorems_in(path)
        src = re.sub(r"/-.*?-/", "", open(path).read(), flags=re.S)
        # namespace of each theorem: the innermost `namespace X` open at its line (files may hold several)
        ns_at = {}
        stack = []
        for i, l in enumerate(re.sub(r"/-.*?-/", lambda m: "\n" * m.group(0).count("\n"), open(path).read(), flags=re.S).split("\n")):
            m = re.match(r"^namespace\s+(\S+)", l)
            if m:
                stack.append(m.group(1))
            m = re.match(r"^end\s+(\S+)", l)
            if m and stack and stack[-1] == m.group(1):
                stack.pop()
            ns_at[i + 1] = ".".join(stack)
        ok, out = C.lake_build([module])
        if ok:
            names = [((ns_at.get(s0, "") + "." + n) if ns_at.get(s0, "") else n) for n, s0, _ in thms]
            ax, raw = C.audit_axioms(module, names)
            for n in names:
                a = ax.get(n)
                if a is None:
                    R.oblige("theorem " + n, False, "not found by #print axioms"); broken.append(n)
                elif not set(a) <= C.ALLOWED_AXIOMS:
                    R.oblige("theorem " + n, False, "depends on axioms %s" % a); broken.append(n)
                else:
                    R.oblige("theorem " + n, True, "axioms: %s" % (a or "none"))
            R.coverage.setdefault("axioms", {}).update({n: ax.get(n) for n in names})
        else:
            failed = C.failed_modules(out)
            errs = C.error_lines(out, rel)
            dep_failed = [f for f in failed if f != module]
            m = re.search(r"error: (.*(?:\n(?!error:|warning:|✖|✔|⚠).*){0,6})", out)
            first_err = m.group(1)[:600] if m else ""
            for n, s0, e0 in thms:
                full = (ns_at.get(s0, "") + "." + n) if ns_at.get(s0, "") else n
                hit = any(s0 <= l <= e0 for l in errs)
                if hit or dep_failed or not errs:
                    R.oblige("theorem " + full, False, "proof no longer checks" + (" (dependency %s failed)" % dep_failed if dep_failed else ""))
                    broken.append(full)
                else:
                    R.oblige("theorem " + full, False, "module did not build (error elsewhere in the file)")
            R.coverage["lean_error"] = first_err
            R.coverage["failed_modules"] = failed
    R.broken = broken
    return broken

def finalize(R, what_correspondences=""):
    """an undischarged obligation that no concrete failing input explains is still a violation"""
    bad = [o for o in R.obligations if not o[1]]
    if bad and not R.violations:
        R.violation("proof obligations no longer check and no failing input was found: %s" % ", ".join(b[0] for b in bad[:6]),
                    {"kind": "theorem-broken", "theorems": [b[0] for b in bad], "details": [b[2] for b in bad][:6],
                     "lean_error": R.coverage.get("lean_error", ""), "searched": what_correspondences})
