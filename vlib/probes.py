"""Hand-written probes (probes/<name>/run.sh + meta.json): concrete inputs found by reading the code or by the defect hunt.
Each run.sh exits 0 when the property holds on the given tree, 1 after printing `VIOLATED ...` lines when it does not.
A VIOLATED line that matches a rule of meta.json is the recorded finding of that id (printed as KNOWN-FINDING while
listed in known_findings.json); any other VIOLATED line is a violation (e.g. a repaired defect that came back)."""
import json, os, re
from . import common as C

PROBES = os.path.join(C.ROOT, "probes")

def run(R, prop, repo_dir, wire_exe=None):
    if not os.path.isdir(PROBES):
        return
    ran = []
    tmp = os.path.join(C.CACHE, "tmp", "probes")
    os.makedirs(tmp, exist_ok=True)
    for name in sorted(os.listdir(PROBES)):
        d = os.path.join(PROBES, name)
        mp = os.path.join(d, "meta.json")
        if not os.path.exists(mp):
            continue
        meta = json.load(open(mp))
        if prop not in meta["properties"]:
            continue
        xenv = {"KESSOKU_BIN": os.path.join(repo_dir, "kessoku"), "PROBE_TMP": tmp, "GOFLAGS": "", "GOWORK": ""}
        if meta.get("needs_wire") and wire_exe:
            xenv["WIRE_BIN"] = wire_exe
        rc, out = C.run(["bash", os.path.join(d, "run.sh"), C.REPO], timeout=900, extra_env=xenv)
        ran.append(name)
        lines = [l.strip() for l in out.splitlines() if l.startswith(("VIOLATED", "VIOLATION ("))]
        sources = {}
        for root, _, files in os.walk(os.path.join(d, "src")):
            for f in files:
                p = os.path.join(root, f)
                try:
                    sources[os.path.relpath(p, d)] = open(p).read()
                except (OSError, UnicodeDecodeError):
                    pass
        rp = {"kind": "input", "failing_input": sources, "probe": "probes/" + name, "output": out[-1500:],
              "reproduce": "bash probes/%s/run.sh /repo" % name}
        if rc == 0:
            continue
        if rc != 1 or not lines:
            R.violation("probe %s could not run (exit %d): %s" % (name, rc, out.strip()[-300:]), dict(rp, kind="correspondence-broken", correspondence="probe script"))
            continue
        for l in lines:
            hit = [r for r in meta["rules"] if re.search(r["match"], l)]
            if hit:
                R.finding(hit[0]["id"], "%s: %s" % (name, l[:300]), rp)
            else:
                R.violation("%s: %s" % (name, l[:400]), rp)
    R.coverage["probes"] = ran
