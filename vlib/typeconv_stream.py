"""Seeded stream of Go types for the `T` lines of the drivers (C14): `TypeConverter.TypeToExpr` of internal/migrate
against the Lean model `TConv.render` (KV/TypeConv.lean), plus a reference judgement written from the property
statement: the produced expression, read back through the produced import table, must denote the type it was made
from, the table must be injective and contain nothing the expression does not use."""
import re

BASICS = ["int", "string", "bool", "float64", "error", "any", "byte", "uint8",
          "int8", "int64", "uint", "float32", "complex128", "uintptr", "rune", "uint16"]
PKG_NAMES = ["store", "store", "cache", "api", "cache", "v3", "util", "store", "kessoku"]
DECLARED = ["store", "cache", "api", "v3", "util", "store_1", "cache_1", "x", "kessoku_1"]

def arity(name):
    return (name - 16) % 3

def gen_type(rng, npk, depth, allow_iface_lit):
    """a type as nested tuples"""
    leafy = depth <= 0
    r = rng.randint(0, 99)
    if leafy or r < 22:
        if rng.chance(0.35):
            return ("basic", rng.randint(0, 5) if rng.chance(0.7) else rng.randint(6, 15))
        name = rng.choice([16, 19, 22]) if leafy else rng.randint(16, 22)
        p = rng.randint(0, npk - 1)
        return ("named", p, name, [gen_type(rng, npk, depth - 1, allow_iface_lit) for _ in range(arity(name))])
    if r < 36:
        return ("ptr", gen_type(rng, npk, depth - 1, allow_iface_lit))
    if r < 46:
        return ("slice", gen_type(rng, npk, depth - 1, allow_iface_lit))
    if r < 52:
        return ("arr", rng.randint(0, 4), gen_type(rng, npk, depth - 1, allow_iface_lit))
    if r < 62:
        return ("map", gen_type(rng, npk, depth - 1, allow_iface_lit), gen_type(rng, npk, depth - 1, allow_iface_lit))
    if r < 68:
        return ("chan", rng.randint(0, 2), gen_type(rng, npk, depth - 1, allow_iface_lit))
    if r < 82:
        np_ = rng.randint(0, 3)
        nr = rng.randint(0, 2)
        ps = [gen_type(rng, npk, depth - 1, allow_iface_lit) for _ in range(np_)]
        if ps and rng.chance(0.4):
            ps[-1] = ("variadic", ps[-1])
        return ("func", np_, ps + [gen_type(rng, npk, depth - 1, allow_iface_lit) for _ in range(nr)])
    if r < 92:
        nf = rng.randint(0, 3)
        fields, kids = [], []
        for i in range(nf):
            if rng.chance(0.25):
                # embedded: a named type without type arguments, or a pointer to one
                k = ("named", rng.randint(0, npk - 1), rng.choice([16, 19, 22]), [])
                if rng.chance(0.4):
                    k = ("ptr", k)
                fields.append((i, True)); kids.append(k)
            else:
                fields.append((i, False)); kids.append(gen_type(rng, npk, depth - 1, allow_iface_lit))
        return ("struct", fields, kids)
    if allow_iface_lit == "methods" and r >= 94:
        ms = sorted(rng.choice([[0], [1], [0, 2], [1, 3], [0, 1, 2]]))
        sigs = []
        for _ in ms:
            np_ = rng.randint(0, 2)
            nr = rng.randint(0, 1)
            sigs.append(("func", np_, [gen_type(rng, npk, depth - 2, False) for _ in range(np_ + nr)]))
        return ("iface", ms, sigs)
    if r < 96 or not allow_iface_lit or allow_iface_lit == "methods":
        return ("ifaceEmpty",)
    return ("ifaceLit",)

def sexpr(t):
    k = t[0]
    if k == "basic":
        return "b%d" % t[1]
    if k == "named":
        return "( n %d %d %s)" % (t[1], t[2], "".join(sexpr(a) + " " for a in t[3]))
    if k == "ptr":
        return "( p %s )" % sexpr(t[1])
    if k == "slice":
        return "( s %s )" % sexpr(t[1])
    if k == "arr":
        return "( a %d %s )" % (t[1], sexpr(t[2]))
    if k == "map":
        return "( m %s %s )" % (sexpr(t[1]), sexpr(t[2]))
    if k == "chan":
        return "( c %d %s )" % (t[1], sexpr(t[2]))
    if k == "variadic":
        return "( v %s )" % sexpr(t[1])
    if k == "func":
        return "( f %d %s)" % (t[1], "".join(sexpr(a) + " " for a in t[2]))
    if k == "struct":
        spec = ",".join("%d:%d" % (n, int(e)) for n, e in t[1]) or "-"
        return "( st %s %s)" % (spec, "".join(sexpr(a) + " " for a in t[2]))
    if k == "ifaceEmpty":
        return "ie"
    if k == "ifaceLit":
        return "il"
    if k == "iface":
        return "( i %s %s)" % (",".join(map(str, t[1])), "".join(sexpr(a) + " " for a in t[2]))
    raise ValueError(k)

def has(t, kind):
    if isinstance(t, tuple):
        if t and t[0] == kind:
            return True
        return any(has(x, kind) for x in t[1:])
    if isinstance(t, list):
        return any(has(x, kind) for x in t)
    return False

def gen_line(rng):
    npk = rng.randint(1, 6)
    names = [rng.choice(PKG_NAMES) for _ in range(npk)]
    cur = rng.randint(0, npk - 1) if rng.chance(0.93) else None
    t = gen_type(rng, npk, rng.randint(1, 4), rng.chance(0.15))
    # identifiers declared at package level in the current package: no import may take their names (nor `kessoku`)
    declared = [rng.choice(DECLARED) for _ in range(rng.randint(0, 3))] if (cur is not None and rng.chance(0.6)) else []
    if declared or (cur is not None and rng.chance(0.3)):
        line = "T %d | %s | %s | %s" % (cur, " ".join(names), " ".join(declared), sexpr(t))
    else:
        line = "T %s | %s | %s" % ("-" if cur is None else cur, " ".join(names), sexpr(t))
    return line, dict(cur=cur, names=names, type=t, pre=declared + ["kessoku"])

PRE_NAMES = ["store", "store0", "cache", "cache0", "api", "v3", "util", "store1", "app", "fmt", "x", "store00"]

def gen_line_g(rng):
    """a `G` line: createASTTypeExpr (generator side) with names already registered in the VarPool"""
    npk = rng.randint(1, 6)
    names = [rng.choice(PKG_NAMES) for _ in range(npk)]
    cur = rng.randint(0, npk - 1)
    pre = [rng.choice(PRE_NAMES) for _ in range(rng.randint(0, 4))]
    t = gen_type(rng, npk, rng.randint(1, 4), "methods")
    line = "G %d | %s | %s | %s" % (cur, " ".join(names), " ".join(pre), sexpr(t))
    return line, dict(cur=cur, names=names, pre=pre, type=t)

def gen_line_b(rng):
    """a `B` line: VarPool.getBaseName of a type (pointers in front, context.Context now and then)"""
    r = rng.randint(0, 9)
    if r == 0:
        t_s = "ctx"
    else:
        t_s = sexpr(gen_type(rng, 4, rng.randint(0, 2), "methods"))
    for _ in range(rng.choice([0, 0, 1, 1, 2])):
        t_s = "( p %s )" % t_s
    return "B " + t_s

# ---- reading an answer back

class _P:
    def __init__(self, s):
        self.s, self.i = s, 0
    def eat(self, tok):
        if self.s.startswith(tok, self.i):
            self.i += len(tok)
            return True
        return False
    def need(self, tok):
        if not self.eat(tok):
            raise ValueError("expected %r at %d in %r" % (tok, self.i, self.s))
    def ident(self):
        m = re.compile(r"[A-Za-z_][A-Za-z_0-9]*").match(self.s, self.i)
        if not m:
            raise ValueError("identifier expected at %d in %r" % (self.i, self.s))
        self.i = m.end()
        return m.group(0)
    def lst(self, closers):
        out = []
        if any(self.s.startswith(c, self.i) for c in closers):
            return out
        out.append(self.expr())
        while self.eat(","):
            out.append(self.expr())
        return out
    def expr(self):
        if self.eat("*"):
            return ("star", self.expr())
        if self.eat("[]"):
            return ("slice", self.expr())
        if self.eat("..."):
            return ("ellipsis", self.expr())
        if self.eat("map["):
            k = self.expr(); self.need("]")
            return ("map", k, self.expr())
        m = re.compile(r"chan(\d)\(").match(self.s, self.i)
        if m:
            self.i = m.end()
            v = self.expr(); self.need(")")
            return ("chan", int(m.group(1)), v)
        if self.eat("func("):
            ps = self.lst([";"]); self.need(";")
            rs = self.lst([")"]); self.need(")")
            return ("func", ps, rs)
        if self.eat("struct{"):
            fs = []
            while not self.eat("}"):
                if fs:
                    self.need(";")
                if self.eat("~"):
                    fs.append((None, self.expr()))
                else:
                    n = self.ident(); self.need(" ")
                    fs.append((n, self.expr()))
            return ("struct", fs)
        if self.eat("interface{}"):
            return ("ifaceEmpty",)
        if self.eat("interface{"):
            ms = []
            while not self.eat("}"):
                if ms:
                    self.need(";")
                n = self.ident(); self.need(" ")
                ms.append((n, self.expr()))
            return ("iface", ms)
        m = re.compile(r"\[(\d+)\]").match(self.s, self.i)
        if m:
            self.i = m.end()
            return ("arr", int(m.group(1)), self.expr())
        a = self.ident()
        q = None
        if self.eat("."):
            q, a = a, self.ident()
        args = []
        if self.eat("["):
            args = self.lst(["]"]); self.need("]")
        return ("name", q, a, args)

def parse_answer(ans):
    """'T <expr> | p1=a p2=b' -> (expression tree, {path id: local name})"""
    body = ans[2:]
    ex, _, imps = body.partition(" | ")
    p = _P(ex.strip())
    e = p.expr()
    if p.i != len(p.s):
        raise ValueError("trailing text in %r" % ex)
    table = {}
    for kv in imps.split():
        k, v = kv.split("=")
        table[int(k[1:])] = v
    return e, table

def denotes(e, cur, table):
    """the type an expression denotes in a file of package `cur` whose imports are `table` (None: nothing)"""
    inv = {}
    for p, n in table.items():
        if n in inv:
            return None
        inv[n] = p
    def go(e):
        k = e[0]
        if k == "name":
            q, a, args = e[1], e[2], [go(x) for x in e[3]]
            if q is None:
                if a in BASICS:
                    return ("basic", BASICS.index(a)) if not args else None
                if cur is None or not re.match(r"N\d+$", a):
                    return None
                return ("named", cur, 16 + int(a[1:]), args)
            if q not in inv or not re.match(r"N\d+$", a):
                return None
            return ("named", inv[q], 16 + int(a[1:]), args)
        if k == "star":
            return ("ptr", go(e[1]))
        if k == "slice":
            return ("slice", go(e[1]))
        if k == "ellipsis":
            return ("variadic", go(e[1]))
        if k == "arr":
            return ("arr", e[1], go(e[2]))
        if k == "map":
            return ("map", go(e[1]), go(e[2]))
        if k == "chan":
            return ("chan", e[1], go(e[2]))
        if k == "func":
            return ("func", len(e[1]), [go(x) for x in e[1]] + [go(x) for x in e[2]])
        if k == "struct":
            fields, kids = [], []
            for i, (n, t) in enumerate(e[1]):
                if n is None:
                    fields.append(True)
                else:
                    if not re.match(r"F\d+$", n):
                        return None
                    fields.append(int(n[1:]))
                kids.append(go(t))
            return ("struct", fields, kids)
        if k == "ifaceEmpty":
            return ("ifaceEmpty",)
        if k == "iface":
            if not all(re.match(r"M\d+$", n) for n, _ in e[1]):
                return None
            return ("iface", [int(n[1:]) for n, _ in e[1]], [go(t) for _, t in e[1]])
        return None
    return go(e)

def canon(t):
    """input type in the shape `denotes` returns (struct fields: index or True for embedded)"""
    k = t[0]
    if k == "named":
        return ("named", t[1], t[2], [canon(a) for a in t[3]])
    if k in ("ptr", "slice", "variadic"):
        return (k, canon(t[1]))
    if k in ("arr", "chan"):
        return (k, t[1], canon(t[2]))
    if k == "map":
        return ("map", canon(t[1]), canon(t[2]))
    if k == "func":
        return ("func", t[1], [canon(a) for a in t[2]])
    if k == "struct":
        return ("struct", [True if e else n for n, e in t[1]], [canon(a) for a in t[2]])
    if k == "iface":
        return ("iface", list(t[1]), [canon(a) for a in t[2]])
    return t

def quals(e):
    out = set()
    def go(e):
        if isinstance(e, tuple):
            if e and e[0] == "name" and e[1] is not None:
                out.add(e[1])
            for x in e[1:]:
                go(x)
        elif isinstance(e, list):
            for x in e:
                go(x)
    go(e)
    return out

def judge(meta, ans, reserved=()):
    """None, or what is wrong with the implementation's answer for this type (reference judgement)"""
    if not ans.startswith(("T ", "G ")):
        return "no answer (%s)" % ans[:60]
    try:
        e, table = parse_answer(ans)
    except ValueError as x:
        return "unreadable answer: %s" % x
    names = list(table.values())
    if len(set(names)) != len(names):
        return "two packages are imported under one name: %s" % table
    unused = sorted(set(names) - quals(e))
    if unused:
        return "imports not used by the expression: %s" % unused
    taken = sorted(n for n in names if n in meta.get("pre", ()) or n in reserved)
    if taken:
        return "an import is given a local name that is already in use: %s" % taken
    if meta["cur"] is None or has(meta["type"], "ifaceLit"):
        return None          # nothing is qualified without a current package; interface literals are spelled `any` (pinned by typeconv_test.go)
    got = denotes(e, meta["cur"], table)
    want = canon(meta["type"])
    if got != want:
        return "the expression denotes %s, the type is %s" % (got, want)
    return None
