"""Shared machinery of the checks: paths, offline environment, build cache keyed by the repository's
working tree, Lean builds and axiom audit, evidence and violation reporting, known findings."""
import fcntl, hashlib, json, os, re, shutil, subprocess, sys, time

ROOT = os.path.dirname(os.path.dirname(os.path.abspath(__file__)))
REPO = os.environ.get("VERIF_REPO", "/repo")
CACHE = os.path.join(ROOT, ".cache")
LEAN = os.path.join(ROOT, "lean")
HARNESS = os.path.join(ROOT, "harness")
EVID = os.path.join(ROOT, "evidence")
REPLAYS = os.path.join(ROOT, "replays")
ALLOWED_AXIOMS = {"propext", "Classical.choice", "Quot.sound"}
GUARD = "verif"

GOCACHE_DIR = os.environ.get("VERIF_GOCACHE") or os.path.join(CACHE, "gocache")
GOCACHE_LIMIT_KB = 6 * 1024 * 1024
_gocache_lock = None

def trim_gocache():
    """every check compiles freshly rendered scratch packages, which the Go build cache keeps for days: the checks use
    their own build cache under .cache/ and drop it when it has grown past a few GB (disk space is limited)"""
    try:
        out = subprocess.run(["du", "-sk", GOCACHE_DIR], stdout=subprocess.PIPE, stderr=subprocess.DEVNULL, text=True, timeout=120).stdout
        kb = int(out.split()[0]) if out.split() else 0
    except Exception:
        kb = 0
    os.makedirs(os.path.dirname(GOCACHE_DIR) or ".", exist_ok=True)
    global _gocache_lock
    lockf = open(GOCACHE_DIR + ".lock", "w")
    if kb > GOCACHE_LIMIT_KB:
        # only when no other check (e.g. a sweep slot sharing this cache) is using it
        try:
            fcntl.flock(lockf, fcntl.LOCK_EX | fcntl.LOCK_NB)
            shutil.rmtree(GOCACHE_DIR, ignore_errors=True)
            fcntl.flock(lockf, fcntl.LOCK_UN)
        except OSError:
            pass
    os.makedirs(GOCACHE_DIR, exist_ok=True)
    # held (shared) for the lifetime of this process
    fcntl.flock(lockf, fcntl.LOCK_SH)
    _gocache_lock = lockf

def env(extra=None):
    e = dict(os.environ)
    e.update({"GOPROXY": "off", "GOCACHE": GOCACHE_DIR})
    e.pop("GOFLAGS", None)
    if extra:
        e.update(extra)
    return e

def run(cmd, cwd=None, extra_env=None, timeout=600, input=None, check=False):
    p = subprocess.run(cmd, cwd=cwd, env=env(extra_env), stdout=subprocess.PIPE, stderr=subprocess.STDOUT,
                       timeout=timeout, input=input, text=True)
    if check and p.returncode != 0:
        raise RuntimeError("command failed (%d): %s\n%s" % (p.returncode, " ".join(cmd), p.stdout[-4000:]))
    return p.returncode, p.stdout

class Lock:
    def __init__(self, name):
        os.makedirs(CACHE, exist_ok=True)
        self.path = os.path.join(CACHE, name + ".lock")
    def __enter__(self):
        self.f = open(self.path, "w")
        fcntl.flock(self.f, fcntl.LOCK_EX)
        return self
    def __exit__(self, *a):
        fcntl.flock(self.f, fcntl.LOCK_UN)
        self.f.close()

def _hash_files(root, rels):
    h = hashlib.sha256()
    for r in sorted(rels):
        p = os.path.join(root, r)
        try:
            with open(p, "rb") as f:
                data = f.read()
        except OSError:
            data = b"<missing>"
        h.update(r.encode() + b"\0" + hashlib.sha256(data).digest())
    return h.hexdigest()[:20]

def repo_files():
    rc, out = run(["git", "-C", REPO, "ls-files", "-co", "--exclude-standard"])
    rels = [l for l in out.splitlines() if l and not l.startswith("tools/")]
    return [r for r in rels if r.endswith((".go", ".mod", ".sum", ".md", ".work")) or "/skills/" in r or "/testdata/" in r]

def repo_hash():
    return _hash_files(REPO, repo_files())

def tools_hash():
    rels = []
    for d, _, fs in os.walk(HARNESS):
        for f in fs:
            rels.append(os.path.relpath(os.path.join(d, f), HARNESS))
    return _hash_files(HARNESS, rels)

class GoWorkSumGuard:
    """go commands run inside the workspace may append to /repo/go.work.sum; put it back."""
    def __enter__(self):
        self.p = os.path.join(REPO, "go.work.sum")
        try:
            self.data = open(self.p, "rb").read()
        except OSError:
            self.data = None
    def __exit__(self, *a):
        try:
            cur = open(self.p, "rb").read()
        except OSError:
            cur = None
        if cur != self.data:
            if self.data is None:
                os.remove(self.p)
            else:
                open(self.p, "wb").write(self.data)

class BuildError(Exception):
    pass

def ensure_tools():
    """harness tools (factgen, extract, ...) built from /verif/harness; cached by source hash"""
    th = tools_hash()
    d = os.path.join(CACHE, "tools-" + th)
    if os.path.exists(os.path.join(d, "ok")):
        return d
    with Lock("tools"):
        if os.path.exists(os.path.join(d, "ok")):
            return d
        os.makedirs(d, exist_ok=True)
        for tool in sorted(os.listdir(HARNESS)):
            if os.path.isdir(os.path.join(HARNESS, tool)) and os.path.exists(os.path.join(HARNESS, tool, "main.go")):
                rc, out = run(["go", "build", "-o", os.path.join(d, tool), "./" + tool], cwd=HARNESS,
                              extra_env={"GOFLAGS": "-mod=mod", "GOWORK": "off"})
                if rc != 0:
                    raise BuildError("harness tool %s does not build:\n%s" % (tool, out))
        open(os.path.join(d, "ok"), "w").write(th)
    return d

def ensure_repo_build():
    """CLI and verif-tagged test drivers built from /repo's current working tree; cached by tree hash"""
    trim_gocache()
    rh = repo_hash() + "-" + tools_hash()[:8]        # the regenerated facts depend on factgen as well
    d = os.path.join(CACHE, "repo-" + rh)
    if os.path.exists(os.path.join(d, "ok")):
        return d
    tools = ensure_tools()
    with Lock("repo"):
        if os.path.exists(os.path.join(d, "ok")):
            return d
        # drop old repo caches (disk)
        for old in os.listdir(CACHE):
            if old.startswith("repo-") and old != "repo-" + rh:
                shutil.rmtree(os.path.join(CACHE, old), ignore_errors=True)
        os.makedirs(d, exist_ok=True)
        with GoWorkSumGuard():
            steps = [
                (["go", "build", "-tags", GUARD, "-o", os.path.join(d, "kessoku"), "./cmd/kessoku"], "CLI"),
                (["go", "test", "-tags", GUARD, "-c", "-o", os.path.join(d, "kessoku.test"), "./internal/kessoku"], "kessoku driver"),
                (["go", "test", "-tags", GUARD, "-c", "-o", os.path.join(d, "migrate.test"), "./internal/migrate"], "migrate driver"),
            ]
            for cmd, what in steps:
                rc, out = run(cmd, cwd=REPO)
                if rc != 0:
                    raise BuildError("%s does not build from %s:\n%s" % (what, REPO, out[-3000:]))
            facts = os.path.join(d, "facts")
            shutil.rmtree(facts, ignore_errors=True)
            rc, out = run([os.path.join(tools, "factgen"), REPO, facts])
            if rc != 0:
                raise BuildError("factgen failed:\n" + out[-3000:])
        open(os.path.join(d, "ok"), "w").write(rh)
    return d

def sync_facts(repo_dir):
    """copy regenerated facts into lean/KV/Generated when they differ (stale files removed)"""
    src = os.path.join(repo_dir, "facts")
    dst = os.path.join(LEAN, "KV", "Generated")
    os.makedirs(dst, exist_ok=True)
    changed = False
    want = set(os.listdir(src))
    for f in os.listdir(dst):
        if f not in want:
            os.remove(os.path.join(dst, f)); changed = True
    for f in want:
        a = open(os.path.join(src, f), "rb").read()
        try:
            b = open(os.path.join(dst, f), "rb").read()
        except OSError:
            b = None
        if a != b:
            open(os.path.join(dst, f), "wb").write(a); changed = True
    return changed

def lake_build(targets, timeout=1800):
    with Lock("lake"):
        rc, out = run(["lake", "build"] + targets, cwd=LEAN, timeout=timeout)
    return rc == 0, out

def failed_modules(out):
    return sorted(set(re.findall(r"^- (KV[\w.]*)", out, re.M)))

def error_lines(out, relfile):
    """line numbers of errors reported in a given file"""
    return [int(m) for m in re.findall(r"error: %s:(\d+):" % re.escape(relfile), out)]

def theorems_in(path):
    """(name, first line, last line) of every theorem in a Lean file"""
    txt = re.sub(r"/-.*?-/", lambda m: "\n" * m.group(0).count("\n"), open(path).read(), flags=re.S)
    lines = txt.split("\n")
    starts = []
    for i, l in enumerate(lines):
        m = re.match(r"^theorem\s+([\w.']+)", l)
        if m:
            starts.append((m.group(1), i + 1))
    out = []
    for k, (n, s) in enumerate(starts):
        e = starts[k + 1][1] - 1 if k + 1 < len(starts) else len(lines)
        out.append((n, s, e))
    return out

FORBIDDEN = re.compile(r"\bsorry\b|\badmit\b|^axiom\s|native_decide|bv_decide|implemented_by|\bunsafe\s|maxHeartbeats\s+0")

def forbidden_tokens():
    """grep the Lean sources for forbidden constructs, ignoring comments"""
    hits = []
    for d, _, fs in os.walk(LEAN):
        if ".lake" in d:
            continue
        for f in fs:
            if not f.endswith(".lean"):
                continue
            txt = open(os.path.join(d, f)).read()
            txt = re.sub(r"/-.*?-/", lambda m: "\n" * m.group(0).count("\n"), txt, flags=re.S)
            for i, l in enumerate(txt.split("\n")):
                l = l.split("--")[0]
                if FORBIDDEN.search(l):
                    hits.append("%s:%d: %s" % (os.path.relpath(os.path.join(d, f), LEAN), i + 1, l.strip()))
    return hits

def audit_axioms(module, names, namespace=None):
    """#print axioms for each theorem; returns {name: [axioms]} (None if not found)"""
    src = "import %s\n" % module + "".join("#print axioms %s\n" % n for n in names)
    tmp = os.path.join(CACHE, "audit_%s_%d.lean" % (module.replace(".", "_"), os.getpid()))
    open(tmp, "w").write(src)
    try:
        rc, out = run(["lake", "env", "lean", tmp], cwd=LEAN, timeout=600)
    finally:
        os.remove(tmp)
    res = {}
    for n in names:
        short = n
        m = re.search(r"'%s' depends on axioms: \[(.*?)\]" % re.escape(short), out, re.S)
        if m:
            res[n] = [a.strip() for a in m.group(1).replace("\n", " ").split(",") if a.strip()]
        elif re.search(r"'%s' does not depend on any axioms" % re.escape(short), out):
            res[n] = []
        else:
            res[n] = None
    return res, out

# ------------------------------------------------------------------------------------------------ drivers

def lean_driver(lines, timeout=600):
    exe = os.path.join(LEAN, ".lake", "build", "bin", "kvdriver")
    p = subprocess.run([exe], input="\n".join(lines) + "\n", stdout=subprocess.PIPE, stderr=subprocess.PIPE, text=True, timeout=timeout)
    if p.returncode != 0:
        raise BuildError("Lean driver failed: " + p.stderr[-2000:])
    out = p.stdout.split("\n")
    if out and out[-1] == "":
        out.pop()
    return out

def go_driver(repo_dir, which, lines, timeout=600):
    """run a verif-tagged test driver (kessoku.test / migrate.test) on the request lines"""
    os.makedirs(os.path.join(CACHE, "tmp"), exist_ok=True)
    base = os.path.join(CACHE, "tmp", "ops_%d_%d" % (os.getpid(), int(time.time() * 1e6) % 10**9))
    open(base + ".in", "w").write("\n".join(lines) + "\n")
    try:
        rc, out = run([os.path.join(repo_dir, which + ".test"), "-test.run", "^TestVerifDriver$", "-test.timeout", "%ds" % timeout],
                      extra_env={"VERIF_OPS": base + ".in", "VERIF_OUT": base + ".out", "GOMEMLIMIT": "4GiB"}, timeout=timeout + 30)
        res = []
        if os.path.exists(base + ".out"):
            res = open(base + ".out").read().split("\n")
            if res and res[-1] == "":
                res.pop()
        return rc, res, out
    finally:
        for s in (".in", ".out"):
            try:
                os.remove(base + s)
            except OSError:
                pass

# ------------------------------------------------------------------------------------------------ results

def known_findings():
    p = os.path.join(ROOT, "known_findings.json")
    if not os.path.exists(p):
        return {"known": [], "fixed": []}
    return json.load(open(p))

def is_known(prop, fid):
    return any(k.get("property") == prop and k.get("id") == fid for k in known_findings().get("known", []))

class Result:
    def __init__(self, prop, tier, seed):
        self.prop, self.tier, self.seed = prop, tier, seed
        self.t0 = time.time()
        self.obligations = []       # (name, ok, detail)
        self.coverage = {}
        self.violations = []        # (text, replay dict)
        self.known_hits = []        # text
        self.samples = []
        self.assumptions = []
        self.level = "proof"
    def oblige(self, name, ok, detail=""):
        self.obligations.append((name, bool(ok), detail))
    def violation(self, text, replay):
        self.violations.append((text, replay))
    def known(self, text):
        if text not in self.known_hits:
            self.known_hits.append(text)
    def finding(self, fid, text, replay):
        """a genuine defect: reported as KNOWN-FINDING iff listed in known_findings.json, else as a violation"""
        if is_known(self.prop, fid):
            self.known_agg = getattr(self, "known_agg", {})
            n, first = self.known_agg.get(fid, (0, text))
            self.known_agg[fid] = (n + 1, first)
        else:
            self.violation(text, replay)
    def finish(self, checker_cmd, trusted_base, extra=None):
        for fid, (n, first) in sorted(getattr(self, "known_agg", {}).items()):
            self.known("[%s] %d case(s) in this run, e.g. %s" % (fid, n, first[:400]))
        bad = [o for o in self.obligations if not o[1]]
        if bad and not self.violations:
            # an undischarged obligation that no concrete failing input explains is still a violation
            self.violation("proof obligations / correspondences no longer check and no failing input was found: %s" % ", ".join(b[0] for b in bad[:6]),
                           {"kind": "theorem-broken", "unchecked": [b[0] for b in bad], "details": [b[2] for b in bad][:8],
                            "lean_error": self.coverage.get("lean_error", "")})
        os.makedirs(EVID, exist_ok=True)
        os.makedirs(REPLAYS, exist_ok=True)
        cov = dict(self.coverage)
        cov["obligations"] = len(self.obligations)
        cov["discharged"] = sum(1 for o in self.obligations if o[1])
        cov["checker_cmd"] = checker_cmd
        cov["trusted_base"] = trusted_base
        cov["obligation_list"] = [{"name": n, "ok": ok, "detail": d} for n, ok, d in self.obligations]
        cov.setdefault("samples", self.samples[:12])
        if extra:
            cov.update(extra)
        lines = []
        for i, (text, replay) in enumerate(self.violations[:10]):
            rp = os.path.join(REPLAYS, "%s_%s_%d_%d.json" % (self.prop, self.tier, self.seed, i))
            replay = dict(replay)
            replay.setdefault("property", self.prop)
            replay.setdefault("what", text)
            json.dump(replay, open(rp, "w"), indent=1)
            suffix = " no-failing-input-found" if replay.get("kind") in ("theorem-broken", "correspondence-broken") and not replay.get("failing_input") else ""
            lines.append("VIOLATION property=%s replay=%s%s" % (self.prop, rp, suffix))
        ev = {"property_id": self.prop, "tier": self.tier, "seed": self.seed, "level": self.level,
              "coverage": cov, "assumptions": self.assumptions, "wall_s": round(time.time() - self.t0, 2),
              "violations": len(self.violations), "known_findings_reported": self.known_hits}
        json.dump(ev, open(os.path.join(EVID, self.prop + ".json"), "w"), indent=1)
        for k in self.known_hits:
            print("KNOWN-FINDING: property=%s %s" % (self.prop, k))
        for l in lines:
            print(l)
        for text, _ in self.violations[:10]:
            print("  " + text[:600])
        if len(self.violations) > 10:
            print("  ... and %d more violations (counted in the evidence file)" % (len(self.violations) - 10))
        print("%s %s: %d/%d obligations discharged, %d violations, %d known findings, %.1fs" % (
            self.prop, self.tier, cov["discharged"], cov["obligations"], len(self.violations), len(self.known_hits), time.time() - self.t0))
        return 1 if self.violations else 0
