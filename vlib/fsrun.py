"""llm-setup under crash / fault points and over the agent x flag x prior-state matrix (C15, C16).

The real CLI (built with -tags verif) is run in scratch directories under /verif/.cache/tmp; the hook
in internal/llmsetup (verifPoint / verifPartial) kills the process or injects an error at a chosen
point.  Tree snapshots are compared with what the Lean model of the regenerated step list predicts."""
import os, shutil, stat, subprocess, hashlib
from . import common as C

SKILL_SRC = os.path.join(C.REPO, "internal", "llmsetup", "skills", "kessoku-di")

def embedded_tree():
    out = {}
    for d, _, fs in os.walk(SKILL_SRC):
        for f in fs:
            p = os.path.join(d, f)
            out[os.path.relpath(p, SKILL_SRC)] = open(p, "rb").read()
    return out

def snapshot(root):
    """relpath -> ('d', mode) | ('f', mode, bytes) | ('l', target) for everything under root"""
    snap = {}
    if not os.path.lexists(root):
        return snap
    for d, dirs, fs in os.walk(root):
        for n in dirs + fs:
            p = os.path.join(d, n)
            rel = os.path.relpath(p, root)
            st = os.lstat(p)
            if stat.S_ISLNK(st.st_mode):
                snap[rel] = ('l', os.readlink(p))
            elif stat.S_ISDIR(st.st_mode):
                snap[rel] = ('d', stat.S_IMODE(st.st_mode))
            else:
                snap[rel] = ('f', stat.S_IMODE(st.st_mode), open(p, "rb").read())
    return snap

def follow_links(root, snap):
    """a destination that is a symbolic link to a regular file counts as that file (what a reader of the path sees)"""
    out = dict(snap)
    for rel, v in snap.items():
        if v[0] == 'l':
            t = v[1] if os.path.isabs(v[1]) else os.path.join(os.path.dirname(os.path.join(root, rel)), v[1])
            try:
                st = os.stat(t)
                if stat.S_ISREG(st.st_mode):
                    out[rel] = ('f', stat.S_IMODE(st.st_mode), open(t, "rb").read())
            except OSError:
                pass
    return out

def short(v):
    if v is None:
        return "absent"
    if v[0] == 'f':
        return "file(mode=%o,len=%d,sha=%s)" % (v[1], len(v[2]), hashlib.sha256(v[2]).hexdigest()[:8])
    if v[0] == 'd':
        return "dir(mode=%o)" % v[1]
    return "link(%s)" % v[1]

class Sandbox:
    def __init__(self, tag):
        self.root = os.path.join(C.CACHE, "tmp", "fs_%s_%d" % (tag, os.getpid()))
        shutil.rmtree(self.root, ignore_errors=True)
        os.makedirs(self.root)
        self.home = os.path.join(self.root, "home"); os.makedirs(self.home)
        self.cwd = os.path.join(self.root, "proj"); os.makedirs(self.cwd)
        self.other = os.path.join(self.root, "other"); os.makedirs(self.other)
    def reset(self):
        for d in (self.home, self.cwd, self.other):
            shutil.rmtree(d, ignore_errors=True); os.makedirs(d)
    def close(self):
        shutil.rmtree(self.root, ignore_errors=True)

def run_cli(cli, sb, args, envx=None, timeout=60):
    e = {"HOME": sb.home, "PATH": os.environ.get("PATH", ""), "TMPDIR": os.path.join(sb.root)}
    if envx:
        e.update(envx)
    p = subprocess.run([cli, "llm-setup"] + args, cwd=sb.cwd, env=e, stdout=subprocess.PIPE, stderr=subprocess.PIPE, timeout=timeout)
    return p.returncode, p.stdout.decode(errors="replace"), p.stderr.decode(errors="replace")

def trace_points(cli, sb, agent):
    sb.reset()
    tr = os.path.join(sb.root, "trace")
    if os.path.exists(tr):
        os.remove(tr)
    rc, out, err = run_cli(cli, sb, [agent], {"KESSOKU_VERIF_TRACE": tr})
    pts = []
    if os.path.exists(tr):
        for l in open(tr):
            i, n = l.split()
            pts.append(n)
        os.remove(tr)
    return rc, pts

def prior_states(tree):
    """prior contents of the skill directory: name -> {rel: (mode, bytes)}"""
    older = {k: (0o644, b"OLD " + v[: len(v) // 2]) for k, v in tree.items()}
    first = sorted(tree)[0]
    del_one = dict(older); del_one.pop(sorted(tree)[-1])
    samemode = {k: ((0o600 if i % 2 == 0 else 0o755), v) for i, (k, v) in enumerate(sorted(tree.items()))}
    return {
        "absent": {},
        "older": older,
        "older-partial": del_one,
        "identical-other-mode": samemode,
        "older-readonly-mode": {k: (0o444, b"x" + v) for k, v in tree.items()},
        # every destination is a symbolic link to a regular file holding the older content (a dotfiles-managed skill)
        "older-symlinked": {k: (0o644, b"LINKED " + v[: len(v) // 3]) for k, v in tree.items()},
    }

SYMLINKED = ("older-symlinked",)

def lay_down(skill_dir, files, extra=None, symlink=False):
    for rel, (mode, data) in files.items():
        p = os.path.join(skill_dir, rel)
        os.makedirs(os.path.dirname(p), exist_ok=True)
        if symlink:
            tgt = os.path.join(os.path.dirname(skill_dir), ".link-targets", rel)
            os.makedirs(os.path.dirname(tgt), exist_ok=True)
            open(tgt, "wb").write(data)
            os.chmod(tgt, mode)
            os.symlink(tgt, p)
            continue
        open(p, "wb").write(data)
        os.chmod(p, mode)
    for rel, data in (extra or {}).items():
        p = os.path.join(skill_dir, rel)
        os.makedirs(os.path.dirname(p), exist_ok=True)
        open(p, "wb").write(data)

def classify_dest(v, old, new_bytes, mode=0o644):
    """what the destination is, in the property's terms"""
    if v is None:
        return "absent"
    if v[0] != 'f':
        return "not-a-file"
    if old is not None and v[1] == old[0] and v[2] == old[1]:
        return "old"
    if v[2] == new_bytes and v[1] == mode:
        return "new"
    if v[2] == new_bytes:
        return "new-content-wrong-mode(%o)" % v[1]
    return "mixed(%s)" % short(v)

def temp_files(snap):
    return sorted(k for k in snap if os.path.basename(k).startswith(".tmp-"))
