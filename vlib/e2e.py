"""End-to-end pipeline: abstract declarations -> rendered Go package -> real CLI -> emitted *_band.go ->
(a) structure extracted and compared with the model's emission, (b) type-checked with go vet,
(c) compiled into a reflective runner and executed under failure / cancellation / delay specs."""
import glob, json, os, re, subprocess, time
from . import common as C
from . import render
from . import declgen as G
from . import progcheck as PC

def herbrand(ret, provs):
    """reference evaluation by type key, as a term string in the format the rendered providers build"""
    sup = PC.suppliers(ret, provs)
    memo = {}
    def term(t, depth=0):
        if depth > 200:
            return "CYCLE"
        if t in memo:
            return memo[t]
        if t not in sup:
            r = "A%d" % t
        else:
            s = sup[t]
            if s[0] == 'P':
                p = provs[s[1]]
                r = "P%d.%d(%s)" % (s[1], s[2], ",".join(term(x, depth + 1) for x in p['req']))
            else:
                r = "F.%s(%s)" % (s[2], term(provs[s[1]]['sty'], depth + 1))
        memo[t] = r
        return r
    return term(ret)

class E2E:
    def __init__(self, tag, repo_dir, tools_dir):
        self.M = render.Module(tag)
        self.cli = os.path.join(repo_dir, "kessoku")
        self.extract_bin = os.path.join(tools_dir, "extract")
        self.decls = {}
        self.runner = None
    def close(self):
        self.M.close()
    def generate(self, decls, rng=None, perfile=20, per_invocation=5):
        """decls: list of (k, line). Runs the CLI; returns (rc, output, files)"""
        for k, l in decls:
            self.decls[k] = l
        files = self.M.write_decls(decls, perfile=perfile, rng=rng, start=len(self.M.files))
        rel = [os.path.relpath(f, self.M.root) for f in files]
        rcs = []
        t0 = time.time()
        for i in range(0, len(rel), per_invocation):
            rc, out = C.run([self.cli] + rel[i:i + per_invocation], cwd=self.M.root, extra_env=self.M.env(), timeout=600)
            rcs.append((rc, out, rel[i:i + per_invocation]))
            if rc != 0 and per_invocation > 1:
                # the refusal is recorded above; generate the other files of the invocation on their own so that the
                # rest of the sample can still be examined
                for f in rel[i:i + per_invocation]:
                    C.run([self.cli, f], cwd=self.M.root, extra_env=self.M.env(), timeout=600)
        self.gen_s = time.time() - t0
        return rcs
    def extract(self):
        bands = sorted(glob.glob(os.path.join(self.M.root, "p", "*_band.go")))
        if not bands:
            return {}
        rc, out = C.run([self.extract_bin] + bands, timeout=300)
        res = {}
        for l in out.splitlines():
            if " " in l:
                n, rest = l.split(" ", 1)
                res[n] = rest
        return res
    def vet(self):
        self.M.write_registry()
        rc, out = C.run(["go", "vet", "./p/"], cwd=self.M.root, extra_env=self.M.env(), timeout=900)
        return rc, out
    def build_runner(self, race=False):
        self.M.write_registry()
        exe = os.path.join(self.M.root, "run.bin" + (".race" if race else ""))
        rc, out = C.run(["go", "build"] + (["-race"] if race else []) + ["-o", exe, "./cmd/run"], cwd=self.M.root, extra_env=self.M.env(), timeout=1200)
        if rc == 0:
            if race:
                self.runner_race = exe
            else:
                self.runner = exe
        return rc, out
    def run_specs(self, specs, race=False, timeout=120):
        """specs: list of dict(Name=..., Fail=..., DelayIn=..., CancelOn=..., Hold=..., Timeout=ms); the runner
        exits after a hung / leaking run, so it is restarted on the remaining specs"""
        exe = self.runner_race if race else self.runner
        results = []
        todo = list(specs)
        stderr_all = ""
        while todo:
            inp = "\n".join(json.dumps(s) for s in todo) + "\n"
            try:
                p = subprocess.run([exe], input=inp, stdout=subprocess.PIPE, stderr=subprocess.PIPE, text=True, timeout=timeout,
                                   env=dict(os.environ, GOMEMLIMIT="2GiB"))
                out, err = p.stdout, p.stderr
            except subprocess.TimeoutExpired as e:
                out = (e.stdout or b"").decode() if isinstance(e.stdout, bytes) else (e.stdout or "")
                err = "TIMEOUT"
            got = [json.loads(l) for l in out.splitlines() if l.startswith("{")]
            if "DATA RACE" in err:
                stderr_all += err
            results += got
            if len(got) == 0:
                results.append({"Name": todo[0].get("Name"), "Returned": False, "Panic": "runner produced no answer: " + err[-300:], "Events": [], "Leaked": 0})
                todo = todo[1:]
            else:
                todo = todo[len(got):]
        return results, stderr_all
