"""Seeded generator of abstract Inject declarations (the line format shared by the Lean driver, the
in-process Go driver and the renderer).

  <ret> ; <kind async err : requires : provides/... : structTy : F=ty ...> ; ...

kind 0 = function provider (Provide/Value/Bind: extra types in a result group are bound interfaces),
kind 1 = Struct[T]() expansion. Type key 0 is context.Context.
"""
import random

class SplitMix64:
    """One PRNG state drives every random choice, so a case replays exactly from (seed, index)."""
    def __init__(self, seed):
        self.s = seed & 0xFFFFFFFFFFFFFFFF
    def next(self):
        self.s = (self.s + 0x9E3779B97F4A7C15) & 0xFFFFFFFFFFFFFFFF
        z = self.s
        z = ((z ^ (z >> 30)) * 0xBF58476D1CE4E5B9) & 0xFFFFFFFFFFFFFFFF
        z = ((z ^ (z >> 27)) * 0x94D049BB133111EB) & 0xFFFFFFFFFFFFFFFF
        return z ^ (z >> 31)
    def random(self):
        return (self.next() >> 11) / float(1 << 53)
    def randint(self, a, b):
        return a + self.next() % (b - a + 1)
    def choice(self, l):
        return l[self.next() % len(l)]
    def shuffle(self, l):
        for i in range(len(l) - 1, 0, -1):
            j = self.next() % (i + 1)
            l[i], l[j] = l[j], l[i]
    def chance(self, p):
        return self.random() < p

def fmt_prov(p):
    return "%d %d %d : %s : %s : %d : %s" % (
        p['kind'], p['a'], p['e'], " ".join(map(str, p['req'])),
        " / ".join(" ".join(map(str, g)) for g in p['groups']), p['sty'],
        " ".join("%s=%d" % f for f in p['fields']))

def fmt_decl(root, provs):
    return "%d ; " % root + " ; ".join(fmt_prov(p) for p in provs)

def parse_decl(line):
    parts = line.split(';')
    ret = int(parts[0].split()[0])
    provs = []
    for ps in parts[1:]:
        f = ps.split(':')
        h = [int(x) for x in f[0].split()]
        provs.append(dict(kind=h[0], a=h[1], e=h[2], req=[int(x) for x in f[1].split()],
                          groups=[[int(x) for x in g.split()] for g in f[2].split('/') if g.strip()],
                          sty=int(f[3].split()[0]) if f[3].split() else 0,
                          fields=[(x.split('=')[0], int(x.split('=')[1])) for x in f[4].split()]))
    return ret, provs

def gen_decl(rng, mode="valid", profile=None):
    """mode: valid | malformed.  profile tunes shape: 'dag' (default), 'zero' (many input-free providers),
    'ctx' (context.Context required at various depths), 'wide' (many arguments)."""
    profile = profile or (rng.choice(['dag', 'dag', 'dag', 'zero', 'ctx', 'wide', 'multi', 'shared', 'shared']) if not rng.chance(0.04) else 'huge')
    cnt = [0]
    def mk():
        cnt[0] += 1
        return cnt[0]
    if profile in ('shared', 'huge') and mode != "valid":
        profile = 'dag'
    if profile == 'huge':
        # many providers ready at once / many goroutines: 12-30 loaders (mostly Async; input-free, or fed by one
        # synchronous provider that runs on the injector's own goroutine), a few groupers over them, one root
        argt = [mk()]
        provs = []
        cfg = None
        if rng.chance(0.6):
            cfg = mk()
            provs.append(dict(kind=0, a=0, e=int(rng.chance(0.2)), req=[argt[0]] if rng.chance(0.3) else [], groups=[[cfg]], sty=0, fields=[]))
        loaders = []
        for _ in range(rng.randint(12, 30)):
            t = mk()
            req = [cfg] if (cfg is not None and rng.chance(0.5)) else []
            provs.append(dict(kind=0, a=int(rng.chance(0.85)), e=int(rng.chance(0.1)), req=req, groups=[[t]], sty=0, fields=[]))
            loaders.append(t)
        mids = []
        rest = list(loaders)
        rng.shuffle(rest)
        for _ in range(rng.randint(2, 5)):
            k = rng.randint(1, 3)
            take, rest = rest[:k], rest[k:]
            if not take:
                break
            t = mk()
            provs.append(dict(kind=0, a=int(rng.chance(0.6)), e=0, req=take, groups=[[t]], sty=0, fields=[]))
            mids.append(t)
        root = mk()
        provs.append(dict(kind=0, a=0, e=int(rng.chance(0.2)), req=mids + rest, groups=[[root]], sty=0, fields=[]))
        rng.shuffle(provs)
        return fmt_decl(root, provs)
    if profile == 'shared':
        # diamonds: a few (mostly Async, sometimes ctx-taking / fallible) producers, each consumed by several consumers
        # with mixed Async/sync marking, so that the same value is awaited from the main flow and from goroutines
        argt = [mk() for _ in range(2)]
        provs, prod_out, mid_out = [], [], []
        for _ in range(rng.randint(1, 3)):
            req = []
            if rng.chance(0.4):
                req.append(0)
            if rng.chance(0.4):
                req.append(rng.choice(argt))
            t = mk()
            groups = [[t]]
            if rng.chance(0.2):
                groups.append([mk()])
            provs.append(dict(kind=0, a=int(rng.chance(0.8)), e=int(rng.chance(0.4)), req=req, groups=groups, sty=0, fields=[]))
            prod_out += [g[0] for g in groups]
        for _ in range(rng.randint(2, 5)):
            req = [rng.choice(prod_out) for _ in range(rng.randint(1, 2))]
            if mid_out and rng.chance(0.35):
                req.append(rng.choice(mid_out))
            if rng.chance(0.2):
                req.append(rng.choice(argt))
            t = mk()
            provs.append(dict(kind=0, a=int(rng.chance(0.5)), e=int(rng.chance(0.25)), req=req, groups=[[t]], sty=0, fields=[]))
            mid_out.append(t)
        root = mk()
        used = set(r for p in provs for r in p['req'])
        req = [t for t in mid_out if t not in used or rng.chance(0.5)] + [t for t in prod_out if t not in used or rng.chance(0.3)]
        provs.append(dict(kind=0, a=int(rng.chance(0.33)), e=int(rng.chance(0.2)), req=req or [mid_out[-1]], groups=[[root]], sty=0, fields=[]))
        rng.shuffle(provs)
        return fmt_decl(root, provs)
    nargs = 3 if profile != 'wide' else 5
    argt = [mk() for _ in range(nargs)]
    if profile == 'ctx' or rng.chance(0.15):
        argt.append(0)
    avail = []; used = set(); provs = []
    nt = rng.randint(1, 10)
    p_async = {'dag': 0.5, 'zero': 0.6, 'ctx': 0.6, 'wide': 0.4, 'multi': 0.6}[profile]
    p_zero = {'dag': 0.33, 'zero': 0.6, 'ctx': 0.3, 'wide': 0.2, 'multi': 0.25}[profile]
    for i in range(nt):
        k = 0 if rng.chance(p_zero) else rng.randint(1 if profile == 'multi' else 0, 4 if profile == 'multi' else 3)
        req = []
        for j in range(k):
            if avail and rng.chance(0.8 if profile != 'wide' else 0.5):
                if profile == 'multi' and req and rng.chance(0.4):
                    r = req[-1] if req[-1] in avail else rng.choice(avail)
                else:
                    r = rng.choice(avail)
                req.append(r); used.add(r)
            else:
                req.append(rng.choice(argt))
        if profile == 'ctx' and rng.chance(0.35):
            req.insert(rng.randint(0, len(req)), 0)
        groups = [[mk()]]
        if rng.chance(0.25 if profile != 'multi' else 0.5):
            groups.append([mk()])
        if rng.chance(0.2 if profile != 'multi' else 0.4):
            groups[0].append(mk())          # bound interface
        provs.append(dict(kind=0, a=int(rng.chance(p_async)), e=int(rng.chance(0.25)), req=req, groups=groups, sty=0, fields=[]))
        new = [t for g in groups for t in g]
        if rng.chance(0.2):
            fields = []
            for f in range(rng.randint(1, 3)):
                ft = mk(); fields.append(("F%d" % f, ft)); new.append(ft)
            provs.append(dict(kind=1, a=int(rng.chance(0.5)), e=0, req=[], groups=[], sty=groups[0][0], fields=fields))
            used.add(groups[0][0])
            if rng.chance(0.3):
                # nested expansion: a field of the expanded struct is itself a struct that is expanded (the provider
                # list is shuffled at the end, so the inner Struct may be declared before the outer one)
                inner = fields[0][1]
                ifields = []
                for f in range(rng.randint(1, 2)):
                    ft = mk(); ifields.append(("G%d" % f, ft)); new.append(ft)
                provs.append(dict(kind=1, a=0, e=0, req=[], groups=[], sty=inner, fields=ifields))
                used.add(inner)
        avail += new
    root = mk()
    req = [a for a in avail if a not in used and rng.chance(0.75)]
    if profile == 'wide':
        req += [a for a in argt if rng.chance(0.5)]
    provs.append(dict(kind=0, a=int(rng.chance(0.33)), e=int(rng.chance(0.2)), req=req, groups=[[root]], sty=0, fields=[]))
    # unneeded providers (some Async / fallible): must not influence anything
    for _ in range(rng.randint(0, 2) if rng.chance(0.3) else 0):
        provs.append(dict(kind=0, a=int(rng.chance(0.5)), e=int(rng.chance(0.5)),
                          req=[rng.choice(argt)] if rng.chance(0.5) else [], groups=[[mk()]], sty=0, fields=[]))
    if mode == "malformed":
        c = rng.random()
        fn = [p for p in provs if p['kind'] == 0]
        if c < 0.35 and avail:
            p = rng.choice(fn[:-1] or fn)          # back edge (incl. self loop, through bind/multi groups)
            tgt = rng.choice([root] + avail + [t for g in p['groups'] for t in g])
            p['req'].insert(rng.randint(0, len(p['req'])), tgt)
        elif c < 0.55 and avail:                   # duplicate supplier, plain or via bind group
            t = rng.choice(avail)
            if rng.chance(0.5):
                provs.append(dict(kind=0, a=0, e=0, req=[], groups=[[t]], sty=0, fields=[]))
            else:
                provs.append(dict(kind=0, a=int(rng.chance(0.5)), e=0, req=[], groups=[[mk(), t]], sty=0, fields=[]))
        elif c < 0.7:                              # duplicate via struct fields
            structs = [p for p in provs if p['kind'] == 1]
            if structs and rng.chance(0.6):
                s = rng.choice(structs)
                if rng.chance(0.5) and avail:
                    s["fields"].append(("Z0", rng.choice(avail)))       # field type already supplied
                else:
                    s["fields"].append(("Z0", s["fields"][0][1]))       # two fields of the same type
            else:
                st = mk(); ft = mk()
                provs.insert(0, dict(kind=0, a=0, e=0, req=[], groups=[[st]], sty=0, fields=[]))
                provs.append(dict(kind=1, a=0, e=0, req=[], groups=[], sty=st, fields=[("X", ft), ("Y", ft)]))
        elif c < 0.85:                             # orphan Struct
            provs.append(dict(kind=1, a=0, e=0, req=[], groups=[], sty=mk(), fields=[("X", mk())]))
        else:
            root = mk()                            # unsupplied requested type
    rng.shuffle(provs)
    return fmt_decl(root, provs)

def gen_varpool(rng):
    bases = ["foo", "foo0", "foo1", "fooCh", "fooCh0", "err", "err0", "eg", "ctx", "ch", "zero", "len", "type",
             "bar", "bar0", "num", "str", "val", "errgroup", "context", "nil", "app", "app0", "x", "x00", "x0"]
    tnames = ["Foo", "Foo0", "Foo1", "FooCh", "FooCh0", "Err", "Err0", "Eg", "Ctx", "Ch", "Zero", "Len", "Type",
              "Bar", "HTTPServer", "DB", "App", "App0", "X", "X0", "X00", "Int", "String", "Error"]
    pre = [rng.choice(bases) for _ in range(rng.randint(0, 4))]
    ops = []
    if rng.chance(0.04):
        # one base requested many times: the numeric suffix runs through names that are predeclared themselves
        # (int8, int16, uint8, float32, complex64, ...) or that another request uses as its base
        b = rng.choice(["Int", "Uint", "Float", "Complex", "Int", "Uint", "Foo", "Err"])
        for _ in range(rng.choice([10, 18, 34, 66])):
            ops.append(("t:" if rng.chance(0.7) else "c:") + b)
        return "%s | %s" % (" ".join(pre), " ".join(ops))
    for _ in range(rng.randint(1, 12)):
        k = rng.random()
        if k < 0.4:
            ops.append("n:" + rng.choice(bases))
        elif k < 0.75:
            ops.append("t:" + rng.choice(tnames))
        else:
            ops.append("c:" + rng.choice(tnames))
    return "%s | %s" % (" ".join(pre), " ".join(ops))

def gen_imports(rng):
    names = ["b", "b_1", "b_2", "cfg", "cfg_1", "v2", "x"]
    dirs = ["a", "c", "d/e", "k8s/api", "x"]
    ops = []
    for _ in range(rng.randint(1, 10)):
        n = rng.choice(names)
        last = n if rng.chance(0.7) else rng.choice(names)
        ops.append("%s/%s=%s" % (rng.choice(dirs), last, n))
    return " ".join(ops)


def small_exhaustive(n):
    """every declaration with exactly n function providers p0..p(n-1) where p_i provides one fresh type, requires any
    subset of the earlier providers' types and of one injector argument type, and is Async / fallible or not; the last
    provider's type is requested (so earlier providers may be unneeded).  Complete for its shape: 8*16*...*(2^(i+1)*4)."""
    import itertools
    arg = 1
    tys = [2 + i for i in range(n)]
    def rec(i, provs):
        if i == n:
            yield fmt_decl(tys[-1], provs)
            return
        avail = [arg] + tys[:i]
        for mask in range(1 << len(avail)):
            req = [avail[j] for j in range(len(avail)) if mask >> j & 1]
            for a in (0, 1):
                for e in (0, 1):
                    yield from rec(i + 1, provs + [dict(kind=0, a=a, e=e, req=req, groups=[[tys[i]]], sty=0, fields=[])])
    return rec(0, [])
