"""C13 (migration preserves what google/wire would have built) and C14 (migration output is well-formed, minimal,
deterministic): real google/wire and `kessoku migrate` + `kessoku` run on the same seeded wire configurations;
both generated injectors are compiled over the same instrumented providers and executed."""
import collections, hashlib, json, os, re, shutil, subprocess
from . import common as C
from . import declgen as G
from . import wiregen as W
from . import render
from .lean import lean_obligations, prepare

TRUSTED = [
    "Lean 4.33.0 kernel; axioms allowed: propext, Classical.choice, Quot.sound (audited per theorem)",
    "google/wire v0.7.0 (built offline from the module cache) is the reference for what wire would have built",
    "wiregen (seeded generator/renderer of wire configurations) and the reflective two-package runner",
    "go/format, go/types verdicts on the migrated file (gofmt -l, go build) are verdicts of the real tools",
]

GOMOD = """module e2e

go 1.24.0

require (
	github.com/google/wire v0.7.0
	github.com/mazrean/kessoku v0.0.0
	golang.org/x/sync v0.19.0
)

replace github.com/mazrean/kessoku => %s
"""

RUN_GO = r'''package main

import (
	"bufio"
	"encoding/json"
	"fmt"
	"os"
	"reflect"
	"regexp"

	"e2e/rt"
)

type Req struct {
	Name string
	Fail map[string]bool
}
type Side struct {
	Term   string
	Err    string
	Events []string
	Params []string
	Panic  string
}
type Res struct {
	Name string
	W, K Side
}

var reTy = regexp.MustCompile(`^\*?.*T(\d+)$`)

func call(fn any, fail map[string]bool) (s Side) {
	defer func() {
		if r := recover(); r != nil {
			s.Panic = fmt.Sprint(r)
		}
	}()
	rt.Reset(rt.Spec{Fail: fail}, nil)
	fv := reflect.ValueOf(fn)
	ft := fv.Type()
	args := make([]reflect.Value, ft.NumIn())
	for i := 0; i < ft.NumIn(); i++ {
		it := ft.In(i)
		s.Params = append(s.Params, it.String())
		// *Tn argument: &Tn{t: "An"}
		if it.Kind() != reflect.Ptr {
			args[i] = reflect.Zero(it)
			continue
		}
		v := reflect.New(it.Elem())
		if m := reTy.FindStringSubmatch(it.String()); m != nil {
			if st := v.MethodByName("SetTerm"); st.IsValid() {
				st.Call([]reflect.Value{reflect.ValueOf("A" + m[1])})
			}
		}
		args[i] = v
	}
	outs := fv.Call(args)
	if len(outs) > 0 && !outs[0].IsNil() {
		if t, ok := outs[0].Interface().(interface{ Term() string }); ok {
			s.Term = t.Term()
		}
	}
	if len(outs) == 2 && !outs[1].IsNil() {
		s.Err = rt.Describe(outs[1].Interface().(error))
	}
	for _, e := range rt.Events() {
		s.Events = append(s.Events, e.Kind+":"+e.ID)
	}
	return s
}

func main() {
	sc := bufio.NewScanner(os.Stdin)
	out := bufio.NewWriter(os.Stdout)
	defer out.Flush()
	for sc.Scan() {
		var rq Req
		if json.Unmarshal(sc.Bytes(), &rq) != nil {
			continue
		}
		res := Res{Name: rq.Name}
		if f, ok := WFuncs[rq.Name]; ok {
			res.W = call(f, rq.Fail)
		} else {
			res.W.Panic = "missing"
		}
		if f, ok := KFuncs[rq.Name]; ok {
			res.K = call(f, rq.Fail)
		} else {
			res.K.Panic = "missing"
		}
		b, _ := json.Marshal(res)
		fmt.Fprintln(out, string(b))
	}
}
'''

def build_wire(tools_dir):
    """real google/wire, built outside /repo from the module cache (cached under .cache)"""
    exe = os.path.join(C.CACHE, "wire-bin", "wire")
    if os.path.exists(exe):
        return exe
    d = os.path.join(C.CACHE, "wire-bin")
    os.makedirs(d, exist_ok=True)
    shutil.copy(os.path.join(C.REPO, "tools", "go.mod"), os.path.join(d, "go.mod"))
    sums = set()
    for f in (os.path.join(C.REPO, "tools", "go.sum"), os.path.join(C.REPO, "go.work.sum"), os.path.join(C.REPO, "go.sum")):
        if os.path.exists(f):
            sums.update(l for l in open(f).read().split("\n") if l.strip())
    open(os.path.join(d, "go.sum"), "w").write("\n".join(sorted(sums)) + "\n")
    rc, out = C.run(["go", "build", "-o", exe, "github.com/google/wire/cmd/wire"], cwd=d, extra_env={"GOWORK": "off", "GOFLAGS": "-mod=mod"}, timeout=900)
    if rc != 0:
        raise C.BuildError("google/wire does not build offline: " + out[-1500:])
    return exe

class Workspace:
    def __init__(self, tag):
        self.root = os.path.join(C.CACHE, "tmp", "mig_%s_%d" % (tag, os.getpid()))
        shutil.rmtree(self.root, ignore_errors=True)
        os.makedirs(os.path.join(self.root, "rt"))
        os.makedirs(os.path.join(self.root, "cmd", "run"))
        open(os.path.join(self.root, "go.mod"), "w").write(GOMOD % C.REPO)
        sums = set()
        for f in (os.path.join(C.REPO, "tools", "go.sum"), os.path.join(C.REPO, "go.work.sum"), os.path.join(C.REPO, "go.sum")):
            if os.path.exists(f):
                sums.update(l for l in open(f).read().split("\n") if l.strip())
        open(os.path.join(self.root, "go.sum"), "w").write("\n".join(sorted(sums)) + "\n")
        open(os.path.join(self.root, "rt", "rt.go"), "w").write(render.RT_GO)
    def env(self):
        return {"GOFLAGS": "-mod=mod", "GOWORK": "off", "GOTOOLCHAIN": "go1.25.5"}
    def close(self):
        shutil.rmtree(self.root, ignore_errors=True)

def process_cfg(ws, k, cfg, wire_exe, cli):
    """returns a record: statuses of wire / migrate / generate, the migrated source, file lists"""
    rec = dict(k=k, desc=W.describe(cfg), cfg=cfg)
    for side in ("w", "k"):
        pkg = "%s%d" % (side, k)
        d = os.path.join(ws.root, pkg)
        os.makedirs(d)
        files, meta = W.render(cfg, pkg)
        for fn, txt in files.items():
            open(os.path.join(d, fn), "w").write(txt)
        rec["meta"] = meta
        rec["files_" + side] = files
    wd = os.path.join(ws.root, "w%d" % k)
    rc, out = C.run([wire_exe, "gen", "./w%d" % k], cwd=ws.root, extra_env=ws.env(), timeout=300)
    rec["wire_rc"], rec["wire_out"] = rc, out[-1500:]
    kd = os.path.join(ws.root, "k%d" % k)
    outp = os.path.join(kd, "kessoku.go")
    rc, out = C.run([cli, "migrate", "-o", outp, "./k%d" % k], cwd=ws.root, extra_env=ws.env(), timeout=300)
    rec["mig_rc"], rec["mig_out"] = rc, out[-1500:]
    rec["mig_written"] = os.path.exists(outp)
    if rec["mig_written"]:
        rec["migrated"] = open(outp).read()
        # determinism: a second run must give the same bytes
        aside = os.path.join(ws.root, "first_%d.go.txt" % k)
        os.rename(outp, aside)
        rc2, _ = C.run([cli, "migrate", "-o", outp, "./k%d" % k], cwd=ws.root, extra_env=ws.env(), timeout=300)
        rec["mig_same"] = os.path.exists(outp) and open(outp).read() == rec["migrated"]
        os.remove(aside)
        # gofmt-stable
        rcf, outf = C.run(["gofmt", "-l", outp], timeout=60)
        rec["gofmt_dirty"] = bool(outf.strip())
        # set the wire files aside, then generate
        for fn in rec["meta"]["wire_files"]:
            os.remove(os.path.join(kd, fn))
        rc, out = C.run([cli, "k%d/kessoku.go" % k], cwd=ws.root, extra_env=ws.env(), timeout=300)
        rec["gen_rc"], rec["gen_out"] = rc, out[-1500:]
    return rec

def run_pairs(ws, recs, fail_specs):
    """compile one runner over all configurations whose both sides exist; run specs"""
    good = [r for r in recs if r["wire_rc"] == 0 and r.get("gen_rc") == 0]
    reg = ["package main", "", "import ("]
    for r in good:
        reg.append('\tw%d "e2e/w%d"' % (r["k"], r["k"]))
        reg.append('\tk%d "e2e/k%d"' % (r["k"], r["k"]))
    reg.append(")")
    reg.append("var WFuncs = map[string]any{")
    for r in good:
        reg.append('\t"%d": w%d.Init,' % (r["k"], r["k"]))
        if r["meta"].get("second") is not None:
            reg.append('\t"%d:2": w%d.Init2,' % (r["k"], r["k"]))
    reg.append("}")
    reg.append("var KFuncs = map[string]any{")
    for r in good:
        reg.append('\t"%d": k%d.Init,' % (r["k"], r["k"]))
        if r["meta"].get("second") is not None:
            reg.append('\t"%d:2": k%d.Init2,' % (r["k"], r["k"]))
    reg.append("}")
    open(os.path.join(ws.root, "cmd", "run", "reg.go"), "w").write("\n".join(reg) + "\n")
    src = RUN_GO
    open(os.path.join(ws.root, "cmd", "run", "main.go"), "w").write(src)
    # per-package compile check first, so that one broken package does not hide the others
    broken = {}
    for r in good:
        for side in ("w", "k"):
            rc, out = C.run(["go", "build", "-gcflags=-e", "-o", os.devnull, "./%s%d/" % (side, r["k"])], cwd=ws.root, extra_env=ws.env(), timeout=600)
            if rc != 0:
                broken[(side, r["k"])] = out[-1200:]
    usable = [r for r in good if ("w", r["k"]) not in broken and ("k", r["k"]) not in broken]
    if len(usable) != len(good):
        # rewrite the registry without the broken ones
        keep = set(r["k"] for r in usable)
        lines = [l for l in "\n".join(reg).split("\n") if not re.search(r"\b[wk](\d+)\b", l) or int(re.search(r"\b[wk](\d+)\b", l).group(1)) in keep]
        open(os.path.join(ws.root, "cmd", "run", "reg.go"), "w").write("\n".join(lines) + "\n")
    exe = os.path.join(ws.root, "run.bin")
    rc, out = C.run(["go", "build", "-o", exe, "./cmd/run"], cwd=ws.root, extra_env=ws.env(), timeout=1200)
    if rc != 0:
        return broken, None, "runner does not build: " + out[-1500:]
    specs = []
    for r in usable:
        specs.append({"Name": str(r["k"])})
        for f in fail_specs(r):
            specs.append({"Name": str(r["k"]), "Fail": {f: True}})
        if r["meta"].get("second") is not None:
            specs.append({"Name": "%d:2" % r["k"]})
            for f in fail_specs(r, r["meta"]["second"]):
                specs.append({"Name": "%d:2" % r["k"], "Fail": {f: True}})
    p = subprocess.run([exe], input="\n".join(json.dumps(s) for s in specs) + "\n", stdout=subprocess.PIPE, stderr=subprocess.PIPE, text=True, timeout=600)
    results = [json.loads(l) for l in p.stdout.splitlines() if l.startswith("{")]
    return broken, list(zip(specs, results)), p.stderr[-500:]


# ------------------------------------------------------------------------------------------------ checks

def features(cfg):
    f = set()
    for nd in cfg["nodes"]:
        if nd["kind"] == "bind" and nd["name_style"] != "New":
            f.add("bind-by-name")
        if nd["kind"] == "bind" and nd.get("apart") and cfg.get("set_layout", 0) != 0 and cfg.get("_first_list"):
            f.add("bind-apart-from-provider")
        if nd["kind"] == "struct" and nd.get("form") == "value":
            f.add("struct-value-form")
    for c in cfg["cfgs"]:
        if c["form"] == "value":
            f.add("fieldsof-value-form")
    return f

_cache = {}

def migrate_stream(tier, seed):
    repo_dir = C.ensure_repo_build()
    key = (tier, seed, repo_dir)
    if key in _cache:
        return _cache[key]
    tools = C.ensure_tools()
    wire = build_wire(tools)
    cli = os.path.join(repo_dir, "kessoku")
    ws = Workspace("s%d" % seed)
    rng = G.SplitMix64(seed * 7 + 123)
    n = 96 if tier == "quick" else 480
    cfgs = [W.gen_cfg(rng, "faithful" if k % 3 != 2 else "any") for k in range(n)]
    from concurrent.futures import ThreadPoolExecutor
    with ThreadPoolExecutor(8) as ex:
        recs = list(ex.map(lambda kc: process_cfg(ws, kc[0], kc[1], wire, cli), enumerate(cfgs)))
    def fails(r, root=0):
        keep = set(W.subtree(r["cfg"]["nodes"], root))
        return ["%sT%d" % (nd["name_style"], nd["id"]) for nd in r["cfg"]["nodes"] if nd["id"] in keep and nd["err"] and nd["kind"] in ("fn", "fnerr", "bind")][:2]
    # C14: the migrated file alone must compile in the source package (wire files set aside, before generation is irrelevant: the band is there too)
    broken, pairs, err = run_pairs(ws, recs, fails)
    res = dict(ws=ws, recs=recs, broken=broken, pairs=pairs, err=err)
    _cache[key] = res
    return res

def close_streams():
    for v in _cache.values():
        v["ws"].close()
    _cache.clear()

def norm_params(ps):
    return sorted(p.split(".")[-1] for p in (ps or []))

def _init_sig(text):
    """(sorted parameter types without qualifier, result list) of `func Init(`"""
    m = re.search(r"^func Init\((.*?)\) (.*?) \{$", text or "", re.M)
    if not m:
        return None
    def strip(t):
        t = t.strip()
        t = t.split(" ")[-1] if " " in t else t
        return re.sub(r"\b\w+\.", "", t)
    ps = [strip(p) for p in m.group(1).split(",") if p.strip()]
    return sorted(p for p in ps if p != "Context"), re.sub(r"\b\w+\.", "", m.group(2))

def import_stream(tier, seed, repo_dir):
    from . import wiregen14 as W14
    tools = C.ensure_tools()
    wire = build_wire(tools)
    cli = os.path.join(repo_dir, "kessoku")
    ws = Workspace("imp%d" % seed)
    rng = G.SplitMix64(seed * 31 + 9)
    n = 16 if tier == "quick" else 160
    cases = []
    try:
        for k in range(n):
            case = W14.gen_case(rng)
            files = {}
            for pkg in ("wi%d" % k, "ki%d" % k):
                f, meta = W14.render(case, "ci%d" % k, pkg)
                files.update(f)
            _write_files(ws.root, files)
            uses = meta["uses"]
            fo = [u for u in uses if u["kind"] == "fieldsof"]
            cases.append(dict(k=k, case=case, meta=meta, files={r: t for r, t in files.items() if not r.startswith("ki")}, desc=W14.describe(case),
                              twofo=bool(case.get("shared") and len(set((u["file"]) for u in fo)) < len(fo))))
        from concurrent.futures import ThreadPoolExecutor
        def one(c):
            k = c["k"]
            rc, out = C.run([wire, "gen", "./wi%d" % k], cwd=ws.root, extra_env=ws.env(), timeout=300)
            c["wire_rc"], c["wire_out"] = rc, out[-800:]
            if rc != 0:
                return c
            wg = os.path.join(ws.root, "wi%d" % k, "wire_gen.go")
            c["wire_sig"] = _init_sig(open(wg).read() if os.path.exists(wg) else "")
            outp = os.path.join(ws.root, "ki%d" % k, "kessoku.go")
            rc, out = C.run([cli, "migrate", "-o", outp, "./ki%d" % k], cwd=ws.root, extra_env=ws.env(), timeout=300)
            c["mig_rc"], c["mig_out"] = rc, out[-800:]
            c["gen_rc"] = None
            if rc == 0 and os.path.exists(outp):
                c["migrated"] = open(outp).read()
                for fn in c["meta"]["wire_files"]:
                    os.remove(os.path.join(ws.root, "ki%d" % k, fn))
                rc, out = C.run([cli, "ki%d/kessoku.go" % k], cwd=ws.root, extra_env=ws.env(), timeout=300)
                c["gen_rc"], c["gen_out"] = rc, out[-800:]
                band = os.path.join(ws.root, "ki%d" % k, "kessoku_band.go")
                c["k_sig"] = _init_sig(open(band).read() if os.path.exists(band) else "")
            elif rc == 0:
                c["mig_rc"], c["mig_out"] = 1, "exit 0 but no output file"
            return c
        with ThreadPoolExecutor(8) as ex:
            cases = list(ex.map(one, cases))
        good = [c for c in cases if c["wire_rc"] == 0 and c.get("gen_rc") == 0]
        if good:
            rc, out = C.run(["go", "build", "-gcflags=-e"] + ["./ki%d/" % c["k"] for c in good], cwd=ws.root, extra_env=ws.env(), timeout=1200)
            for l in out.splitlines():
                m = re.match(r"^(?:\./)?ki(\d+)/[\w.]+:\d+:\d+: (.*)", l.strip())
                if m:
                    for c in good:
                        if c["k"] == int(m.group(1)) and not c.get("build_err"):
                            c["build_err"] = m.group(2)
    finally:
        ws.close()
    return dict(cases=cases)

def check_c13(tier, seed):
    R = C.Result("C13", tier, seed)
    repo_dir = C.ensure_repo_build()
    lean_obligations(R, "C13", repo_dir)
    from . import probes
    probes.run(R, "C13", repo_dir, build_wire(C.ensure_tools()))
    try:
        S = migrate_stream(tier, seed)
        recs = S["recs"]
        accepted = [r for r in recs if r["wire_rc"] == 0]
        kinds = collections.Counter()
        def finding(r, what, text, extra=None):
            feats = features(r["cfg"])
            rp = {"kind": "input", "failing_input": {"config": r["desc"], "sources": r["files_w"]}, "what": what,
                  "migrated": r.get("migrated"), "reproduce": "write the sources into a package, run `wire gen`, `kessoku migrate`, `kessoku kessoku.go`, compare the two Init functions"}
            if extra:
                rp.update(extra)
            fid = None
            for f in ("bind-by-name", "struct-value-form", "fieldsof-value-form", "bind-apart-from-provider"):
                if f in feats:
                    fid = "C13-" + f
                    break
            text = "%s  [configuration %s]" % (text, r["desc"])
            if fid:
                R.finding(fid, text, rp)
            else:
                R.violation(text, rp)
        for r in accepted:
            for nd in r["cfg"]["nodes"]:
                kinds[nd["kind"]] += 1
            if r["mig_rc"] != 0:
                finding(r, "migrate-refuses", "wire accepts the configuration but kessoku migrate refuses it: %s" % r["mig_out"].strip().splitlines()[-1][:200])
            elif r.get("gen_rc") != 0:
                finding(r, "generate-refuses", "the migrated file is refused by the generator: %s" % (r.get("gen_out") or "").strip().splitlines()[-1][:200])
            elif ("k", r["k"]) in S["broken"]:
                finding(r, "does-not-compile", "the injector generated from the migrated file does not compile: %s" % S["broken"][("k", r["k"])].strip().splitlines()[-1][:200])
        runs = 0
        if S["pairs"] is None:
            R.violation("the two-package runner does not build: %s" % S["err"], {"kind": "correspondence-broken", "correspondence": "wire_gen.go and kessoku_band.go compile over the same providers", "detail": S["err"]})
        else:
            for sp, rs in S["pairs"]:
                runs += 1
                r = recs[int(sp["Name"].split(":")[0])]
                second = sp["Name"].endswith(":2")
                w, k = rs["W"], rs["K"]
                exp = W.expected_term(r["cfg"], r["cfg"]["second"] if second else 0)
                if not sp.get("Fail") and w["Term"] != exp and not w["Panic"]:
                    R.violation("reference disagreement: real wire computes %s, the reference written from wire's documentation says %s [%s]" % (w["Term"], exp, r["desc"]),
                                {"kind": "correspondence-broken", "correspondence": "wiregen.expected_term vs real google/wire", "config": r["desc"]})
                    continue
                diffs = []
                if k["Panic"]:
                    diffs.append("kessoku's injector cannot be called like wire's (%s); its parameters are %s, wire's %s" % (k["Panic"][:80], norm_params(k["Params"]), norm_params(w["Params"])))
                elif sp.get("Fail"):
                    # under a failing provider only the reported error is compared: which other providers ran
                    # before the failure depends on the (unspecified) call order
                    if w["Err"] != k["Err"]:
                        diffs.append("wire's injector reports %r, kessoku's %r when %s fails" % (w["Err"], k["Err"], list(sp["Fail"])))
                else:
                    if w["Term"] != k["Term"]:
                        diffs.append("result differs: wire %s, kessoku %s" % (w["Term"], k["Term"]))
                    if sorted(w["Events"] or []) != sorted(k["Events"] or []):
                        diffs.append("provider invocations differ: wire %s, kessoku %s" % (sorted(set(w["Events"] or [])), sorted(set(k["Events"] or []))))
                    if norm_params(w["Params"]) != norm_params(k["Params"]):
                        diffs.append("argument types differ: wire %s, kessoku %s" % (norm_params(w["Params"]), norm_params(k["Params"])))
                    if w["Err"] != k["Err"] and not (w["Err"] and k["Err"] and sp.get("Fail") is None):
                        diffs.append("error differs: wire %r, kessoku %r" % (w["Err"], k["Err"]))
                if diffs:
                    if second:
                        diffs.insert(0, "second injector Init2 (sub-graph below node %d)" % r["cfg"]["second"])
                    finding(r, "behaviour-differs", "; ".join(diffs), {"spec": sp, "wire": w, "kessoku": k})
        # ---- import-heavy configurations (external packages sharing package and type names, 1-3 merged files):
        # the injector generated from the migrated file must take exactly the arguments wire's injector takes
        imp = import_stream(tier, seed, repo_dir)
        for c in imp["cases"]:
            if c["wire_rc"] != 0:
                continue
            rp = {"kind": "input", "failing_input": {"case": c["desc"], "sources": c["files"]}, "migrated": c.get("migrated"),
                  "wire_signature": c.get("wire_sig"), "kessoku_signature": c.get("k_sig"),
                  "reproduce": "write the sources into a module, run `wire gen`, then `kessoku migrate` + `kessoku kessoku.go` on a copy; compare the two Init functions"}
            if c["mig_rc"] != 0:
                R.violation("wire accepts the configuration but kessoku migrate refuses it: %s  [%s]" % ((c["mig_out"].strip().splitlines() or ["?"])[-1][:200], c["desc"]), rp)
            elif c["gen_rc"] != 0:
                R.violation("the migrated file is refused by the generator: %s  [%s]" % ((c["gen_out"].strip().splitlines() or ["?"])[-1][:200], c["desc"]), rp)
            elif c.get("build_err"):
                R.violation("the injector generated from the migrated file does not compile: %s  [%s]" % (c["build_err"][:300], c["desc"]), rp)
            elif c["wire_sig"] != c["k_sig"]:
                R.violation("the migrated injector's signature is (%s) -> %s, wire's is (%s) -> %s  [%s]" % (
                    ", ".join(c["k_sig"][0]), c["k_sig"][1], ", ".join(c["wire_sig"][0]), c["wire_sig"][1], c["desc"]), rp)
        R.coverage["import_stream_wire_rejections"] = sorted(set((c["wire_out"].strip().splitlines() or ["?"])[0][-160:] for c in imp["cases"] if c["wire_rc"] != 0))[:6]
        R.coverage["import_stream"] = {"cases": len(imp["cases"]), "accepted_by_wire": sum(1 for c in imp["cases"] if c["wire_rc"] == 0),
                                       "two_fieldsof_same_type_name": sum(1 for c in imp["cases"] if c["twofo"])}
        # ---- correspondence: the Lean model of wire / migrate / kessoku predicts, per configuration, whether the
        # migration is refused and whether the two injectors compute the same term
        prepare(repo_dir)
        units = [(r, 0) for r in accepted] + [(r, r["cfg"]["second"]) for r in accepted if r["cfg"].get("second") is not None]
        lines = ["W " + W.encode(r["cfg"], root) for r, root in units]
        model = C.lean_driver(lines)
        equal_impl = {}
        if S["pairs"] is not None:
            for sp, rs in S["pairs"]:
                if sp.get("Fail"):
                    continue
                w, k = rs["W"], rs["K"]
                equal_impl[sp["Name"]] = (not k["Panic"] and w["Term"] == k["Term"] and sorted(w["Events"] or []) == sorted(k["Events"] or [])
                                          and norm_params(w["Params"]) == norm_params(k["Params"]))
        mdiffs = []
        faithful_units, faithful_bad = 0, []
        for (r, root), m_full in zip(units, model):
            m = " ".join(m_full.split()[:3]) if m_full.startswith("W migrate=ok") else " ".join(m_full.split()[:2])
            if "faithful=true" in m_full and "complete=true" in m_full:
                # C13_partial's premises hold in the model: the implementation must migrate and agree with wire
                faithful_units += 1
                nm0 = str(r["k"]) + (":2" if root else "")
                if r["mig_rc"] != 0 or not equal_impl.get(nm0, False):
                    # (a refusal is a verdict on the whole package: the second injector cannot be judged when the
                    # migration or the generation of the package failed because of the first)
                    if not (root and (r["mig_rc"] != 0 or r.get("gen_rc") != 0)):
                        faithful_bad.append((r["desc"] + (" [Init2]" if root else ""), m_full))
            nm = str(r["k"]) + (":2" if root else "")
            if root and (r["mig_rc"] != 0 or r.get("gen_rc") != 0):
                continue                # the refusal is a verdict on the whole package; the model judges one injector
            if r["mig_rc"] != 0 or (r.get("gen_rc") not in (0, None) and "multiple providers" in (r.get("gen_out") or "")):
                # (the model counts an ambiguous migrated declaration - two suppliers of one type - as refused)
                impl = "W migrate=refused"
            elif nm in equal_impl:
                impl = "W migrate=ok equal=%s" % ("true" if equal_impl[nm] else "false")
            else:
                impl = "W migrate=ok equal=false"
            if impl != m:
                mdiffs.append((r["desc"] + (" [Init2]" if root else ""), m, impl))
        R.oblige("correspondence: Wire.wireEval / Wire.migrate / Wire.kEval predict, per configuration, refusal and equality of the two injectors (%d configurations)" % len(accepted),
                 not mdiffs, "%d differ; first: %s" % (len(mdiffs), mdiffs[:1]))
        R.oblige("C13_partial applies (Wire.faithful, wire's term complete) => the real migrated injector equals wire's (%d injectors)" % faithful_units,
                 not faithful_bad, "%d faithful configurations disagree; first: %s" % (len(faithful_bad), faithful_bad[:1]))
        R.coverage["faithful_injectors"] = faithful_units
        if faithful_bad and not R.violations:
            R.violation("configurations inside the proved-faithful subset on which the implementation differs from wire: %s" % (faithful_bad[:2],),
                        {"kind": "correspondence-broken", "correspondence": "C13_partial's subset vs real wire + kessoku migrate", "first": faithful_bad[:3]})
        if mdiffs and not R.violations:
            R.violation("the wire/migrate model and the implementation disagree on %d configurations" % len(mdiffs),
                        {"kind": "correspondence-broken", "correspondence": "Lean Wire model vs real wire + kessoku migrate", "first": mdiffs[:3]})
        R.coverage["disagreements_checked"] = len(mdiffs)
        R.samples = [{"config": r["desc"], "wire": r["wire_rc"], "migrate": r["mig_rc"], "generate": r.get("gen_rc"), "migrated": (r.get("migrated") or "")[:600]} for r in recs[:4]]
        R.coverage.update({"evaluations": len(recs), "distinct_nontrivial": len(set(r["desc"] for r in accepted)), "programs": len(accepted), "traces_validated_against_impl": runs,
                           "constructs": dict(kinds), "wire_rejected": len(recs) - len(accepted),
                           "rule": "seeded wire configurations (dependency DAGs below the requested type; per edge one of: provider function (any name, with/without error), Bind, Value, InterfaceValue, Struct (\"*\" or field list), FieldsOf (merged directives), injector argument; set layouts: flat Build, set reference + inline nested set, chained sets in 1-2 files); only configurations real wire accepts count; both injectors run fault-free and with each fallible provider failing; distinct = distinct configurations"})
    finally:
        close_streams()
    return R.finish("cd lean && lake build KV.Props.C13 && lake env lean <audit of Props/C13 theorems>", TRUSTED)


# ================================================================================================ C14

from . import wiregen14 as W14

TRUSTED14 = [
    "Lean 4.33.0 kernel; axioms allowed: propext, Classical.choice, Quot.sound (audited per theorem)",
    "factgen's reading of MigrateFiles / Writer.Write / main (ordered calls, error returns) and of the map ranges",
    "gofmt-stable and compiles are verdicts of the real tools (gofmt -l, go build) on every sampled output; Lean contains neither",
    "the model Imp.addImport is tied to TypeConverter.AddImport by differential correspondence on seeded call histories (verif-tagged in-process driver)",
    "wiregen14 (seeded generator of import-heavy wire configurations and of the five failure kinds)",
]

def _write_files(root, files):
    for rel, txt in files.items():
        p = os.path.join(root, rel)
        os.makedirs(os.path.dirname(p), exist_ok=True)
        open(p, "w").write(txt)

def import_histories(rng, n):
    """AddImport call histories over few paths and collision-prone names (incl. names that look like generated aliases)"""
    names = ["a", "a_1", "a_2", "b", "b_1", "a_1_1", "c"]
    lines = []
    for _ in range(n):
        k = rng.randint(1, 9)
        ops = []
        for _ in range(k):
            p = rng.randint(0, 5)
            # the path decides the last element: p/<name> so that the alias-omission rule is exercised too
            nm = rng.choice(names)
            last = rng.choice([nm, nm, "z%d" % p])
            ops.append("ex/p%d/%s=%s" % (p, last, nm))
        lines.append("I " + " ".join(ops))
    return lines

def c14_known(case_desc, uses, names, text):
    """classify a failing case against the recorded findings (by the construct that makes it fail)"""
    return None

def check_c14(tier, seed):
    R = C.Result("C14", tier, seed)
    repo_dir = C.ensure_repo_build()
    lean_obligations(R, "C14", repo_dir)
    from . import probes
    probes.run(R, "C14", repo_dir, build_wire(C.ensure_tools()))
    cli = os.path.join(repo_dir, "kessoku")
    rng = G.SplitMix64(seed * 11 + 5)
    ws = Workspace("c14s%d" % seed)
    try:
        # ---- (1) AddImport histories: Lean model vs the real TypeConverter
        prepare(repo_dir)
        nh = 4000 if tier == "quick" else 60000
        hist = import_histories(rng, nh)
        model = C.lean_driver(hist)
        rc, impl, out = C.go_driver(repo_dir, "migrate", hist)
        diffs = [(h, m, i) for h, m, i in zip(hist, model, impl) if m != i]
        if len(impl) != len(hist):
            diffs.append(("driver", "%d lines" % len(hist), "%d lines; %s" % (len(impl), out[-300:])))
        R.oblige("correspondence: Imp.addImport / Imports() vs TypeConverter.AddImport / Imports() on %d call histories" % nh, not diffs,
                 "%d differ; first: %s" % (len(diffs), diffs[:1]))
        # the property judged directly on the implementation's answers: same path <-> same name, within every history
        bad_alias = None
        collisions = 0
        for h, i in zip(hist, impl):
            if not i.startswith("I "):
                continue
            ops = [o.split("=") for o in h[2:].split()]
            outs = i[2:].split("|")[0].split()
            if len(outs) != len(ops):
                continue
            for x in range(len(ops)):
                for y in range(x):
                    if (ops[x][0] == ops[y][0]) != (outs[x] == outs[y]):
                        bad_alias = (h, i)
            if len(set(outs)) < len(outs) or any(o != op[1] for o, op in zip(outs, ops)):
                collisions += 1
        if bad_alias:
            R.violation("AddImport gives two packages one name (or one package two names): %s -> %s" % bad_alias,
                        {"kind": "input", "failing_input": {"history": bad_alias[0]}, "observed": bad_alias[1],
                         "reproduce": "VERIF_OPS=<file with the history line> go test -tags verif -run TestVerifDriver ./internal/migrate"})
        elif diffs:
            R.violation("the import-table model and TypeConverter disagree on %d histories, none of which breaks alias consistency" % len(diffs),
                        {"kind": "correspondence-broken", "correspondence": "Imp.addImport vs TypeConverter.AddImport", "first": diffs[:3]})
        # ---- (1b) TypeToExpr: the types migrate spells from type information (Inject[T], Bind[I], Struct[T], ...)
        from . import typeconv_stream as TCS
        nt = 4000 if tier == "quick" else 60000
        trng = G.SplitMix64(seed * 104729 + 7)
        tl = [TCS.gen_line(trng) for _ in range(nt)]
        tlines = [l for l, _ in tl]
        tmodel = C.lean_driver(tlines)
        rc_t, timpl, out_t = C.go_driver(repo_dir, "migrate", tlines)
        if len(timpl) < len(tlines):
            timpl += ["NO-ANSWER"] * (len(tlines) - len(timpl))
        tdiffs = [i for i, (a, b) in enumerate(zip(tmodel, timpl)) if a != b]
        R.oblige("correspondence: TConv.render (KV/TypeConv.lean) = TypeConverter.TypeToExpr + import table on %d constructed types" % nt, not tdiffs,
                 "%d differ; first: %s" % (len(tdiffs), [(tlines[i], tmodel[i], timpl[i]) for i in tdiffs[:1]]))
        tbad = [(len(tlines[i]), i, w) for i, w in ((i, TCS.judge(tl[i][1], timpl[i])) for i in range(nt)) if w]
        if tbad:
            _, i, w = min(tbad)
            R.violation("a type is not spelled as the type it denotes: %s  [%s -> %s]" % (w, tlines[i], timpl[i]),
                        {"kind": "input", "failing_input": tlines[i], "observed": timpl[i], "model": tmodel[i], "cases_failing": len(tbad),
                         "reproduce": "echo '%s' > ops; VERIF_OPS=ops VERIF_OUT=out go test -tags verif -run TestVerifDriver ./internal/migrate (in /repo)" % tlines[i]})
        elif tdiffs:
            i = tdiffs[0]
            R.violation("the TypeToExpr model and the implementation differ on %d types; every implementation answer denotes the type it was made from" % len(tdiffs),
                        {"kind": "correspondence-broken", "correspondence": "TConv.render vs TypeConverter.TypeToExpr", "case": tlines[i], "model": tmodel[i], "impl": timpl[i]})
        R.coverage["type_expressions"] = {"types": nt, "with_renamed_import": sum(1 for a in timpl if "_1" in a), "with_type_arguments": sum(1 for a in timpl if re.search(r"N\d+\[", a)),
                                          "function_types": sum(1 for a in timpl if "func(" in a), "struct_literals": sum(1 for a in timpl if "struct{" in a),
                                          "without_current_package": sum(1 for _, m in tl if m["cur"] is None), "interface_literals_spelled_any": sum(1 for _, m in tl if TCS.has(m["type"], "ifaceLit"))}
        # ---- (2) end to end: seeded import-heavy configurations
        n = 40 if tier == "quick" else 400
        cases = []
        for k in range(n):
            case = W14.gen_case(rng)
            files, meta = W14.render(case, "c%d" % k, "m%d" % k)
            _write_files(ws.root, files)
            # unrelated packages without wire files, sorting before and after the wire package: named next to it on the
            # command line they must not change the output
            # (the first one imports wire without holding any wire pattern: a set built at run time)
            _write_files(ws.root, {"a%dx/a.go" % k: "package a%dx\n\nimport \"github.com/google/wire\"\n\ntype Thing struct{}\n\nfunc NewThing() *Thing { return &Thing{} }\n\nfunc F() wire.ProviderSet { return wire.NewSet(NewThing) }\n" % k,
                                   "z%dx/z.go" % k: "package c%d\n\ntype Other struct{ N int }\n" % k})
            cases.append(dict(k=k, case=case, meta=meta, files=files, desc=W14.describe(case)))
        def run_migrate(c, out_rel, extra_env=None, patterns=None):
            e = ws.env()
            if extra_env:
                e.update(extra_env)
            return C.run([cli, "migrate", "-o", out_rel] + (patterns or ["./m%d" % c["k"]]), cwd=ws.root, extra_env=e, timeout=300)
        from concurrent.futures import ThreadPoolExecutor
        def one(c):
            outp = os.path.join(ws.root, "m%d" % c["k"], "kessoku.go")
            rc, out = run_migrate(c, outp)
            c["rc"], c["out"] = rc, out[-1200:]
            c["written"] = os.path.exists(outp)
            if c["written"]:
                c["text"] = open(outp).read()
                reruns = []
                for procs in ("1", "7"):
                    os.remove(outp)
                    run_migrate(c, outp, {"GOMAXPROCS": procs})
                    reruns.append(open(outp).read() if os.path.exists(outp) else None)
                c["same"] = all(t == c["text"] for t in reruns)
                # history: the output path already holds something (the previous output, a longer stale file,
                # a truncated one): the result must be what a fresh path gets
                hist = {}
                os.remove(outp)          # (a kessoku.go inside the package would be loaded as input)
                for label, prev in (("previous-output", c["text"]), ("longer-stale-file", c["text"] + "\nvar Stale = kessoku.Set(\n\tkessoku.Provide(NewStale),\n)\n" * 3),
                                    ("truncated-file", c["text"][: len(c["text"]) // 2])):
                    # (outside the migrated package: a file inside it would be loaded as part of the input)
                    hp = os.path.join(ws.root, "h%d" % c["k"], "out.go")
                    os.makedirs(os.path.dirname(hp), exist_ok=True)
                    open(hp, "w").write(prev)
                    run_migrate(c, hp)
                    got = open(hp).read() if os.path.exists(hp) else None
                    if got != c["text"]:
                        hist[label] = got
                # the same migration written through a relative output path / into a directory that does not exist yet
                for label, rel in (("relative-output-path", os.path.join("h%d" % c["k"], "rel.go")), ("output-in-new-directory", os.path.join("h%d" % c["k"], "new", "dir", "out.go"))):
                    rc_r, out_r = run_migrate(c, rel)
                    pth = os.path.join(ws.root, rel)
                    got = open(pth).read() if os.path.exists(pth) else None
                    if label == "output-in-new-directory" and got is None and rc_r != 0:
                        continue            # refusing to create directories is fine, as long as it is reported
                    if got != c["text"]:
                        hist[label] = got
                # several package patterns: the wire package before / after / between packages that have no wire files
                k = c["k"]
                m_, a_, z_ = "./m%d" % k, "./a%dx" % k, "./z%dx" % k
                pat_diff = {}
                for pats in ([m_, a_], [a_, m_], [m_, z_], [z_, m_], [a_, m_, z_]):
                    hp = os.path.join(ws.root, "h%d" % k, "pats.go")
                    if os.path.exists(hp):
                        os.remove(hp)
                    rc_p, out_p = run_migrate(c, hp, patterns=pats)
                    got = open(hp).read() if os.path.exists(hp) else None
                    if got != c["text"] and (got is not None or rc_p == 0):
                        pat_diff[" ".join(pats)] = got
                c["history_diff"] = hist
                open(outp, "w").write(c["text"])
                rcf, outf = C.run(["gofmt", "-l", outp], timeout=60)
                c["gofmt_dirty"] = bool(outf.strip()) or rcf != 0
                for fn in c["meta"]["wire_files"]:
                    os.remove(os.path.join(ws.root, "m%d" % c["k"], fn))
                # an output that depends on the other patterns is judged like any output: it has to compile in the package
                c["pattern_bad"] = {}
                for pats, got in pat_diff.items():
                    if got is None:
                        c["pattern_bad"][pats] = "exit 0 and no output file although the single-pattern run writes one"
                        continue
                    open(outp, "w").write(got)
                    rc_b, out_b = C.run(["go", "build", "-gcflags=-e", "./m%d/" % c["k"]], cwd=ws.root, extra_env=ws.env(), timeout=600)
                    rc_f, out_f = C.run(["gofmt", "-l", outp], timeout=60)
                    if rc_b != 0 or out_f.strip():
                        c["pattern_bad"][pats] = "output: %s ... ; %s" % (got[:400], (out_b.strip().splitlines() or ["not gofmt-stable"])[-1][:300])
                open(outp, "w").write(c["text"])
                c["pattern_diffs"] = len(pat_diff)
            return c
        with ThreadPoolExecutor(8) as ex:
            cases = list(ex.map(one, cases))
        written = [c for c in cases if c.get("written")]
        # one build for all migrated packages; errors are attributed by path
        rc, out = C.run(["go", "build", "-gcflags=-e"] + ["./m%d/" % c["k"] for c in written], cwd=ws.root, extra_env=ws.env(), timeout=1200)
        errs = collections.defaultdict(list)
        for l in out.splitlines():
            m = re.match(r"^\s*(?:\./)?m(\d+)/[\w.]+:\d+:\d+: (.*)", l)
            if m:
                errs[int(m.group(1))].append(m.group(2))
        if rc != 0 and not errs:
            R.violation("the migrated packages do not build and the errors could not be attributed: %s" % out[-600:],
                        {"kind": "correspondence-broken", "correspondence": "go build of migrated packages", "detail": out[-1500:]})
        stats = collections.Counter()
        def report(c, what, text):
            fid = None
            cs = c["case"]
            # recorded findings are identified by the construct that triggers them
            for u in c["meta"]["uses"]:
                d, pn = W14.CATALOGUE[u["pkg"]]
                nm, explicit = cs["names"]["%d:%d" % (u["file"], u["pkg"])]
                last = d.split("/")[-1]
                if not explicit and pn != last and u["kind"] in ("fn", "val", "bind", "ival", "fieldsof"):
                    fid = "C14-import-name-guessed-from-path"
            rp = {"kind": "input", "failing_input": {"case": c["desc"], "sources": c["files"]}, "what": what, "migrated": c.get("text"),
                  "observed": text, "reproduce": "write the sources into a module, run `kessoku migrate -o m/kessoku.go ./m`, set the wire files aside, `go build ./m/`"}
            if fid:
                R.finding(fid, "%s [%s]" % (text, c["desc"]), rp)
            else:
                R.violation("%s [%s]" % (text, c["desc"]), rp)
        for c in cases:
            for u in c["meta"]["uses"]:
                stats["use:" + u["kind"]] += 1
            stats["files:%d" % len(c["meta"]["wire_files"])] += 1
            if c["rc"] != 0:
                stats["refused"] += 1
                if c["written"]:
                    report(c, "written-on-failure", "migrate failed (%s) but wrote an output file" % c["out"].strip().splitlines()[-1][:160])
                else:
                    # a legal wire configuration that migrate refuses is C13's business; here only: no file on failure
                    pass
                continue
            if not c["written"]:
                stats["no-output"] += 1
                continue
            stats["written"] += 1
            if c["gofmt_dirty"]:
                report(c, "not-gofmt-stable", "the migrated file is not gofmt-stable")
            if not c["same"]:
                report(c, "not-deterministic", "repeated runs (GOMAXPROCS 1 / 7) produced different bytes")
            for label, got in c.get("history_diff", {}).items():
                report(c, "depends-on-output-path", "migrating with %s gives different bytes than a fresh absolute path (%s)" % (
                    label, "no file" if got is None else "tail: %r" % got[-80:]))
            for pats, what in c.get("pattern_bad", {}).items():
                report(c, "depends-on-command-line-patterns", "`kessoku migrate %s` writes a file that does not compile in the wire package (the single-pattern output does): %s" % (pats, what))
            stats["multi-pattern-output-differs-but-compiles"] += c.get("pattern_diffs", 0) - len(c.get("pattern_bad", {}))
            decl = re.findall(r"^var (\w+) = kessoku\.Set\(", c["text"], re.M)
            if sorted(decl) != sorted(c["meta"]["sets"]):
                report(c, "sets", "sets declared %s, source sets %s" % (decl, c["meta"]["sets"]))
            if c["k"] in errs:
                e = errs[c["k"]]
                kind = "unused-import" if any("imported and not used" in x for x in e) else ("missing-import" if any("undefined:" in x for x in e) else "does-not-compile")
                report(c, kind, "the migrated file does not compile in the source package (%s): %s" % (kind, "; ".join(e[:3])))
            else:
                stats["compiles"] += 1
        # ---- (2b) recorded finding: a FieldsOf accessor has to spell the field's type; when that type lives in an internal
        # package of another module tree (reachable for the user only through a public alias) the output imports it
        kf = {"kf/ext/internal/in/in.go": "package in\n\ntype Leaf struct{ N int }\n\ntype Cfg struct {\n\tA *Leaf\n\tB string\n}\n",
              "kf/ext/x.go": "package ext\n\nimport \"e2e/kf/ext/internal/in\"\n\ntype Leaf = in.Leaf\n\ntype Cfg = in.Cfg\n\nfunc NewCfg() *Cfg { return &Cfg{A: &Leaf{N: 1}} }\n",
              "kfm/types.go": "package kfm\n\nimport \"e2e/kf/ext\"\n\ntype App struct{ N int }\n\nfunc NewApp(l *ext.Leaf) *App { return &App{N: l.N} }\n",
              "kfm/wire.go": "//go:build wireinject\n\npackage kfm\n\nimport (\n\t\"e2e/kf/ext\"\n\t\"github.com/google/wire\"\n)\n\nfunc Init() *App {\n\twire.Build(ext.NewCfg, wire.FieldsOf(new(*ext.Cfg), \"A\"), NewApp)\n\treturn nil\n}\n"}
        _write_files(ws.root, kf)
        kout = os.path.join(ws.root, "kfm", "kessoku.go")
        rc_k, out_k = C.run([cli, "migrate", "-o", kout, "./kfm"], cwd=ws.root, extra_env=ws.env(), timeout=300)
        if rc_k == 0 and os.path.exists(kout):
            os.remove(os.path.join(ws.root, "kfm", "wire.go"))
            rc_b, out_b = C.run(["go", "build", "./kfm/"], cwd=ws.root, extra_env=ws.env(), timeout=600)
            rp = {"kind": "input", "failing_input": kf, "migrated": open(kout).read(), "build": out_b[-600:],
                  "reproduce": "write the sources into a module, run `kessoku migrate -o kfm/kessoku.go ./kfm`, delete kfm/wire.go, `go build ./kfm/`"}
            if rc_b != 0 and "use of internal package" in out_b:
                R.finding("C14-fieldsof-field-type-in-internal-package", "the FieldsOf accessor spells the field's type from its declaring (internal) package: %s" % out_b.strip().splitlines()[-1][:200], rp)
            elif rc_b != 0:
                R.violation("FieldsOf on a struct named through an alias: the migrated file does not compile: %s" % out_b.strip().splitlines()[-1][:300], rp)
        stats["alias-of-internal-struct-probe-exit"] = rc_k
        # ---- (3) failure kinds: non-zero exit, no output file (fresh path) / untouched file (existing path)
        fail_rows = []
        for kind in W14.FAIL_KINDS:
            for pre in (False, True):
                prefix = "f_%s_%d_" % (kind.replace("-", "_"), int(pre))
                files, patterns = W14.render_failure(kind, prefix)
                _write_files(ws.root, files)
                outp = os.path.join(ws.root, prefix + "out.go")
                sentinel = "package sentinel // previous content\n"
                if pre:
                    open(outp, "w").write(sentinel)
                rc, out = C.run([cli, "migrate", "-o", outp] + patterns, cwd=ws.root, extra_env=ws.env(), timeout=300)
                exists = os.path.exists(outp)
                okfile = (exists and open(outp).read() == sentinel) if pre else (not exists)
                fail_rows.append(dict(kind=kind, preexisting=pre, exit=rc, output_ok=okfile, message=out.strip().splitlines()[-1][:160] if out.strip() else ""))
                if rc == 0 or not okfile:
                    R.violation("failure kind '%s' (%s output path): exit code %d, output file %s" % (kind, "existing" if pre else "fresh", rc,
                                "untouched" if okfile else ("overwritten" if pre else "written")),
                                {"kind": "input", "failing_input": {"failure_kind": kind, "sources": files, "patterns": patterns, "preexisting_output": pre},
                                 "observed": {"exit": rc, "message": out[-400:]}, "reproduce": "kessoku migrate -o out.go " + " ".join(patterns)})
        R.coverage["failure_kinds"] = fail_rows
        R.samples = [{"case": c["desc"], "exit": c["rc"], "migrated": (c.get("text") or "")[:700]} for c in cases[:4]]
        R.coverage.update({"evaluations": len(cases) + len(fail_rows) + nh + nt, "programs": len(cases), "distinct_nontrivial": len(set(c["desc"] for c in written)),
                           "histories": nh, "histories_with_collision": collisions, "end_to_end": dict(stats),
                           "rule": "seeded wire packages using 1-4 external packages (same package name under different paths, package name != last path element, version directories) under implicit / explicit / clashing local names, in type position (Bind, Struct, FieldsOf, InterfaceValue) and expression position (provider functions, Value), spread over 1-3 wire files merged into one output; each successful output is checked for gofmt stability, byte identity over 3 runs, set declarations, and compiled with the wire files set aside; five failure kinds x fresh/existing output path; distinct = distinct case descriptions that produced a file"})
    finally:
        ws.close()
    return R.finish("cd lean && lake build KV.Props.C14 && lake env lean <audit of Props/C14 theorems>", TRUSTED14)
