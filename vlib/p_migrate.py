"""C13 (migration preserves what google/wire would have built) and C14 (migration output is well-formed, minimal,
deterministic): real google/wire and `kessoku migrate` + `kessoku` run on the same seeded wire configurations;
both generated injectors are compiled over the same instrumented providers and executed."""
import collections, hashlib, json, os, re, shutil, subprocess
from . import common as C
from . import declgen as G
from . import wiregen as W
from . import render
from .lean import lean_obligations, prepare

TRUSTED = [
    "Lean 4.33.0 kernel; axioms allowed: propext, Classical.choice, Quot.sound (audited per theorem)",
    "google/wire v0.7.0 (built offline from the module cache) is the reference for what wire would have built",
    "wiregen (seeded generator/renderer of wire configurations) and the reflective two-package runner",
    "go/format, go/types verdicts on the migrated file (gofmt -l, go build) are verdicts of the real tools",
]

GOMOD = """module e2e

go 1.24.0

require (
	github.com/google/wire v0.7.0
	github.com/mazrean/kessoku v0.0.0
	golang.org/x/sync v0.19.0
)

replace github.com/mazrean/kessoku => %s
"""

RUN_GO = r'''package main

import (
	"bufio"
	"encoding/json"
	"fmt"
	"os"
	"reflect"
	"regexp"

	"e2e/rt"
)

type Req struct {
	Name string
	Fail map[string]bool
}
type Side struct {
	Term   string
	Err    string
	Events []string
	Params []string
	Panic  string
}
type Res struct {
	Name string
	W, K Side
}

var reTy = regexp.MustCompile(`^\*?.*T(\d+)$`)

func call(fn any, fail map[string]bool) (s Side) {
	defer func() {
		if r := recover(); r != nil {
			s.Panic = fmt.Sprint(r)
		}
	}()
	rt.Reset(rt.Spec{Fail: fail}, nil)
	fv := reflect.ValueOf(fn)
	ft := fv.Type()
	args := make([]reflect.Value, ft.NumIn())
	for i := 0; i < ft.NumIn(); i++ {
		it := ft.In(i)
		s.Params = append(s.Params, it.String())
		// *Tn argument: &Tn{t: "An"}
		if it.Kind() != reflect.Ptr {
			args[i] = reflect.Zero(it)
			continue
		}
		v := reflect.New(it.Elem())
		if m := reTy.FindStringSubmatch(it.String()); m != nil {
			if st := v.MethodByName("SetTerm"); st.IsValid() {
				st.Call([]reflect.Value{reflect.ValueOf("A" + m[1])})
			}
		}
		args[i] = v
	}
	outs := fv.Call(args)
	if len(outs) > 0 && !outs[0].IsNil() {
		if t, ok := outs[0].Interface().(interface{ Term() string }); ok {
			s.Term = t.Term()
		}
	}
	if len(outs) == 2 && !outs[1].IsNil() {
		s.Err = rt.Describe(outs[1].Interface().(error))
	}
	for _, e := range rt.Events() {
		s.Events = append(s.Events, e.Kind+":"+e.ID)
	}
	return s
}

func main() {
	sc := bufio.NewScanner(os.Stdin)
	out := bufio.NewWriter(os.Stdout)
	defer out.Flush()
	for sc.Scan() {
		var rq Req
		if json.Unmarshal(sc.Bytes(), &rq) != nil {
			continue
		}
		res := Res{Name: rq.Name}
		if f, ok := WFuncs[rq.Name]; ok {
			res.W = call(f, rq.Fail)
		} else {
			res.W.Panic = "missing"
		}
		if f, ok := KFuncs[rq.Name]; ok {
			res.K = call(f, rq.Fail)
		} else {
			res.K.Panic = "missing"
		}
		b, _ := json.Marshal(res)
		fmt.Fprintln(out, string(b))
	}
}
'''

def build_wire(tools_dir):
    """real google/wire, built outside /repo from the module cache (cached under .cache)"""
    exe = os.path.join(C.CACHE, "wire-bin", "wire")
    if os.path.exists(exe):
        return exe
    d = os.path.join(C.CACHE, "wire-bin")
    os.makedirs(d, exist_ok=True)
    shutil.copy(os.path.join(C.REPO, "tools", "go.mod"), os.path.join(d, "go.mod"))
    sums = set()
    for f in (os.path.join(C.REPO, "tools", "go.sum"), os.path.join(C.REPO, "go.work.sum"), os.path.join(C.REPO, "go.sum")):
        if os.path.exists(f):
            sums.update(l for l in open(f).read().split("\n") if l.strip())
    open(os.path.join(d, "go.sum"), "w").write("\n".join(sorted(sums)) + "\n")
    rc, out = C.run(["go", "build", "-o", exe, "github.com/google/wire/cmd/wire"], cwd=d, extra_env={"GOWORK": "off", "GOFLAGS": "-mod=mod"}, timeout=900)
    if rc != 0:
        raise C.BuildError("google/wire does not build offline: " + out[-1500:])
    return exe

class Workspace:
    def __init__(self, tag):
        self.root = os.path.join(C.CACHE, "tmp", "mig_%s_%d" % (tag, os.getpid()))
        shutil.rmtree(self.root, ignore_errors=True)
        os.makedirs(os.path.join(self.root, "rt"))
        os.makedirs(os.path.join(self.root, "cmd", "run"))
        open(os.path.join(self.root, "go.mod"), "w").write(GOMOD % C.REPO)
        sums = set()
        for f in (os.path.join(C.REPO, "tools", "go.sum"), os.path.join(C.REPO, "go.work.sum"), os.path.join(C.REPO, "go.sum")):
            if os.path.exists(f):
                sums.update(l for l in open(f).read().split("\n") if l.strip())
        open(os.path.join(self.root, "go.sum"), "w").write("\n".join(sorted(sums)) + "\n")
        open(os.path.join(self.root, "rt", "rt.go"), "w").write(render.RT_GO)
    def env(self):
        return {"GOFLAGS": "-mod=mod", "GOWORK": "off", "GOTOOLCHAIN": "go1.25.5"}
    def close(self):
        shutil.rmtree(self.root, ignore_errors=True)

def process_cfg(ws, k, cfg, wire_exe, cli):
    """returns a record: statuses of wire / migrate / generate, the migrated source, file lists"""
    rec = dict(k=k, desc=W.describe(cfg), cfg=cfg)
    for side in ("w", "k"):
        pkg = "%s%d" % (side, k)
        d = os.path.join(ws.root, pkg)
        os.makedirs(d)
        files, meta = W.render(cfg, pkg)
        for fn, txt in files.items():
            open(os.path.join(d, fn), "w").write(txt)
        rec["meta"] = meta
        rec["files_" + side] = files
    wd = os.path.join(ws.root, "w%d" % k)
    rc, out = C.run([wire_exe, "gen", "./w%d" % k], cwd=ws.root, extra_env=ws.env(), timeout=300)
    rec["wire_rc"], rec["wire_out"] = rc, out[-1500:]
    kd = os.path.join(ws.root, "k%d" % k)
    outp = os.path.join(kd, "kessoku.go")
    rc, out = C.run([cli, "migrate", "-o", outp, "./k%d" % k], cwd=ws.root, extra_env=ws.env(), timeout=300)
    rec["mig_rc"], rec["mig_out"] = rc, out[-1500:]
    rec["mig_written"] = os.path.exists(outp)
    if rec["mig_written"]:
        rec["migrated"] = open(outp).read()
        # determinism: a second run must give the same bytes
        aside = os.path.join(ws.root, "first_%d.go.txt" % k)
        os.rename(outp, aside)
        rc2, _ = C.run([cli, "migrate", "-o", outp, "./k%d" % k], cwd=ws.root, extra_env=ws.env(), timeout=300)
        rec["mig_same"] = os.path.exists(outp) and open(outp).read() == rec["migrated"]
        os.remove(aside)
        # gofmt-stable
        rcf, outf = C.run(["gofmt", "-l", outp], timeout=60)
        rec["gofmt_dirty"] = bool(outf.strip())
        # set the wire files aside, then generate
        for fn in rec["meta"]["wire_files"]:
            os.remove(os.path.join(kd, fn))
        rc, out = C.run([cli, "k%d/kessoku.go" % k], cwd=ws.root, extra_env=ws.env(), timeout=300)
        rec["gen_rc"], rec["gen_out"] = rc, out[-1500:]
    return rec

def run_pairs(ws, recs, fail_specs):
    """compile one runner over all configurations whose both sides exist; run specs"""
    good = [r for r in recs if r["wire_rc"] == 0 and r.get("gen_rc") == 0]
    reg = ["package main", "", "import ("]
    for r in good:
        reg.append('\tw%d "e2e/w%d"' % (r["k"], r["k"]))
        reg.append('\tk%d "e2e/k%d"' % (r["k"], r["k"]))
    reg.append(")")
    reg.append("var WFuncs = map[string]any{")
    for r in good:
        reg.append('\t"%d": w%d.Init,' % (r["k"], r["k"]))
        if r["meta"].get("second") is not None:
            reg.append('\t"%d:2": w%d.Init2,' % (r["k"], r["k"]))
    reg.append("}")
    reg.append("var KFuncs = map[string]any{")
    for r in good:
        reg.append('\t"%d": k%d.Init,' % (r["k"], r["k"]))
        if r["meta"].get("second") is not None:
            reg.append('\t"%d:2": k%d.Init2,' % (r["k"], r["k"]))
    reg.append("}")
    open(os.path.join(ws.root, "cmd", "run", "reg.go"), "w").write("\n".join(reg) + "\n")
    src = RUN_GO
    open(os.path.join(ws.root, "cmd", "run", "main.go"), "w").write(src)
    # per-package compile check first, so that one broken package does not hide the others
    broken = {}
    for r in good:
        for side in ("w", "k"):
            rc, out = C.run(["go", "build", "-gcflags=-e", "-o", os.devnull, "./%s%d/" % (side, r["k"])], cwd=ws.root, extra_env=ws.env(), timeout=600)
            if rc != 0:
                broken[(side, r["k"])] = out[-1200:]
    usable = [r for r in good if ("w", r["k"]) not in broken and ("k", r["k"]) not in broken]
    if len(usable) != len(good):
        # rewrite the registry without the broken ones
        keep = set(r["k"] for r in usable)
        lines = [l for l in "\n".join(reg).split("\n") if not re.search(r"\b[wk](\d+)\b", l) or int(re.search(r"\b[wk](\d+)\b", l).group(1)) in keep]
        open(os.path.join(ws.root, "cmd", "run", "reg.go"), "w").write("\n".join(lines) + "\n")
    exe = os.path.join(ws.root, "run.bin")
    rc, out = C.run(["go", "build", "-o", exe, "./cmd/run"], cwd=ws.root, extra_env=ws.env(), timeout=1200)
    if rc != 0:
        return broken, None, "runner does not build: " + out[-1500:]
    specs = []
    for r in usable:
        specs.append({"Name": str(r["k"])})
        for f in fail_specs(r):
            specs.append({"Name": str(r["k"]), "Fail": {f: True}})
        if r["meta"].get("second") is not None:
            specs.append({"Name": "%d:2" % r["k"]})
            for f in fail_specs(r, r["meta"]["second"]):
                specs.append({"Name": "%d:2" % r["k"], "Fail": {f: True}})
    p = subprocess.run([exe], input="\n".join(json.dumps(s) for s in specs) + "\n", stdout=subprocess.PIPE, stderr=subprocess.PIPE, text=True, timeout=600)
    results = [json.loads(l) for l in p.stdout.splitlines() if l.startswith("{")]
    return broken, list(zip(specs, results)), p.stderr[-500:]


# ------------------------------------------------------------------------------------------------ checks

def features(cfg):
    f = set()
    for nd in cfg["nodes"]:
        if nd["kind"] == "bind" and nd["name_style"] != "New":
            f.add("bind-by-name")
        if nd["kind"] == "struct" and nd.get("form") == "value":
            f.add("struct-value-form")
    for c in cfg["cfgs"]:
        if c["form"] == "value":
            f.add("fieldsof-value-form")
    return f

_cache = {}

def migrate_stream(tier, seed):
    repo_dir = C.ensure_repo_build()
    key = (tier, seed, repo_dir)
    if key in _cache:
        return _cache[key]
    tools = C.ensure_tools()
    wire = build_wire(tools)
    cli = os.path.join(repo_dir, "kessoku")
    ws = Workspace("s%d" % seed)
    rng = G.SplitMix64(seed * 7 + 123)
    n = 36 if tier == "quick" else 300
    recs = []
    for k in range(n):
        cfg = W.gen_cfg(rng, "faithful" if k % 3 != 2 else "any")
        recs.append(process_cfg(ws, k, cfg, wire, cli))
    def fails(r, root=0):
        keep = set(W.subtree(r["cfg"]["nodes"], root))
        return ["%sT%d" % (nd["name_style"], nd["id"]) for nd in r["cfg"]["nodes"] if nd["id"] in keep and nd["err"] and nd["kind"] in ("fn", "fnerr", "bind")][:2]
    # C14: the migrated file alone must compile in the source package (wire files set aside, before generation is irrelevant: the band is there too)
    broken, pairs, err = run_pairs(ws, recs, fails)
    res = dict(ws=ws, recs=recs, broken=broken, pairs=pairs, err=err)
    _cache[key] = res
    return res

def close_streams():
    for v in _cache.values():
        v["ws"].close()
    _cache.clear()

def norm_params(ps):
    return sorted(p.split(".")[-1] for p in (ps or []))

def check_c13(tier, seed):
    R = C.Result("C13", tier, seed)
    repo_dir = C.ensure_repo_build()
    lean_obligations(R, "C13", repo_dir)
    try:
        S = migrate_stream(tier, seed)
        recs = S["recs"]
        accepted = [r for r in recs if r["wire_rc"] == 0]
        kinds = collections.Counter()
        def finding(r, what, text, extra=None):
            feats = features(r["cfg"])
            rp = {"kind": "input", "failing_input": {"config": r["desc"], "sources": r["files_w"]}, "what": what,
                  "migrated": r.get("migrated"), "reproduce": "write the sources into a package, run `wire gen`, `kessoku migrate`, `kessoku kessoku.go`, compare the two Init functions"}
            if extra:
                rp.update(extra)
            fid = None
            for f in ("bind-by-name", "struct-value-form", "fieldsof-value-form"):
                if f in feats:
                    fid = "C13-" + f
                    break
            text = "%s  [configuration %s]" % (text, r["desc"])
            if fid:
                R.finding(fid, text, rp)
            else:
                R.violation(text, rp)
        for r in accepted:
            for nd in r["cfg"]["nodes"]:
                kinds[nd["kind"]] += 1
            if r["mig_rc"] != 0:
                finding(r, "migrate-refuses", "wire accepts the configuration but kessoku migrate refuses it: %s" % r["mig_out"].strip().splitlines()[-1][:200])
            elif r.get("gen_rc") != 0:
                finding(r, "generate-refuses", "the migrated file is refused by the generator: %s" % (r.get("gen_out") or "").strip().splitlines()[-1][:200])
            elif ("k", r["k"]) in S["broken"]:
                finding(r, "does-not-compile", "the injector generated from the migrated file does not compile: %s" % S["broken"][("k", r["k"])].strip().splitlines()[-1][:200])
        runs = 0
        if S["pairs"] is None:
            R.violation("the two-package runner does not build: %s" % S["err"], {"kind": "correspondence-broken", "correspondence": "wire_gen.go and kessoku_band.go compile over the same providers", "detail": S["err"]})
        else:
            for sp, rs in S["pairs"]:
                runs += 1
                r = recs[int(sp["Name"].split(":")[0])]
                second = sp["Name"].endswith(":2")
                w, k = rs["W"], rs["K"]
                exp = W.expected_term(r["cfg"], r["cfg"]["second"] if second else 0)
                if not sp.get("Fail") and w["Term"] != exp and not w["Panic"]:
                    R.violation("reference disagreement: real wire computes %s, the reference written from wire's documentation says %s [%s]" % (w["Term"], exp, r["desc"]),
                                {"kind": "correspondence-broken", "correspondence": "wiregen.expected_term vs real google/wire", "config": r["desc"]})
                    continue
                diffs = []
                if k["Panic"]:
                    diffs.append("kessoku's injector cannot be called like wire's (%s); its parameters are %s, wire's %s" % (k["Panic"][:80], norm_params(k["Params"]), norm_params(w["Params"])))
                elif sp.get("Fail"):
                    # under a failing provider only the reported error is compared: which other providers ran
                    # before the failure depends on the (unspecified) call order
                    if w["Err"] != k["Err"]:
                        diffs.append("wire's injector reports %r, kessoku's %r when %s fails" % (w["Err"], k["Err"], list(sp["Fail"])))
                else:
                    if w["Term"] != k["Term"]:
                        diffs.append("result differs: wire %s, kessoku %s" % (w["Term"], k["Term"]))
                    if sorted(w["Events"] or []) != sorted(k["Events"] or []):
                        diffs.append("provider invocations differ: wire %s, kessoku %s" % (sorted(set(w["Events"] or [])), sorted(set(k["Events"] or []))))
                    if norm_params(w["Params"]) != norm_params(k["Params"]):
                        diffs.append("argument types differ: wire %s, kessoku %s" % (norm_params(w["Params"]), norm_params(k["Params"])))
                    if w["Err"] != k["Err"] and not (w["Err"] and k["Err"] and sp.get("Fail") is None):
                        diffs.append("error differs: wire %r, kessoku %r" % (w["Err"], k["Err"]))
                if diffs:
                    if second:
                        diffs.insert(0, "second injector Init2 (sub-graph below node %d)" % r["cfg"]["second"])
                    finding(r, "behaviour-differs", "; ".join(diffs), {"spec": sp, "wire": w, "kessoku": k})
        # ---- correspondence: the Lean model of wire / migrate / kessoku predicts, per configuration, whether the
        # migration is refused and whether the two injectors compute the same term
        prepare(repo_dir)
        units = [(r, 0) for r in accepted] + [(r, r["cfg"]["second"]) for r in accepted if r["cfg"].get("second") is not None]
        lines = ["W " + W.encode(r["cfg"], root) for r, root in units]
        model = C.lean_driver(lines)
        equal_impl = {}
        if S["pairs"] is not None:
            for sp, rs in S["pairs"]:
                if sp.get("Fail"):
                    continue
                w, k = rs["W"], rs["K"]
                equal_impl[sp["Name"]] = (not k["Panic"] and w["Term"] == k["Term"] and sorted(w["Events"] or []) == sorted(k["Events"] or [])
                                          and norm_params(w["Params"]) == norm_params(k["Params"]))
        mdiffs = []
        for (r, root), m in zip(units, model):
            nm = str(r["k"]) + (":2" if root else "")
            if r["mig_rc"] != 0:
                if root:
                    continue            # the refusal is a verdict on the whole package; the model judges one injector
                impl = "W migrate=refused"
            elif nm in equal_impl:
                impl = "W migrate=ok equal=%s" % ("true" if equal_impl[nm] else "false")
            else:
                impl = "W migrate=ok equal=false"
            if impl != m:
                mdiffs.append((r["desc"] + (" [Init2]" if root else ""), m, impl))
        R.oblige("correspondence: Wire.wireEval / Wire.migrate / Wire.kEval predict, per configuration, refusal and equality of the two injectors (%d configurations)" % len(accepted),
                 not mdiffs, "%d differ; first: %s" % (len(mdiffs), mdiffs[:1]))
        if mdiffs and not R.violations:
            R.violation("the wire/migrate model and the implementation disagree on %d configurations" % len(mdiffs),
                        {"kind": "correspondence-broken", "correspondence": "Lean Wire model vs real wire + kessoku migrate", "first": mdiffs[:3]})
        R.coverage["disagreements_checked"] = len(mdiffs)
        R.samples = [{"config": r["desc"], "wire": r["wire_rc"], "migrate": r["mig_rc"], "generate": r.get("gen_rc"), "migrated": (r.get("migrated") or "")[:600]} for r in recs[:4]]
        R.coverage.update({"evaluations": len(recs), "distinct_nontrivial": len(set(r["desc"] for r in accepted)), "programs": len(accepted), "traces_validated_against_impl": runs,
                           "constructs": dict(kinds), "wire_rejected": len(recs) - len(accepted),
                           "rule": "seeded wire configurations (dependency DAGs below the requested type; per edge one of: provider function (any name, with/without error), Bind, Value, InterfaceValue, Struct (\"*\" or field list), FieldsOf (merged directives), injector argument; set layouts: flat Build, set reference + inline nested set, chained sets in 1-2 files); only configurations real wire accepts count; both injectors run fault-free and with each fallible provider failing; distinct = distinct configurations"})
    finally:
        close_streams()
    return R.finish("cd lean && lake build KV.Props.C13 && lake env lean <audit of Props/C13 theorems>", TRUSTED)
