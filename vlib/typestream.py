"""C04, type universe and adversarial names: hand-structured packages in which every spelled type of the
generated code (injector arguments, predeclared variables of async injectors, result types) ranges over
package-qualified types, aliased imports, pointers, slices, arrays, maps, channels, function types (incl.
variadic), struct and interface literals and generic instances; plus user identifiers chosen to collide with
the names the generator derives."""
import os, re, shutil
from . import common as C

# (label, type expression as written in package p, imports needed by the *user* file (path -> alias or None))
def universe():
    U = [
        ("named", "Foo", {}),
        ("pointer", "*Foo", {}),
        ("slice", "[]Foo", {}),
        ("array", "[3]Foo", {}),
        ("map", "map[string]Foo", {}),
        ("map-named-key", "map[Key]Foo", {}),
        ("chan", "chan Foo", {}),
        ("chan-recv", "<-chan Foo", {}),
        ("chan-send", "chan<- Foo", {}),
        ("func", "func(Foo) Bar", {}),
        ("func-multi", "func(Foo, int) (Bar, error)", {}),
        ("func-variadic", "func(...int) Foo", {}),
        ("struct-lit", "struct{ A int; B Foo }", {}),
        ("struct-lit-tag", "struct{ A int `json:\"a\"` }", {}),
        ("struct-lit-embedded", "struct{ Foo; N int }", {}),
        ("iface-lit", "interface{ M() Foo }", {}),
        ("iface-embedded", "interface{ Stringer; M() }", {}),
        ("generic-instance", "Box[int]", {}),
        ("generic-instance-2", "Pair[string, Foo]", {}),
        ("ext-named", "time.Duration", {"time": None}),
        ("ext-pointer", "*bytes.Buffer", {"bytes": None}),
        ("ext-map-key", "map[time.Weekday]string", {"time": None}),
        ("ext-map-val", "map[string]time.Month", {"time": None}),
        ("ext-slice", "[]time.Duration", {"time": None}),
        ("ext-func", "func(time.Duration) error", {"time": None}),
        ("ext-chan", "chan time.Duration", {"time": None}),
        ("ext-aliased-import", "tt.Duration", {"time": "tt"}),
        ("ext-same-name-1", "rand.Rand", {"math/rand": None}),
        ("ext-iface", "io.Reader", {"io": None}),
        ("ext-generic", "Box[time.Duration]", {"time": None}),
        ("ext-struct-lit", "struct{ D time.Duration }", {"time": None}),
        ("alias-type", "MyInts", {}),
        ("basic", "int", {}),
        ("basic-string", "string", {}),
        ("byte-slice", "[]byte", {}),
        ("any", "any", {}),
        ("error-iface", "error", {}),
    ]
    return U

PRELUDE = '''
type Foo struct{ N int }
type Bar struct{ S string }
type Key string
type Stringer interface{ String() string }
type Box[T any] struct{ V T }
type Pair[A, B any] struct{ A A; B B }
type MyInts = []int
'''

def render_types(root, label_filter=None):
    """one file per type expression (so that the used imports of each generated file are exactly those of
    that type); returns [(label, file, [injector names])]"""
    os.makedirs(os.path.join(root, "ty"), exist_ok=True)
    open(os.path.join(root, "ty", "prelude.go"), "w").write("package ty\n" + PRELUDE)
    out = []
    for n, (label, T, imps) in enumerate(universe()):
        if label_filter and label not in label_filter:
            continue
        imports = ['\t"github.com/mazrean/kessoku"']
        for path, alias in sorted(imps.items()):
            imports.append('\t%s"%s"' % ((alias + " ") if alias else "", path))
        R = "R%d" % n
        src = ["package ty", "", "import (", *imports, ")", "",
               "type %s struct{ n int }" % R,
               "type %sOther struct{ n int }" % R,
               "func New%sOther() *%sOther { return nil }" % (R, R),
               "func Cons%d(x %s, o *%sOther) *%s { return nil }" % (n, T, R, R),
               "func Prov%d() %s { var z %s; return z }" % (n, T, T),
               "func ProvE%d() (%s, error) { var z %s; return z, nil }" % (n, T, T),
               # (a) the type is an unsupplied dependency: spelled as an injector argument
               'var _ = kessoku.Inject[*%s]("ArgT%d", kessoku.Provide(Cons%d), kessoku.Provide(New%sOther))' % (R, n, n, R),
               # (b) supplied synchronously: no spelling needed (:=)
               'var _ = kessoku.Inject[*%s]("SyncT%d", kessoku.Provide(Prov%d), kessoku.Provide(Cons%d), kessoku.Provide(New%sOther))' % (R, n, n, n, R),
               # (c) async with goroutines: spelled in the var block
               'var _ = kessoku.Inject[*%s]("AsyncT%d", kessoku.Async(kessoku.Provide(ProvE%d)), kessoku.Async(kessoku.Provide(New%sOther)), kessoku.Provide(Cons%d))' % (R, n, n, R, n),
               ]
        if label not in ("any", "error-iface"):
            # (d) the type is the requested type itself: spelled as the result (and as `var zero T`)
            src.append('var _ = kessoku.Inject[%s]("RetT%d", kessoku.Async(kessoku.Provide(ProvE%d)))' % (T, n, n))
        fn = os.path.join(root, "ty", "t%02d_%s.go" % (n, label.replace("-", "_")))
        open(fn, "w").write("\n".join(src) + "\n")
        out.append((label, fn, n))
    return out

NAMES = ["Foo", "Foo0", "Foo1", "FooCh", "FooCh0", "Err", "Err0", "Eg", "Ctx", "Ch", "Zero", "Errgroup", "Context", "Nil", "Len", "Type",
         "Kessoku", "String", "Error", "Num", "Str", "Val", "Flag"]

def render_names(root, rng, nfiles=6):
    """packages whose user identifiers collide with derived names: types named like suffixed names, package-level
    variables named like derived bases, injector names equal to variable bases"""
    os.makedirs(os.path.join(root, "nm"), exist_ok=True)
    out = []
    for f in range(nfiles):
        picked = []
        pool = list(NAMES)
        rng.shuffle(pool)
        picked = pool[: rng.randint(3, 6)]
        # related pairs on purpose: a type and the type named like its second value / its completion channel
        if rng.chance(0.7):
            pair = rng.choice([("Foo", "FooCh"), ("Foo", "Foo0"), ("FooCh", "FooCh0"), ("Err", "Err0"), ("Foo", "FooCh")])
            picked = [x for x in picked if x not in pair]
            a_pos = rng.randint(0, len(picked))
            picked.insert(a_pos, pair[0])
            picked.append(pair[1])          # the related name late in the chain (often an unsupplied parameter)
            if rng.chance(0.5):
                picked.reverse()
        src = ["package nm", "", 'import "github.com/mazrean/kessoku"', ""]
        tag = "N%d" % f
        tys = []
        for i, nm in enumerate(picked):
            t = "%s%s" % (tag, nm)           # e.g. N3Foo0: lower-camel base n3Foo0 = what a second value of N3Foo is called;
                                             # N3FooCh: base n3FooCh = the completion channel of a N3Foo value
            src.append("type %s struct{ v int }" % t)
            tys.append(t)
        # package-level identifiers equal to the bases the generator derives for these types
        lc = lambda s: (s[0].lower() + s[1:])
        for t in tys[: rng.randint(0, 2)]:
            src.append("var %s = 1" % lc(t))
            src.append("var _ = %s" % lc(t))
        # providers: chain tys[0] <- tys[1] <- ...; two values of the same type via a multi-value provider
        # sometimes the last types of the chain have no provider: they become injector parameters (named from the pool too)
        nsup = len(tys) - (rng.randint(1, 2) if (len(tys) > 3 and rng.chance(0.5)) else 0)
        # fan-in: the requested type needs up to three independent values (so that Async providers get goroutines of
        # their own and completion channels are needed), each of which continues as a chain
        w = min(3, len(tys) - 1)
        for i, t in enumerate(tys[:nsup]):
            if i == 0:
                deps = ["x%d *%s" % (j, tys[j]) for j in range(1, 1 + w)]
            else:
                deps = ["x *%s" % tys[i + w]] if i + w < len(tys) else []
            src.append("func New%s(%s) (*%s, error) { return nil, nil }" % (t, ", ".join(deps), t))
        provs = ", ".join(("kessoku.Async(kessoku.Provide(New%s))" if rng.chance(0.6) else "kessoku.Provide(New%s)") % t for t in tys[:nsup])
        declared = set(tys) | set(lc(t) for t in tys[:2]) | set("New" + t for t in tys[:nsup])
        # injector names equal to the *bases* the generator derives for variables (err, the lower-camel type
        # names, suffixed forms) but never equal to an identifier the user declared
        cands = ["Init" + tag, lc(tys[0]), lc(tys[-1]) + "0", "err", "eg", "ctx", "zero", "ch", lc(tys[0]) + "Ch"]
        cands = [c for c in cands if c not in declared]
        # the bare names (err, eg, ...) may be used by one file of the package only: injector names are package-level
        bare = ["err", "eg", "ctx", "zero", "ch"]
        cands = [c for c in cands if c not in bare] + ([bare[f]] if f < len(bare) else [])
        inj = rng.choice(cands)
        src.append('var _ = kessoku.Inject[*%s]("%s", %s)' % (tys[0], inj, provs))
        src.append('var _ = kessoku.Inject[*%s]("%sB", %s)' % (tys[0], inj, provs))
        fn = os.path.join(root, "nm", "n%d.go" % f)
        open(fn, "w").write("\n".join(src) + "\n")
        out.append(("names-%d" % f, fn, picked))
    return out

def render_special(root, rng=None, ncases=6):
    """hand-written invocations for situations the seeded streams do not reach; returns [(label, package dirs, [files])]"""
    out = []
    # (1) two different packages with the same package name in ONE invocation; the second declares identifiers equal
    #     to names the allocator would hand out (unexported types in command packages)
    for sub, decl in (("server", "settings"), ("worker", "worker")):
        d = os.path.join(root, "mp", sub)
        os.makedirs(d, exist_ok=True)
        open(os.path.join(d, "k.go"), "w").write('''package main

import "github.com/mazrean/kessoku"

type settings struct{ n int }
type %(t)s%(x)s struct{ s *settings }

func newSettings() *settings { return &settings{} }
func make%(T)s%(x)s(s *settings) (*%(t)s%(x)s, error) { return &%(t)s%(x)s{s}, nil }

var _ = kessoku.Inject[*%(t)s%(x)s]("init%(T)s", kessoku.Provide(newSettings), kessoku.Provide(make%(T)s%(x)s))

func main() {}
''' % dict(t=decl, T=decl.capitalize(), x="" if decl == "worker" else "Srv"))
    out.append(("multi-package-same-name", ["./mp/server/", "./mp/worker/"], ["mp/server/k.go", "mp/worker/k.go"]))
    # (2) a file generated by ANOTHER tool declares an identifier equal to a derived variable name, and a provider
    #     expression refers to it
    d = os.path.join(root, "tg")
    os.makedirs(d, exist_ok=True)
    open(os.path.join(d, "version_string.go"), "w").write('''// Code generated by "stringer -type=Version"; DO NOT EDIT.

package tg

const version = "1.2"
''')
    open(os.path.join(d, "k.go"), "w").write('''package tg

import "github.com/mazrean/kessoku"

type Version struct{ major, minor int }
type App struct {
	v *Version
	s string
}

func NewVersion() *Version { return &Version{1, 2} }
func NewApp(v *Version, s string) *App { return &App{v, s} }

var _ = kessoku.Inject[*App]("InitApp", kessoku.Provide(NewVersion), kessoku.Value(version), kessoku.Provide(NewApp))
''')
    out.append(("other-tool-generated-file", ["./tg/"], ["tg/k.go"]))
    # (3) user identifiers equal to the emitter's hard-coded locals, *used* inside provider expressions
    d = os.path.join(root, "hl")
    os.makedirs(d, exist_ok=True)
    open(os.path.join(d, "k.go"), "w").write('''package hl

import (
	"context"

	"github.com/mazrean/kessoku"
)

type Eg struct{ n int }
type Ch struct{ n int }
type Zero struct{ n int }
type Err struct{ n int }
type App struct{ n int }

func NewEg(ctx context.Context) (*Eg, error) { return &Eg{}, nil }
func NewCh() (*Ch, error)                     { return &Ch{}, nil }
func NewZero(c *Ch) (*Zero, error)            { return &Zero{}, nil }
func NewErr(z *Zero) (*Err, error)            { return &Err{}, nil }
func NewApp(e *Eg, c *Ch, z *Zero, r *Err) *App { return &App{} }

var _ = kessoku.Inject[*App]("InitApp",
	kessoku.Async(kessoku.Provide(NewEg)), kessoku.Async(kessoku.Provide(NewCh)), kessoku.Async(kessoku.Provide(NewZero)),
	kessoku.Async(kessoku.Provide(NewErr)), kessoku.Provide(NewApp))
''')
    out.append(("types-named-like-hard-coded-locals", ["./hl/"], ["hl/k.go"]))
    # (4) several values of one type class inside one injector: a provider *returns* a context.Context (an application
    #     root context) while the injector also gets its own context parameter (Async); the same with error-typed and
    #     pointer-to-context values
    d = os.path.join(root, "cx")
    os.makedirs(d, exist_ok=True)
    open(os.path.join(d, "k.go"), "w").write('''package cx

import (
	"context"

	"github.com/mazrean/kessoku"
)

type Root struct{ n int }
type Svc struct{ n int }
type Other struct{ n int }
type App struct{ n int }

func NewRoot() *Root                                  { return &Root{} }
func NewBase(r *Root) context.Context                 { return context.Background() }
func NewSvc(ctx context.Context) (*Svc, error)        { return &Svc{}, nil }
func NewOther(r *Root) (*Other, error)                { return &Other{}, nil }
func NewApp(ctx context.Context, s *Svc, o *Other) *App { return &App{} }

var _ = kessoku.Inject[*App]("InitApp",
	kessoku.Provide(NewRoot), kessoku.Provide(NewBase), kessoku.Async(kessoku.Provide(NewSvc)), kessoku.Async(kessoku.Provide(NewOther)), kessoku.Provide(NewApp))

var _ = kessoku.Inject[*App]("InitApp2",
	kessoku.Provide(NewRoot), kessoku.Provide(NewBase), kessoku.Async(kessoku.Provide(NewSvc)), kessoku.Async(kessoku.Provide(NewOther)), kessoku.Provide(NewApp))
''')
    out.append(("context-provided-and-injected", ["./cx/"], ["cx/k.go"]))
    # (5) type names that start with upper-case letters outside ASCII (variable names are derived from them by lowering
    #     the leading capitals): Latin-1 supplement, Cyrillic, Greek, an all-capitals name, a capital after ASCII ones
    d = os.path.join(root, "un")
    os.makedirs(d, exist_ok=True)
    open(os.path.join(d, "k.go"), "w").write('''package un

import (
	"context"

	"github.com/mazrean/kessoku"
)

type Émile struct{ n int }
type Конфиг struct{ n int }
type Ωmega struct{ n int }
type ÄÖÜ struct{ n int }
type HTTPÉcho struct{ n int }
type App struct{ n int }

func NewÉmile(ctx context.Context) (*Émile, error) { return &Émile{}, nil }
func NewКонфиг(e *Émile) (*Конфиг, error)          { return &Конфиг{}, nil }
func NewΩmega() (*Ωmega, error)                    { return &Ωmega{}, nil }
func NewÄÖÜ(o *Ωmega) *ÄÖÜ                          { return &ÄÖÜ{} }
func NewApp(e *Émile, k *Конфиг, o *Ωmega, a *ÄÖÜ, h *HTTPÉcho) *App { return &App{} }

var _ = kessoku.Inject[*App]("InitApp",
	kessoku.Async(kessoku.Provide(NewÉmile)), kessoku.Async(kessoku.Provide(NewКонфиг)), kessoku.Async(kessoku.Provide(NewΩmega)),
	kessoku.Provide(NewÄÖÜ), kessoku.Provide(NewApp))
''')
    out.append(("type-names-starting-with-non-ascii-capitals", ["./un/"], ["un/k.go"]))
    # (6) an injector called like a package the generator imports on its own (context / errgroup for Async providers),
    #     declared after (and, in a second file, before) an injector that needs that import; the file imports neither
    d = os.path.join(root, "ij")
    os.makedirs(d, exist_ok=True)
    body = '''package ij

import "github.com/mazrean/kessoku"

type DB struct{ n int }
type Cache struct{ n int }
type App struct{ n int }
type Tool struct{ n int }

func NewDB%(x)s() (*DB, error)        { return &DB{}, nil }
func NewCache%(x)s() (*Cache, error)  { return &Cache{}, nil }
func NewApp%(x)s(d *DB, c *Cache) *App { return &App{} }
func NewTool%(x)s() *Tool             { return &Tool{} }

%(decls)s
'''
    asyncd = 'var _ = kessoku.Inject[*App]("InitApp%(x)s", kessoku.Async(kessoku.Provide(NewDB%(x)s)), kessoku.Async(kessoku.Provide(NewCache%(x)s)), kessoku.Provide(NewApp%(x)s))'
    named = 'var _ = kessoku.Inject[*Tool]("%(n)s", kessoku.Provide(NewTool%(x)s))'
    open(os.path.join(d, "a.go"), "w").write(body % dict(x="A", decls=(asyncd % dict(x="A")) + "\n\n" + (named % dict(n="context", x="A"))))
    # (a second package: an import name of one file also collides with a package-level name declared by another file of
    # the same package, which no single-file generation can see)
    d2 = os.path.join(root, "ij2")
    os.makedirs(d2, exist_ok=True)
    open(os.path.join(d2, "b.go"), "w").write(body.replace("package ij\n", "package ij2\n") % dict(
        x="B", decls=(named % dict(n="errgroup", x="B")) + "\n\n" + (asyncd % dict(x="B"))))
    out.append(("injector-named-like-a-generated-import", ["./ij/", "./ij2/"], ["ij/a.go", "ij2/b.go"]))
    if rng is not None:
        out += render_multi(root, rng, ncases)
    return out

def render_multi(root, rng, ncases):
    """seeded: ONE invocation over the files of several packages that import the same packages; some of them declare a
    package-level identifier equal to the imported package's name (and therefore import it under an alias), or
    identifiers equal to names the allocator derives (settings0, svc, ...)"""
    out = []
    shared = {"settings": "Settings", "config": "Config", "store": "Store"}
    for c in range(ncases):
        base = "mu%d" % c
        for pn, tn in shared.items():
            d = os.path.join(root, base, "sh", pn)
            os.makedirs(d, exist_ok=True)
            open(os.path.join(d, "x.go"), "w").write("package %s\n\ntype %s struct{ N int }\n\nfunc New() *%s { return &%s{} }\n" % (pn, tn, tn, tn))
        # a second package that is also called `config` (another path, another type)
        d = os.path.join(root, base, "sh2", "config")
        os.makedirs(d, exist_ok=True)
        open(os.path.join(d, "x.go"), "w").write("package config\n\ntype Other struct{ N int }\n\nfunc New() *Other { return &Other{} }\n")
        npk = rng.randint(2, 4)
        files, pkgs = [], []
        for i in range(npk):
            d = os.path.join(root, base, "p%d" % i)
            os.makedirs(d, exist_ok=True)
            uses = [pn for pn in shared if rng.chance(0.6)] or ["settings"]
            decls, imports, provs, params = [], [], [], []
            for pn in uses:
                tn = shared[pn]
                alias = pn
                style = rng.choice(["plain", "plain", "shadowed", "aliased"])
                if style == "shadowed":
                    # the package declares an identifier called like the imported package, so it has to alias the import
                    decls.append(rng.choice(["type %s struct{}", "var %s = 1", "func %s() {}", "const %s = 2"]) % pn)
                    alias = "app" + pn
                elif style == "aliased":
                    alias = pn[:3] + "x"
                imports.append('\t%s"e2e/%s/sh/%s"' % ("" if alias == pn else alias + " ", base, pn))
                provs.append("kessoku.Provide(%s.New)" % alias)
                params.append("a%d *%s.%s" % (len(params), alias, tn))
            foreign = []                       # (alias, type name): candidates for a foreign result type
            for pn in uses:
                pass
            if rng.chance(0.4):
                # the other package named `config`: under its own name when the first is not imported, else aliased
                al2 = "config" if ("config" not in uses and rng.chance(0.5)) else "cfgb"
                imports.append('\t%s"e2e/%s/sh2/config"' % ("" if al2 == "config" else al2 + " ", base))
                provs.append("kessoku.Provide(%s.New)" % al2)
                params.append("a%d *%s.Other" % (len(params), al2))
                foreign.append((al2, "Other"))
            # identifiers equal to what the allocator would derive for its variables
            for extra in ("settings0", "config0", "svc", "svc0", "store0"):
                if rng.chance(0.25):
                    decls.append("var %s = 0" % extra)
            asy = rng.chance(0.5)
            if asy:
                provs = ["kessoku.Async(%s)" % p for p in provs]
            src = "package p%d\n\nimport (\n%s\n\t\"github.com/mazrean/kessoku\"\n)\n\n%s\n\ntype Svc struct{ n int }\n\nfunc NewSvc(%s) *Svc { return &Svc{} }\n\nvar _ = kessoku.Inject[*Svc](\"Init\", %s, kessoku.Provide(NewSvc))\n" % (
                i, "\n".join(imports), "\n".join(decls), ", ".join(params), ", ".join(provs))
            # a further injector whose result type lives in an imported package (spelled through the import's local name)
            for m_ in re.finditer(r"a\d+ \*(\w+)\.(\w+)", ", ".join(params)):
                foreign.append((m_.group(1), m_.group(2)))
            if foreign and rng.chance(0.6):
                al, tn = rng.choice(sorted(set(foreign)))
                src += "\nvar _ = kessoku.Inject[*%s.%s](\"InitF\", %s)\n" % (al, tn, ", ".join(provs))
            open(os.path.join(d, "k.go"), "w").write(src)
            files.append("%s/p%d/k.go" % (base, i))
            pkgs.append("./%s/p%d/" % (base, i))
        order = list(range(npk))
        rng.shuffle(order)
        out.append(("multi-package-invocation-%d" % c, pkgs, [files[j] for j in order]))
    return out
