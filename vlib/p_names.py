"""C12 (fresh identifiers): allocator histories through the model and the real VarPool."""
import os, re
from . import common as C
from . import declgen as G
from .lean import lean_obligations

TRUSTED = [
    "Lean 4.33.0 kernel; axioms allowed: propext, Classical.choice, Quot.sound (audited per theorem)",
    "the hand-written model VP.getNameFix of VarPool.GetName/Get/GetChannel (tied by differential correspondence on request histories) and VP.toLowerCamel (ASCII identifiers)",
    "factgen's extraction of the reserved-word arrays of const.go",
    "base-name derivation from arbitrary types: BaseName.baseName, tied to getBaseName by B lines on constructed types (ASCII type names N<k>; non-ASCII names end to end only)",
]

def check_c12(tier, seed):
    R = C.Result("C12", tier, seed)
    repo_dir = C.ensure_repo_build()
    lean_obligations(R, "C12", repo_dir)
    n = 20000 if tier == "quick" else 300000
    rng = G.SplitMix64(seed * 7919 + 3)
    lines = []
    corpus = ["V  | n:foo n:foo n:foo0", "V foo foo0 | n:foo", "V | t:Foo t:Foo t:Foo0", "V | c:Foo c:Foo t:FooCh0 t:FooCh", "V len | n:len t:Len n:len0"]
    lines += corpus
    for i in range(n):
        lines.append("V " + G.gen_varpool(rng))
    model = C.lean_driver(lines)
    rc, impl, out = C.go_driver(repo_dir, "kessoku", lines)
    if len(impl) < len(lines):
        impl += ["NO-ANSWER"] * (len(lines) - len(impl))
    reserved = set()
    import re
    src = open(os.path.join(C.REPO, "internal", "kessoku", "const.go")).read()
    reserved = set(re.findall(r'"([a-z0-9]+)"', src.split("goPredeclaredIdentifiers")[1]))
    diffs = [i for i, (a, b) in enumerate(zip(model, impl)) if a != b]
    R.oblige("correspondence: VP.runFix = real VarPool on %d request histories" % len(lines), not diffs,
             "%d differing; first: %s" % (len(diffs), [(lines[i], model[i], impl[i]) for i in diffs[:1]]))
    # the property itself, judged on the implementation's answers
    best = None; nbad = 0; collide = 0; distinct = set()
    for i, (l, o) in enumerate(zip(lines, impl)):
        if not o.startswith("V"):
            continue
        pre = l[2:].split("|")[0].split()
        outs = o.split()[1:]
        # names registered by the pre-history (what GetName returned for them) are in use as well
        used = set(pre)
        bad = []
        if len(set(outs)) != len(outs):
            bad.append("the same identifier is handed out twice: %s" % sorted(x for x in set(outs) if outs.count(x) > 1))
        for x in outs:
            if x in reserved:
                bad.append("reserved word / predeclared identifier handed out: %s" % x)
            if x in used:
                bad.append("a name already declared (pre-registered) is handed out: %s" % x)
        ops = l[2:].split("|")[1].split()
        bases = [op for op in ops]
        if len(set(bases)) < len(bases) or any(b[-1].isdigit() for b in bases):
            collide += 1
            distinct.add(l)
        if bad:
            nbad += 1
            if best is None or len(l) < len(best[0]):
                best = (l, o, bad, i)
    if best:
        l, o, bad, i = best
        R.violation("%s  [history #%d: %s -> %s]" % (bad[0], i, l[2:], o[2:]),
                    {"kind": "input", "failing_input": l, "index": i, "seed": seed, "implementation": o, "model": model[i], "violations": bad, "cases_failing": nbad,
                     "reproduce": "echo '%s' > ops; VERIF_OPS=ops VERIF_OUT=out go test -tags verif -run TestVerifDriver ./internal/kessoku" % l})
    # base names: getBaseName of arbitrary types (what Get / GetChannel feed into GetName)
    from . import typeconv_stream as TCS
    brng = G.SplitMix64(seed * 2654435761 + 5)
    blines = [TCS.gen_line_b(brng) for _ in range(3000 if tier == "quick" else 40000)]
    bmodel = C.lean_driver(blines)
    rc_b, bimpl, out_b = C.go_driver(repo_dir, "kessoku", blines)
    if len(bimpl) < len(blines):
        bimpl += ["NO-ANSWER"] * (len(blines) - len(bimpl))
    bdiffs = [i for i, (a, b) in enumerate(zip(bmodel, bimpl)) if a != b]
    R.oblige("correspondence: BaseName.baseName (KV/BaseName.lean) = VarPool.getBaseName on %d constructed types" % len(blines), not bdiffs,
             "%d differ; first: %s" % (len(bdiffs), [(blines[i], bmodel[i], bimpl[i]) for i in bdiffs[:1]]))
    bad_base = [(blines[i], b) for i, b in enumerate(bimpl) if b.startswith("B") and not re.match(r"^B [A-Za-z_][A-Za-z0-9_]*$", b)]
    if bad_base:
        R.violation("the base of a variable name is not an identifier: %s -> %r" % bad_base[0],
                    {"kind": "input", "failing_input": bad_base[0][0], "observed": bad_base[0][1],
                     "reproduce": "echo '%s' > ops; VERIF_OPS=ops VERIF_OUT=out go test -tags verif -run TestVerifDriver ./internal/kessoku" % bad_base[0][0]})
    elif bdiffs:
        i = bdiffs[0]
        R.violation("the base-name model and getBaseName differ on %d types; every implementation answer is an identifier" % len(bdiffs),
                    {"kind": "correspondence-broken", "correspondence": "BaseName.baseName vs VarPool.getBaseName", "case": blines[i], "model": bmodel[i], "impl": bimpl[i]})
    R.coverage["base_names"] = {"types": len(blines), "distinct_bases": len(set(bimpl))}
    from . import p_e2e
    p_e2e.names_e2e(R, repo_dir, tier, seed)
    if diffs and not R.violations:
        i = diffs[0]
        R.violation("allocator model and implementation differ on %d histories, but every implementation answer is fresh" % len(diffs),
                    {"kind": "correspondence-broken", "correspondence": "VP.runFix vs VarPool", "case": lines[i], "model": model[i], "impl": impl[i]})
    R.samples = [{"history": lines[i], "model": model[i], "implementation": impl[i]} for i in (0, 1, 2, 5, 6, 7)]
    R.coverage.update({"evaluations": len(lines), "distinct_nontrivial": len(distinct), "programs": len(lines), "disagreements_checked": len(diffs),
                       "rule": "request histories over an adversarial alphabet (Foo, Foo0, FooCh, Err0, Eg, Ctx, keywords, ...) with 0-4 pre-registered names; non-trivial = the history repeats a base or requests a base that ends in a digit (collision-prone); distinct = distinct histories"})
    return R.finish("cd lean && lake build KV.Props.C12 && lake env lean <audit of Props/C12 theorems>", TRUSTED)
