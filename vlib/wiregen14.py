"""Seeded generator of wire configurations whose point is the *import table* of the migrated file (C14):
external packages that share a package name, packages whose name differs from the last path element, aliased and
unaliased imports, the same alias used for different packages in different files, references in type position
(Bind / Struct / FieldsOf / InterfaceValue) and in expression position (provider functions, Value expressions),
1-3 wire files merged into one output; plus the failure kinds the property lists."""
import re

# catalogue of external packages: (directory below the case prefix, declared package name)
CATALOGUE = [
    ("a/store", "store"),
    ("b/store", "store"),      # same package name, different path
    ("go-cache", "cache"),     # package name differs from the last path element
    ("api/v2", "api"),         # major-version directory
    ("util", "util"),
    ("cache", "cache"),        # same name as go-cache's package
    ("v3", "v3"),              # a package literally named like a version directory
    ("yaml.v3", "yaml"),       # gopkg.in style
]

KINDS = ["fn", "fn", "val", "bind", "struct", "ival", "fieldsof", "astruct", "afieldsof"]

def ext_internal_source(j):
    """the internal package behind the public aliases AOpt<j> / ACfg<j> / ALeaf<j> of external package j: its types can
    be named from the migrated package only through those aliases"""
    return "package in%d\n\nimport \"@LEAF@\"\n\ntype Opt struct{ N int }\n\ntype Cfg struct {\n\tA *leaf.L%d\n\tB string\n}\n" % (j, j)

def ext_leaf_source(j):
    """a public package (always called `leaf`) holding the field type of the internal Cfg"""
    return "package leaf\n\ntype L%d struct{ N int }\n" % j

def ext_source(j, pkgname, shared=False):
    """source of external package j.  Function and variable names always carry j (a reference resolved to the wrong
    package then fails to compile); with `shared` the *type* names are the same in every package (Svc, Cfg, ...), so
    that only the package path tells them apart"""
    txt = _EXT_SRC % dict(p=pkgname, j=j)
    txt = txt.replace("package %s\n" % pkgname, "package %s\n\nimport \"@INTERNAL@\"\n" % pkgname, 1)
    txt = txt.replace("import \"@INTERNAL@\"\n", "import (\n\t\"@INTERNAL@\"\n\t\"@LEAF@\"\n)\n", 1)
    txt += "\ntype AOpt%d = in%d.Opt\n\ntype ACfg%d = in%d.Cfg\n\nfunc NewACfg%d() *ACfg%d { return &ACfg%d{A: &leaf.L%d{N: %d}} }\n" % (j, j, j, j, j, j, j, j, j)
    if shared:
        txt = re.sub(r"\b(Svc|Iface|Opt|Leaf|Cfg|NewSvc|Pair)%d\b" % j, r"\1", txt)    # the constructor of Svc is NewSvc
    return txt

_EXT_SRC = """package %(p)s

type Svc%(j)d struct{ N int }

func NewSvc%(j)d() *Svc%(j)d { return &Svc%(j)d{N: %(j)d} }

type Iface%(j)d interface{ M%(j)d() int }

func (s *Svc%(j)d) M%(j)d() int { return s.N }

var TheSvc%(j)d = &Svc%(j)d{N: 100 + %(j)d}

type Opt%(j)d struct{ N int }

var Default%(j)d = Opt%(j)d{N: %(j)d}

type Leaf%(j)d struct{ N int }

type Cfg%(j)d struct {
	A *Leaf%(j)d
	B string
}

type Pair%(j)d[L, R any] struct {
	A L
	B R
}

func NewCfg%(j)d() *Cfg%(j)d { return &Cfg%(j)d{A: &Leaf%(j)d{N: %(j)d}, B: "b"} }
"""

def gen_case(rng):
    """an abstract case: which packages are used, in which file, under which local name, by which construct"""
    npk = rng.randint(1, 4)
    idx = list(range(len(CATALOGUE)))
    # bias towards clashing names
    picks = []
    while len(picks) < npk:
        j = rng.choice([0, 1, 0, 1, 2, 5, 2, 3, 4, 6, 7]) if rng.chance(0.8) else rng.choice(idx)
        if j not in picks:
            picks.append(j)
    nfiles = rng.randint(1, 3)
    uses = []
    for j in picks:
        kind = rng.choice(KINDS)
        f = rng.randint(0, nfiles - 1)
        uses.append(dict(pkg=j, kind=kind, file=f))
    # sometimes the same package is used a second time from another file (type position there, expression here)
    if rng.chance(0.35) and nfiles > 1:
        u = rng.choice(uses)
        f2 = (u["file"] + 1) % nfiles
        k2 = {"fn": "struct", "val": "fn", "bind": "val", "struct": "fn", "ival": "val", "fieldsof": "val", "astruct": "fn", "afieldsof": "val"}[u["kind"]]
        uses.append(dict(pkg=u["pkg"], kind=k2, file=f2, second=True))
    shared = rng.chance(0.5)
    # sometimes: FieldsOf on two structs of different packages in one element list (with shared type names both are `Cfg`)
    if rng.chance(0.25):
        a, b = rng.choice([(0, 1), (0, 1), (2, 5), (0, 4)])
        uses = [u for u in uses if u["pkg"] not in (a, b)] + [dict(pkg=a, kind="fieldsof", file=0), dict(pkg=b, kind="fieldsof", file=0)]
        shared = shared or rng.chance(0.7)
    # local names per (file, package)
    names = {}
    for f in range(nfiles):
        taken = set(["wire"])
        for u in uses:
            if u["file"] != f or (f, u["pkg"]) in names:
                continue
            d, pn = CATALOGUE[u["pkg"]]
            style = rng.choice(["default", "default", "same", "custom", "other", "lastelem"])
            if style == "default":
                nm, explicit = pn, False
            elif style == "same":
                nm, explicit = pn, True
            elif style == "custom":
                nm, explicit = "x%d" % u["pkg"], True
            elif style == "lastelem" and d.split("/")[-1].replace("_", "a").isalnum():
                # an explicit alias equal to the last path element (differs from the package name for api/v2)
                nm, explicit = d.split("/")[-1], True
            else:
                # the name of *another* catalogue package (e.g. `cache "…/util"`)
                o = rng.choice([p for _, p in CATALOGUE if p != pn])
                nm, explicit = o, True
            if nm in taken:
                nm, explicit = "y%d" % u["pkg"], True
            taken.add(nm)
            names[(f, u["pkg"])] = (nm, explicit)
    # the injector's result type: *App, or a composite type over an external type used in the last wire file (spelled
    # by migrate from type information, not copied from the source)
    shape = rng.choice([None, None, None, "slice", "map", "func", "chan", "array", "struct", "generic", "xgeneric", "alias"])
    return dict(uses=uses, nfiles=nfiles, names={"%d:%d" % k: v for k, v in names.items()}, order=rng.randint(0, 1), shared=shared, shape=shape)

def describe(case):
    return " ".join("%s:%s@f%d as %s%s" % (CATALOGUE[u["pkg"]][0], u["kind"], u["file"], case["names"]["%d:%d" % (u["file"], u["pkg"])][0],
                                          "" if case["names"]["%d:%d" % (u["file"], u["pkg"])][1] else "(implicit)") for u in case["uses"]) + " files=%d" % case["nfiles"] + (" shared-type-names" if case.get("shared") else "") + \
        (" result=%s" % case["shape"] if case.get("shape") else "")

def provided(u):
    """(type expression template with %(q)s for the qualifier, is it consumed by NewApp)"""
    j, k = u["pkg"], u["kind"]
    return {"fn": "*%%s.Svc%d" % j, "val": "%%s.Opt%d" % j, "bind": "%%s.Iface%d" % j, "struct": "*%%s.Opt%d" % j,
            "ival": "%%s.Iface%d" % j, "fieldsof": "*%%s.Leaf%d" % j, "astruct": "*%%s.AOpt%d" % j, "afieldsof": "*@LEAF%d@.L%d" % (j, j)}[k]

def items(u, q):
    j, k = u["pkg"], u["kind"]
    if k == "fn":
        return ["%s.NewSvc%d" % (q, j)]
    if k == "val":
        return ["wire.Value(%s.Default%d)" % (q, j)]
    if k == "bind":
        return ["%s.NewSvc%d" % (q, j), "wire.Bind(new(%s.Iface%d), new(*%s.Svc%d))" % (q, j, q, j)]
    if k == "struct":
        return ['wire.Struct(new(%s.Opt%d))' % (q, j)]       # no fields injected (Opt's only field is an int nobody provides)
    if k == "ival":
        return ["wire.InterfaceValue(new(%s.Iface%d), %s.TheSvc%d)" % (q, j, q, j)]
    if k == "fieldsof":
        return ["%s.NewCfg%d" % (q, j), 'wire.FieldsOf(new(*%s.Cfg%d), "A")' % (q, j)]
    if k == "astruct":
        return ['wire.Struct(new(%s.AOpt%d))' % (q, j)]        # the struct is named through an alias of an internal type
    if k == "afieldsof":
        return ["%s.NewACfg%d" % (q, j), 'wire.FieldsOf(new(*%s.ACfg%d), "A")' % (q, j)]
    raise ValueError(k)

def compatible(uses):
    """drop uses that would make wire see two providers for one type (keeps the configuration legal for wire too)"""
    out, seen = [], set()
    for u in uses:
        keys = {"fn": ["svc"], "val": ["opt"], "bind": ["svc", "iface"], "struct": ["opt"], "ival": ["iface"], "fieldsof": ["leaf", "cfg"],
                "astruct": ["aopt"], "afieldsof": ["aleaf", "acfg"]}[u["kind"]]
        if any((u["pkg"], k) in seen for k in keys):
            continue
        for k in keys:
            seen.add((u["pkg"], k))
        out.append(u)
    return out

def render(case, prefix, pkgname):
    """returns ({relative path: source}, meta) for the module rooted at the workspace: external packages under
    <prefix>/…, the package to migrate in <pkgname>/"""
    files = {}
    uses = compatible(case["uses"])
    used_pk = sorted(set(u["pkg"] for u in uses))
    for j in used_pk:
        d, pn = CATALOGUE[j]
        lp = "e2e/%s/%s/leaf" % (prefix, d)
        files["%s/%s/x.go" % (prefix, d)] = ext_source(j, pn, case.get("shared")).replace("@INTERNAL@", "e2e/%s/%s/internal/in%d" % (prefix, d, j)).replace("@LEAF@", lp)
        files["%s/%s/internal/in%d/in.go" % (prefix, d, j)] = ext_internal_source(j).replace("@LEAF@", lp)
        files["%s/%s/leaf/l.go" % (prefix, d)] = ext_leaf_source(j)
    def path(j):
        return "e2e/%s/%s" % (prefix, CATALOGUE[j][0])
    # types.go: the application, consuming everything provided; own unique aliases
    imps = "".join('\tp%d "%s"\n' % (j, path(j)) for j in used_pk if any(u["pkg"] == j and u["kind"] != "afieldsof" for u in uses))
    imps += "".join('\tpl%d "%s/leaf"\n' % (j, path(j)) for j in used_pk if any(u["pkg"] == j and u["kind"] == "afieldsof" for u in uses))
    def ptype(u):
        t = provided(u)
        if "@LEAF" in t:
            return re.sub(r"@LEAF(\d+)@", r"pl\1", t)
        return t % ("p%d" % u["pkg"])
    params = ", ".join("a%d %s" % (i, ptype(u)) for i, u in enumerate(uses))
    files["%s/types.go" % pkgname] = "package %s\n\nimport (\n%s)\n\ntype App struct{ N int }\n\nfunc NewApp(%s) *App { return &App{N: %d} }\n" % (
        pkgname, imps, params, len(uses))
    # a package-level identifier named like the declared name of a used package, when every wire file imports that
    # package under another explicit name (and nothing else is called like it): legal Go, and the migrated file must
    # not call its import of that package by the declared name
    local_names = set(v[0] for v in case["names"].values())
    for j in used_pk:
        pn = CATALOGUE[j][1]
        spellings = [case["names"]["%d:%d" % (u["file"], j)] for u in uses if u["pkg"] == j]
        if spellings and all(ex and nm != pn for nm, ex in spellings) and pn not in local_names and pn != "leaf" and not case.get("no_shadow"):
            files["%s/types.go" % pkgname] += "\nvar %s = %d\n\nvar _ = %s\n" % (pn, j, pn)
            break
    # result type of the injector
    lastf = case["nfiles"] - 1
    shape = case.get("shape")
    rt_w = "*App"
    if shape:
        cand = [u for u in uses if u["file"] == lastf and u["kind"] != "afieldsof"]
        if cand:
            u0 = cand[0]
            q_w = case["names"]["%d:%d" % (lastf, u0["pkg"])][0]
            e_t, e_w = provided(u0) % ("p%d" % u0["pkg"]), provided(u0) % q_w
            q_t = "p%d" % u0["pkg"]
        else:
            u0, e_t, e_w, q_t, q_w = None, "*App", "*App", None, None
        if shape == "xgeneric" and u0 is None:
            shape = "generic"
        tmpl = {"slice": "[]%(e)s", "map": "map[string]%(e)s", "func": "func(%(e)s, ...*App) (%(e)s, error)", "chan": "<-chan %(e)s",
                "array": "[2]%(e)s", "struct": "struct {\n\tX %(e)s\n\tY *App `json:\"y\"`\n}", "generic": "*Box[%(e)s]",
                "xgeneric": "*%(q)s.Pair" + str(u0["pkg"] if u0 else 0) + "[%(e)s, []*App]", "alias": "[]ExtAlias"}[shape]
        rt_t = tmpl % dict(e=e_t, q=q_t)
        rt_w = tmpl % dict(e=e_w, q=q_w)
        files["%s/types.go" % pkgname] += "\ntype Box[T any] struct{ V T }\n\ntype ExtAlias = %s\n\nvar ZeroRT %s\n\nfunc Wrap(a *App) %s { return ZeroRT }\n" % (e_t, rt_t, rt_t)
    sets = []
    wire_files = []
    for f in range(case["nfiles"]):
        mine = [u for u in uses if u["file"] == f]
        last = f == case["nfiles"] - 1
        if not mine and not last:
            continue
        imports = ['\t"github.com/google/wire"\n']
        seen = set()
        for u in mine:
            if u["pkg"] in seen:
                continue
            seen.add(u["pkg"])
            nm, explicit = case["names"]["%d:%d" % (f, u["pkg"])]
            imports.append('\t%s"%s"\n' % ((nm + " ") if explicit else "", path(u["pkg"])))
        body = []
        its = []
        for u in mine:
            nm, _ = case["names"]["%d:%d" % (f, u["pkg"])]
            its.extend(items(u, nm))
        if its:
            sets.append("Set%d" % f)
            body.append("var Set%d = wire.NewSet(%s)\n" % (f, ", ".join(its)))
        if last:
            build = list(sets) + ["NewApp"]
            if case["order"]:
                build = ["NewApp"] + list(sets)
            if shape:
                body.append("func Init() %s {\n\twire.Build(%s)\n\treturn ZeroRT\n}\n" % (rt_w, ", ".join(build + ["Wrap"])))
            else:
                body.append("func Init() *App {\n\twire.Build(%s)\n\treturn nil\n}\n" % ", ".join(build))
        name = "wire%d.go" % f
        files["%s/%s" % (pkgname, name)] = "//go:build wireinject\n\npackage %s\n\nimport (\n%s)\n\n%s" % (pkgname, "".join(imports), "\n".join(body))
        wire_files.append(name)
    if case.get("shared"):
        for rel in list(files):
            if rel.startswith(pkgname + "/"):
                files[rel] = re.sub(r"\b(Svc|Iface|Opt|Leaf|Cfg|NewSvc|Pair)\d+\b", r"\1", files[rel])
    return files, dict(wire_files=wire_files, sets=sets, uses=uses)

# ------------------------------------------------------------------------------------------------ failure kinds

FAIL_KINDS = ["syntax", "type", "mixed-packages", "duplicate-set", "missing-constructor",
              "syntax-in-imports", "syntax-in-imports-next-to-valid-package", "type-error-next-to-valid-package"]

def render_failure(kind, prefix):
    """{relative path: source}, list of package patterns to pass to migrate"""
    hdr = '//go:build wireinject\n\npackage %s\n\nimport "github.com/google/wire"\n\n'
    types = "package %s\n\ntype T struct{}\n\nfunc NewT() *T { return &T{} }\n\ntype I interface{ M() }\n\nfunc (*T) M() {}\n\ntype U struct{}\n\nfunc MakeU() *U { return &U{} }\n\nfunc (*U) M() {}\n"
    good = "var SetA = wire.NewSet(NewT)\n\nfunc Init() *T {\n\twire.Build(SetA)\n\treturn nil\n}\n"
    a, b = prefix + "a", prefix + "b"
    if kind == "syntax":
        return {a + "/types.go": types % "app", a + "/wire.go": hdr % "app" + "var SetA = wire.NewSet(NewT\n\nfunc Init() *T {\n\twire.Build(SetA)\n\treturn nil\n}\n"}, ["./" + a]
    if kind == "type":
        return {a + "/types.go": types % "app", a + "/wire.go": hdr % "app" + "var SetA = wire.NewSet(NewMissing)\n\nfunc Init() *T {\n\twire.Build(SetA)\n\treturn nil\n}\n"}, ["./" + a]
    if kind == "mixed-packages":
        return {a + "/types.go": types % "app", a + "/wire.go": hdr % "app" + good,
                b + "/types.go": types % "other", b + "/wire.go": hdr % "other" + good.replace("SetA", "SetB")}, ["./" + a, "./" + b]
    if kind == "duplicate-set":
        return {a + "/types.go": types % "app", a + "/wire.go": hdr % "app" + good,
                b + "/types.go": types % "app", b + "/wire.go": hdr % "app" + good}, ["./" + a, "./" + b]
    if kind in ("syntax-in-imports", "syntax-in-imports-next-to-valid-package"):
        # the syntax error sits in the import section of the only wire file of its package (the go tool then reports
        # no imports at all for that package)
        broken = '//go:build wireinject\n\npackage app\n\nimport "github.com/google/wire\n\n' + good
        fs = {a + "/types.go": types % "app", a + "/wire.go": broken}
        if kind.endswith("valid-package"):
            fs.update({b + "/types.go": types % "app", b + "/wire.go": hdr % "app" + good.replace("SetA", "SetB")})
            return fs, ["./" + b, "./" + a]
        return fs, ["./" + a]
    if kind == "type-error-next-to-valid-package":
        return {a + "/types.go": types % "app", a + "/wire.go": hdr % "app" + "var SetA = wire.NewSet(NewMissing)\n\nfunc Init() *T {\n\twire.Build(SetA)\n\treturn nil\n}\n",
                b + "/types.go": types % "app", b + "/wire.go": hdr % "app" + good.replace("SetA", "SetB")}, ["./" + b, "./" + a]
    if kind == "missing-constructor":
        return {a + "/types.go": types % "app", a + "/wire.go": hdr % "app" +
                "var SetA = wire.NewSet(MakeU, wire.Bind(new(I), new(*U)))\n\nfunc Init() I {\n\twire.Build(SetA)\n\treturn nil\n}\n"}, ["./" + a]
    raise ValueError(kind)
