//go:build wireinject

package main

import "github.com/google/wire"

// a package-level variable holding a single wire item instead of a wire.NewSet(...)
var DefaultConfig = wire.Value(&Config{Name: "default"})

func InitApp() *App {
	wire.Build(NewApp, DefaultConfig)
	return nil
}
