package main

import "fmt"

type Config struct{ Name string }
type App struct{ Cfg *Config }

func NewApp(c *Config) *App { fmt.Println("NewApp(cfg)"); return &App{c} }
