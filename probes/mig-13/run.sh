#!/bin/bash
# dot imports in the wire file: (a) of a provider package -> output does not compile (C14);
# (b) of google/wire itself -> nothing is migrated, exit 0 (C13).
HERE=$(cd "$(dirname "$0")" && pwd); . "$HERE/lib.sh"; setup "${1:-/repo}"
bad=0
echo "================ case_dotpkg: import . \"demo/store\""
if wire_side "$HERE/case_dotpkg"; then
	migrate_side "$HERE/case_dotpkg" wire.go
	if [ $MIG_RC -eq 0 ] && [ -f "$WORK/k/kessoku.go" ]; then
		compile_check
		[ $BUILD_RC -ne 0 ] && { echo "VIOLATION (C14): migrate exited 0 and wrote a file that does not compile in the source package"; bad=1; }
	fi
fi
rm -rf "$WORK/w" "$WORK/k" "$WORK/cc"
echo "================ case_dotwire: import . \"github.com/google/wire\""
if wire_side "$HERE/case_dotwire"; then
	migrate_side "$HERE/case_dotwire" wire.go
	if [ $MIG_RC -eq 0 ] && [ ! -f "$WORK/k/kessoku.go" ]; then
		echo "VIOLATION (C13): migrate exits 0 but migrated nothing: the set and the injector that wire builds are lost"; bad=1
	elif [ $MIG_RC -eq 0 ]; then
		generate_and_run; cmp -s "$WORK/w.out" "$WORK/k.out" || { echo "VIOLATION (C13): behaviour differs"; bad=1; }
	fi
fi
[ $bad -eq 0 ] && echo "property holds on these inputs"
exit $bad
