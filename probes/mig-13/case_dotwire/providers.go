package main

import "fmt"

type Config struct{ Name string }
type App struct{ Cfg *Config }

func NewConfig() *Config    { fmt.Println("NewConfig()"); return &Config{Name: "cfg"} }
func NewApp(c *Config) *App { fmt.Println("NewApp(cfg)"); return &App{c} }
