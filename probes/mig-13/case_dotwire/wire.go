//go:build wireinject

package main

import . "github.com/google/wire"

var Set = NewSet(NewConfig, NewApp)

func InitApp() *App {
	Build(Set)
	return nil
}
