//go:build wireinject

package main

import (
	. "demo/store"

	"github.com/google/wire"
)

func InitStore() *Store {
	wire.Build(NewStore, wire.Value(DefaultName))
	return nil
}
