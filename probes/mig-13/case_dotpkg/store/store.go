package store

import "fmt"

type Store struct{ Name string }

var DefaultName = "default"

func NewStore(n string) *Store { fmt.Println("store.NewStore", n); return &Store{n} }
