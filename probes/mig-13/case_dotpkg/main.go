package main

import "fmt"

func main() {
	s := InitStore()
	fmt.Println("store:", s.Name)
}
