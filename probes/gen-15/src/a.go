package main

// static int one(void) { return 1; }
import "C"

import "github.com/mazrean/kessoku"

type App struct{ n int }

func NewApp(n int) *App { return &App{n + int(C.one())} }

var _ = kessoku.Inject[*App]("InitA", kessoku.Provide(NewApp))

func main() {}
