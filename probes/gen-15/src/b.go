package main

// static int two(void) { return 2; }
import "C"

import "github.com/mazrean/kessoku"

type Other struct{ s string }

func NewOther(s string) *Other { _ = C.two(); return &Other{s} }

var _ = kessoku.Inject[*Other]("InitB", kessoku.Provide(NewOther))
