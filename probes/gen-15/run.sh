#!/bin/bash
# usage: bash run.sh <tree>   exits non-zero when the property is violated
# --- common prologue (inlined into every run.sh) ---
set -u
TREE=$(cd "${1:-/repo}" && pwd)
HERE=$(cd "$(dirname "$0")" && pwd)
export GOPROXY=off
PROBE_TMP=${PROBE_TMP:-/tmp/kessoku-probes}; mkdir -p "$PROBE_TMP"
WORK=$(mktemp -d "$PROBE_TMP/finding.XXXXXX")
trap 'rm -rf "$WORK"' EXIT
# build the CLI from the given tree (workspace mode: no GOFLAGS here)
if [ -n "${KESSOKU_BIN:-}" ]; then cp "$KESSOKU_BIN" "$WORK/kessoku"; else (cd "$TREE" && go build -o "$WORK/kessoku" ./cmd/kessoku) || { echo "cannot build CLI"; exit 2; }; fi
git -C "$TREE" checkout -q go.work.sum 2>/dev/null || true
TOOLCHAIN=$(cd "$TREE" && go env GOVERSION)
SYNCVER=$(awk '$1=="golang.org/x/sync"{print $2}' "$TREE/go.mod")
MOD="$WORK/demo"
mkdir -p "$MOD"
cp -r "$HERE/src/." "$MOD/"
cat > "$MOD/go.mod" <<EOM
module demo
go 1.24.0
require github.com/mazrean/kessoku v0.0.0
require golang.org/x/sync $SYNCVER
replace github.com/mazrean/kessoku => $TREE
EOM
cp "$TREE/go.sum" "$MOD/go.sum"
cd "$MOD"
export GOFLAGS=-mod=mod GOWORK=off GOTOOLCHAIN=$TOOLCHAIN
# sanity: the user's package compiles before generation
go build ./... || { echo "SETUP ERROR: input does not compile before generation"; exit 2; }
# --- end of prologue ---
export CGO_ENABLED=1
if ! command -v "${CC:-gcc}" >/dev/null 2>&1; then echo "no C compiler: cgo scenario cannot be run here"; exit 2; fi
fail=0
# 1. the declaration lives in a cgo file (a.go imports "C")
"$WORK/kessoku" a.go >"$WORK/log.a" 2>&1; rca=$?
fa=0; [ -f a_band.go ] && fa=$(grep -c '^func InitA(' a_band.go)
echo "kessoku a.go: exit=$rca, a_band.go $( [ -f a_band.go ] && echo written || echo 'not written'), InitA emitted: $fa"
if [ $rca -eq 0 ] && [ "$fa" != 1 ]; then
  echo "VIOLATED (C09, accept half): a.go holds one valid declaration (InitA); exit 0 but no function was emitted"; fail=1
fi
# 2. second cgo file of the same package
"$WORK/kessoku" b.go >"$WORK/log.b" 2>&1; rcb=$?
echo "kessoku b.go: exit=$rcb, b_band.go declares: $(grep -o '^func [A-Za-z]*' b_band.go 2>/dev/null | tr '\n' ' ')"
if [ $rcb -eq 0 ] && { ! grep -q '^func InitB(' b_band.go 2>/dev/null || grep -q '^func InitA(' b_band.go 2>/dev/null; }; then
  echo "VIOLATED (C09/C10): b.go declares InitB only; its output file contains the injector of ANOTHER file's declaration (InitA) and no InitB"; fail=1
fi
exit $fail
