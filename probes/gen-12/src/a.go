package main

import (
	"demo/lib"

	"github.com/mazrean/kessoku"
)

type Cache struct{}
type App struct{}

func NewCache() *Cache                      { return &Cache{} }
func NewApp(s *lib.Service, c *Cache) *App { return &App{} }

var _ = kessoku.Inject[*App]("InitSync",
	kessoku.Provide(lib.NewClient),
	kessoku.Provide(lib.NewService),
	kessoku.Provide(NewCache),
	kessoku.Provide(NewApp),
)

var _ = kessoku.Inject[*App]("Init",
	kessoku.Async(kessoku.Provide(lib.NewClient)),
	kessoku.Provide(lib.NewService),
	kessoku.Async(kessoku.Provide(NewCache)),
	kessoku.Provide(NewApp),
)

func main() {}
