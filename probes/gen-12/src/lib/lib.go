package lib

type client struct{ n int }

func (c *client) Do() int { return c.n }

// NewClient returns an unexported type (legal; golint frowns).
func NewClient() *client { return &client{n: 1} }

type Service struct{ c *client }

func NewService(c *client) *Service { return &Service{c} }
