package main

import "fmt"

type Kind string
type Handler func() string

// Event has fields whose lower-cased names are Go keywords.
type Event struct {
	Type Kind
	Func Handler
}

func NewKind() Kind       { fmt.Println("NewKind()"); return "k" }
func NewHandler() Handler { fmt.Println("NewHandler()"); return func() string { return "h" } }
