//go:build wireinject

package main

import "github.com/google/wire"

func InitEvent() *Event {
	wire.Build(NewKind, NewHandler, wire.Struct(new(Event), "Type", "Func"))
	return nil
}
