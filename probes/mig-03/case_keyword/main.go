package main

import "fmt"

func main() {
	e := InitEvent()
	fmt.Println("event:", e.Type, e.Func())
}
