#!/bin/bash
# C14 (+C13): parameter names of the constructor literal emitted for wire.Struct are lowerCamel(field name), unchecked.
HERE=$(cd "$(dirname "$0")" && pwd); . "$HERE/lib.sh"; setup "${1:-/repo}"
bad=0
echo "================ case_shadow (field Server of struct server.Options)"
if wire_side "$HERE/case_shadow"; then
	migrate_side "$HERE/case_shadow" wire.go
	if [ $MIG_RC -eq 0 ] && [ -f "$WORK/k/kessoku.go" ]; then
		compile_check
		if [ $BUILD_RC -ne 0 ]; then echo "VIOLATION (C14): migrate exited 0 and wrote a file that does not compile in the source package"; bad=1; fi
	elif [ $MIG_RC -ne 0 ]; then echo "VIOLATION (C13): migrate refuses a configuration that real wire accepts"; bad=1; fi
fi
rm -rf "$WORK/w" "$WORK/k" "$WORK/cc"
echo "================ case_keyword (fields Type and Func)"
if wire_side "$HERE/case_keyword"; then
	migrate_side "$HERE/case_keyword" wire.go
	if [ $MIG_RC -ne 0 ]; then echo "VIOLATION (C13): migrate refuses (internal error) a configuration that real wire accepts"; bad=1
	else compile_check; [ $BUILD_RC -ne 0 ] && { echo "VIOLATION (C14): output does not compile"; bad=1; }; fi
fi
[ $bad -eq 0 ] && echo "property holds on these inputs"
exit $bad
