package server

import "fmt"

type Server struct{ Addr string }

// Options has a field named like its own package.
type Options struct {
	Server *Server
}

func NewServer() *Server { fmt.Println("server.NewServer()"); return &Server{Addr: ":80"} }
