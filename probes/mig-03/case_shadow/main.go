package main

import "fmt"

func main() {
	o := InitOptions()
	fmt.Println("options:", o.Server.Addr)
}
