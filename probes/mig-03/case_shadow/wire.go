//go:build wireinject

package main

import (
	"demo/server"

	"github.com/google/wire"
)

func InitOptions() *server.Options {
	wire.Build(server.NewServer, wire.Struct(new(server.Options), "*"))
	return nil
}
