package main

import (
	"context"
	"fmt"
	"os"

	"github.com/mazrean/kessoku"
)

// Worker keeps the context it was constructed with (e.g. to stop its background loop).
type Worker struct{ ctx context.Context }
type Cache struct{}
type App struct {
	w *Worker
	c *Cache
}

func NewWorker(ctx context.Context) *Worker { return &Worker{ctx: ctx} }
func NewCache() *Cache                      { return &Cache{} }
func NewApp(w *Worker, c *Cache) *App       { return &App{w, c} }

// Alive is the observable value of the result: is the worker's context still live?
func (a *App) Alive() bool { return a.w.ctx.Err() == nil }

var _ = kessoku.Inject[*App]("InitSeq",
	kessoku.Provide(NewWorker), kessoku.Provide(NewCache), kessoku.Provide(NewApp))

var _ = kessoku.Inject[*App]("InitAsync",
	kessoku.Async(kessoku.Provide(NewWorker)), kessoku.Async(kessoku.Provide(NewCache)), kessoku.Provide(NewApp))

func main() {
	ctx := context.Background()
	// sequential evaluation of the declared graph, by hand
	ref := NewApp(NewWorker(ctx), NewCache())
	seq := InitSeq(ctx)
	asy := InitAsync(ctx)
	fmt.Printf("by hand: alive=%v   InitSeq: alive=%v   InitAsync: alive=%v (ctx err: %v)\n",
		ref.Alive(), seq.Alive(), asy.Alive(), asy.w.ctx.Err())
	if ref.Alive() != asy.Alive() {
		os.Exit(1)
	}
}
