#!/bin/bash
# usage: bash run.sh <tree>   exits non-zero when the property is violated
# --- common prologue (inlined into every run.sh) ---
set -u
TREE=$(cd "${1:-/repo}" && pwd)
HERE=$(cd "$(dirname "$0")" && pwd)
export GOPROXY=off
PROBE_TMP=${PROBE_TMP:-/tmp/kessoku-probes}; mkdir -p "$PROBE_TMP"
WORK=$(mktemp -d "$PROBE_TMP/finding.XXXXXX")
trap 'rm -rf "$WORK"' EXIT
# build the CLI from the given tree (workspace mode: no GOFLAGS here)
if [ -n "${KESSOKU_BIN:-}" ]; then cp "$KESSOKU_BIN" "$WORK/kessoku"; else (cd "$TREE" && go build -o "$WORK/kessoku" ./cmd/kessoku) || { echo "cannot build CLI"; exit 2; }; fi
git -C "$TREE" checkout -q go.work.sum 2>/dev/null || true
TOOLCHAIN=$(cd "$TREE" && go env GOVERSION)
SYNCVER=$(awk '$1=="golang.org/x/sync"{print $2}' "$TREE/go.mod")
MOD="$WORK/demo"
mkdir -p "$MOD"
cp -r "$HERE/src/." "$MOD/"
cat > "$MOD/go.mod" <<EOM
module demo
go 1.24.0
require github.com/mazrean/kessoku v0.0.0
require golang.org/x/sync $SYNCVER
replace github.com/mazrean/kessoku => $TREE
EOM
cp "$TREE/go.sum" "$MOD/go.sum"
cd "$MOD"
export GOFLAGS=-mod=mod GOWORK=off GOTOOLCHAIN=$TOOLCHAIN
# sanity: the user's package compiles before generation
# (pre-generation build skipped: main() calls the injectors that are yet to be generated)
# --- end of prologue ---
# (the input calls the injectors from main(), so it only compiles after generation - the normal kessoku workflow;
#  the prologue's pre-generation build is therefore expected to have been skipped for this finding)
"$WORK/kessoku" a.go >"$WORK/log" 2>&1 || { echo "generator refused"; tail -2 "$WORK/log"; exit 0; }
go build -o "$WORK/demo.bin" . || { echo "generated code does not compile"; exit 1; }
out=$("$WORK/demo.bin"); rc=$?
echo "$out"
if [ $rc -ne 0 ]; then
  echo "VIOLATED (C02): marking providers Async changes the value returned: the provider that requires context.Context is handed the"
  echo "  errgroup-derived context (eg, ctx := errgroup.WithContext(ctx)), which is cancelled as soon as eg.Wait() returns, i.e. before the"
  echo "  injector returns; sequential evaluation (and the non-Async injector) hand it the caller's context."
  exit 1
fi
exit 0
