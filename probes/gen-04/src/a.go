package main

import (
	"unsafe"

	"github.com/mazrean/kessoku"
)

type App struct{ p unsafe.Pointer }

func NewApp(p unsafe.Pointer) *App { return &App{p} }

var _ = kessoku.Inject[*App]("Init", kessoku.Provide(NewApp))

func main() {}
