package main

import (
	"io"

	"github.com/mazrean/kessoku"
)

type DB struct{}
type Cache struct{}
type App struct{}

func NewDB() *DB                  { return &DB{} }
func NewCache() *Cache            { return &Cache{} }
func NewApp(d *DB, c *Cache) *App { return &App{} }

// close releases a resource, logging the error.
func close(c io.Closer) { _ = c.Close() }

var _ = kessoku.Inject[*App]("Init",
	kessoku.Async(kessoku.Provide(NewDB)),
	kessoku.Async(kessoku.Provide(NewCache)),
	kessoku.Provide(NewApp),
)

func main() {}
