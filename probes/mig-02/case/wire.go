//go:build wireinject

package main

import "github.com/google/wire"

func InitServer() *Server {
	wire.Build(NewConfig, wire.Struct(new(Server), "*"))
	return nil
}
