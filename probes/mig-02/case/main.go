package main

import "fmt"

func main() {
	s := InitServer()
	fmt.Println("server:", s.Cfg.Name, s.Debug)
}
