package main

import (
	"fmt"
	"sync"
)

type Config struct{ Name string }

// Server is built with wire.Struct(new(Server), "*"); the tagged fields are excluded from injection.
type Server struct {
	Cfg   *Config
	mu    sync.Mutex `wire:"-"`
	Debug bool       `wire:"-"`
}

func NewConfig() *Config { fmt.Println("NewConfig()"); return &Config{Name: "cfg"} }
