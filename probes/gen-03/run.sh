#!/bin/bash
# usage: bash run.sh <tree>   exits non-zero when the property is violated
# --- common prologue (inlined into every run.sh) ---
set -u
TREE=$(cd "${1:-/repo}" && pwd)
HERE=$(cd "$(dirname "$0")" && pwd)
export GOPROXY=off
PROBE_TMP=${PROBE_TMP:-/tmp/kessoku-probes}; mkdir -p "$PROBE_TMP"
WORK=$(mktemp -d "$PROBE_TMP/finding.XXXXXX")
trap 'rm -rf "$WORK"' EXIT
# build the CLI from the given tree (workspace mode: no GOFLAGS here)
if [ -n "${KESSOKU_BIN:-}" ]; then cp "$KESSOKU_BIN" "$WORK/kessoku"; else (cd "$TREE" && go build -o "$WORK/kessoku" ./cmd/kessoku) || { echo "cannot build CLI"; exit 2; }; fi
git -C "$TREE" checkout -q go.work.sum 2>/dev/null || true
TOOLCHAIN=$(cd "$TREE" && go env GOVERSION)
SYNCVER=$(awk '$1=="golang.org/x/sync"{print $2}' "$TREE/go.mod")
MOD="$WORK/demo"
mkdir -p "$MOD"
cp -r "$HERE/src/." "$MOD/"
cat > "$MOD/go.mod" <<EOM
module demo
go 1.24.0
require github.com/mazrean/kessoku v0.0.0
require golang.org/x/sync $SYNCVER
replace github.com/mazrean/kessoku => $TREE
EOM
cp "$TREE/go.sum" "$MOD/go.sum"
cd "$MOD"
export GOFLAGS=-mod=mod GOWORK=off GOTOOLCHAIN=$TOOLCHAIN
# sanity: the user's package compiles before generation
go build ./... || { echo "SETUP ERROR: input does not compile before generation"; exit 2; }
# --- end of prologue ---
FILES="a.go"
WHAT="a variadic provider is called with the []T value but without '...'"
"$WORK/kessoku" $FILES >"$WORK/log" 2>&1
rc=$?
if [ $rc -ne 0 ]; then echo "generator refused the input (exit $rc): C04 holds vacuously"; tail -2 "$WORK/log"; exit 0; fi
if ! ls *_band.go >/dev/null 2>&1; then echo "no output file written: C04 holds vacuously"; exit 0; fi
if go build ./... 2>"$WORK/err" && go vet ./... 2>>"$WORK/err"; then echo "ok: generated code compiles"; exit 0; fi
echo "VIOLATED (C04): generator exited 0 and wrote $(ls *_band.go | tr '\n' ' ')but the package no longer compiles - $WHAT"
cat "$WORK/err"
exit 1
