package main

import "github.com/mazrean/kessoku"

type Option func(*App)

type App struct{ n int }

func NewApp(opts ...Option) *App { a := &App{}; for _, o := range opts { o(a) }; return a }

func NewOptions() []Option { return []Option{func(a *App) { a.n = 3 }} }

var _ = kessoku.Inject[*App]("Init", kessoku.Provide(NewOptions), kessoku.Provide(NewApp))
var _ = kessoku.Inject[*App]("Init2", kessoku.Provide(NewApp))

func main() {}
