package main

import "github.com/mazrean/kessoku"

type DB struct{}
type Cache struct{}
type App struct{}

type Example struct{ name string }

func (e *Example) NewDB() *DB       { return &DB{} }
func NewCache() *Cache            { return &Cache{} }
func NewApp(d *DB, c *Cache) *App { return &App{} }

var eg = &Example{name: "e.g."}

var _ = kessoku.Inject[*App]("Init",
	kessoku.Async(kessoku.Provide(eg.NewDB)),
	kessoku.Async(kessoku.Provide(NewCache)),
	kessoku.Provide(NewApp),
)

func main() {}
