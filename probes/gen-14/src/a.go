package main

import "github.com/mazrean/kessoku"

type Config struct{ n int }
type App struct{ c *Config }

// LoadConfig reports the error first (legal Go, even if unidiomatic).
func LoadConfig(n int) (error, *Config) { return nil, &Config{n} }

func NewApp(c *Config) *App { return &App{c} }

var _ = kessoku.Inject[*App]("Init", kessoku.Provide(LoadConfig), kessoku.Provide(NewApp))

func main() {}
