//go:build wireinject

package main

import "github.com/google/wire"

func InitApp() *App {
	wire.Build(NewLogger, wire.Struct(new(App), "*"))
	return nil
}
