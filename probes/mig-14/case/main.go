package main

func main() {
	a := InitApp()
	a.Logger.Log("hello")
}
