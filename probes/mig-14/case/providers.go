package main

import "fmt"

type stdLogger struct{}

func (stdLogger) Log(s string) { fmt.Println("log:", s) }

// App declares the dependency it needs as an interface literal (no named interface type).
type App struct {
	Logger interface{ Log(string) }
}

func NewLogger() interface{ Log(string) } { fmt.Println("NewLogger()"); return stdLogger{} }
