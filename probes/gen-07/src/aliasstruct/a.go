package main

import "github.com/mazrean/kessoku"

type Config struct{ Name string }
type ConfigRef = *Config

type App struct{ n string }

func NewConfig() ConfigRef { return &Config{"x"} }
func NewApp(n string) *App { return &App{n} }

var _ = kessoku.Inject[*App]("Init", kessoku.Provide(NewConfig), kessoku.Struct[ConfigRef](), kessoku.Provide(NewApp))

func main() {}
