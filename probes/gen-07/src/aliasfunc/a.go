package main

import "github.com/mazrean/kessoku"

type App struct{ n int }

type AppFactory = func() *App

var factory AppFactory = func() *App { return &App{1} }

var _ = kessoku.Inject[*App]("Init", kessoku.Provide(factory))

func main() {}
