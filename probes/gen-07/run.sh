#!/bin/bash
# usage: bash run.sh <tree>   exits non-zero when the property is violated
# --- common prologue (inlined into every run.sh) ---
set -u
TREE=$(cd "${1:-/repo}" && pwd)
HERE=$(cd "$(dirname "$0")" && pwd)
export GOPROXY=off
PROBE_TMP=${PROBE_TMP:-/tmp/kessoku-probes}; mkdir -p "$PROBE_TMP"
WORK=$(mktemp -d "$PROBE_TMP/finding.XXXXXX")
trap 'rm -rf "$WORK"' EXIT
# build the CLI from the given tree (workspace mode: no GOFLAGS here)
if [ -n "${KESSOKU_BIN:-}" ]; then cp "$KESSOKU_BIN" "$WORK/kessoku"; else (cd "$TREE" && go build -o "$WORK/kessoku" ./cmd/kessoku) || { echo "cannot build CLI"; exit 2; }; fi
git -C "$TREE" checkout -q go.work.sum 2>/dev/null || true
TOOLCHAIN=$(cd "$TREE" && go env GOVERSION)
SYNCVER=$(awk '$1=="golang.org/x/sync"{print $2}' "$TREE/go.mod")
MOD="$WORK/demo"
mkdir -p "$MOD"
cp -r "$HERE/src/." "$MOD/"
cat > "$MOD/go.mod" <<EOM
module demo
go 1.24.0
require github.com/mazrean/kessoku v0.0.0
require golang.org/x/sync $SYNCVER
replace github.com/mazrean/kessoku => $TREE
EOM
cp "$TREE/go.sum" "$MOD/go.sum"
cd "$MOD"
export GOFLAGS=-mod=mod GOWORK=off GOTOOLCHAIN=$TOOLCHAIN
# sanity: the user's package compiles before generation
go build ./... || { echo "SETUP ERROR: input does not compile before generation"; exit 2; }
# --- end of prologue ---
fail=0
for case in namedfunc aliasfunc aliasstruct; do
  rm -f $case/a_band.go
  decls=$(grep -c 'kessoku.Inject\[' $case/a.go)
  timeout 20 "$WORK/kessoku" $case/a.go >"$WORK/log.$case" 2>&1
  rc=$?
  funcs=0; [ -f $case/a_band.go ] && funcs=$(grep -c '^func ' $case/a_band.go)
  if [ $rc -eq 0 ] && [ "$funcs" != "$decls" ]; then
    echo "VIOLATED (C09, accept half): $case/a.go has $decls well-typed, acyclic, unambiguous declaration(s); generator exit 0 but emitted $funcs function(s):"
    grep -o 'error="[^"]*"' "$WORK/log.$case" | head -2
    fail=1
  elif [ $rc -ne 0 ]; then
    echo "VIOLATED (C09, accept half): $case/a.go refused with exit $rc"; tail -2 "$WORK/log.$case"; fail=1
  else
    echo "ok: $case ($funcs function(s) for $decls declaration(s))"
  fi
done
exit $fail
