//go:build wireinject

package main

import (
	cfgpkg "demo/config"

	"github.com/google/wire"
)

func InitConfig() *cfgpkg.Config {
	wire.Build(wire.Struct(new(cfgpkg.Config), "Name"), wire.Value("v"))
	return nil
}
