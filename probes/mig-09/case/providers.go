package main

// a package-level identifier named like the imported package: every file of this package
// has to import demo/config under another name
var config = "local"
