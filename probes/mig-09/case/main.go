package main

import "fmt"

func main() {
	c := InitConfig()
	fmt.Println("config:", c.Name, config)
}
