package config

type Config struct{ Name string }
