#!/bin/bash
# generic C13 comparison: every case directory next to this script is migrated and compared with real wire
HERE=$(cd "$(dirname "$0")" && pwd); . "$HERE/lib.sh"; setup "${1:-/repo}"
bad=0
for d in "$HERE"/case*; do
	c=$(basename "$d"); echo "================ $c"
	rm -rf "$WORK/w" "$WORK/k"
	wire_side "$d" || continue
	migrate_side "$d" wire.go
	if [ $MIG_RC -ne 0 ]; then echo "VIOLATION (C13) in $c: migrate refuses a configuration that real wire accepts"; bad=1; continue; fi
	if [ ! -f "$WORK/k/kessoku.go" ]; then echo "VIOLATION (C13) in $c: migrate exits 0 but migrates nothing (no output file)"; bad=1; continue; fi
	generate_and_run
	if cmp -s "$WORK/w.out" "$WORK/k.out"; then echo "$c: same behaviour"; else
		echo "VIOLATION (C13) in $c: the injector generated from the migrated file does not behave like wire's injector"; bad=1; fi
done
[ $bad -eq 0 ] && echo "property holds on these inputs"
exit $bad
