package main

import "fmt"

type Option string
type App struct{ Opts []Option }

func NewOptions() []Option { fmt.Println("NewOptions()"); return []Option{"a", "b"} }

// a variadic provider: wire treats the variadic parameter as a dependency on []Option
func NewApp(opts ...Option) *App { fmt.Println("NewApp", opts); return &App{opts} }
