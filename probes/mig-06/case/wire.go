//go:build wireinject

package main

import "github.com/google/wire"

func InitApp() *App {
	wire.Build(NewOptions, NewApp)
	return nil
}
