package main

import (
	"crypto/sha256"

	"github.com/mazrean/kessoku"
)

type Seed string

// NewDigest returns a fixed-size digest; the array length is a constant of another package.
func NewDigest(s Seed) [sha256.Size]byte { return sha256.Sum256([]byte(s)) }

var _ = kessoku.Inject[[sha256.Size]byte]("InitDigest", kessoku.Provide(NewDigest))

func main() {}
