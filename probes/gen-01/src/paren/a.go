package main

import "github.com/mazrean/kessoku"

type Config struct{ N int }

func NewConfig() *Config { return &Config{N: 7} }

type App struct{ c *Config }

func NewApp(c *Config) *App { return &App{c} }

var ConfigSet = kessoku.Set(kessoku.Provide(NewConfig))

var _ = kessoku.Inject[*App]("Init", (ConfigSet), kessoku.Provide(NewApp))

func main() {}
