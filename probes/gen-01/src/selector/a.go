package main

import (
	"demo/lib"

	"github.com/mazrean/kessoku"
)

type App struct{ c *lib.Config }

func NewApp(c *lib.Config) *App { return &App{c} }

var _ = kessoku.Inject[*App]("Init", lib.Set, kessoku.Provide(NewApp))

func main() {}
