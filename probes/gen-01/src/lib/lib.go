package lib

import "github.com/mazrean/kessoku"

type Config struct{ N int }

func NewConfig() *Config { return &Config{N: 7} }

var Set = kessoku.Set(kessoku.Provide(NewConfig))
