#!/bin/bash
# C14: the written file must be byte-identical across repeated runs on the same input.
HERE=$(cd "$(dirname "$0")" && pwd); . "$HERE/lib.sh"; setup "${1:-/repo}"
wire_side "$HERE/case" || exit 0
mkmod "$HERE/case" "$WORK/k"
# a few more (comment-only) files in the package: go/packages parses the files of a package concurrently
for k in 0 1 2 3 4 5 6 7; do
	{ echo "package main"; echo; i=0; while [ $i -lt $((30 + k * 3)) ]; do echo "// filler comment line number $i in file $k xxxxxxxxxxxxxxxxxxxxxxxxxxxxxxxxxxxxxxxx"; i=$((i + 1)); done; } > "$WORK/k/a$k.go"
done
MAX=${MAX_RUNS:-300}
mkdir -p "$WORK/outs"; n=0; first=""
while [ $n -lt $MAX ]; do
	n=$((n + 1))
	(cd "$WORK/k" && "$KESSOKU" migrate -o "$WORK/cur.go" . >/dev/null 2>&1) || { echo "migrate failed in run $n"; exit 0; }
	h=$(md5sum < "$WORK/cur.go" | cut -c1-12)
	[ -f "$WORK/outs/$h.go" ] || cp "$WORK/cur.go" "$WORK/outs/$h.go"
	if [ "$(ls "$WORK/outs" | wc -l)" -ge 2 ]; then break; fi
done
cnt=$(ls "$WORK/outs" | wc -l)
echo "$n runs of 'kessoku migrate' on the unchanged input produced $cnt distinct output file(s)"
if [ "$cnt" -ge 2 ]; then
	for f in "$WORK"/outs/*.go; do echo "--- $(basename "$f")"; sed -n '/^var _/,$p' "$f" | sed 's/^/  /'; done
	echo "VIOLATION (C14): output is not byte-identical across repeated runs"
	exit 1
fi
echo "property holds on this input (no difference seen in $n runs)"; exit 0
