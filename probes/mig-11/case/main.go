package main

func main() {
	a := InitApp()
	println("app:", a.Cfg.Name, a.Cfg.Host, a.Cfg.Port, a.Cfg.Debug, a.Cfg.Retries)
}
