package main

type Config struct {
	Name    string
	Host    string
	Port    int
	Debug   bool
	Retries int
}

type App struct{ Cfg Config }

func NewApp(c Config) *App { return &App{Cfg: c} }
