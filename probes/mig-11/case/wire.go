//go:build wireinject

package main

import "github.com/google/wire"

func InitApp() *App {
	wire.Build(NewApp, wire.Value(Config{
		Name:    "service-name-of-the-application",
		Host:    "host.example.com",
		Port:    8080,
		Debug:   true,
		Retries: 3,
	}))
	return nil
}
