package main

type API struct{}

func NewAPI() *API { return &API{} }

func main() { _ = InitAPI() }
