//go:build wireinject

package main

import "github.com/google/wire"

var APISet = wire.NewSet(NewAPI)

func InitAPI() *API {
	wire.Build(APISet)
	return nil
}
