//go:build wireinject

package main

import "github.com/google/wire"

var WorkerSet = wire.NewSet(NewWorker)

func InitWorker() *Worker {
	wire.Build(WorkerSet)
	return nil
}
