package main

type Worker struct{}

func NewWorker() *Worker { return &Worker{} }

func main() { _ = InitWorker() }
