#!/bin/bash
# C14: "packages mixed" must be refused (non-zero exit, no output); two DIFFERENT packages that merely share
# their package name (here two commands, both `package main`) are merged into one file with exit 0.
HERE=$(cd "$(dirname "$0")" && pwd); . "$HERE/lib.sh"; setup "${1:-/repo}"
mkmod "$HERE/case" "$WORK/k"
for d in cmd/api cmd/worker; do (cd "$WORK/k/$d" && "$WIRE" gen . >/dev/null 2>&1 && echo "real wire accepts ./$d" && rm -f wire_gen.go); done
(cd "$WORK/k" && "$KESSOKU" migrate -o "$WORK/out.go" ./cmd/... > "$WORK/migrate.log" 2>&1); rc=$?
echo "kessoku migrate -o out.go ./cmd/...  -> exit $rc"; grep -E 'Error|mismatch' "$WORK/migrate.log" | sed 's/^/  /'
if [ $rc -eq 0 ] && [ -f "$WORK/out.go" ]; then
	echo "--- output written:"; sed 's/^/  /' "$WORK/out.go"
	echo "VIOLATION (C14): packages demo/cmd/api and demo/cmd/worker were mixed into one file, exit 0 (should exit non-zero and write nothing)"
	for d in cmd/api cmd/worker; do
		rm -rf "$WORK/cc"; cp -r "$WORK/k" "$WORK/cc"; rm -f "$WORK/cc/$d/wire.go"; cp "$WORK/out.go" "$WORK/cc/$d/kessoku.go"
		sed -i 's/^func main() .*/func main() {}/' "$WORK/cc/$d/app.go"
		(cd "$WORK/cc" && go build ./$d > "$WORK/cc.log" 2>&1) || { echo "--- and the file does not compile in ./$d:"; sed 's/^/  /' "$WORK/cc.log"; }
	done
	exit 1
fi
echo "property holds (mixed packages refused)"; exit 0
