package main

import (
	. "demo/lib"

	"github.com/mazrean/kessoku"
)

type App struct{ c *Config }

func NewApp(c *Config) *App { return &App{c} }

var _ = kessoku.Inject[*App]("Init", kessoku.Provide(NewConfig), kessoku.Provide(NewApp))

var _ = kessoku.Inject[*Config]("InitConfig", kessoku.Provide(NewConfig))

func main() {}
