package lib

type Config struct{ N int }

func NewConfig() *Config { return &Config{N: 7} }
