package main

import "fmt"

func main() {
	r := InitRepo()
	fmt.Println("repo:", r.c.DSN)
}
