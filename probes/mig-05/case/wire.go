//go:build wireinject

package main

import "github.com/google/wire"

func InitRepo() *Repo {
	wire.Build(NewConfig, NewRepo, wire.FieldsOf(new(*Config), "DB"))
	return nil
}
