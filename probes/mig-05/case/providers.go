package main

import "fmt"

type DBConfig struct{ DSN string }
type Config struct{ DB DBConfig }
type Repo struct{ c *DBConfig }

func NewConfig() *Config { fmt.Println("NewConfig()"); return &Config{DB: DBConfig{"dsn"}} }

// NewRepo takes a POINTER to the field's type.
func NewRepo(c *DBConfig) *Repo { fmt.Println("NewRepo(&cfg.DB)", c.DSN); return &Repo{c} }
