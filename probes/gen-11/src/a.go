package main

import (
	cfgpkg "demo/config"

	"github.com/mazrean/kessoku"
)

type App struct{ c *cfgpkg.Config }

func NewApp(c *cfgpkg.Config) *App { return &App{c} }

var _ = kessoku.Inject[*App]("Init",
	kessoku.Provide(func() *cfgpkg.Config {
		config := cfgpkg.Load()
		config.Timeout = cfgpkg.DefaultTimeout
		return config
	}),
	kessoku.Provide(NewApp),
)

func main() {}
