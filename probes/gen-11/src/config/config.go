package config

type Config struct{ Timeout int }

const DefaultTimeout = 30

func Load() *Config { return &Config{} }
