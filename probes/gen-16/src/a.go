package main

import "github.com/mazrean/kessoku"

type DB struct{}
type Cache struct{}
type AppContext struct{}

func NewDB() *DB                         { return &DB{} }
func NewCache() *Cache                   { return &Cache{} }
func NewAppContext(d *DB, c *Cache) *AppContext { return &AppContext{} }

// unexported injector; the package itself never imports "context"
var _ = kessoku.Inject[*AppContext]("context",
	kessoku.Async(kessoku.Provide(NewDB)),
	kessoku.Async(kessoku.Provide(NewCache)),
	kessoku.Provide(NewAppContext),
)

func main() {}
