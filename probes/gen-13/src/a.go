package main

import . "github.com/mazrean/kessoku"

type App struct{ n int }

func NewApp(n int) *App { return &App{n} }

var _ = Inject[*App]("Init", Provide(NewApp))

func main() {}
