package main

import "fmt"

func main() {
	a := InitApp()
	fmt.Println("app:", a.Cfg.Name)
	c := InitConfig()
	fmt.Println("config:", c.Name)
}
