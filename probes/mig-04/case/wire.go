//go:build wireinject

package main

import "github.com/google/wire"

var Set = wire.NewSet(NewConfig, NewApp)

// the form recommended by the wire documentation: no dummy return values needed
func InitApp() *App {
	panic(wire.Build(Set))
}

func InitConfig() *Config {
	wire.Build(Set)
	return nil
}
