#!/bin/bash
# C13: a set reference to a set of ANOTHER package (store.Set) - the standard multi-package wire layout.
HERE=$(cd "$(dirname "$0")" && pwd); . "$HERE/lib.sh"; setup "${1:-/repo}"
wire_side "$HERE/case" || exit 0
mkmod "$HERE/case" "$WORK/k"
cd "$WORK/k"
"$KESSOKU" migrate -o store/kessoku.go ./store > "$WORK/m1.log" 2>&1; r1=$?
"$KESSOKU" migrate -o kessoku.go . > "$WORK/m2.log" 2>&1; r2=$?
echo "kessoku migrate ./store -> exit $r1 ; kessoku migrate . -> exit $r2"
[ $r1 -eq 0 ] && [ $r2 -eq 0 ] || { grep -h Error "$WORK/m1.log" "$WORK/m2.log"; echo "VIOLATION (C13): migration refused"; exit 1; }
echo "--- store/kessoku.go:"; sed -n '/^var/,$p' store/kessoku.go | sed 's/^/  /'
echo "--- kessoku.go:"; sed -n '/^var/,$p' kessoku.go | sed 's/^/  /'
rm -f wire.go store/wire_set.go            # wire files set aside
go build ./store || { echo "store package does not compile"; exit 1; }
timeout 10 "$KESSOKU" kessoku.go > "$WORK/gen.log" 2>&1; g=$?
if [ $g -eq 124 ]; then
	echo "kessoku generate on the migrated file: still running after 10 s (killed) - it never terminates"
	echo "VIOLATION (C13): no injector can be generated from the migrated file of a configuration real wire accepts"
	exit 1
fi
echo "kessoku generate: exit $g"; grep -E 'WARN|Error' "$WORK/gen.log" | sed 's/^/  /'
[ -f kessoku_band.go ] && { echo "--- generated injector:"; sed -n '/^func /,$p' kessoku_band.go | sed 's/^/  /'; }
go run . > "$WORK/k.out" 2>&1; echo "exit=$?" >> "$WORK/k.out"
echo "--- program linked against kessoku's injector prints:"; sed 's/^/  /' "$WORK/k.out"
if cmp -s "$WORK/w.out" "$WORK/k.out"; then echo "property holds on this input"; exit 0; fi
echo "VIOLATION (C13): behaviour differs from wire's injector"; exit 1
