//go:build wireinject

package main

import (
	"demo/store"

	"github.com/google/wire"
)

func InitApp() *App {
	wire.Build(NewApp, NewDSN, store.Set)
	return nil
}
