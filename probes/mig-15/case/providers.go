package main

import (
	"fmt"

	"demo/store"
)

type App struct{ S *store.Store }

func NewDSN() store.DSN         { fmt.Println("NewDSN()"); return "dsn" }
func NewApp(s *store.Store) *App { fmt.Println("NewApp(store)"); return &App{s} }
