package store

import "github.com/google/wire"

// the usual layout: every package exports its provider set
var Set = wire.NewSet(NewStore)
