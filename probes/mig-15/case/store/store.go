package store

import "fmt"

type DSN string
type Store struct{ dsn DSN }

func (s *Store) Get() string { return string(s.dsn) }

func NewStore(d DSN) *Store { fmt.Println("store.NewStore", d); return &Store{d} }
