package main

import "github.com/mazrean/kessoku"

type App struct{ n int }

func NewApp(n int) *App { return &App{n} }

// The directive is an ordinary call expression; nothing requires it to be a package-level
// `var _ =`. Here it sits in a function and mentions that function's local identifiers.
func wiring() {
	defaultSize := 5
	type Sized struct{ n int }
	_ = kessoku.Inject[Sized]("InitSized",
		kessoku.Provide(func(n int) Sized { return Sized{n} }),
		kessoku.Value(defaultSize),
	)
}

func main() { wiring() }
