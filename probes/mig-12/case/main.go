package main

import "fmt"

func main() {
	a := InitApp()
	fmt.Println("app.Cfg injected:", a.Cfg != nil)
}
