//go:build wireinject

package main

import "github.com/google/wire"

func InitApp() *App {
	// wire matches field names case-insensitively: "cfg" selects field Cfg
	wire.Build(NewConfig, wire.Struct(new(App), "cfg"))
	return nil
}
