//go:build wireinject

package main

import (
	"io"
	"os"

	"github.com/google/wire"
)

func InitApp() *App {
	wire.Build(
		NewApp,
		wire.InterfaceValue(new(io.Reader), os.Stdin),
		wire.InterfaceValue(new(io.Writer), os.Stdout),
	)
	return nil
}
