package main

import (
	"fmt"
	"io"
	"os"
)

type App struct {
	In  io.Reader
	Out io.Writer
}

func NewApp(in io.Reader, out io.Writer) *App {
	fmt.Printf("NewApp(in is os.Stdin: %v, out is os.Stdout: %v)\n", in == os.Stdin, out == os.Stdout)
	return &App{In: in, Out: out}
}
