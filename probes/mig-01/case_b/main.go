package main

import (
	"fmt"
	"os"
)

func main() {
	a := InitApp()
	fmt.Println("app.In is os.Stdin:", a.In == os.Stdin, " app.Out is os.Stdout:", a.Out == os.Stdout)
}
