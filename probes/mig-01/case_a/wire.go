//go:build wireinject

package main

import (
	"io"
	"os"

	"github.com/google/wire"
)

// the log file is an argument of the injector; only the io.Reader is a wire value
func InitApp(log *os.File) *App {
	wire.Build(
		NewApp,
		wire.InterfaceValue(new(io.Reader), os.Stdin),
	)
	return nil
}
