package main

import (
	"fmt"
	"os"
)

func main() {
	a := InitApp(os.Stderr)
	fmt.Println("app.In is os.Stdin:", a.In == os.Stdin, " app.Log is os.Stderr:", a.Log == os.Stderr)
}
