package main

import (
	"fmt"
	"io"
	"os"
)

type App struct {
	In  io.Reader
	Log *os.File
}

func NewApp(in io.Reader, log *os.File) *App {
	fmt.Printf("NewApp(in is os.Stdin: %v, log is os.Stderr: %v)\n", in == os.Stdin, log == os.Stderr)
	return &App{In: in, Log: log}
}
