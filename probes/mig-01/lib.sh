# Shared helpers (a copy lives in every finding directory).
# usage in run.sh:  . "$HERE/lib.sh"; setup "$1"; ... ; finish
set -u
export GOPROXY=off
unset GOFLAGS GOSUMDB GOWORK 2>/dev/null || true

setup() {
	TREE=$(cd "${1:-/repo}" && pwd)
	PROBE_TMP=${PROBE_TMP:-/tmp/kessoku-probes}; mkdir -p "$PROBE_TMP"
	WORK=$(mktemp -d "$PROBE_TMP/finding.XXXXXX")
	trap 'rm -rf "$WORK"' EXIT
	TC=$(cd "$TREE" && go env GOVERSION)
	# kessoku CLI from the given tree (workspace build, no GOFLAGS)
	mkdir -p "$WORK/bin"
	if [ -n "${KESSOKU_BIN:-}" ]; then cp "$KESSOKU_BIN" "$WORK/bin/kessoku"; else (cd "$TREE" && go build -o "$WORK/bin/kessoku" ./cmd/kessoku) || { echo "cannot build kessoku"; exit 2; }; fi
	(cd "$TREE" && git checkout -q go.work.sum 2>/dev/null || true)
	sort -u "$TREE/go.sum" "$TREE/tools/go.sum" "$TREE/go.work.sum" > "$WORK/go.sum"
	export GOFLAGS=-mod=mod GOWORK=off GOTOOLCHAIN=$TC
	# real google/wire v0.7.0 from the module cache
	mkdir -p "$WORK/wirebuild"
	cat > "$WORK/wirebuild/go.mod" <<EOF
module wirebuild
go 1.25.5
require github.com/google/wire v0.7.0
require golang.org/x/tools v0.42.0
require golang.org/x/mod v0.33.0
require golang.org/x/sync v0.19.0
EOF
	cp "$WORK/go.sum" "$WORK/wirebuild/go.sum"
	if [ -n "${WIRE_BIN:-}" ] && [ -x "${WIRE_BIN:-}" ]; then cp "$WIRE_BIN" "$WORK/bin/wire"; else (cd "$WORK/wirebuild" && go build -o "$WORK/bin/wire" github.com/google/wire/cmd/wire) || { echo "cannot build wire"; exit 2; }; fi
	KESSOKU="$WORK/bin/kessoku"; WIRE="$WORK/bin/wire"
	XSYNC=$(awk '$1=="golang.org/x/sync"{print $2}' "$TREE/go.mod"); [ -n "$XSYNC" ] || XSYNC=v0.19.0
}

# mkmod <srcdir> <dstdir>: copy a case and make it a module "demo"
mkmod() {
	mkdir -p "$2"; cp -r "$1"/. "$2"/
	cat > "$2/go.mod" <<EOF
module demo
go 1.24.0
require github.com/mazrean/kessoku v0.0.0
require golang.org/x/sync $XSYNC
require github.com/google/wire v0.7.0
replace github.com/mazrean/kessoku => $TREE
EOF
	cp "$WORK/go.sum" "$2/go.sum"
}

# wire_side <case> : real wire generates and the program runs -> $WORK/w.out ; returns 1 if wire rejects
wire_side() {
	mkmod "$1" "$WORK/w"
	if ! (cd "$WORK/w" && "$WIRE" gen . > "$WORK/wiregen.log" 2>&1); then
		echo "INCONCLUSIVE: real wire rejects the input:"; sed 's/^/  /' "$WORK/wiregen.log"; return 1
	fi
	echo "real google/wire: accepts the configuration (wire gen ok)"
	if [ -f "$WORK/w/main.go" ]; then
		(cd "$WORK/w" && go run . > "$WORK/w.out" 2>&1; echo "exit=$?" >> "$WORK/w.out")
		echo "--- program linked against wire's injector prints:"; sed 's/^/  /' "$WORK/w.out"
	fi
	return 0
}

# migrate_side <case> <wire files to set aside...> : sets MIG_RC, GEN_RC; output in $WORK/k
migrate_side() {
	local c=$1; shift
	mkmod "$c" "$WORK/k"
	(cd "$WORK/k" && "$KESSOKU" migrate -o kessoku.go . > "$WORK/migrate.log" 2>&1); MIG_RC=$?
	echo "kessoku migrate: exit $MIG_RC"; grep -v 'level=INFO' "$WORK/migrate.log" | grep -v 'No wire import found' | sed 's/^/  /'
	GEN_RC=-1; BUILD_RC=-1
	[ -f "$WORK/k/kessoku.go" ] || return 0
	echo "--- migrated file:"; sed 's/^/  /' "$WORK/k/kessoku.go"
	for f in "$@"; do rm -f "$WORK/k/$f"; done
	return 0
}

# compile_check: does the package (wire files set aside, main.go set aside too if it calls injectors) compile with kessoku.go?
compile_check() {
	mkdir -p "$WORK/cc"; cp -r "$WORK/k"/. "$WORK/cc"/; printf 'package main\n\nfunc main() {}\n' > "$WORK/cc/main.go"
	(cd "$WORK/cc" && go build ./... > "$WORK/cc.log" 2>&1); BUILD_RC=$?
	if [ $BUILD_RC -ne 0 ]; then echo "--- migrated file does NOT compile in its package (wire files set aside):"; sed 's/^/  /' "$WORK/cc.log"; fi
}

# generate_and_run: kessoku generates the injector from the migrated file and the same program runs -> $WORK/k.out
generate_and_run() {
	(cd "$WORK/k" && "$KESSOKU" kessoku.go > "$WORK/gen.log" 2>&1); GEN_RC=$?
	echo "kessoku generate: exit $GEN_RC"; grep -E 'Error|error:' "$WORK/gen.log" | sed 's/^/  /'
	if [ -f "$WORK/k/kessoku_band.go" ]; then echo "--- generated injector:"; sed -n '/^func /,$p' "$WORK/k/kessoku_band.go" | sed 's/^/  /'; fi
	(cd "$WORK/k" && go run . > "$WORK/k.out" 2>&1; echo "exit=$?" >> "$WORK/k.out")
	echo "--- program linked against kessoku's injector prints:"; sed 's/^/  /' "$WORK/k.out"
}
