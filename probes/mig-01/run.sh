#!/bin/bash
# C13: wire.InterfaceValue(new(I), v) provides ONLY I in wire; the migrated kessoku.Bind[I](kessoku.Value(v))
# also supplies v's concrete type.
HERE=$(cd "$(dirname "$0")" && pwd); . "$HERE/lib.sh"; setup "${1:-/repo}"
bad=0
for c in case_a case_b; do
	echo "================ $c"
	rm -rf "$WORK/w" "$WORK/k"
	wire_side "$HERE/$c" || continue
	migrate_side "$HERE/$c" wire.go
	if [ $MIG_RC -ne 0 ] || [ ! -f "$WORK/k/kessoku.go" ]; then echo "VIOLATION (C13): migration refused"; bad=1; continue; fi
	generate_and_run
	if cmp -s "$WORK/w.out" "$WORK/k.out"; then echo "$c: same behaviour"; else
		echo "VIOLATION (C13) in $c: the injector generated from the migrated file does not behave like wire's injector"; bad=1; fi
done
[ $bad -eq 0 ] && echo "property holds on these inputs"
exit $bad
