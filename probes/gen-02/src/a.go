package main

import (
	. "demo/lib"

	"github.com/mazrean/kessoku"
)

type App struct{ c *Config }

func NewApp(c *Config) *App { return &App{c} }

var _ = kessoku.Inject[*App]("Init", Set, kessoku.Provide(NewApp))

func main() {}
