#!/bin/bash
# generic C14 check: migrate must either fail (non-zero, no file) or write a file that compiles in the source
# package once the wire files are set aside. Real wire is run first to show the input is a legal configuration.
HERE=$(cd "$(dirname "$0")" && pwd); . "$HERE/lib.sh"; setup "${1:-/repo}"
bad=0
for d in "$HERE"/case*; do
	c=$(basename "$d"); echo "================ $c"
	rm -rf "$WORK/w" "$WORK/k" "$WORK/cc"
	wire_side "$d" || continue
	migrate_side "$d" wire.go
	if [ $MIG_RC -ne 0 ]; then
		if [ -f "$WORK/k/kessoku.go" ]; then echo "VIOLATION (C14): failed but wrote a file"; bad=1; else echo "$c: migrate refused (allowed by C14)"; fi
		continue
	fi
	[ -f "$WORK/k/kessoku.go" ] || { echo "$c: nothing written"; continue; }
	if [ -n "$(cd "$WORK/k" && gofmt -l kessoku.go)" ]; then echo "VIOLATION (C14): output not gofmt-stable"; bad=1; fi
	compile_check
	if [ $BUILD_RC -ne 0 ]; then echo "VIOLATION (C14) in $c: migrate exited 0 and wrote a file that does not compile in the source package"; bad=1
	else
		generate_and_run
		cmp -s "$WORK/w.out" "$WORK/k.out" || { echo "VIOLATION (C13) in $c: behaviour differs from wire's injector"; bad=1; }
	fi
done
[ $bad -eq 0 ] && echo "property holds on these inputs"
exit $bad
