package kessoku

import "fmt"

type Band struct{ Name string }

func NewBand() *Band { fmt.Println("kessoku.NewBand()"); return &Band{"kessoku band"} }
