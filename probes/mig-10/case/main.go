package main

import "fmt"

func main() {
	b := InitBand()
	fmt.Println("band:", b.Name)
}
