//go:build wireinject

package main

import (
	"demo/band/kessoku"

	"github.com/google/wire"
)

func InitBand() *kessoku.Band {
	wire.Build(kessoku.NewBand)
	return nil
}
