package main

import (
	"context"

	"github.com/mazrean/kessoku"
)

type Ctx = context.Context

type DB struct{}
type Cache struct{}
type App struct{}

func NewDB(c Ctx) *DB               { return &DB{} }
func NewCache() *Cache              { return &Cache{} }
func NewApp(d *DB, c *Cache) *App   { return &App{} }

var _ = kessoku.Inject[*App]("Init",
	kessoku.Async(kessoku.Provide(NewDB)),
	kessoku.Async(kessoku.Provide(NewCache)),
	kessoku.Provide(NewApp),
)

func main() {}
