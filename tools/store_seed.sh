#!/bin/bash
# usage: [ROUND=8] store_seed.sh <prop> <name>   — confirm /tmp/r$ROUND/<prop>/out as seeded/<name>, write meta.json, drop the worktree
prop=$1; name=$2; export ROUND=${ROUND:-8}
base=/tmp/r$ROUND/$prop
mkdir -p /tmp/seed/${prop}-scratch
/verif/tools/confirm_seed.sh $name $base/out/patch.diff $base/out/demo $prop 2>&1 | tail -1 | tee $base/confirm.txt
if grep -q "^CONFIRMED" $base/confirm.txt; then
python3 - "$prop" "$name" "$base" <<'PY'
import json, sys, os
prop, name, base = sys.argv[1:4]
notes = json.load(open(base + '/out/notes.json'))
m = {"id": name, "property": prop, "summary": notes["summary"], "needs": notes["needs"],
     "ran": "tools/confirm_seed.sh: go build ./... and go test -count=1 ./... pass with the change; demo/run.sh exits non-zero with it and 0 without (see confirm.log)",
     "origin": "round %s: independent sub-agent given only the property text and a scratch worktree" % os.environ["ROUND"]}
json.dump(m, open('/verif/seeded/%s/meta.json' % name, 'w'), indent=1)
PY
git -C /repo worktree remove --force $base/wt 2>/dev/null
fi
