#!/bin/bash
# usage: store_seed.sh <prop> <name>   — confirm /tmp/r7/<prop>/out as seeded/<name>, write meta.json, drop the worktree
prop=$1; name=$2
mkdir -p /tmp/seed/${prop}-scratch
/verif/tools/confirm_seed.sh $name /tmp/r7/$prop/out/patch.diff /tmp/r7/$prop/out/demo $prop 2>&1 | tail -1 | tee /tmp/r7/$prop/confirm.txt
if grep -q "^CONFIRMED" /tmp/r7/$prop/confirm.txt; then
python3 - "$prop" "$name" <<'PY'
import json, sys
prop, name = sys.argv[1:3]
notes = json.load(open('/tmp/r7/%s/out/notes.json' % prop))
m = {"id": name, "property": prop, "summary": notes["summary"], "needs": notes["needs"],
     "ran": "tools/confirm_seed.sh: go build ./... and go test -count=1 ./... pass with the change; demo/run.sh exits non-zero with it and 0 without (see confirm.log)",
     "origin": "round 7: independent sub-agent given only the property text and a scratch worktree"}
json.dump(m, open('/verif/seeded/%s/meta.json' % name, 'w'), indent=1)
PY
git -C /repo worktree remove --force /tmp/r7/$prop/wt 2>/dev/null
fi
