#!/usr/bin/env python3
"""Sanity of the committed interface files: MANIFEST validates, every claimed property has an evidence file that
validates, was written by a run without violations and with all obligations discharged."""
import json, os, sys
ROOT = os.path.dirname(os.path.dirname(os.path.abspath(__file__)))
bad = []
try:
    import jsonschema
    ms = json.load(open("/root/.vp/MANIFEST.schema.json")); es = json.load(open("/root/.vp/EVIDENCE.schema.json"))
except Exception as e:
    jsonschema = None
m = json.load(open(os.path.join(ROOT, "MANIFEST.json")))
if jsonschema:
    try:
        jsonschema.validate(m, ms)
    except Exception as e:
        bad.append("MANIFEST: " + str(e)[:200])
for c in m["checks"]:
    p = os.path.join(ROOT, c["evidence_file"])
    if not os.path.exists(p):
        bad.append(c["property_id"] + ": evidence missing"); continue
    ev = json.load(open(p))
    if jsonschema:
        try:
            jsonschema.validate(ev, es)
        except Exception as e:
            bad.append(c["property_id"] + ": " + str(e)[:200])
    cov = ev["coverage"]
    if ev.get("violations", 0) != 0 or cov.get("obligations") != cov.get("discharged"):
        bad.append("%s: violations=%s obligations=%s discharged=%s" % (c["property_id"], ev.get("violations"), cov.get("obligations"), cov.get("discharged")))
    if ev.get("tier") != "quick" or ev.get("seed") != 1:
        bad.append("%s: evidence from tier=%s seed=%s (commit the quick/seed-1 run)" % (c["property_id"], ev.get("tier"), ev.get("seed")))
print("\n".join(bad) if bad else "interface files consistent (%d checks)" % len(m["checks"]))
sys.exit(1 if bad else 0)
