#!/bin/bash
# usage: try_seed.sh <seed-name> <property> [tier]   — apply a seeded change to /repo, run the check, undo it
name=$1; prop=$2; tier=${3:-quick}
cd /verif
git -C /repo apply /verif/seeded/$name/patch.diff || exit 2
./check $prop --tier $tier > /tmp/w/try_${name}_${prop}.log 2>&1; rc=$?
git -C /repo checkout -- . ; git -C /repo status --short
echo "== $name on $prop ($tier): exit $rc"; grep -E "^VIOLATION|^KNOWN|^BUILD|^  " /tmp/w/try_${name}_${prop}.log | cut -c1-400 | head -8; tail -1 /tmp/w/try_${name}_${prop}.log
