#!/usr/bin/env python3
"""Rewrites the block between <!-- SEEDTABLE --> and <!-- /SEEDTABLE --> in DESIGN.md from seeded/*/meta.json and
seeded/RESULTS.json (written by tools/sweep_seeds.py)."""
import glob, json, os, re
ROOT = os.path.dirname(os.path.dirname(os.path.abspath(__file__)))
res = json.load(open(os.path.join(ROOT, "seeded", "RESULTS.json")))
rows = []
for mf in sorted(glob.glob(os.path.join(ROOT, "seeded", "*", "meta.json"))):
    m = json.load(open(mf))
    n = m["id"]
    r = res.get(n, {})
    if m.get("status", "").startswith("obsolete"):
        verdict = "obsolete (" + m["status"].split(":", 1)[1].strip()[:90] + ")"
    elif r.get("error"):
        verdict = "not run: " + r["error"][:60]
    elif not r.get("checks"):
        verdict = "not swept yet"
    else:
        parts = []
        for p, c in sorted(r["checks"].items()):
            if c["exit"] == 1:
                how = "no-failing-input-found" if c.get("no_failing_input") else "concrete failing input"
                d = (c.get("detail") or [""])[0]
                parts.append("**%s** exit 1, %s — %s" % (p, how, d[:140].replace("|", "/")))
            else:
                parts.append("%s exit %d (missed)" % (p, c["exit"]))
        verdict = "; ".join(parts)
    rows.append("| `%s` | %s | %s | %s |" % (n, m["property"], m["summary"][:150].replace("|", "/"), verdict))
table = "| seeded change | property | what it does | outcome of `./check` with the change applied (quick tier) |\n|---|---|---|---|\n" + "\n".join(rows)
p = os.path.join(ROOT, "DESIGN.md")
s = open(p).read()
s2 = re.sub(r"<!-- SEEDTABLE -->.*?<!-- /SEEDTABLE -->", lambda m_: "<!-- SEEDTABLE -->\n" + table + "\n<!-- /SEEDTABLE -->", s, flags=re.S)
open(p, "w").write(s2)
print("%d rows" % len(rows))
