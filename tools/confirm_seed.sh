#!/bin/bash
# usage: confirm_seed.sh <name> <patch.diff> <demo-dir> <property-id>
# Confirms a seeded change in a scratch worktree: builds, whole suite passes with it, demo fails with it and passes without.
# Stores it as /verif/seeded/<name>/ (patch.diff, demo/, confirm.log). Removes the scratch worktree afterwards.
set -u
name=$1; patch=$(readlink -f "$2"); demo=$(readlink -f "$3"); prop=$4
export GOPROXY=off
wt=/tmp/confirm-$name
out=/verif/seeded/$name
mkdir -p "$out"; if [ "$patch" != "$out/patch.diff" ]; then cp "$patch" "$out/patch.diff"; fi; if [ "$demo" != "$out/demo" ]; then rm -rf "$out/demo"; cp -r "$demo" "$out/demo"; fi
log=$out/confirm.log; : > "$log"
git -C /repo worktree remove --force "$wt" >/dev/null 2>&1
git -C /repo worktree add -q --detach "$wt" HEAD || exit 2
mkdir -p /tmp/seed/${prop}-scratch  # some demos keep their work directory there
res() { echo "$1" | tee -a "$log"; }
( cd "$wt" && bash "$out/demo/run.sh" "$wt" ) >>"$log" 2>&1; base=$?
res "demo on unchanged tree: exit $base"
git -C "$wt" apply "$out/patch.diff" || { res "patch does not apply"; git -C /repo worktree remove --force "$wt"; exit 2; }
( cd "$wt" && go build ./... ) >>"$log" 2>&1; b=$?
res "build with change: exit $b"
( cd "$wt" && go test -count=1 ./... ) >>"$log" 2>&1; t=$?
res "test suite with change: exit $t"
git -C "$wt" checkout -q -- go.work.sum 2>/dev/null
( cd "$wt" && bash "$out/demo/run.sh" "$wt" ) >>"$log" 2>&1; mut=$?
res "demo on changed tree: exit $mut"
git -C /repo worktree remove --force "$wt"
if [ $base -eq 0 ] && [ $b -eq 0 ] && [ $t -eq 0 ] && [ $mut -ne 0 ]; then res "CONFIRMED $name property=$prop"; exit 0; else res "NOT CONFIRMED $name"; exit 1; fi
