#!/usr/bin/env python3
"""Regenerates /verif/MANIFEST.json from the table below (kept in one place so that the manifest, the
registry of checks and DESIGN.md do not drift apart)."""
import json, os, subprocess, sys
ROOT = os.path.dirname(os.path.dirname(os.path.abspath(__file__)))
sys.path.insert(0, ROOT)
from vlib import registry

PLAN_NOTE = ("Trusted: Lean kernel (+propext, Classical.choice, Quot.sound); the hand-written model KV.plan is tied to NewGraph/Build/buildStmts by "
             "differential correspondence on seeded declarations (not by translation); the model's reading of the emitted code and of Go's channel / goroutine / errgroup "
             "semantics (T1/T1F) is modelled, validated by the end-to-end extraction and runtime runs.")

CLAIMS = {
 "C01": ("proof", "Theorems C01_order, C01_norace, C01_single_writer: for every declaration the planner model accepts and every interleaving (unbounded), a provider is entered only after all producers of its inputs returned, and no state has a read and a write of the same variable enabled together. KV.plan is compared with the real planner on 20k (quick) / 200k (thorough) seeded declarations per run, and the proved structural conditions are re-evaluated on every implementation plan.", PLAN_NOTE, "Lean 4 proof (Tier 1 semantics + Tier 2 planner invariants) + differential correspondence"),
 "C02": ("proof", "Theorem C02_wiring_is_reference: the value the planned graph wires out of a supplier node is the reference evaluation (Herbrand term) of its type key, for every declaration; with C01's ordering theorem this gives run-time values. The reference evaluator written from the statement (exactly-once, unneeded never, argument selection by type through bindings/fields/multi-value groups) is evaluated on every sampled implementation plan. Async/Set/order invariance is covered by correspondence, not yet by a theorem.", PLAN_NOTE + " Open: theorem over KV.plan's own graph (existence/uniqueness of the wired value), Async/permutation invariance.", "Lean 4 proof (partial) + differential correspondence + reference evaluation on implementation plans"),
 "C03": ("proof", "Theorems C03_progress (no deadlock from any counter vector), C03_bounded (termination), C03_every_wait_has_closer, C03_close_once, C03_joined (at the injector's return every goroutine has run to its end) for every accepted declaration and every interleaving.", PLAN_NOTE, "Lean 4 proof + differential correspondence"),
 "C05": ("proof", "Theorems C05_placement / C05_distinct_threads (an input-free Async provider is preceded in its thread only by input-free synchronous providers, for every accepted declaration; uses the real pool heuristic, Kahn prefix and the matching lower bound) and C05_targets_reachable (schedule construction).", PLAN_NOTE + " Open until merged: the single exists-schedule statement over the emitted program.", "Lean 4 proof + differential correspondence"),
 "C09": ("proof", "Theorems C09_no_cycle_accepted (whenever the planner accepts, every edge goes forward in the emission order: a cycle can never be accepted) and C09_no_write_on_refusal (regenerated call order of processFile: all planning precedes os.Create; errors propagate to exit 1). The reference classifier written from the statement (cycle / duplicate incl. bindings and fields / orphan Struct) is compared with the real planner's verdict on every sampled declaration incl. planted defects.", PLAN_NOTE + " Known finding: identity injector refused.", "Lean 4 proof (partial) + differential correspondence against a reference classifier"),
 "C10": ("proof", "Theorems C10_ctx_first, C10_no_async, C10_params_are_args over KV.sigArgs; the signature the statement determines (reference written from the statement) is compared with the real Injector's parameter list and error flag on every sampled declaration.", PLAN_NOTE + " Open until merged: characterisation of argument nodes as the unsupplied types of needed providers at the level of KV.plan.", "Lean 4 proof (partial) + differential correspondence against a reference signature"),
 "C12": ("proof", "Theorems C12_fresh (over every pool and every request history the names handed out are pairwise distinct, none was in use before - reserved word, predeclared identifier, package-level name, earlier generated name - and all are in use afterwards), C12_total (the allocator always answers), C12_reserved_complete / C12_seed_reserved over the reserved lists regenerated from const.go. The model is compared with the real VarPool on 20k (quick) / 300k (thorough) adversarial histories, and freshness is judged directly on the implementation's answers. Holds after the fix: commit 58c4ba8.", "Trusted: Lean kernel (+propext, Classical.choice, Quot.sound); the model VP.getNameFix is tied to VarPool by differential correspondence; base names are ASCII; hard-coded locals of the emitter (eg, ctx, ch, zero, err) are outside the allocator and belong to C04.", "Lean 4 proof (invariant over request histories + pigeonhole totality) + differential correspondence"),
 "C15": ("proof", "Lean theorems C15_crash / C15_rerun / C15_fault hold for every previous destination state, content, crash step and torn-write length; they are stated about the step list and deferred clean-up regenerated from install.go on every run and follow from a general soundness theorem for a symbolic interpreter plus kernel evaluation of decidable checks on the regenerated list. The complete crash/fault matrix of the real CLI (every hook point, torn writes, several prior states) is compared with the model's predicted state.", "Trusted: Lean kernel (+propext, Classical.choice, Quot.sound), factgen's reading of InstallFile, the semantics KV/InstallModel.lean gives each step, POSIX rename atomicity. OS crash / power loss is outside the statement (process crash only). Tree-level lifting over Install's walk is checked dynamically, not yet proved.", "Lean 4 proof over regenerated facts + exhaustive crash/fault correspondence"),
 "C16": ("proof", "Lean theorems C16_root (for every registered agent, custom path, --user, $HOME and cwd the resolved base is the documented one), C16_cli, C16_table, C16_tree over the agent registry / kong sub-commands / README table / ResolvePath branch order regenerated from the source; the finite agent table is decided by kernel evaluation. The real CLI is run over all agents x 5 flag combinations x prior states with before/after snapshots of $HOME, cwd and an unrelated directory.", "Trusted: Lean kernel, factgen, filepath.Abs/Join, kong dispatch (validated by running every sub-command). 'Nothing else is touched' and byte-identity of the tree are established by the exhaustive snapshot matrix, not by a theorem.", "Lean 4 proof over regenerated tables + exhaustive CLI matrix"),
}

def main():
    commits = subprocess.run(["git", "-C", "/repo", "log", "--format=%h %s"], capture_output=True, text=True).stdout.splitlines()
    hooks = [c.split()[0] for c in commits if c.split(" ", 1)[1].startswith("verif:")]
    checks = []
    na = []
    for i in range(1, 17):
        pid = "C%02d" % i
        if pid in registry.CHECKS and pid in CLAIMS:
            cat, text, note, tech = CLAIMS[pid]
            checks.append({"property_id": pid, "quick_cmd": "./check %s --tier quick" % pid, "thorough_cmd": "./check %s --tier thorough" % pid,
                           "evidence_file": "evidence/%s.json" % pid, "replay_cmd_template": "./check %s --replay {path}" % pid, "engine": "lean-kv",
                           "level_claimed": {"category": cat, "text": text, "design_ref": "DESIGN.md §4 " + pid}, "level_note": note, "technique": tech})
        else:
            na.append({"property_id": pid, "reason": "check not yet wired in this commit (work in progress; DESIGN.md §10 staging) — no claim is made"})
    m = {"version": 1, "setup_cmd": "./setup.sh",
         "hooks": {"guard": "verif", "enable": "go build -tags verif ./cmd/kessoku ; go test -tags verif -c ./internal/kessoku ./internal/migrate (done by ./check from /repo's working tree)",
                   "baseline_off_cmd": "cd /repo && go build ./... && go test -vet=off -count=1 ./...", "source_commits": hooks, "add_only": True},
         "engines": [{"name": "lean-kv", "path": "lean/", "serves_properties": [c["property_id"] for c in checks],
                      "kind_free_text": "Lean 4 project (core only): executable models + theorems (KV/Props/Cxx.lean); KV/Generated/*.lean regenerated from /repo by harness/factgen on every run; line-protocol driver lean/Driver.lean"},
                     {"name": "correspondence", "path": "vlib/", "serves_properties": [c["property_id"] for c in checks],
                      "kind_free_text": "Python drivers: seeded generators, model-vs-implementation diff (in-process verif-tagged Go drivers, real CLI), structural search for failing inputs, evidence writer"}],
         "checks": checks, "not_applicable": na,
         "notes": "Single entry point ./check <id> [--tier quick|thorough]; see DESIGN.md. known_findings.json lists recorded genuine defects."}
    json.dump(m, open(os.path.join(ROOT, "MANIFEST.json"), "w"), indent=1)
    print("checks:", [c["property_id"] for c in checks], "not claimed:", [n["property_id"] for n in na])

if __name__ == "__main__":
    main()
