#!/usr/bin/env python3
"""usage: make_seed_tasks.py <round> <prop>=<direction text> ...
Creates /tmp/r<round>/<prop>/{TASK.md,out/} and a detached worktree /tmp/r<round>/<prop>/wt of /repo for each property.
The task text gives the sub-agent ONLY the property's text, the list of already-known ideas (one line each, from
seeded/*/meta.json) and the direction; nothing from /verif."""
import json, os, re, subprocess, sys
ROOT = os.path.dirname(os.path.dirname(os.path.abspath(__file__)))
TEMPLATE = open(os.path.join(ROOT, "tools", "seed_task_template.md")).read()

def main():
    rnd = sys.argv[1]
    props = {}
    for l in open(os.path.join(ROOT, "properties.jsonl")):
        d = json.loads(l); props[d["id"]] = d
    known = []
    sd = os.path.join(ROOT, "seeded")
    for n in sorted(os.listdir(sd)):
        mp = os.path.join(sd, n, "meta.json")
        if os.path.exists(mp):
            m = json.load(open(mp))
            known.append("  - %s: %s" % (m.get("property", n[:3]), re.sub(r"\s+", " ", m.get("summary", ""))[:600]))
    for arg in sys.argv[2:]:
        pid, direction = arg.split("=", 1)
        p = props[pid]
        base = "/tmp/r%s/%s" % (rnd, pid)
        os.makedirs(base + "/out/demo", exist_ok=True)
        subprocess.run(["git", "-C", "/repo", "worktree", "remove", "--force", base + "/wt"], capture_output=True)
        r = subprocess.run(["git", "-C", "/repo", "worktree", "add", "-q", "--detach", base + "/wt", "HEAD"], capture_output=True, text=True)
        if r.returncode != 0:
            print("worktree:", r.stderr); continue
        anchors = ", ".join(p["anchors"]["files"])
        txt = TEMPLATE.replace("@BASE@", base).replace("@PID@", pid).replace("@TITLE@", p["title"]).replace("@STATEMENT@", p["statement"]) \
            .replace("@QUANT@", p["quantifier"]["text"]).replace("@ANCHORS@", anchors).replace("@KNOWN@", "\n".join(known)).replace("@DIRECTION@", direction)
        open(base + "/TASK.md", "w").write(txt)
        print(base + "/TASK.md")

if __name__ == "__main__":
    main()
