#!/usr/bin/env python3
"""Runs the registered checks against every seeded change (seeded/<name>/patch.diff) in isolated scratch
copies (a git worktree of /repo and a copy of /verif under /tmp/sw<k>), never touching /repo itself.

usage: tools/sweep_seeds.py [--jobs N] [--tier quick|thorough] [--also C01,C03] [name ...]

For each seed the check of the property it breaks is run (plus the properties in --also / meta.also);
the outcome (exit code, VIOLATION lines) is written to seeded/RESULTS.json and printed as a table."""
import argparse, json, os, shutil, subprocess, sys, time
from concurrent.futures import ThreadPoolExecutor
ROOT = os.path.dirname(os.path.dirname(os.path.abspath(__file__)))
SEEDED = os.path.join(ROOT, "seeded")

def sh(cmd, **kw):
    return subprocess.run(cmd, shell=True, stdout=subprocess.PIPE, stderr=subprocess.STDOUT, text=True, **kw)

def make_slot(k):
    base = "/tmp/sw%d_%d" % (os.getpid(), k)
    sh("git -C /repo worktree remove --force %s/repo" % base)
    shutil.rmtree(base, ignore_errors=True)
    os.makedirs(base)
    r = sh("git -C /repo worktree add -q --detach %s/repo HEAD" % base)
    if r.returncode != 0:
        raise SystemExit("worktree: " + r.stdout)
    # copy /verif with its build output so that nothing has to be rebuilt from scratch
    sh("rsync -a --exclude .git --exclude replays --exclude '.cache/repo-*' --exclude '.cache/tmp' --exclude '.cache/gocache' %s/ %s/verif/" % (ROOT, base))
    return base

def drop_slot(base):
    sh("git -C /repo worktree remove --force %s/repo" % base)
    shutil.rmtree(base, ignore_errors=True)
    sh("git -C /repo worktree prune")

def run_seed(base, name, props, tier):
    repo = base + "/repo"
    patch = os.path.join(SEEDED, name, "patch.diff")
    res = {"seed": name, "checks": {}}
    r = sh("git -C %s apply %s" % (repo, patch))
    if r.returncode != 0:
        res["error"] = "patch does not apply: " + r.stdout[-300:]
        return res
    try:
        for p in props:
            t0 = time.time()
            r = sh("./check %s --tier %s" % (p, tier), cwd=base + "/verif", env=dict(os.environ, VERIF_REPO=repo, GOPROXY="off", VERIF_GOCACHE=os.path.join(ROOT, ".cache", "gocache")))
            lines = [l for l in r.stdout.splitlines() if l.startswith(("VIOLATION", "BUILD-ERROR", "KNOWN-FINDING"))]
            detail = [l.strip()[:300] for l in r.stdout.splitlines() if l.startswith("  ")][:3]
            res["checks"][p] = {"exit": r.returncode, "lines": [l[:300] for l in lines][:6], "detail": detail,
                                "no_failing_input": any("no-failing-input-found" in l for l in lines), "wall_s": round(time.time() - t0)}
    finally:
        sh("git -C %s checkout -- . && git -C %s clean -fdq" % (repo, repo))
    return res

def main():
    ap = argparse.ArgumentParser()
    ap.add_argument("--jobs", type=int, default=4)
    ap.add_argument("--tier", default="quick")
    ap.add_argument("--also", default="")
    ap.add_argument("names", nargs="*")
    a = ap.parse_args()
    names = a.names or sorted(d for d in os.listdir(SEEDED) if os.path.exists(os.path.join(SEEDED, d, "patch.diff")))
    sys.path.insert(0, ROOT)
    from vlib import registry
    work = []
    for n in names:
        meta = json.load(open(os.path.join(SEEDED, n, "meta.json")))
        props = [meta.get("property") or n.split("-")[0]] + [p for p in (meta.get("also") or []) ] + [p for p in a.also.split(",") if p]
        props = [p for i, p in enumerate(props) if p in registry.CHECKS and p not in props[:i]]
        work.append((n, props))
    slots = [make_slot(k) for k in range(min(a.jobs, len(work)))]
    results = {}
    import queue
    q = queue.Queue()
    for w in work:
        q.put(w)
    def worker(base):
        while True:
            try:
                n, props = q.get_nowait()
            except queue.Empty:
                return
            if not props:
                results[n] = {"seed": n, "checks": {}, "error": "no registered check for its property"}
            else:
                results[n] = run_seed(base, n, props, a.tier)
            r = results[n]
            print("%-40s %s" % (n, r.get("error") or " ".join("%s:exit%d%s" % (p, c["exit"], "(nfi)" if c["no_failing_input"] else "") for p, c in r["checks"].items())), flush=True)
    with ThreadPoolExecutor(len(slots)) as ex:
        list(ex.map(worker, slots))
    for s in slots:
        drop_slot(s)
    path = os.path.join(SEEDED, "RESULTS.json")
    old = {}
    if os.path.exists(path):
        old = json.load(open(path))
    head = sh("git -C /repo rev-parse --short HEAD").stdout.strip()
    for n, r in results.items():
        r["repo_head"] = head; r["tier"] = a.tier
        old[n] = r
    json.dump(old, open(path, "w"), indent=1, sort_keys=True)
    caught = sum(1 for r in results.values() if any(c["exit"] == 1 for c in r["checks"].values()))
    print("caught %d / %d" % (caught, len(results)))

if __name__ == "__main__":
    main()
