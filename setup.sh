#!/bin/bash
# MANIFEST.setup_cmd: build the framework from files on disk only (offline).
set -e
cd "$(dirname "$0")"
export GOPROXY=off
python3 - <<'PY'
import sys
sys.path.insert(0, ".")
from vlib import common as C, lean as L
d = C.ensure_repo_build()          # harness tools, CLI + verif drivers from /repo, regenerated facts
C.sync_facts(d)
ok, out = C.lake_build(["KV", "kvdriver"])
print(out[-1500:])
sys.exit(0 if ok else 1)
PY
