module verifharness

go 1.25.5

require golang.org/x/tools v0.42.0

require (
	golang.org/x/mod v0.33.0 // indirect
	golang.org/x/sync v0.19.0 // indirect
)
