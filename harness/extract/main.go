// extract turns generated *_band.go files into canonical lines describing, per injector, the signature, the
// goroutines in spawn order and per thread the sequence of [waits] call [error check] [closes], with data-flow
// identities at the level of the declaration (which provider result / argument every variable carries).
//
// usage: extract file_band.go ...     output: "<injector name> <canonical line>" per function
package main

import (
	"fmt"
	"go/ast"
	"go/parser"
	"go/token"
	"os"
	"regexp"
	"sort"
	"strings"
)

var reDecl = regexp.MustCompile(`^[dD](\d+)P(\d+)(G|Obj)?$`)
var reType = regexp.MustCompile(`D\d+T(\d+)`)
var reValue = regexp.MustCompile(`"P(\d+)\.0\(\)"`)
var reErr = regexp.MustCompile(`^err\d*$`)

// name of the context parameter of the function being analysed (the derived errgroup context is
// assigned to the parameter itself, so waits select on that name)
var curCtx = "ctx"

type call struct {
	head   string
	args   []string
	lhs    []string
	waits  map[string]string // channel -> "w" (plain receive) | "W" (select with ctx.Done)
	close  map[string]bool
	field  bool
	define bool
	check  string // "" | "go" (return err) | "main" (var zero; return zero, err) | "other"
}

func identName(e ast.Expr) string {
	if id, ok := e.(*ast.Ident); ok {
		return id.Name
	}
	return "?"
}

func exprString(e ast.Expr) string {
	switch v := e.(type) {
	case *ast.Ident:
		return v.Name
	case *ast.SelectorExpr:
		return exprString(v.X) + "." + v.Sel.Name
	case *ast.StarExpr:
		return "*" + exprString(v.X)
	case *ast.BasicLit:
		return v.Value
	case *ast.CallExpr:
		return exprString(v.Fun) + "(...)"
	}
	return "?"
}

func provHead(e ast.Expr) string {
	head := ""
	ast.Inspect(e, func(n ast.Node) bool {
		switch v := n.(type) {
		case *ast.Ident:
			if m := reDecl.FindStringSubmatch(v.Name); m != nil {
				head = "P" + m[2]
			}
		case *ast.BasicLit:
			if m := reValue.FindStringSubmatch(v.Value); m != nil && head == "" {
				head = "P" + m[1]
			}
		}
		return true
	})
	if head == "" {
		head = "P?"
	}
	return head
}

// one receive: `<-ch` => ("ch","w"); select{case <-ch: case <-ctx.Done(): return ...} => ("ch","W")
func oneWait(s ast.Stmt) (string, string, bool) {
	switch v := s.(type) {
	case *ast.ExprStmt:
		if u, ok := v.X.(*ast.UnaryExpr); ok && u.Op == token.ARROW {
			return identName(u.X), "w", true
		}
	case *ast.SelectStmt:
		ch, kind := "", ""
		for _, c := range v.Body.List {
			cc, ok := c.(*ast.CommClause)
			if !ok || cc.Comm == nil {
				return "", "", false
			}
			es, ok := cc.Comm.(*ast.ExprStmt)
			if !ok {
				return "", "", false
			}
			u, ok := es.X.(*ast.UnaryExpr)
			if !ok || u.Op != token.ARROW {
				return "", "", false
			}
			if ce, ok := u.X.(*ast.CallExpr); ok {
				if sel, ok := ce.Fun.(*ast.SelectorExpr); ok && sel.Sel.Name == "Done" {
					kind = "W"
					if identName(sel.X) != curCtx {
						kind = "W[" + identName(sel.X) + "]"
					}
					okRet := false
					for _, bs := range cc.Body {
						if rs, ok := bs.(*ast.ReturnStmt); ok && len(rs.Results) > 0 {
							if exprString(rs.Results[len(rs.Results)-1]) == curCtx+".Err(...)" {
								okRet = true
							}
						}
					}
					if !okRet || len(cc.Body) == 0 {
						kind += "?"
					}
					continue
				}
			}
			if len(cc.Body) != 0 {
				kind += "?body"
			}
			ch = identName(u.X)
		}
		if kind != "" && ch != "" && len(v.Body.List) == 2 {
			return ch, kind, true
		}
	}
	return "", "", false
}

func chansOfWait(s ast.Stmt) map[string]string {
	if ch, k, ok := oneWait(s); ok {
		return map[string]string{ch: k}
	}
	if v, ok := s.(*ast.RangeStmt); ok {
		cl, ok := v.X.(*ast.CompositeLit)
		if !ok || len(v.Body.List) != 1 {
			return nil
		}
		if ch, k, ok := oneWait(v.Body.List[0]); ok && ch == identName(v.Value) {
			out := map[string]string{}
			for _, e := range cl.Elts {
				out[identName(e)] = k
			}
			return out
		}
	}
	return nil
}

func chansOfClose(s ast.Stmt) []string {
	switch v := s.(type) {
	case *ast.ExprStmt:
		if c, ok := v.X.(*ast.CallExpr); ok && identName(c.Fun) == "close" && len(c.Args) == 1 {
			return []string{identName(c.Args[0])}
		}
	case *ast.RangeStmt:
		cl, ok := v.X.(*ast.CompositeLit)
		if !ok || len(v.Body.List) != 1 {
			return nil
		}
		inner := chansOfClose(v.Body.List[0])
		if len(inner) == 1 && inner[0] == identName(v.Value) {
			var out []string
			for _, e := range cl.Elts {
				out = append(out, identName(e))
			}
			return out
		}
	}
	return nil
}

type thread struct {
	calls  []*call
	egwait string // "" | "check" | "ignore"
	ret    string
	odd    []string
}

func errCheckKind(is *ast.IfStmt) string {
	// if errN != nil { return err } | { var zero T; return zero, errN } | { return nil, err }
	if len(is.Body.List) == 1 {
		if rs, ok := is.Body.List[0].(*ast.ReturnStmt); ok && len(rs.Results) == 1 {
			return "go"
		}
		if rs, ok := is.Body.List[0].(*ast.ReturnStmt); ok && len(rs.Results) == 2 {
			return "main:" + exprString(rs.Results[0])
		}
	}
	if len(is.Body.List) == 2 {
		if _, ok := is.Body.List[0].(*ast.DeclStmt); ok {
			if rs, ok := is.Body.List[1].(*ast.ReturnStmt); ok && len(rs.Results) == 2 && identName(rs.Results[0]) == "zero" {
				return "main"
			}
		}
	}
	return "other"
}

func parseThread(stmts []ast.Stmt) *thread {
	th := &thread{}
	pending := map[string]string{}
	for _, s := range stmts {
		if w := chansOfWait(s); w != nil {
			// the first wait on a channel decides: once it has been passed the channel is closed and a
			// later receive from it in the same block cannot block any more
			for c, k := range w {
				if _, seen := pending[c]; !seen {
					pending[c] = k
				}
			}
			continue
		}
		if cs := chansOfClose(s); cs != nil {
			if len(th.calls) == 0 {
				th.odd = append(th.odd, "close-before-any-call")
				continue
			}
			last := th.calls[len(th.calls)-1]
			for _, c := range cs {
				last.close[c] = true
			}
			continue
		}
		switch v := s.(type) {
		case *ast.DeclStmt: // var errN error
			continue
		case *ast.AssignStmt:
			if len(v.Rhs) == 1 {
				if ce, ok := v.Rhs[0].(*ast.CallExpr); ok {
					if inner, ok := ce.Fun.(*ast.CallExpr); ok {
						if sel, ok := inner.Fun.(*ast.SelectorExpr); ok && sel.Sel.Name == "Fn" {
							c := &call{head: provHead(sel.X), waits: pending, close: map[string]bool{}, define: v.Tok == token.DEFINE}
							pending = map[string]string{}
							for _, a := range ce.Args {
								c.args = append(c.args, identName(a))
							}
							for _, l := range v.Lhs {
								c.lhs = append(c.lhs, identName(l))
							}
							th.calls = append(th.calls, c)
							continue
						}
					}
					if sel, ok := ce.Fun.(*ast.SelectorExpr); ok && sel.Sel.Name == "Wait" {
						th.egwait = "ignore"
						continue
					}
				}
				if sel, ok := v.Rhs[0].(*ast.SelectorExpr); ok && len(v.Lhs) == 1 {
					c := &call{head: "F." + sel.Sel.Name, field: true, waits: pending, close: map[string]bool{}, define: v.Tok == token.DEFINE,
						args: []string{identName(sel.X)}, lhs: []string{identName(v.Lhs[0])}}
					pending = map[string]string{}
					th.calls = append(th.calls, c)
					continue
				}
			}
			th.odd = append(th.odd, "assign")
		case *ast.IfStmt:
			if v.Init != nil { // if err := eg.Wait(); err != nil { return nil, err }
				th.egwait = "check"
				continue
			}
			if be, ok := v.Cond.(*ast.BinaryExpr); ok && be.Op == token.NEQ && reErr.MatchString(identName(be.X)) && len(th.calls) > 0 {
				th.calls[len(th.calls)-1].check = errCheckKind(v)
				continue
			}
			th.odd = append(th.odd, "if")
		case *ast.ReturnStmt:
			if len(v.Results) > 0 {
				th.ret = identName(v.Results[0])
			}
		default:
			th.odd = append(th.odd, fmt.Sprintf("%T", s))
		}
	}
	return th
}

func main() {
	fset := token.NewFileSet()
	for _, fn := range os.Args[1:] {
		f, err := parser.ParseFile(fset, fn, nil, 0)
		if err != nil {
			fmt.Println("PARSEERR", fn, err)
			continue
		}
		type out struct{ name, line string }
		var outs []out
		for _, d := range f.Decls {
			fd, ok := d.(*ast.FuncDecl)
			if !ok || fd.Recv != nil {
				continue
			}
			argOf := map[string]string{}
			var argTys []string
			ctxName := ""
			if fd.Type.Params != nil {
				for _, p := range fd.Type.Params.List {
					ts := exprString(p.Type)
					id := "?"
					if strings.HasSuffix(ts, ".Context") {
						id = "0"
					} else if m := reType.FindStringSubmatch(ts); m != nil {
						id = m[1]
					}
					for _, n := range p.Names {
						argOf[n.Name] = "A" + id
						argTys = append(argTys, id)
						if id == "0" && ctxName == "" {
							ctxName = n.Name
						}
					}
				}
			}
			curCtx = ctxName
			if curCtx == "" {
				curCtx = "ctx"
			}
			hasErr := fd.Type.Results != nil && len(fd.Type.Results.List) == 2
			chanOf := map[string]string{}
			var mainStmts []ast.Stmt
			var gos [][]ast.Stmt
			egCtx := ""
			var odd []string
			for _, s := range fd.Body.List {
				if ds, ok := s.(*ast.DeclStmt); ok {
					gd := ds.Decl.(*ast.GenDecl)
					prev := ""
					isBlock := false
					for _, sp := range gd.Specs {
						vs := sp.(*ast.ValueSpec)
						if len(vs.Values) == 1 {
							chanOf[vs.Names[0].Name] = prev
							isBlock = true
						} else {
							prev = vs.Names[0].Name
							if vs.Type != nil && exprString(vs.Type) != "error" {
								isBlock = true
							}
						}
					}
					if isBlock {
						continue
					}
				}
				if es, ok := s.(*ast.ExprStmt); ok {
					if ce, ok := es.X.(*ast.CallExpr); ok {
						if sel, ok := ce.Fun.(*ast.SelectorExpr); ok && sel.Sel.Name == "Go" && identName(sel.X) == "eg" {
							if len(mainStmts) > 0 {
								// how many provider calls of the injector's own flow precede this spawn
								ncalls := 0
								for _, ms := range mainStmts {
									if as, ok := ms.(*ast.AssignStmt); ok && len(as.Rhs) == 1 {
										if _, ok := as.Rhs[0].(*ast.CallExpr); ok {
											ncalls++
										}
									}
								}
								odd = append(odd, fmt.Sprintf("goroutine-%d-spawned-after-%d-main-calls", len(gos)+1, ncalls))
							}
							fl := ce.Args[0].(*ast.FuncLit)
							gos = append(gos, fl.Body.List)
							continue
						}
					}
				}
				if as, ok := s.(*ast.AssignStmt); ok && len(as.Lhs) == 2 && identName(as.Lhs[0]) == "eg" {
					if ce, ok := as.Rhs[0].(*ast.CallExpr); ok && len(ce.Args) == 1 {
						egCtx = identName(ce.Args[0])
					}
					if identName(as.Lhs[1]) != ctxName {
						odd = append(odd, "errgroup-context-assigned-to-"+identName(as.Lhs[1])+"-not-the-parameter")
					}
					continue
				}
				mainStmts = append(mainStmts, s)
			}
			mainT := parseThread(mainStmts)
			var goT []*thread
			for _, g := range gos {
				goT = append(goT, parseThread(g))
			}
			if len(gos) > 0 && egCtx != ctxName {
				odd = append(odd, "errgroup-derived-from-"+egCtx+"-not-the-context-parameter")
			}
			valOf := map[string]string{}
			for n, a := range argOf {
				valOf[n] = a
			}
			all := append([]*thread{mainT}, goT...)
			for _, th := range all {
				odd = append(odd, th.odd...)
				for _, c := range th.calls {
					if c.field {
						continue
					}
					gi := 0
					for _, l := range c.lhs {
						if reErr.MatchString(l) {
							continue
						}
						if l != "_" {
							valOf[l] = fmt.Sprintf("%s.%d", c.head, gi)
						}
						gi++
					}
				}
			}
			// field reads may chain (a field of a struct read from a field): resolve until stable
			for iter := 0; iter < 8; iter++ {
				for _, th := range all {
					for _, c := range th.calls {
						if c.field {
							valOf[c.lhs[0]] = c.head
						}
					}
				}
			}
			thr := func(th *thread) string {
				var parts []string
				for _, c := range th.calls {
					var as, rs []string
					for _, a := range c.args {
						w := ""
						for ch, k := range c.waits {
							if chanOf[ch] == a {
								w = k
							}
						}
						v, ok := valOf[a]
						if !ok {
							v = "?" + a
						}
						if w != "" {
							w = "^" + w
						}
						as = append(as, v+w)
					}
					extraWait := 0
					for ch := range c.waits {
						found := false
						for _, a := range c.args {
							if chanOf[ch] == a {
								found = true
							}
						}
						if !found {
							extraWait++
						}
					}
					for _, l := range c.lhs {
						if l != "_" && reErr.MatchString(l) {
							continue
						}
						r := "r"
						if l == "_" {
							r = "_"
						}
						for ch := range c.close {
							if chanOf[ch] == l {
								r += "c"
							}
						}
						rs = append(rs, r)
					}
					tok := fmt.Sprintf("%s(%s)->(%s)", c.head, strings.Join(as, ","), strings.Join(rs, ","))
					switch c.check {
					case "":
					case "go", "main":
						tok += "!"
					default:
						tok += "!" + c.check
					}
					if extraWait > 0 {
						tok += fmt.Sprintf("+%dstraywaits", extraWait)
					}
					parts = append(parts, tok)
				}
				return strings.Join(parts, " ")
			}
			var gs []string
			for _, g := range goT {
				gs = append(gs, thr(g))
			}
			rv, ok := valOf[mainT.ret]
			if !ok {
				rv = "?" + mainT.ret
			}
			eg := mainT.egwait
			if eg == "" {
				eg = "none"
			}
			sort.Strings(odd)
			line := fmt.Sprintf("OK err=%v args=[%s] main=[%s] go=[%s] ret=%s egwait=%s", hasErr,
				strings.Join(argTys, ", "), thr(mainT), strings.Join(gs, " | "), rv, eg)
			if len(odd) > 0 {
				line += " odd=" + strings.Join(odd, ",")
			}
			outs = append(outs, out{fd.Name.Name, line})
		}
		for _, o := range outs {
			fmt.Printf("%s %s\n", o.name, o.line)
		}
	}
}
