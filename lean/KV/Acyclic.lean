import KV.Args
import KV.Final
/-! Prototype (scratch): C09, the part that does not need the DFS — whenever the plan succeeds, every discovered
    node is in the Kahn order, hence the discovered graph is acyclic (so a reachable cycle is always refused). -/
namespace KV

/-- every node but the root has an edge to an *earlier-discovered* node -/
def OutBack (st : BfsSt) : Prop :=
  ∀ n, 0 < n → n < st.nodes.length → ∃ e, e ∈ st.edges.getD n [] ∧ e.dst < n

theorem reqStep_outBack {provs : List PSpec} {sup : SupMap} (hsup : SupOK provs sup) {st : BfsSt} {n1 i : Nat} (t : Nat)
    (h : BInv provs st (some (n1, i))) (hn1 : n1 ∈ st.visited) (ho : OutBack st) : OutBack (reqStep sup n1 i t st) := by
  obtain ⟨h1, hext, hlt, _⟩ := pickNode_inv hsup t h
  have hn1l : n1 < st.nodes.length := h.vLt n1 hn1
  have hnodesLen : (pickNode sup t st).1.nodes.length = st.nodes.length ∨
      ((pickNode sup t st).1.nodes.length = st.nodes.length + 1 ∧ (pickNode sup t st).2.1 = st.nodes.length) := by
    unfold pickNode
    split
    · split
      · exact Or.inl rfl
      · exact Or.inr ⟨by simp [addNode], rfl⟩
    · split
      · exact Or.inl rfl
      · exact Or.inr ⟨by simp [addNode], rfl⟩
  have hedgesOld : ∀ n, n < st.nodes.length → (pickNode sup t st).1.edges.getD n [] = st.edges.getD n [] := by
    intro n hn
    have hnE : n < st.edges.length := by rw [h.lenE]; exact hn
    unfold pickNode
    split
    · split
      · rfl
      · exact getD_append_left _ _ _ _ hnE
    · split
      · rfl
      · exact getD_append_left _ _ _ _ hnE
  have hn2E : (pickNode sup t st).2.1 < (pickNode sup t st).1.edges.length := by rw [h1.lenE]; exact hlt
  intro n hn0 hnl
  change n < (pickNode sup t st).1.nodes.length at hnl
  show ∃ e, e ∈ (listModify (pickNode sup t st).1.edges (pickNode sup t st).2.1
    (· ++ [{ dst := n1, src := (pickNode sup t st).2.2, slot := i }])).getD n [] ∧ e.dst < n
  by_cases hnold : n < st.nodes.length
  · obtain ⟨e, he, hlt'⟩ := ho n hn0 hnold
    refine ⟨e, ?_, hlt'⟩
    by_cases hn2 : n = (pickNode sup t st).2.1
    · rw [hn2, getD_listModify_self _ _ _ _ hn2E]
      rw [hn2] at hnold he
      rw [hedgesOld _ hnold]
      exact List.mem_append_left _ he
    · rw [getD_listModify_other _ _ _ _ _ hn2, hedgesOld n hnold]; exact he
  · -- the freshly created node: its edge goes to n1, which existed before
    rcases hnodesLen with hl | ⟨hl, hidx⟩
    · rw [hl] at hnl; exact absurd hnl hnold
    · have hn : n = st.nodes.length := by rw [hl] at hnl; omega
      refine ⟨{ dst := n1, src := (pickNode sup t st).2.2, slot := i }, ?_, by show n1 < n; omega⟩
      rw [hn, ← hidx, getD_listModify_self _ _ _ _ hn2E]
      simp

theorem bfsRequires_outBack {provs : List PSpec} {sup : SupMap} (hsup : SupOK provs sup) {n1 : Nat} (ts : List Nat)
    {i : Nat} {st : BfsSt} (h : BInv provs st (some (n1, i))) (hn1 : n1 ∈ st.visited) (ho : OutBack st) :
    OutBack (bfsRequires provs sup n1 i ts st) := by
  induction ts generalizing i st with
  | nil => simpa [bfsRequires] using ho
  | cons t ts ih =>
    rw [bfsRequires_cons]
    obtain ⟨h1, hext1⟩ := reqStep_inv hsup t h hn1
    exact ih h1 (by rw [hext1.visited]; exact hn1) (reqStep_outBack hsup t h hn1 ho)

theorem bfsLoop_outBack {provs : List PSpec} {sup : SupMap} (hsup : SupOK provs sup) (fuel : Nat) {st : BfsSt}
    (h : BInv provs st none) (ho : OutBack st) : OutBack (bfsLoop provs sup fuel st) := by
  induction fuel generalizing st with
  | zero => simpa [bfsLoop] using ho
  | succ k ih =>
    simp only [bfsLoop]
    split
    · exact ho
    · rename_i n1 q hq
      have hn1 : n1 < st.nodes.length := h.qLt n1 (by rw [hq]; exact List.mem_cons_self ..)
      split
      · rename_i hv
        have hv' : n1 ∈ st.visited := by simpa using hv
        have ho' : OutBack { st with queue := q } := ho
        refine ih ?_ ho'
        exact { lenE := h.lenE, lenR := h.lenR, vLt := h.vLt, edgeOK := h.edgeOK, revOK := h.revOK, uniq := h.uniq,
                revLen := h.revLen, provNodeOK := h.provNodeOK, argNodeOK := h.argNodeOK,
                qLt := fun m hm => h.qLt m (by rw [hq]; exact List.mem_cons_of_mem _ hm),
                seen := by
                  intro m hm
                  rcases h.seen m hm with h1 | h1
                  · rw [hq] at h1
                    simp only [List.mem_cons] at h1
                    rcases h1 with rfl | h1
                    · exact Or.inr hv'
                    · exact Or.inl h1
                  · exact Or.inr h1 }
      · rename_i hv
        have hnv : n1 ∉ st.visited := by simpa using hv
        have hvis := visit_inv h hq hnv
        have hovis : OutBack { st with queue := q, visited := st.visited ++ [n1] } := ho
        have hget : st.nodes[n1]? = some (st.nodes.getD n1 default) := by
          rw [List.getElem?_eq_getElem hn1, getD_eq_getElem' _ _ _ hn1]
        split
        · rename_i hnone
          rw [show ({ st with queue := q, visited := st.visited ++ [n1] } : BfsSt).nodes = st.nodes from rfl] at hnone
          rw [hget] at hnone; cases hnone
        · rename_i nd hsome
          rw [show ({ st with queue := q, visited := st.visited ++ [n1] } : BfsSt).nodes = st.nodes from rfl] at hsome
          rw [hget] at hsome
          have hnd : nd = st.nodes.getD n1 default := (Option.some.inj hsome).symm
          split
          · rename_i harg
            apply ih _ hovis
            apply hvis.closeCur
            show 0 = slotsOfNode provs (st.nodes.getD n1 default)
            rw [← hnd]; simp [slotsOfNode, harg]
          · rename_i harg
            have hn1v : n1 ∈ ({ st with queue := q, visited := st.visited ++ [n1] } : BfsSt).visited := by simp
            obtain ⟨h2, hext⟩ := bfsRequires_inv hsup (provs.getD nd.prov default).requires hvis hn1v
            apply ih _ (bfsRequires_outBack hsup _ hvis hn1v hovis)
            apply h2.closeCur
            rw [hext.nodesKeep n1 hn1]
            show 0 + _ = slotsOfNode provs (st.nodes.getD n1 default)
            rw [← hnd]; simp [slotsOfNode, harg]

/-- if the root is in a sound Kahn order then so is every node that can reach it through "earlier" edges -/
theorem all_in_order {g : Graph} (hg : GWF2 g) (hs : SoundL g (topoOrder g))
    (hout : ∀ n, 0 < n → n < g.nodes.length → ∃ e, e ∈ g.edges.getD n [] ∧ e.dst < n)
    (hroot : 0 ∈ topoOrder g) : ∀ n, n < g.nodes.length → n ∈ topoOrder g := by
  intro n
  induction n using Nat.strongRecOn with
  | _ n ih =>
    intro hn
    by_cases hn0 : n = 0
    · subst hn0; exact hroot
    · obtain ⟨e, he, hlt⟩ := hout n (by omega) hn
      have hdl := hg.dstLt n e he
      have hmo := ih e.dst hlt hdl
      -- e.dst is in the order, so the producer of its slot e.slot — which is n — comes before it
      obtain ⟨pre, post, hsplit⟩ := List.append_of_mem hmo
      obtain ⟨n', hn'pre, e', he', hed', hes'⟩ := hs pre e.dst post hsplit e.slot (hg.slotLt n e he)
      obtain ⟨hnn, _⟩ := hg.edgeUnique n n' e e' he he' hed'.symm hes'.symm
      rw [hsplit, hnn]; exact List.mem_append_left _ hn'pre

/-- **C09, refusal of cycles without the DFS (prototype)**: if every node is in a sound Kahn order, no edge
    goes backwards — in particular there is no cycle among the discovered nodes. -/
theorem edges_forward {g : Graph} (hg : GWF2 g) (hs : SoundL g (topoOrder g)) (hnd : (topoOrder g).Nodup)
    {n m : Nat} {e : Edge} (he : e ∈ g.edges.getD n []) (hm : e.dst = m) (hmo : m ∈ topoOrder g) :
    n ∈ topoOrder g ∧ (topoOrder g).idxOf n < (topoOrder g).idxOf m := by
  obtain ⟨pre, post, hsplit⟩ := List.append_of_mem hmo
  have hslot : e.slot < (g.rev.getD m []).length := by rw [← hm]; exact hg.slotLt n e he
  obtain ⟨n', hn'pre, e', he', hed', hes'⟩ := hs pre m post hsplit e.slot hslot
  obtain ⟨hnn, _⟩ := hg.edgeUnique n n' e e' he he' (by rw [hm, hed']) hes'.symm
  subst hnn
  exact ⟨by rw [hsplit]; exact List.mem_append_left _ hn'pre, idxOf_lt_of_mem_pre hnd hsplit hn'pre⟩

end KV
