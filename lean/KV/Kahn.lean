import KV.Plan
/-! Prototype (scratch): soundness of the Kahn order computed by `topoOrder`
    (every slot of an output node was fed by an edge of an earlier output node). -/
namespace KV

def hasEdge (g : Graph) (n m i : Nat) : Prop := ∃ e ∈ g.edges.getD n [], e.dst = m ∧ e.slot = i

/-- graph well-formedness needed by Kahn -/
structure GWF (g : Graph) : Prop where
  slotLt : ∀ n e, e ∈ g.edges.getD n [] → e.slot < (g.rev.getD e.dst []).length
  dstLt : ∀ n e, e ∈ g.edges.getD n [] → e.dst < g.nodes.length
  revLen : g.rev.length = g.nodes.length
  slotsEq : ∀ m, m < g.nodes.length → nodeSlots g m = (g.rev.getD m []).length

def trueCount (l : List Bool) : Nat := (l.filter id).length

theorem trueCount_set_false_true {l : List Bool} {i : Nat} (hi : i < l.length) (hf : l.getD i false = false) :
    trueCount (l.set i true) = trueCount l + 1 := by
  induction l generalizing i with
  | nil => simp at hi
  | cons b bs ih =>
    cases i with
    | zero =>
      simp [List.getD_eq_getElem?_getD] at hf
      subst hf
      simp [trueCount]
    | succ k =>
      simp only [List.length_cons] at hi
      have hk : k < bs.length := by omega
      have hf' : bs.getD k false = false := by simpa [List.getD_eq_getElem?_getD] using hf
      have := ih hk hf'
      cases b <;> simp [trueCount] at * <;> omega

theorem trueCount_le (l : List Bool) : trueCount l ≤ l.length := by
  simp [trueCount]; exact List.length_filter_le _ _

theorem all_true_of_trueCount {l : List Bool} (h : trueCount l = l.length) (i : Nat) (hi : i < l.length) :
    l.getD i false = true := by
  induction l generalizing i with
  | nil => simp at hi
  | cons b bs ih =>
    have hle := trueCount_le bs
    cases b with
    | false => simp [trueCount] at h hle; omega
    | true =>
      cases i with
      | zero => simp [List.getD_eq_getElem?_getD]
      | succ k =>
        have : trueCount bs = bs.length := by simp [trueCount] at h ⊢; omega
        simpa [List.getD_eq_getElem?_getD] using ih this k (by simpa using hi)

/-- the loop invariant -/
structure TInv (g : Graph) (st : TopoSt) : Prop where
  lenC : st.counts.length = g.nodes.length
  lenP : st.provided.length = g.nodes.length
  flagsLen : ∀ m, m < g.nodes.length → (st.provided.getD m []).length = (g.rev.getD m []).length
  flagSrc : ∀ m i, (st.provided.getD m []).getD i false = true → ∃ n ∈ st.visited, hasEdge g n m i
  count : ∀ m, m < g.nodes.length →
    st.counts.getD m 0 + trueCount (st.provided.getD m []) = (g.rev.getD m []).length
  queueZero : ∀ m ∈ st.queue, st.counts.getD m 0 = 0 ∧ m < g.nodes.length

/-- processing the edges of a visited node `n` preserves the invariant -/
theorem topoEdges_inv {g : Graph} (hg : GWF g) {n : Nat} (es : List Edge)
    (hes : ∀ e ∈ es, e ∈ g.edges.getD n []) {st : TopoSt} (hn : n ∈ st.visited) (h : TInv g st) :
    TInv g (topoEdges es st) ∧ (topoEdges es st).visited = st.visited ∧ (topoEdges es st).out = st.out := by
  induction es generalizing st with
  | nil => exact ⟨h, rfl, rfl⟩
  | cons e es ih =>
    have he : e ∈ g.edges.getD n [] := hes e (List.mem_cons_self ..)
    have hes' : ∀ e' ∈ es, e' ∈ g.edges.getD n [] := fun e' h' => hes e' (List.mem_cons_of_mem _ h')
    have hdst := hg.dstLt n e he
    have hslot := hg.slotLt n e he
    simp only [topoEdges]
    split
    · exact ih hes' hn h
    · rename_i hcond
      simp only [Bool.or_eq_true, decide_eq_true_eq, not_or, Bool.not_eq_true] at hcond
      obtain ⟨_, hflag⟩ := hcond
      -- new state after updating counts/provided (and maybe queue)
      have hfl := h.flagsLen e.dst hdst
      have hcnt := h.count e.dst hdst
      have hslot' : e.slot < (st.provided.getD e.dst []).length := by rw [hfl]; exact hslot
      have htc := trueCount_set_false_true hslot' hflag
      have htle := trueCount_le ((st.provided.getD e.dst []).set e.slot true)
      have hlen_set : ((st.provided.getD e.dst []).set e.slot true).length = (g.rev.getD e.dst []).length := by
        rw [List.length_set]; exact hfl
      have hcpos : 0 < st.counts.getD e.dst 0 := by
        rw [htc, List.length_set] at htle; omega
      -- build invariant for the intermediate state
      let st1 : TopoSt := { st with counts := st.counts.set e.dst (st.counts.getD e.dst 0 - 1),
                                    provided := st.provided.set e.dst ((st.provided.getD e.dst []).set e.slot true) }
      have hdC : e.dst < st.counts.length := by rw [h.lenC]; exact hdst
      have hdP : e.dst < st.provided.length := by rw [h.lenP]; exact hdst
      have hprov_self : st1.provided.getD e.dst [] = (st.provided.getD e.dst []).set e.slot true := by
        simp [st1, List.getD_eq_getElem?_getD, hdP]
      have hprov_other : ∀ m, m ≠ e.dst → st1.provided.getD m [] = st.provided.getD m [] := by
        intro m hm; simp [st1, List.getD_eq_getElem?_getD, List.getElem?_set, Ne.symm hm]
      have hcnt_self : st1.counts.getD e.dst 0 = st.counts.getD e.dst 0 - 1 := by
        simp [st1, List.getD_eq_getElem?_getD, hdC]
      have hcnt_other : ∀ m, m ≠ e.dst → st1.counts.getD m 0 = st.counts.getD m 0 := by
        intro m hm; simp [st1, List.getD_eq_getElem?_getD, List.getElem?_set, Ne.symm hm]
      have h1 : TInv g st1 := {
        lenC := by simp [st1, h.lenC]
        lenP := by simp [st1, h.lenP]
        flagsLen := by
          intro m hm
          by_cases hme : m = e.dst
          · subst hme; rw [hprov_self]; exact hlen_set
          · rw [hprov_other m hme]; exact h.flagsLen m hm
        flagSrc := by
          intro m i hf
          by_cases hme : m = e.dst
          · subst hme
            rw [hprov_self] at hf
            by_cases hi : i = e.slot
            · subst hi; exact ⟨n, hn, e, he, rfl, rfl⟩
            · have : ((st.provided.getD e.dst []).set e.slot true).getD i false = (st.provided.getD e.dst []).getD i false := by
                simp [List.getD_eq_getElem?_getD, List.getElem?_set, Ne.symm hi]
              rw [this] at hf
              exact h.flagSrc _ i hf
          · rw [hprov_other m hme] at hf
            exact h.flagSrc m i hf
        count := by
          intro m hm
          by_cases hme : m = e.dst
          · subst hme; rw [hprov_self, hcnt_self, htc]; omega
          · rw [hprov_other m hme, hcnt_other m hme]; exact h.count m hm
        queueZero := by
          intro m hm
          have := h.queueZero m hm
          by_cases hme : m = e.dst
          · subst hme; rw [hcnt_self]; exact ⟨by omega, this.2⟩
          · rw [hcnt_other m hme]; exact this
      }
      -- now the optional push
      by_cases hz : (st.counts.getD e.dst 0 - 1 == 0) = true
      · simp only [hz, ↓reduceIte]
        let st2 : TopoSt := { st1 with queue := st1.queue ++ [e.dst] }
        have h2 : TInv g st2 := {
          lenC := h1.lenC, lenP := h1.lenP, flagsLen := h1.flagsLen, flagSrc := h1.flagSrc, count := h1.count
          queueZero := by
            intro m hm
            simp only [st2, List.mem_append, List.mem_singleton] at hm
            rcases hm with hm | rfl
            · exact h1.queueZero m hm
            · refine ⟨?_, hdst⟩
              show st1.counts.getD e.dst 0 = 0
              rw [hcnt_self]; simpa using hz
        }
        have := ih hes' (st := st2) hn h2
        exact this
      · simp only [hz, Bool.false_eq_true, ↓reduceIte]
        exact ih hes' (st := st1) hn h1

/-- every output node has all its slots fed by edges of strictly earlier output nodes -/
def SoundL (g : Graph) (l : List Nat) : Prop :=
  ∀ pre m post, l = pre ++ m :: post → ∀ i, i < (g.rev.getD m []).length → ∃ n ∈ pre, hasEdge g n m i

theorem soundL_nil (g : Graph) : SoundL g [] := by
  intro pre m post h; simp at h

theorem soundL_snoc {g : Graph} {l : List Nat} {m : Nat} (hl : SoundL g l)
    (hm : ∀ i, i < (g.rev.getD m []).length → ∃ n ∈ l, hasEdge g n m i) : SoundL g (l ++ [m]) := by
  intro pre x post h i hi
  -- either x is inside l, or x = m and pre = l
  rcases List.append_eq_append_iff.mp h with ⟨as, h1, h2⟩ | ⟨bs, h1, h2⟩
  · -- pre = l ++ as,  [m] = as ++ x :: post
    cases as with
    | nil =>
      simp at h2; obtain ⟨rfl, rfl⟩ := h2
      simp at h1; subst h1
      exact hm i hi
    | cons a as' =>
      simp at h2
  · -- l = pre ++ bs, x :: post = bs ++ [m]
    cases bs with
    | nil =>
      simp at h2; obtain ⟨rfl, rfl⟩ := h2
      simp at h1; subst h1
      exact hm i hi
    | cons b bs' =>
      simp at h2
      obtain ⟨hxb, hpost⟩ := h2
      subst hxb
      exact hl pre _ bs' h1 i hi

structure LInv (g : Graph) (st : TopoSt) : Prop where
  t : TInv g st
  outEq : st.out = st.visited
  sound : SoundL g st.out
  nodup : st.out.Nodup
  lt : ∀ m ∈ st.out, m < g.nodes.length

theorem topoLoop_inv {g : Graph} (hg : GWF g) (fuel : Nat) {st : TopoSt} (h : LInv g st) :
    LInv g (topoLoop g fuel st) := by
  induction fuel generalizing st with
  | zero => simpa [topoLoop] using h
  | succ k ih =>
    simp only [topoLoop]
    split
    · exact h
    · rename_i n q hq
      have hnq : n ∈ st.queue := by rw [hq]; exact List.mem_cons_self ..
      obtain ⟨hzero, hnlt⟩ := h.t.queueZero n hnq
      have hqsub : ∀ m ∈ q, m ∈ st.queue := fun m hm => by rw [hq]; exact List.mem_cons_of_mem _ hm
      split
      · -- already visited: just drop it
        apply ih
        exact { t := { h.t with queueZero := fun m hm => h.t.queueZero m (hqsub m hm) }
                outEq := h.outEq, sound := h.sound, nodup := h.nodup, lt := h.lt }
      · rename_i hnv
        have hnv' : n ∉ st.visited := by simpa using hnv
        -- all slots of n are fed by visited nodes
        have hfed : ∀ i, i < (g.rev.getD n []).length → ∃ n' ∈ st.visited, hasEdge g n' n i := by
          intro i hi
          have hc := h.t.count n hnlt
          have hfl := h.t.flagsLen n hnlt
          rw [hzero] at hc
          have hall := all_true_of_trueCount (l := st.provided.getD n []) (by omega) i (by omega)
          exact h.t.flagSrc n i hall
        let st0 : TopoSt := { st with queue := q, visited := st.visited ++ [n] }
        have ht0 : TInv g st0 := {
          lenC := h.t.lenC, lenP := h.t.lenP, flagsLen := h.t.flagsLen, count := h.t.count
          flagSrc := fun m i hf => by
            obtain ⟨n', hn', he⟩ := h.t.flagSrc m i hf
            exact ⟨n', List.mem_append_left _ hn', he⟩
          queueZero := fun m hm => h.t.queueZero m (hqsub m hm) }
        have hn0 : n ∈ st0.visited := by simp [st0]
        obtain ⟨ht1, hv1, ho1⟩ := topoEdges_inv hg (g.edges.getD n []) (fun e he => he) hn0 ht0
        apply ih
        refine { t := ?_, outEq := ?_, sound := ?_, nodup := ?_, lt := ?_ }
        · exact { lenC := ht1.lenC, lenP := ht1.lenP, flagsLen := ht1.flagsLen, count := ht1.count,
                  flagSrc := ht1.flagSrc, queueZero := ht1.queueZero }
        · show (topoEdges _ st0).out ++ [n] = (topoEdges _ st0).visited
          rw [ho1, hv1]; simp [st0, h.outEq]
        · show SoundL g ((topoEdges _ st0).out ++ [n])
          rw [ho1]
          apply soundL_snoc h.sound
          intro i hi
          obtain ⟨n', hn', he⟩ := hfed i hi
          exact ⟨n', by rw [show st0.out = st.out from rfl, h.outEq]; exact hn', he⟩
        · show ((topoEdges _ st0).out ++ [n]).Nodup
          rw [ho1]
          rw [List.nodup_append]
          refine ⟨h.nodup, by simp, ?_⟩
          intro a ha b hb
          simp at hb; subst hb
          intro hab; subst hab
          exact hnv' (h.outEq ▸ ha)
        · show ∀ m ∈ (topoEdges _ st0).out ++ [n], m < g.nodes.length
          rw [ho1]
          intro m hm
          simp only [List.mem_append, List.mem_singleton] at hm
          rcases hm with hm | rfl
          · exact h.lt m hm
          · exact hnlt

theorem trueCount_replicate_false (k : Nat) : trueCount (List.replicate k false) = 0 := by
  induction k with
  | zero => rfl
  | succ k ih => simpa [trueCount, List.replicate_succ] using ih

/-- **Kahn soundness**: the order is duplicate-free, in range, and every slot of an output node
    is fed by an edge of a strictly earlier output node. -/
theorem topoOrder_sound {g : Graph} (hg : GWF g) :
    SoundL g (topoOrder g) ∧ (topoOrder g).Nodup ∧ ∀ m ∈ topoOrder g, m < g.nodes.length := by
  have hinit : LInv g
      { queue := (List.range g.nodes.length).filter (fun i => (g.rev.getD i []).length == 0),
        counts := (List.range g.nodes.length).map (fun i => (g.rev.getD i []).length),
        provided := (List.range g.nodes.length).map (fun i => List.replicate (nodeSlots g i) false),
        visited := [], out := [] } := {
    t := {
      lenC := by simp
      lenP := by simp
      flagsLen := by
        intro m hm
        simp [List.getD_eq_getElem?_getD, hm, hg.slotsEq m hm]
      flagSrc := by
        intro m i hf
        by_cases hm : m < g.nodes.length
        · simp [List.getD_eq_getElem?_getD, hm, List.getElem?_replicate] at hf
          split at hf <;> simp at hf
        · simp [List.getD_eq_getElem?_getD, hm] at hf
      count := by
        intro m hm
        simp [List.getD_eq_getElem?_getD, hm, trueCount_replicate_false]
      queueZero := by
        intro m hm
        simp only [List.mem_filter, List.mem_range, beq_iff_eq] at hm
        refine ⟨?_, hm.1⟩
        simp only [List.getD_eq_getElem?_getD, List.getElem?_map, List.getElem?_range hm.1, Option.map_some,
          Option.getD_some]
        simpa [List.getD_eq_getElem?_getD] using hm.2
    }
    outEq := rfl
    sound := soundL_nil g
    nodup := List.nodup_nil
    lt := by simp
  }
  have := topoLoop_inv hg (g.nodes.length + (g.edges.foldl (fun a l => a + l.length) 0) + 4) hinit
  exact ⟨this.sound, this.nodup, this.lt⟩

end KV
