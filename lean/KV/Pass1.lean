import KV.Fop
import KV.Kahn
/-! Prototype (scratch): invariants of the first pass of `Build` (pool assignment). -/
namespace KV

theorem listModify_length {α} (l : List α) (i : Nat) (f : α → α) : (listModify l i f).length = l.length := by
  unfold listModify; split <;> simp

theorem getD_listModify_self {α} (l : List α) (i : Nat) (f : α → α) (d : α) (hi : i < l.length) :
    (listModify l i f).getD i d = f (l.getD i d) := by
  unfold listModify
  rw [List.getElem?_eq_getElem hi]
  simp only [List.getD_eq_getElem?_getD, List.getElem?_set_self hi, Option.getD_some,
    List.getElem?_eq_getElem hi]

theorem getD_listModify_other {α} (l : List α) (i j : Nat) (f : α → α) (d : α) (hij : j ≠ i) :
    (listModify l i f).getD j d = l.getD j d := by
  unfold listModify
  split
  · simp only [List.getD_eq_getElem?_getD, List.getElem?_set_ne (Ne.symm hij)]
  · rfl

theorem listModify_oob {α} (l : List α) (i : Nat) (f : α → α) (hi : ¬ i < l.length) : listModify l i f = l := by
  unfold listModify
  rw [List.getElem?_eq_none (Nat.le_of_not_lt hi)]

def isArgNode (g : Graph) (n : Nat) : Bool := (g.nodes.getD n default).isArg

/-- invariant of the first pass after processing the prefix `done` of the Kahn order -/
structure P1Inv (g : Graph) (k : Nat) (done : List Nat) (st : P1St) : Prop where
  lenPools : st.pools.length = k
  lenNP : st.nodePool.length = g.nodes.length
  lenNR : st.nodeRets.length = g.nodes.length
  sub : ∀ p, (st.pools.getD p []).Sublist done
  poolOf : ∀ p n, n ∈ st.pools.getD p [] → st.nodePool.getD n none = some p
  placed : ∀ n ∈ done, isArgNode g n = false → 0 < k → ∃ p, p < k ∧ n ∈ st.pools.getD p []
  argNoPool : ∀ n, isArgNode g n = true → st.nodePool.getD n none = none
  fresh : ∀ n, n ∉ done → st.nodePool.getD n none = none ∧ st.nodeRets.getD n [] = []
  retsLt : ∀ n v, v ∈ st.nodeRets.getD n [] → v < st.params.length
  retsOwner : ∀ n v, v ∈ st.nodeRets.getD n [] → (st.params.getD v default).node = n
  retsArg : ∀ n v, v ∈ st.nodeRets.getD n [] → (st.params.getD v default).isArg = isArgNode g n
  retsLen : ∀ n ∈ done, (st.nodeRets.getD n []).length =
    (if isArgNode g n then 1 else (g.provs.getD (g.nodes.getD n default).prov default).provides.length)
  noChan : ∀ v, (st.params.getD v default).withChan = false

theorem p1Init_inv (g : Graph) (k : Nat) : P1Inv g k [] (p1Init g k) where
  lenPools := by simp [p1Init]
  lenNP := by simp [p1Init]
  lenNR := by simp [p1Init]
  sub := by
    intro p
    have : (p1Init g k).pools.getD p [] = [] := by
      simp only [p1Init, List.getD_eq_getElem?_getD, List.getElem?_replicate]
      split <;> rfl
    rw [this]; exact List.Sublist.slnil
  poolOf := by
    intro p n h
    have : (p1Init g k).pools.getD p [] = [] := by
      simp only [p1Init, List.getD_eq_getElem?_getD, List.getElem?_replicate]
      split <;> rfl
    rw [this] at h; simp at h
  placed := by intro n hn; simp at hn
  argNoPool := by
    intro n _
    simp only [p1Init, List.getD_eq_getElem?_getD, List.getElem?_replicate]
    split <;> rfl
  fresh := by
    intro n _
    constructor
    · simp only [p1Init, List.getD_eq_getElem?_getD, List.getElem?_replicate]
      split <;> rfl
    · simp only [p1Init, List.getD_eq_getElem?_getD, List.getElem?_replicate]
      split <;> rfl
  retsLt := by
    intro n v h
    have : (p1Init g k).nodeRets.getD n [] = [] := by
      simp only [p1Init, List.getD_eq_getElem?_getD, List.getElem?_replicate]
      split <;> rfl
    rw [this] at h; simp at h
  retsOwner := by
    intro n v h
    have : (p1Init g k).nodeRets.getD n [] = [] := by
      simp only [p1Init, List.getD_eq_getElem?_getD, List.getElem?_replicate]
      split <;> rfl
    rw [this] at h; simp at h
  retsArg := by
    intro n v h
    have : (p1Init g k).nodeRets.getD n [] = [] := by
      simp only [p1Init, List.getD_eq_getElem?_getD, List.getElem?_replicate]
      split <;> rfl
    rw [this] at h; simp at h
  retsLen := by intro n hn; simp at hn
  noChan := by intro v; simp [p1Init]; rfl

theorem getD_eq_getElem' {α} (l : List α) (i : Nat) (d : α) (hi : i < l.length) : l.getD i d = l[i] := by
  simp only [List.getD_eq_getElem?_getD, List.getElem?_eq_getElem hi, Option.getD_some]

theorem getD_set_self {α} (l : List α) (i : Nat) (a d : α) (hi : i < l.length) : (l.set i a).getD i d = a := by
  simp only [List.getD_eq_getElem?_getD, List.getElem?_set_self hi, Option.getD_some]

theorem getD_set_other {α} (l : List α) (i j : Nat) (a d : α) (hij : j ≠ i) : (l.set i a).getD j d = l.getD j d := by
  simp only [List.getD_eq_getElem?_getD, List.getElem?_set_ne (Ne.symm hij)]

theorem getD_append_left {α} (l r : List α) (i : Nat) (d : α) (hi : i < l.length) : (l ++ r).getD i d = l.getD i d := by
  simp only [List.getD_eq_getElem?_getD, List.getElem?_append_left hi]

theorem noChan_append (ps qs : List Param) (h1 : ∀ v, (ps.getD v default).withChan = false)
    (h2 : ∀ q ∈ qs, q.withChan = false) : ∀ v, ((ps ++ qs).getD v default).withChan = false := by
  intro v
  by_cases hv : v < ps.length
  · rw [getD_append_left _ _ _ _ hv]; exact h1 v
  · simp only [List.getD_eq_getElem?_getD, List.getElem?_append_right (Nat.le_of_not_lt hv)]
    cases hq : qs[v - ps.length]? with
    | none => rfl
    | some q => exact h2 q (List.mem_of_getElem? hq)

theorem p1Step_inv {g : Graph} {k : Nat} {done : List Nat} {st : P1St} {n : Nat}
    (h : P1Inv g k done st) (hn : n ∉ done) (hnl : n < g.nodes.length) :
    P1Inv g k (done ++ [n]) (p1Step g st n) := by
  have hsubApp : ∀ l : List Nat, l.Sublist done → l.Sublist (done ++ [n]) :=
    fun l hl => hl.trans (List.sublist_append_left done [n])
  have hNR : n < st.nodeRets.length := by rw [h.lenNR]; exact hnl
  have hNP : n < st.nodePool.length := by rw [h.lenNP]; exact hnl
  unfold p1Step
  by_cases ha : (g.nodes.getD n default).isArg = true
  · -- argument node
    simp only [ha, ↓reduceIte]
    have haN : isArgNode g n = true := ha
    refine { lenPools := h.lenPools, lenNP := h.lenNP, lenNR := by simp [h.lenNR], sub := fun p => hsubApp _ (h.sub p),
             poolOf := h.poolOf, placed := ?_, argNoPool := h.argNoPool, fresh := ?_, retsLt := ?_, retsOwner := ?_, retsArg := ?_,
             retsLen := ?_, noChan := noChan_append _ _ h.noChan (by intro q hq; simp at hq; subst hq; rfl) }
    · intro m hm hma hk
      simp only [List.mem_append, List.mem_singleton] at hm
      rcases hm with hm | rfl
      · exact h.placed m hm hma hk
      · rw [haN] at hma; cases hma
    · intro m hm
      simp only [List.mem_append, List.mem_singleton, not_or] at hm
      refine ⟨(h.fresh m hm.1).1, ?_⟩
      show (st.nodeRets.set n [st.params.length]).getD m [] = []
      rw [getD_set_other _ _ _ _ _ hm.2]
      exact (h.fresh m hm.1).2
    · intro m v hv
      show v < (st.params ++ [_]).length
      by_cases hmn : m = n
      · subst hmn
        change v ∈ (st.nodeRets.set m [st.params.length]).getD m [] at hv
        rw [getD_set_self _ _ _ _ hNR] at hv
        simp at hv; subst hv; simp
      · change v ∈ (st.nodeRets.set n [st.params.length]).getD m [] at hv
        rw [getD_set_other _ _ _ _ _ hmn] at hv
        have := h.retsLt m v hv
        simp; omega
    · intro m v hv
      show ((st.params ++ [_]).getD v default).node = m
      by_cases hmn : m = n
      · subst hmn
        change v ∈ (st.nodeRets.set m [st.params.length]).getD m [] at hv
        rw [getD_set_self _ _ _ _ hNR] at hv
        simp at hv; subst hv
        simp [List.getD_eq_getElem?_getD]
      · change v ∈ (st.nodeRets.set n [st.params.length]).getD m [] at hv
        rw [getD_set_other _ _ _ _ _ hmn] at hv
        rw [getD_append_left _ _ _ _ (h.retsLt m v hv)]
        exact h.retsOwner m v hv
    · intro m v hv
      show ((st.params ++ [_]).getD v default).isArg = isArgNode g m
      by_cases hmn : m = n
      · subst hmn
        change v ∈ (st.nodeRets.set m [st.params.length]).getD m [] at hv
        rw [getD_set_self _ _ _ _ hNR] at hv
        simp at hv; subst hv
        simp [List.getD_eq_getElem?_getD, haN]
      · change v ∈ (st.nodeRets.set n [st.params.length]).getD m [] at hv
        rw [getD_set_other _ _ _ _ _ hmn] at hv
        rw [getD_append_left _ _ _ _ (h.retsLt m v hv)]
        exact h.retsArg m v hv
    · intro m hm
      show ((st.nodeRets.set n [st.params.length]).getD m []).length = _
      simp only [List.mem_append, List.mem_singleton] at hm
      rcases hm with hm | rfl
      · have hmn : m ≠ n := fun e => hn (e ▸ hm)
        rw [getD_set_other _ _ _ _ _ hmn]; exact h.retsLen m hm
      · rw [getD_set_self _ _ _ _ hNR, haN]; rfl
  · -- provider node
    have haN : isArgNode g n = false := by simpa [isArgNode] using ha
    simp only [ha, Bool.false_eq_true, ↓reduceIte]
    generalize hp : findOptimalPool2 g n st.pools st.poolProv = p
    generalize hng : (g.provs.getD (g.nodes.getD n default).prov default).provides.length = ng
    -- membership in the updated pools
    have hmemNew : ∀ q m, m ∈ (listModify st.pools p (· ++ [n])).getD q [] →
        m ∈ st.pools.getD q [] ∨ (m = n ∧ q = p ∧ p < st.pools.length) := by
      intro q m hm
      by_cases hqp : q = p
      · subst hqp
        by_cases hpl : q < st.pools.length
        · rw [getD_listModify_self _ _ _ _ hpl] at hm
          simp only [List.mem_append, List.mem_singleton] at hm
          rcases hm with hm | rfl
          · exact Or.inl hm
          · exact Or.inr ⟨rfl, rfl, hpl⟩
        · rw [listModify_oob _ _ _ hpl] at hm; exact Or.inl hm
      · rw [getD_listModify_other _ _ _ _ _ hqp] at hm; exact Or.inl hm
    have hmemOld : ∀ q m, m ∈ st.pools.getD q [] → m ∈ (listModify st.pools p (· ++ [n])).getD q [] := by
      intro q m hm
      by_cases hqp : q = p
      · subst hqp
        by_cases hpl : q < st.pools.length
        · rw [getD_listModify_self _ _ _ _ hpl]; exact List.mem_append_left _ hm
        · rw [listModify_oob _ _ _ hpl]; exact hm
      · rw [getD_listModify_other _ _ _ _ _ hqp]; exact hm
    have hInDone : ∀ q m, m ∈ st.pools.getD q [] → m ∈ done := fun q m hm => (h.sub q).subset hm
    refine { lenPools := by simp [listModify_length, h.lenPools], lenNP := by simp [h.lenNP],
             lenNR := by simp [h.lenNR], sub := ?_, poolOf := ?_, placed := ?_, argNoPool := ?_, fresh := ?_,
             retsLt := ?_, retsOwner := ?_, retsArg := ?_, retsLen := ?_,
             noChan := noChan_append _ _ h.noChan (by intro q hq; simp at hq; obtain ⟨_, _, rfl⟩ := hq; rfl) }
    · intro q
      show ((listModify st.pools p (· ++ [n])).getD q []).Sublist (done ++ [n])
      by_cases hqp : q = p
      · subst hqp
        by_cases hpl : q < st.pools.length
        · rw [getD_listModify_self _ _ _ _ hpl]
          exact List.Sublist.append (h.sub q) (List.Sublist.refl [n])
        · rw [listModify_oob _ _ _ hpl]; exact hsubApp _ (h.sub q)
      · rw [getD_listModify_other _ _ _ _ _ hqp]; exact hsubApp _ (h.sub q)
    · intro q m hm
      show (st.nodePool.set n (some p)).getD m none = some q
      rcases hmemNew q m hm with hm' | ⟨rfl, rfl, _⟩
      · have hmd := hInDone q m hm'
        have hmn : m ≠ n := fun e => hn (e ▸ hmd)
        rw [getD_set_other _ _ _ _ _ hmn]
        exact h.poolOf q m hm'
      · rw [getD_set_self _ _ _ _ hNP]
    · intro m hm hma hk
      simp only [List.mem_append, List.mem_singleton] at hm
      rcases hm with hm | rfl
      · obtain ⟨q, hq, hmq⟩ := h.placed m hm hma hk
        exact ⟨q, hq, hmemOld q m hmq⟩
      · have hpl : p < st.pools.length := by
          rw [← hp]; exact findOptimalPool2_lt g m st.pools st.poolProv (by rw [h.lenPools]; exact hk)
        refine ⟨p, by rw [← h.lenPools]; exact hpl, ?_⟩
        show m ∈ (listModify st.pools p (· ++ [m])).getD p []
        rw [getD_listModify_self _ _ _ _ hpl]
        simp
    · intro m hma
      show (st.nodePool.set n (some p)).getD m none = none
      have hmn : m ≠ n := fun e => by subst e; rw [haN] at hma; cases hma
      rw [getD_set_other _ _ _ _ _ hmn]
      exact h.argNoPool m hma
    · intro m hm
      simp only [List.mem_append, List.mem_singleton, not_or] at hm
      constructor
      · show (st.nodePool.set n (some p)).getD m none = none
        rw [getD_set_other _ _ _ _ _ hm.2]; exact (h.fresh m hm.1).1
      · show (st.nodeRets.set n _).getD m [] = []
        rw [getD_set_other _ _ _ _ _ hm.2]; exact (h.fresh m hm.1).2
    · intro m v hv
      show v < (st.params ++ _).length
      change v ∈ (st.nodeRets.set n ((List.range ng).map (· + st.params.length))).getD m [] at hv
      by_cases hmn : m = n
      · subst hmn
        rw [getD_set_self _ _ _ _ hNR] at hv
        simp only [List.mem_map, List.mem_range] at hv
        obtain ⟨gi, hgi, rfl⟩ := hv
        simp; omega
      · rw [getD_set_other _ _ _ _ _ hmn] at hv
        have := h.retsLt m v hv
        simp; omega
    · intro m v hv
      show ((st.params ++ _).getD v default).node = m
      change v ∈ (st.nodeRets.set n ((List.range ng).map (· + st.params.length))).getD m [] at hv
      by_cases hmn : m = n
      · subst hmn
        rw [getD_set_self _ _ _ _ hNR] at hv
        simp only [List.mem_map, List.mem_range] at hv
        obtain ⟨gi, hgi, rfl⟩ := hv
        simp [List.getD_eq_getElem?_getD, List.getElem?_append_right, hgi]
      · rw [getD_set_other _ _ _ _ _ hmn] at hv
        rw [getD_append_left _ _ _ _ (h.retsLt m v hv)]
        exact h.retsOwner m v hv
    · intro m v hv
      show ((st.params ++ _).getD v default).isArg = isArgNode g m
      change v ∈ (st.nodeRets.set n ((List.range ng).map (· + st.params.length))).getD m [] at hv
      by_cases hmn : m = n
      · subst hmn
        rw [getD_set_self _ _ _ _ hNR] at hv
        simp only [List.mem_map, List.mem_range] at hv
        obtain ⟨gi, hgi, rfl⟩ := hv
        simp [List.getD_eq_getElem?_getD, List.getElem?_append_right, hgi, haN]
      · rw [getD_set_other _ _ _ _ _ hmn] at hv
        rw [getD_append_left _ _ _ _ (h.retsLt m v hv)]
        exact h.retsArg m v hv
    · intro m hm
      show ((st.nodeRets.set n ((List.range ng).map (· + st.params.length))).getD m []).length = _
      simp only [List.mem_append, List.mem_singleton] at hm
      rcases hm with hm | rfl
      · have hmn : m ≠ n := fun e => hn (e ▸ hm)
        rw [getD_set_other _ _ _ _ _ hmn]; exact h.retsLen m hm
      · rw [getD_set_self _ _ _ _ hNR, haN]
        simp only [List.length_map, List.length_range, Bool.false_eq_true, ↓reduceIte]
        exact hng.symm

theorem foldl_p1_inv {g : Graph} {k : Nat} (l : List Nat) (done : List Nat) (st : P1St)
    (h : P1Inv g k done st) (hnd : (done ++ l).Nodup) (hlt : ∀ m ∈ l, m < g.nodes.length) :
    P1Inv g k (done ++ l) (l.foldl (p1Step g) st) := by
  induction l generalizing done st with
  | nil => simpa using h
  | cons x xs ih =>
    simp only [List.foldl_cons]
    have hx : x ∉ done := by
      intro hxd
      have := (List.nodup_append.mp hnd).2.2 x hxd x (List.mem_cons_self ..)
      exact this rfl
    have h1 := p1Step_inv h hx (hlt x (List.mem_cons_self ..))
    have := ih (done ++ [x]) (p1Step g st x) h1 (by simpa [List.append_assoc] using hnd)
      (fun m hm => hlt m (List.mem_cons_of_mem _ hm))
    simpa [List.append_assoc] using this

/-- the first pass, run over a duplicate-free in-range order, satisfies the invariant for the whole order -/
theorem bpass1_inv {g : Graph} (order : List Nat) (k : Nat) (hnd : order.Nodup)
    (hlt : ∀ m ∈ order, m < g.nodes.length) : P1Inv g k order (bpass1 g order k) := by
  have := foldl_p1_inv (g := g) (k := k) order [] (p1Init g k) (p1Init_inv g k) (by simpa using hnd) hlt
  simpa [bpass1] using this

end KV
