import KV.T1F
import KV.Emit
/-! Emission of the micro-op program **with failure / cancellation flags** (`T1F.Prog`), built exactly like
    `T1.emit` from the same node blocks, and the generic transfer of well-formedness along the flag-forgetting
    map `eraseFlags : T1F.Prog → T1.Prog`.

    * `emitF fl main gos rv` — threads `spawns ; blocks ; [eg.Wait] ; ret` / `blocks`, where a block is
      `[waits] ; enter ; exit ; [closes]`; every wait of the main thread carries `fl.ctxMain`, every wait of a
      goroutine carries `fl.ctxGo`, the exit of node `n` carries `fl.fallible n`; `retErr = fl.retErr`.
    * `eraseFlags (emitF fl main gos rv) = T1.emit main gos rv` — the two emissions cannot drift apart.
    * `wf_of_erase`, `wfdata_of_erase` — `T1.WF`/`T1.WFData` of the erased program give `T1F.WF`/`T1F.WFData`
      (the only genuinely new obligations are `mainOnly` for spawn/ret, and `waitsCtx`).
    * `emitF_mainShape`, `emitF_retShape`, `emitF_mainOnly`, `emitF_waitsCtx_iff`. -/
namespace T1F

/-! ### forgetting the flags -/

def eraseOp : Op → T1.Op
  | .wait o c _ => .wait o c
  | .enter o a => .enter o a
  | .exit o r _ => .exit o r
  | .close o c => .close o c
  | .spawn g => .spawn g
  | .egwait => .egwait
  | .ret v => .ret v

/-- the flag-forgetting map into the fault-free micro-op programs -/
def eraseFlags (P : Prog) : T1.Prog := ⟨P.threads.map (·.map eraseOp)⟩

theorem eraseOp_wait {op : Op} {o c : Nat} (h : eraseOp op = .wait o c) : ∃ k, op = .wait o c k := by
  cases op <;> simp only [eraseOp] at h <;> cases h
  exact ⟨_, rfl⟩

theorem eraseOp_exit {op : Op} {o : Nat} {r : List Nat} (h : eraseOp op = .exit o r) : ∃ f, op = .exit o r f := by
  cases op <;> simp only [eraseOp] at h <;> cases h
  exact ⟨_, rfl⟩

theorem eraseOp_close {op : Op} {o c : Nat} (h : eraseOp op = .close o c) : op = .close o c := by
  cases op <;> simp only [eraseOp] at h <;> cases h
  rfl

theorem eraseOp_spawn {op : Op} {g : Nat} (h : eraseOp op = .spawn g) : op = .spawn g := by
  cases op <;> simp only [eraseOp] at h <;> cases h
  rfl

theorem eraseFlags_length (P : Prog) : (eraseFlags P).threads.length = P.threads.length := by
  simp [eraseFlags]

theorem thread_erase (P : Prog) (t : Nat) : T1.thread (eraseFlags P) t = (thread P t).map eraseOp := by
  simp only [T1.thread, thread, eraseFlags, List.getD_eq_getElem?_getD, List.getElem?_map]
  cases P.threads[t]? <;> simp

theorem mem_erase_of_mem {P : Prog} {t : Nat} {op : Op} (h : op ∈ thread P t) :
    eraseOp op ∈ T1.thread (eraseFlags P) t := by
  rw [thread_erase]; exact List.mem_map_of_mem h

theorem exists_of_mem_erase {P : Prog} {t : Nat} {op' : T1.Op} (h : op' ∈ T1.thread (eraseFlags P) t) :
    ∃ op ∈ thread P t, eraseOp op = op' := by
  rw [thread_erase, List.mem_map] at h; exact h

/-- **transfer of `WF`**: a flagged program is well-formed for the failure semantics as soon as its erasure is
    well-formed for the fault-free semantics, spawns are ranked below `eg.Wait`, the structural ops live in the
    main thread, and every wait is ctx-aware. -/
theorem wf_of_erase {P : Prog} {rank : T1.Op → Nat} (hw : T1.WF (eraseFlags P) rank)
    (hse : ∀ g, rank (.spawn g) < rank .egwait)
    (hmain : ∀ t op, op ∈ thread P t → (op = .egwait ∨ (∃ v, op = .ret v) ∨ (∃ g, op = .spawn g)) → t = 0)
    (hctx : ∀ t o c k, Op.wait o c k ∈ thread P t → k = true) :
    WF P (fun op => rank (eraseOp op)) where
  sorted := by
    intro t
    have := hw.sorted t
    rw [thread_erase, List.pairwise_map] at this
    exact this
  waitClose := by
    intro t o c k h
    obtain ⟨t', o', hc, hr⟩ := hw.waitClose t o c (mem_erase_of_mem h)
    obtain ⟨op, hop, he⟩ := exists_of_mem_erase hc
    have := eraseOp_close he
    subst this
    exact ⟨t', o', hop, hr⟩
  spawnBefore := by
    intro g hg0 hgl
    obtain ⟨hs, hr⟩ := hw.spawnBefore g hg0 (by rw [eraseFlags_length]; exact hgl)
    obtain ⟨op, hop, he⟩ := exists_of_mem_erase hs
    have := eraseOp_spawn he
    subst this
    exact ⟨hop, fun op' hop' => hr _ (mem_erase_of_mem hop'), hse g⟩
  egwaitAfter := fun g hg0 op hop => hw.egwaitAfter g hg0 _ (mem_erase_of_mem hop)
  mainOnly := hmain
  waitsCtx := hctx

/-- **transfer of `WFData`** -/
theorem wfdata_of_erase {P : Prog} {rank : T1.Op → Nat} {isParam : Nat → Prop}
    (hd : T1.WFData (eraseFlags P) rank isParam) : WFData P (fun op => rank (eraseOp op)) isParam where
  reads := by
    intro t o args v hen hv hnp
    obtain ⟨t', o', rets, hex, hvr, hcase⟩ := hd.reads t o args v (mem_erase_of_mem hen) hv hnp
    obtain ⟨ope, hope, hee⟩ := exists_of_mem_erase hex
    obtain ⟨f, rfl⟩ := eraseOp_exit hee
    refine ⟨t', o', rets, f, hope, hvr, ?_⟩
    rcases hcase with ⟨ht, hrk⟩ | ⟨⟨ow, hwt, hrw⟩, ⟨oc, hcl, hrc⟩⟩
    · exact Or.inl ⟨ht, hrk⟩
    · obtain ⟨opw, hopw, hew⟩ := exists_of_mem_erase hwt
      obtain ⟨k, rfl⟩ := eraseOp_wait hew
      obtain ⟨opc, hopc, hec⟩ := exists_of_mem_erase hcl
      have := eraseOp_close hec
      subst this
      exact Or.inr ⟨⟨ow, k, hopw, hrw⟩, ⟨oc, hopc, hrc⟩⟩
  closeUnique := by
    intro c t o t' o' h1 h2
    exact hd.closeUnique c t o t' o' (mem_erase_of_mem h1) (mem_erase_of_mem h2)

/-- a variable is written by one `exit` only (transferred from `T1.WFData.singleWriter`) -/
theorem singleWriter_of_erase {P : Prog} {rank : T1.Op → Nat} {isParam : Nat → Prop}
    (hd : T1.WFData (eraseFlags P) rank isParam) {v t o t' o' : Nat} {rets rets' : List Nat} {f f' : Bool}
    (h1 : Op.exit o rets f ∈ thread P t) (hv : v ∈ rets) (h2 : Op.exit o' rets' f' ∈ thread P t') (hv' : v ∈ rets') :
    t = t' ∧ o = o' ∧ rets = rets' :=
  hd.singleWriter v t o rets t' o' rets' (mem_erase_of_mem h1) hv (mem_erase_of_mem h2) hv'

/-! ### emission with flags -/

/-- the flags the generator decides per injector -/
structure Flags where
  /-- node id ↦ its provider returns `error` -/
  fallible : Nat → Bool
  /-- waits of the main thread are `select { <-ch ; <-ctx.Done() }` -/
  ctxMain : Bool
  /-- waits of goroutines are `select { <-ch ; <-ctx.Done() }` -/
  ctxGo : Bool
  /-- the injector returns `error` -/
  retErr : Bool

def waitsOfF (k : Bool) (nd : T1.NodeInfo) : List Op := (nd.args.filter (·.2)).map (fun a => Op.wait nd.id a.1 k)
def closesOfF (nd : T1.NodeInfo) : List Op := (nd.rets.filter (·.2)).map (fun r => Op.close nd.id r.1)
def enterOfF (nd : T1.NodeInfo) : Op := .enter nd.id (nd.args.map (·.1))
def exitOfF (fal : Nat → Bool) (nd : T1.NodeInfo) : Op := .exit nd.id (nd.rets.map (·.1)) (fal nd.id)
/-- `[waits] ; enter ; exit ; [closes]`, as `T1.block` -/
def blockF (fal : Nat → Bool) (k : Bool) (nd : T1.NodeInfo) : List Op :=
  waitsOfF k nd ++ ([enterOfF nd, exitOfF fal nd] ++ closesOfF nd)

def spawnsF (ngo : Nat) : List Op := (List.range ngo).map (fun g => Op.spawn (g + 1))
def tailOpsF (ngo : Nat) (retVar : Nat) : List Op := (if ngo = 0 then [] else [Op.egwait]) ++ [Op.ret retVar]
def mainThreadF (fl : Flags) (main : List T1.NodeInfo) (ngo : Nat) (retVar : Nat) : List Op :=
  spawnsF ngo ++ (main.flatMap (blockF fl.fallible fl.ctxMain) ++ tailOpsF ngo retVar)

def emitF (fl : Flags) (main : List T1.NodeInfo) (gos : List (List T1.NodeInfo)) (retVar : Nat) : Prog :=
  ⟨mainThreadF fl main gos.length retVar :: gos.map (·.flatMap (blockF fl.fallible fl.ctxGo)), fl.retErr⟩

theorem erase_blockF (fal : Nat → Bool) (k : Bool) (nd : T1.NodeInfo) :
    (blockF fal k nd).map eraseOp = T1.block nd := by
  simp only [blockF, waitsOfF, closesOfF, enterOfF, exitOfF, T1.block, T1.waitsOf, T1.closesOf, T1.enterOf,
    T1.exitOf, List.map_append, List.map_map, List.map_cons, List.map_nil, eraseOp]
  rfl

theorem erase_blocksF (fal : Nat → Bool) (k : Bool) (l : List T1.NodeInfo) :
    (l.flatMap (blockF fal k)).map eraseOp = l.flatMap T1.block := by
  induction l with
  | nil => rfl
  | cons a l ih => simp only [List.flatMap_cons, List.map_append, ih, erase_blockF]

/-- **the two emissions cannot drift apart** -/
theorem eraseFlags_emitF (fl : Flags) (main : List T1.NodeInfo) (gos : List (List T1.NodeInfo)) (rv : Nat) :
    eraseFlags (emitF fl main gos rv) = T1.emit main gos rv := by
  simp only [eraseFlags, emitF, T1.emit, List.map_cons, List.map_map, T1.Prog.mk.injEq, List.cons.injEq]
  refine ⟨?_, ?_⟩
  · simp only [mainThreadF, T1.mainThread, List.map_append, erase_blocksF, spawnsF, T1.spawns, tailOpsF,
      T1.tailOps, List.map_map]
    congr 1
    congr 1
    split <;> rfl
  · apply List.map_congr_left
    intro l _
    exact erase_blocksF _ _ l

theorem emitF_retErr (fl : Flags) (main : List T1.NodeInfo) (gos : List (List T1.NodeInfo)) (rv : Nat) :
    (emitF fl main gos rv).retErr = fl.retErr := rfl

theorem emitF_length (fl : Flags) (main : List T1.NodeInfo) (gos : List (List T1.NodeInfo)) (rv : Nat) :
    (emitF fl main gos rv).threads.length = gos.length + 1 := by
  simp [emitF]

theorem thread_emitF_zero (fl : Flags) (main : List T1.NodeInfo) (gos : List (List T1.NodeInfo)) (rv : Nat) :
    thread (emitF fl main gos rv) 0 = mainThreadF fl main gos.length rv := by
  simp [thread, emitF]

theorem thread_emitF_succ (fl : Flags) (main : List T1.NodeInfo) (gos : List (List T1.NodeInfo)) (rv g : Nat) :
    thread (emitF fl main gos rv) (g + 1) = (gos.getD g []).flatMap (blockF fl.fallible fl.ctxGo) := by
  simp only [thread, emitF, List.getD_eq_getElem?_getD, List.getElem?_cons_succ, List.getElem?_map]
  cases gos[g]? <;> simp

/-- the ctx-aware flag of the waits of thread `t` -/
def Flags.ctxOf (fl : Flags) (t : Nat) : Bool := match t with | 0 => fl.ctxMain | _ + 1 => fl.ctxGo

/-- an op of a block: a wait with the thread's flag, the enter, the exit with the node's flag, or a close -/
theorem mem_blockF {fal : Nat → Bool} {k : Bool} {nd : T1.NodeInfo} {op : Op} (h : op ∈ blockF fal k nd) :
    (∃ v, (v, true) ∈ nd.args ∧ op = .wait nd.id v k) ∨ op = enterOfF nd ∨ op = exitOfF fal nd ∨
    (∃ v, (v, true) ∈ nd.rets ∧ op = .close nd.id v) := by
  simp only [blockF, waitsOfF, closesOfF, List.mem_append, List.mem_map, List.mem_filter,
    List.mem_cons, List.mem_nil_iff, or_false] at h
  rcases h with ⟨a, ⟨ha, ha2⟩, rfl⟩ | (rfl | rfl) | ⟨r, ⟨hr, hr2⟩, rfl⟩
  · have : a = (a.1, true) := by cases a; simp_all
    exact Or.inl ⟨a.1, this ▸ ha, rfl⟩
  · exact Or.inr (Or.inl rfl)
  · exact Or.inr (Or.inr (Or.inl rfl))
  · have : r = (r.1, true) := by cases r; simp_all
    exact Or.inr (Or.inr (Or.inr ⟨r.1, this ▸ hr, rfl⟩))

theorem wait_in_blockF {fal : Nat → Bool} {k : Bool} {nd : T1.NodeInfo} {v : Nat} (h : (v, true) ∈ nd.args) :
    Op.wait nd.id v k ∈ blockF fal k nd := by
  simp only [blockF, waitsOfF, List.mem_append, List.mem_map, List.mem_filter]
  exact Or.inl ⟨(v, true), ⟨h, rfl⟩, rfl⟩

/-- membership of an op in a thread of the flagged emission -/
theorem mem_thread_emitF {fl : Flags} {main : List T1.NodeInfo} {gos : List (List T1.NodeInfo)} {rv t : Nat} {op : Op}
    (h : op ∈ thread (emitF fl main gos rv) t) :
    (∃ nd ∈ T1.threadNodes main gos t, op ∈ blockF fl.fallible (fl.ctxOf t) nd) ∨
    (t = 0 ∧ (op ∈ spawnsF gos.length ∨ op ∈ tailOpsF gos.length rv)) := by
  cases t with
  | zero =>
    rw [thread_emitF_zero] at h
    simp only [mainThreadF, List.mem_append, List.mem_flatMap] at h
    rcases h with h | ⟨nd, hnd, hop⟩ | h
    · exact Or.inr ⟨rfl, Or.inl h⟩
    · exact Or.inl ⟨nd, hnd, hop⟩
    · exact Or.inr ⟨rfl, Or.inr h⟩
  | succ g =>
    rw [thread_emitF_succ] at h
    simp only [List.mem_flatMap] at h
    obtain ⟨nd, hnd, hop⟩ := h
    exact Or.inl ⟨nd, hnd, hop⟩

theorem blockF_mem_thread {fl : Flags} {main : List T1.NodeInfo} {gos : List (List T1.NodeInfo)} {rv t : Nat}
    {nd : T1.NodeInfo} {op : Op} (hnd : nd ∈ T1.threadNodes main gos t)
    (hop : op ∈ blockF fl.fallible (fl.ctxOf t) nd) : op ∈ thread (emitF fl main gos rv) t := by
  cases t with
  | zero =>
    rw [thread_emitF_zero]
    simp only [mainThreadF, List.mem_append, List.mem_flatMap]
    exact Or.inr (Or.inl ⟨nd, hnd, hop⟩)
  | succ g =>
    rw [thread_emitF_succ]
    simp only [List.mem_flatMap]
    exact ⟨nd, hnd, hop⟩

/-- `eg.Wait`, `return` and `go` statements occur in the main thread only -/
theorem emitF_mainOnly (fl : Flags) (main : List T1.NodeInfo) (gos : List (List T1.NodeInfo)) (rv : Nat) :
    ∀ t op, op ∈ thread (emitF fl main gos rv) t →
      (op = .egwait ∨ (∃ v, op = .ret v) ∨ (∃ g, op = .spawn g)) → t = 0 := by
  intro t op h hk
  rcases mem_thread_emitF h with ⟨nd, _, hb⟩ | ⟨h0, _⟩
  · exfalso
    rcases mem_blockF hb with ⟨v, _, rfl⟩ | rfl | rfl | ⟨v, _, rfl⟩ <;>
      rcases hk with h | ⟨_, h⟩ | ⟨_, h⟩ <;> cases h
  · exact h0

/-- the flag carried by a wait is the flag of its thread -/
theorem emitF_wait_flag {fl : Flags} {main : List T1.NodeInfo} {gos : List (List T1.NodeInfo)} {rv t o c : Nat}
    {k : Bool} (h : Op.wait o c k ∈ thread (emitF fl main gos rv) t) : k = fl.ctxOf t := by
  rcases mem_thread_emitF h with ⟨nd, _, hb⟩ | ⟨_, h1 | h1⟩
  · rcases mem_blockF hb with ⟨v, _, he⟩ | he | he | ⟨v, _, he⟩
    · cases he; rfl
    · cases he
    · cases he
    · cases he
  · simp only [spawnsF, List.mem_map] at h1
    obtain ⟨g, _, hg⟩ := h1; cases hg
  · simp only [tailOpsF, List.mem_append, List.mem_singleton] at h1
    rcases h1 with h1 | h1
    · split at h1 <;> simp at h1
    · cases h1

/-- thread `t` of the emission contains a wait -/
def hasWait (main : List T1.NodeInfo) (gos : List (List T1.NodeInfo)) (t : Nat) : Bool :=
  (T1.threadNodes main gos t).any (fun nd => nd.args.any (·.2))

theorem hasWait_iff {fl : Flags} {main : List T1.NodeInfo} {gos : List (List T1.NodeInfo)} {rv t : Nat} :
    hasWait main gos t = true ↔ ∃ o c k, Op.wait o c k ∈ thread (emitF fl main gos rv) t := by
  constructor
  · intro h
    simp only [hasWait, List.any_eq_true] at h
    obtain ⟨nd, hnd, ⟨v, w⟩, ha, hw⟩ := h
    simp only at hw
    subst hw
    exact ⟨nd.id, v, fl.ctxOf t, blockF_mem_thread hnd (wait_in_blockF ha)⟩
  · intro ⟨o, c, k, h⟩
    simp only [hasWait, List.any_eq_true]
    rcases mem_thread_emitF h with ⟨nd, hnd, hb⟩ | ⟨_, h1 | h1⟩
    · rcases mem_blockF hb with ⟨v, hv, he⟩ | he | he | ⟨v, _, he⟩
      · exact ⟨nd, hnd, (v, true), hv, rfl⟩
      · cases he
      · cases he
      · cases he
    · simp only [spawnsF, List.mem_map] at h1
      obtain ⟨g, _, hg⟩ := h1; cases hg
    · simp only [tailOpsF, List.mem_append, List.mem_singleton] at h1
      rcases h1 with h1 | h1
      · split at h1 <;> simp at h1
      · cases h1

/-- **`waitsCtx` of the emission, exactly**: every wait is ctx-aware iff every thread that contains a wait has
    its flag set. -/
theorem emitF_waitsCtx_iff {fl : Flags} {main : List T1.NodeInfo} {gos : List (List T1.NodeInfo)} {rv : Nat} :
    (∀ t o c k, Op.wait o c k ∈ thread (emitF fl main gos rv) t → k = true) ↔
    (∀ t, hasWait main gos t = true → fl.ctxOf t = true) := by
  constructor
  · intro h t ht
    obtain ⟨o, c, k, hw⟩ := (hasWait_iff (fl := fl) (rv := rv)).mp ht
    have := h t o c k hw
    rw [emitF_wait_flag hw] at this
    exact this
  · intro h t o c k hw
    rw [emitF_wait_flag hw]
    exact h t ((hasWait_iff (fl := fl) (rv := rv)).mpr ⟨o, c, k, hw⟩)

/-! ### shape of the main thread -/

theorem getElem?_append_singleton_last {α} (l : List α) (a : α) : (l ++ [a])[(l ++ [a]).length - 1]? = some a := by
  simp

/-- the main thread is `pre ++ [ret rv]` -/
theorem mainThreadF_eq (fl : Flags) (main : List T1.NodeInfo) (ngo rv : Nat) :
    mainThreadF fl main ngo rv =
      (spawnsF ngo ++ (main.flatMap (blockF fl.fallible fl.ctxMain) ++ (if ngo = 0 then [] else [Op.egwait]))) ++
        [Op.ret rv] := by
  simp only [mainThreadF, tailOpsF, List.append_assoc]

theorem emitF_mainShape (fl : Flags) (main : List T1.NodeInfo) (gos : List (List T1.NodeInfo)) (rv : Nat) :
    MainShape (emitF fl main gos rv) where
  nonempty := by rw [emitF_length]; omega
  lastRet := by
    refine ⟨rv, ?_⟩
    simp only [opAt]
    rw [thread_emitF_zero, mainThreadF_eq]
    exact getElem?_append_singleton_last _ _

/-- ops before the tail of the main thread are spawns and block ops: none of them is a `ret` -/
theorem not_ret_of_mem_pre {fl : Flags} {main : List T1.NodeInfo} {ngo : Nat} {op : Op}
    (h : op ∈ spawnsF ngo ++ main.flatMap (blockF fl.fallible fl.ctxMain)) : ∀ v, op ≠ .ret v := by
  intro v he
  subst he
  simp only [List.mem_append, List.mem_flatMap] at h
  rcases h with h | ⟨nd, _, hb⟩
  · simp only [spawnsF, List.mem_map] at h
    obtain ⟨g, _, hg⟩ := h; cases hg
  · rcases mem_blockF hb with ⟨v, _, he⟩ | he | he | ⟨v, _, he⟩ <;> cases he

theorem emitF_retShape (fl : Flags) (main : List T1.NodeInfo) (gos : List (List T1.NodeInfo)) (rv : Nat) :
    RetShape (emitF fl main gos rv) := by
  intro hlen j v hop
  rw [emitF_length] at hlen
  have hngo : gos.length ≠ 0 := by omega
  simp only [opAt] at hop ⊢
  rw [thread_emitF_zero] at hop ⊢
  have hm : mainThreadF fl main gos.length rv =
      (spawnsF gos.length ++ main.flatMap (blockF fl.fallible fl.ctxMain)) ++ [Op.egwait, Op.ret rv] := by
    simp only [mainThreadF, tailOpsF, if_neg hngo, List.append_assoc, List.cons_append, List.nil_append]
  rw [hm] at hop ⊢
  generalize hpre : spawnsF gos.length ++ main.flatMap (blockF fl.fallible fl.ctxMain) = pre at hop ⊢
  have hnr : ∀ op ∈ pre, ∀ v, op ≠ .ret v := by
    intro op hmem; rw [← hpre] at hmem; exact not_ret_of_mem_pre hmem
  by_cases hj : j < pre.length
  · rw [List.getElem?_append_left hj] at hop
    exact absurd rfl (hnr _ (List.mem_of_getElem? hop) v)
  · rw [List.getElem?_append_right (Nat.le_of_not_lt hj)] at hop
    refine ⟨pre.length, ?_, ?_⟩
    · apply Classical.byContradiction; intro hc
      have : j - pre.length = 0 := by omega
      rw [this] at hop
      simp at hop
    · rw [List.getElem?_append_right (Nat.le_refl _)]
      simp

end T1F
