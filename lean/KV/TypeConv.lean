import KV.Imports
import KV.ImportsProofs
/-! # Model of `TypeConverter.TypeToExpr` (internal/migrate/typeconv.go)

`kessoku migrate` spells every type that appears as a type argument of the migrated declarations (`Inject[T]`,
`Bind[I]`, `Struct[T]`, …) from *type information*, not from the source text: `TypeToExpr` walks a `types.Type`,
asks `AddImport` for the local name of every foreign package it meets and builds an `ast.Expr`.

The model keeps the shape of both sides: a type / an expression is a tagged node with children.  Names are numbers:
`n < 16` are the predeclared identifiers (`int`, `string`, `error`, …), `n ≥ 16` the names of declared types.

Tied to the code by the `T` line of the driver (`harness`: the verif-tagged test driver of internal/migrate builds the
same `types.Type` with go/types, calls the real `TypeToExpr` and serialises the resulting `ast.Expr`). -/
namespace TConv
open Imp

/-- what `TypeToExpr` distinguishes in a `types.Type`, apart from the component types -/
inductive Tag where
  | basic (n : Nat)                    -- `*types.Basic`, and named types of the universe scope (`error`)
  | named (pkg : Nat) (name : Nat)     -- `*types.Named` / `*types.Alias` (children: the type arguments)
  | ptr
  | slice
  | arr (len : Nat)
  | map                                -- children: key, value
  | chan (dir : Nat)
  | func (nparams : Nat)               -- children: parameters, then results
  | variadic                           -- the last parameter `...T` of a variadic function (child: `T`)
  | struct (fields : List (Nat × Bool))   -- (field name, embedded?); children: the field types
  | ifaceEmpty
  | ifaceLit                           -- a non-empty interface literal (methods are not modelled)
deriving DecidableEq, Repr

inductive Ty where
  | node (tag : Tag) (kids : List Ty)
deriving Repr

/-- what the produced `ast.Expr` looks like -/
inductive ETag where
  | ident (n : Nat)                    -- `ast.NewIdent(name)`
  | sel (q : String) (name : Nat)      -- `q.Name`
  | star
  | slice
  | arr (len : Nat)
  | map
  | chan (dir : Nat)
  | func (nparams : Nat)
  | ellipsis
  | struct (fields : List (Nat × Bool))
  | ifaceEmpty
deriving DecidableEq, Repr

inductive Ex where
  | node (tag : ETag) (kids : List Ex)  -- for `ident` / `sel`: non-empty children = `X[children]`
deriving Repr

/-- the identifier `any` (a predeclared name) -/
def anyName : Nat := 5

/-- one node: the only stateful case is a named type of another package -/
def renderTag (cur : Option Nat) (pname : Nat → String) (tc : TC) : Tag → Option (TC × ETag)
  | .basic n => some (tc, .ident n)
  | .named p name =>
    match cur with
    | none => some (tc, .ident name)                    -- no current package: nothing is qualified
    | some c =>
      if p = c then some (tc, .ident name)
      else match addImport tc p (pname p) with
        | none => none
        | some (tc', q) => some (tc', .sel q name)
  | .ptr => some (tc, .star)
  | .slice => some (tc, .slice)
  | .arr n => some (tc, .arr n)
  | .map => some (tc, .map)
  | .chan d => some (tc, .chan d)
  | .func n => some (tc, .func n)
  | .variadic => some (tc, .ellipsis)
  | .struct fs => some (tc, .struct fs)
  | .ifaceEmpty => some (tc, .ifaceEmpty)
  | .ifaceLit => some (tc, .ident anyName)              -- `return ast.NewIdent("any")`: lossy, see `render_iface_lossy`

mutual
/-- `TypeToExpr`: the node first (its package is imported before those of its type arguments), then the children
    from left to right -/
def render (cur : Option Nat) (pname : Nat → String) : TC → Ty → Option (TC × Ex)
  | tc, .node tag kids =>
    match renderTag cur pname tc tag with
    | none => none
    | some (tc1, etag) =>
      match renderList cur pname tc1 kids with
      | none => none
      | some (tc2, es) => some (tc2, .node etag es)
def renderList (cur : Option Nat) (pname : Nat → String) : TC → List Ty → Option (TC × List Ex)
  | tc, [] => some (tc, [])
  | tc, t :: ts =>
    match render cur pname tc t with
    | none => none
    | some (tc1, e) =>
      match renderList cur pname tc1 ts with
      | none => none
      | some (tc2, es) => some (tc2, e :: es)
end

/-- what an expression denotes in the output file: an unqualified identifier is a predeclared name or a type of the
    package the file is written for; a qualifier is looked up in the file's import table -/
def resolveTag (cur : Option Nat) (tc : TC) : ETag → Option Tag
  | .ident n => if n < 16 then some (.basic n) else cur.map (fun c => .named c n)
  | .sel q name => (tc.used.lookup q).map (fun p => .named p name)
  | .star => some .ptr
  | .slice => some .slice
  | .arr n => some (.arr n)
  | .map => some .map
  | .chan d => some (.chan d)
  | .func n => some (.func n)
  | .ellipsis => some .variadic
  | .struct fs => some (.struct fs)
  | .ifaceEmpty => some .ifaceEmpty

mutual
def resolve (cur : Option Nat) (tc : TC) : Ex → Option Ty
  | .node etag es =>
    match resolveTag cur tc etag with
    | none => none
    | some tag =>
      match resolveList cur tc es with
      | none => none
      | some ts => some (.node tag ts)
def resolveList (cur : Option Nat) (tc : TC) : List Ex → Option (List Ty)
  | [] => some []
  | e :: es =>
    match resolve cur tc e with
    | none => none
    | some t =>
      match resolveList cur tc es with
      | none => none
      | some ts => some (t :: ts)
end

mutual
/-- the qualifiers an expression mentions -/
def quals : Ex → List String
  | .node (.sel q _) es => q :: qualsList es
  | .node _ es => qualsList es
def qualsList : List Ex → List String
  | [] => []
  | e :: es => quals e ++ qualsList es
end

mutual
/-- the types `TypeToExpr` can spell faithfully for a file of package `c`: predeclared names are `< 16`, the names of
    declared types `≥ 16` (a package that declares its own `error` or `string` is outside), and there is no non-empty
    interface literal -/
def WF : Ty → Bool
  | .node tag kids =>
    (match tag with
     | .basic n => decide (n < 16)
     | .named _ name => decide (16 ≤ name)
     | .ifaceLit => false
     | _ => true) && WFList kids
def WFList : List Ty → Bool
  | [] => true
  | t :: ts => WF t && WFList ts
end

/-! ## printing (driver protocol) -/

def basicNames : List String := ["int", "string", "bool", "float64", "error", "any", "byte", "uint8",
  "int8", "int64", "uint", "float32", "complex128", "uintptr", "rune", "uint16"]

def nameStr (n : Nat) : String := if n < 16 then basicNames.getD n ("B" ++ toString n) else "N" ++ toString (n - 16)

def fieldStr (f : Nat × Bool) (s : String) : String := if f.2 then "~" ++ s else "F" ++ toString f.1 ++ " " ++ s

def zipFields : List (Nat × Bool) → List String → List String
  | f :: fs, s :: ss => fieldStr f s :: zipFields fs ss
  | _, _ => []

mutual
def exStr : Ex → String
  | .node tag es =>
    let ks := exStrs es
    match tag with
    | .ident n => nameStr n ++ (if ks.isEmpty then "" else "[" ++ ",".intercalate ks ++ "]")
    | .sel q n => q ++ "." ++ nameStr n ++ (if ks.isEmpty then "" else "[" ++ ",".intercalate ks ++ "]")
    | .star => "*" ++ "".intercalate ks
    | .slice => "[]" ++ "".intercalate ks
    | .arr n => "[" ++ toString n ++ "]" ++ "".intercalate ks
    | .map => "map[" ++ ks.getD 0 "?" ++ "]" ++ ks.getD 1 "?"
    | .chan d => "chan" ++ toString d ++ "(" ++ "".intercalate ks ++ ")"
    | .func n => "func(" ++ ",".intercalate (ks.take n) ++ ";" ++ ",".intercalate (ks.drop n) ++ ")"
    | .ellipsis => "..." ++ "".intercalate ks
    | .struct fs => "struct{" ++ ";".intercalate (zipFields fs ks) ++ "}"
    | .ifaceEmpty => "interface{}"
def exStrs : List Ex → List String
  | [] => []
  | e :: es => exStr e :: exStrs es
end

end TConv
