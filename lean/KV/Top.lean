import KV.SupProof
import KV.Final
/-! Prototype (scratch): the top-level theorem — for every declaration the model accepts, the emitted
    program cannot deadlock, whatever the interleaving. -/
namespace KV

theorem supOK_of_supOK' {provs : List PSpec} {sup : SupMap} (h : SupOK' provs sup) : SupOK provs sup :=
  fun t p gi hl => (h t p gi hl).2

theorem gwf2_single_arg (provs : List PSpec) (ret : Nat) :
    GWF2 { provs := provs, nodes := [{ isArg := true, ty := ret }], edges := [[]], rev := [[]], retNode := 0, retIdx := 0 } := by
  have hE : ∀ n, ([[]] : List (List Edge)).getD n [] = [] := by
    intro n; cases n <;> simp [List.getD_eq_getElem?_getD]
  have hR : ∀ n, ([[]] : List (List Nat)).getD n [] = [] := by
    intro n; cases n <;> simp [List.getD_eq_getElem?_getD]
  refine { slotLt := ?_, dstLt := ?_, revLen := rfl, slotsEq := ?_, edgeUnique := ?_, srcLt := ?_, revEdge := ?_ }
  · intro n e he; change e ∈ ([[]] : List (List Edge)).getD n [] at he; rw [hE] at he; simp at he
  · intro n e he; change e ∈ ([[]] : List (List Edge)).getD n [] at he; rw [hE] at he; simp at he
  · intro m hm
    simp at hm; subst hm
    simp [nodeSlots, List.getD_eq_getElem?_getD]
  · intro n n' e e' he; change e ∈ ([[]] : List (List Edge)).getD n [] at he; rw [hE] at he; simp at he
  · intro n e he; change e ∈ ([[]] : List (List Edge)).getD n [] at he; rw [hE] at he; simp at he
  · intro m i d hr
    change (([[]] : List (List Nat)).getD m [])[i]? = some d at hr
    rw [hR] at hr; simp at hr

/-- the graph built by the model of `NewGraph` is well-formed -/
theorem newGraph2_gwf {provs0 : List PSpec} {ret : Nat} {g : Graph} (h : newGraph2 provs0 ret = .ok g) : GWF2 g := by
  simp only [newGraph2, bind, Except.bind] at h
  split at h
  · cases h
  · rename_i sup1 hs1
    split at h
    · cases h
    · rename_i r hs2
      obtain ⟨provs, sup⟩ := r
      have hsup1 : SupOK' provs0 sup1 :=
        pass1_ok (provs := provs0) provs0 [] (by simp) rfl (by intro t p gi hl; simp at hl) hs1
      have hsup : SupOK' provs sup := pass2_ok _ hsup1 hs2
      simp only at h
      split at h
      · simp only [pure, Except.pure] at h
        cases h
        exact gwf2_single_arg provs ret
      · rename_i rp ri hlook
        split at h
        · cases h
        · split at h
          · cases h
          · rename_i hq _
            simp only [pure, Except.pure] at h
            cases h
            have hb := bfsLoop_inv (supOK_of_supOK' hsup) (bfsFuel provs) (bfsInit_inv provs rp)
            have hqe : (bfsLoop provs sup (bfsFuel provs) (bfsInit rp)).queue = [] := by
              cases hqq : (bfsLoop provs sup (bfsFuel provs) (bfsInit rp)).queue with
              | nil => rfl
              | cons a as => rw [hqq] at hq; simp at hq
            exact gwf2_of_binv hb hqe ri

/-- **Top-level theorem (prototype).** For every declaration accepted by the model of the planner
    (`newGraph2`, `build2`, `buildStmts2` all succeed), the emitted program can always make a step while any
    thread still has an operation to execute: no schedule deadlocks. -/
theorem kessoku_no_deadlock {provs0 : List PSpec} {ret : Nat} {g : Graph} {b : BuildOut}
    {parent : List Nat} {chains : List (List Nat)}
    (hg : newGraph2 provs0 ret = .ok g) (hb : build2 g = .ok b)
    (hs : buildStmts2 g b.pools = .ok (parent, chains))
    (s : T1.Pcs) (hpend : ∃ t op, T1.Pending (emitPlan b parent chains) s t op) :
    ∃ t, T1.Enabled (emitPlan b parent chains) s t :=
  plan_no_deadlock_of_gwf (newGraph2_gwf hg) hb hs hpend

end KV
