import KV.T1
/-! Prototype (scratch): emission of the micro-op program from node blocks, and the proof that
plan-level facts give the rank-based WF of `T1`. -/
namespace T1

structure NodeInfo where
  id : Nat
  args : List (Nat × Bool)     -- (variable, waited?)  waited = IsWait ∧ withChannel
  rets : List (Nat × Bool)     -- (variable, hasChannel?)
deriving Repr

def waitsOf (nd : NodeInfo) : List Op := (nd.args.filter (·.2)).map (fun a => Op.wait nd.id a.1)
def closesOf (nd : NodeInfo) : List Op := (nd.rets.filter (·.2)).map (fun r => Op.close nd.id r.1)
def enterOf (nd : NodeInfo) : Op := .enter nd.id (nd.args.map (·.1))
def exitOf (nd : NodeInfo) : Op := .exit nd.id (nd.rets.map (·.1))
def block (nd : NodeInfo) : List Op := waitsOf nd ++ ([enterOf nd, exitOf nd] ++ closesOf nd)

def spawns (ngo : Nat) : List Op := (List.range ngo).map (fun g => Op.spawn (g + 1))
def tailOps (ngo : Nat) (retVar : Nat) : List Op := (if ngo = 0 then [] else [Op.egwait]) ++ [Op.ret retVar]
def mainThread (main : List NodeInfo) (ngo : Nat) (retVar : Nat) : List Op :=
  spawns ngo ++ (main.flatMap block ++ tailOps ngo retVar)

def emit (main : List NodeInfo) (gos : List (List NodeInfo)) (retVar : Nat) : Prog :=
  ⟨mainThread main gos.length retVar :: gos.map (·.flatMap block)⟩

def rankOf (pos : Nat → Nat) (N : Nat) : Op → Nat
  | .spawn _ => 0
  | .wait o _ => 4 * pos o + 1
  | .enter o _ => 4 * pos o + 2
  | .exit o _ => 4 * pos o + 3
  | .close o _ => 4 * pos o + 4
  | .egwait => 4 * N + 5
  | .ret _ => 4 * N + 6

/-- every op of a block of node `nd` has rank in [4 pos + 1, 4 pos + 4] and owner `nd.id` -/
theorem rank_block {pos : Nat → Nat} {N : Nat} {nd : NodeInfo} {op : Op} (h : op ∈ block nd) :
    4 * pos nd.id + 1 ≤ rankOf pos N op ∧ rankOf pos N op ≤ 4 * pos nd.id + 4 := by
  simp only [block, waitsOf, closesOf, enterOf, exitOf, List.mem_append, List.mem_map, List.mem_filter,
    List.mem_cons, List.mem_nil_iff, or_false] at h
  rcases h with ⟨a, _, rfl⟩ | (rfl | rfl) | ⟨r, _, rfl⟩ <;> simp [rankOf] <;> omega

theorem block_sorted (pos : Nat → Nat) (N : Nat) (nd : NodeInfo) :
    (block nd).Pairwise (fun a b => rankOf pos N a ≤ rankOf pos N b) := by
  simp only [block, waitsOf, closesOf, enterOf, exitOf]
  rw [List.pairwise_append]
  refine ⟨?_, ?_, ?_⟩
  · rw [List.pairwise_map]
    exact List.Pairwise.imp (fun _ => by simp [rankOf]) (List.pairwise_of_forall (R := fun _ _ => True) (fun _ _ => trivial))
  · simp only [List.cons_append, List.nil_append, List.pairwise_cons, List.mem_cons, List.mem_map,
      List.mem_filter]
    refine ⟨?_, ?_, ?_⟩
    · intro b hb
      rcases hb with rfl | ⟨r, _, rfl⟩ <;> simp [rankOf]
    · intro b hb
      obtain ⟨r, _, rfl⟩ := hb
      simp [rankOf]
    · rw [List.pairwise_map]
      exact List.Pairwise.imp (fun _ => by simp [rankOf]) (List.pairwise_of_forall (R := fun _ _ => True) (fun _ _ => trivial))
  · intro a ha b hb
    simp only [List.mem_map, List.mem_filter] at ha
    obtain ⟨x, _, rfl⟩ := ha
    simp only [List.cons_append, List.nil_append, List.mem_cons, List.mem_map, List.mem_filter] at hb
    rcases hb with rfl | rfl | ⟨r, _, rfl⟩ <;> simp [rankOf] <;> omega

theorem blocks_sorted (pos : Nat → Nat) (N : Nat) (l : List NodeInfo)
    (hs : l.Pairwise (fun a b => pos a.id < pos b.id)) :
    (l.flatMap block).Pairwise (fun a b => rankOf pos N a ≤ rankOf pos N b) := by
  rw [List.pairwise_flatMap]
  refine ⟨fun nd _ => block_sorted pos N nd, ?_⟩
  exact List.Pairwise.imp (fun {a b} hab x hx y hy => by
    have h1 := (rank_block (pos := pos) (N := N) hx).2
    have h2 := (rank_block (pos := pos) (N := N) hy).1
    omega) hs

/-! ### threads of the emitted program -/

def threadNodes (main : List NodeInfo) (gos : List (List NodeInfo)) (t : Nat) : List NodeInfo :=
  match t with
  | 0 => main
  | g + 1 => gos.getD g []

theorem thread_emit_zero (main : List NodeInfo) (gos : List (List NodeInfo)) (rv : Nat) :
    thread (emit main gos rv) 0 = mainThread main gos.length rv := by
  simp [thread, emit]

theorem thread_emit_succ (main : List NodeInfo) (gos : List (List NodeInfo)) (rv g : Nat) :
    thread (emit main gos rv) (g + 1) = (gos.getD g []).flatMap block := by
  simp only [thread, emit, List.getD_eq_getElem?_getD, List.getElem?_cons_succ, List.getElem?_map]
  cases gos[g]? <;> simp

/-- membership of an op in a thread: either a block op of a node of that thread, or (thread 0) a spawn / tail op -/
theorem mem_thread_emit {main : List NodeInfo} {gos : List (List NodeInfo)} {rv t : Nat} {op : Op}
    (h : op ∈ thread (emit main gos rv) t) :
    (∃ nd ∈ threadNodes main gos t, op ∈ block nd) ∨
    (t = 0 ∧ (op ∈ spawns gos.length ∨ op ∈ tailOps gos.length rv)) := by
  cases t with
  | zero =>
    rw [thread_emit_zero] at h
    simp only [mainThread, List.mem_append, List.mem_flatMap] at h
    rcases h with h | ⟨nd, hnd, hop⟩ | h
    · exact Or.inr ⟨rfl, Or.inl h⟩
    · exact Or.inl ⟨nd, hnd, hop⟩
    · exact Or.inr ⟨rfl, Or.inr h⟩
  | succ g =>
    rw [thread_emit_succ] at h
    simp only [List.mem_flatMap] at h
    obtain ⟨nd, hnd, hop⟩ := h
    exact Or.inl ⟨nd, hnd, hop⟩

theorem block_mem_thread {main : List NodeInfo} {gos : List (List NodeInfo)} {rv t : Nat} {nd : NodeInfo} {op : Op}
    (hnd : nd ∈ threadNodes main gos t) (hop : op ∈ block nd) : op ∈ thread (emit main gos rv) t := by
  cases t with
  | zero =>
    rw [thread_emit_zero]
    simp only [mainThread, List.mem_append, List.mem_flatMap]
    exact Or.inr (Or.inl ⟨nd, hnd, hop⟩)
  | succ g =>
    rw [thread_emit_succ]
    simp only [List.mem_flatMap]
    exact ⟨nd, hnd, hop⟩

/-! ### plan-level facts -/

structure PlanFacts (main : List NodeInfo) (gos : List (List NodeInfo)) (pos : Nat → Nat) (N : Nat) : Prop where
  posLt : ∀ t, ∀ nd ∈ threadNodes main gos t, pos nd.id < N
  sorted : ∀ t, (threadNodes main gos t).Pairwise (fun a b => pos a.id < pos b.id)
  /-- a waited argument has a producer with a channel and a smaller Kahn position -/
  waitCloser : ∀ t, ∀ nd ∈ threadNodes main gos t, ∀ v, (v, true) ∈ nd.args →
    ∃ t' nd', nd' ∈ threadNodes main gos t' ∧ (v, true) ∈ nd'.rets ∧ pos nd'.id < pos nd.id

theorem tail_rank {pos : Nat → Nat} {N ngo rv : Nat} {op : Op} (h : op ∈ tailOps ngo rv) :
    4 * N + 5 ≤ rankOf pos N op := by
  simp only [tailOps, List.mem_append, List.mem_singleton] at h
  rcases h with h | rfl
  · split at h
    · simp at h
    · simp at h; subst h; simp [rankOf]
  · simp [rankOf]

theorem spawn_rank {pos : Nat → Nat} {N ngo : Nat} {op : Op} (h : op ∈ spawns ngo) : rankOf pos N op = 0 := by
  simp only [spawns, List.mem_map] at h
  obtain ⟨g, _, rfl⟩ := h
  rfl

theorem tail_sorted (pos : Nat → Nat) (N ngo rv : Nat) :
    (tailOps ngo rv).Pairwise (fun a b => rankOf pos N a ≤ rankOf pos N b) := by
  simp only [tailOps]
  split <;> simp [rankOf]

theorem emit_wf {main : List NodeInfo} {gos : List (List NodeInfo)} {pos : Nat → Nat} {N rv : Nat}
    (hf : PlanFacts main gos pos N) : WF (emit main gos rv) (rankOf pos N) where
  sorted := by
    intro t
    cases t with
    | zero =>
      rw [thread_emit_zero]
      simp only [mainThread]
      rw [List.pairwise_append]
      refine ⟨?_, ?_, ?_⟩
      · exact List.pairwise_of_forall_mem_list (fun a ha b hb => by rw [spawn_rank ha, spawn_rank hb]; exact Nat.le_refl _)
      · rw [List.pairwise_append]
        refine ⟨blocks_sorted pos N main (hf.sorted 0), tail_sorted pos N _ rv, ?_⟩
        intro a ha b hb
        simp only [List.mem_flatMap] at ha
        obtain ⟨nd, hnd, hop⟩ := ha
        have h1 := (rank_block (pos := pos) (N := N) hop).2
        have h2 := tail_rank (pos := pos) (N := N) hb
        have h3 := hf.posLt 0 nd hnd
        omega
      · intro a ha b _
        rw [spawn_rank ha]; exact Nat.zero_le _
    | succ g =>
      rw [thread_emit_succ]
      exact blocks_sorted pos N _ (hf.sorted (g + 1))
  waitClose := by
    intro t o c h
    rcases mem_thread_emit h with ⟨nd, hnd, hop⟩ | ⟨_, h | h⟩
    · -- the wait belongs to node nd's block: so o = nd.id and (c,true) ∈ nd.args
      have hw : (c, true) ∈ nd.args ∧ o = nd.id := by
        simp only [block, waitsOf, closesOf, enterOf, exitOf, List.mem_append, List.mem_map,
          List.mem_filter, List.mem_cons, List.mem_nil_iff, or_false] at hop
        rcases hop with ⟨a, ⟨ha, ha2⟩, heq⟩ | (h | h) | ⟨r, _, h⟩
        · cases heq
          have : a = (a.1, true) := by cases a; simp_all
          exact ⟨this ▸ ha, rfl⟩
        · cases h
        · cases h
        · cases h
      obtain ⟨hv, rfl⟩ := hw
      obtain ⟨t', nd', hnd', hr, hp⟩ := hf.waitCloser t nd hnd c hv
      refine ⟨t', nd'.id, block_mem_thread hnd' ?_, ?_⟩
      · simp only [block, closesOf, List.mem_append, List.mem_map, List.mem_filter]
        exact Or.inr (Or.inr ⟨(c, true), ⟨hr, rfl⟩, rfl⟩)
      · simp only [rankOf]; omega
    · simp only [spawns, List.mem_map] at h
      obtain ⟨g, _, hg⟩ := h; cases hg
    · simp only [tailOps, List.mem_append, List.mem_singleton] at h
      rcases h with h | h
      · split at h <;> simp at h
      · cases h
  spawnBefore := by
    intro g hg0 hgl
    have hgl' : g - 1 < gos.length := by simp [emit] at hgl; omega
    refine ⟨?_, ?_⟩
    · rw [thread_emit_zero]
      simp only [mainThread, spawns, List.mem_append, List.mem_map, List.mem_range]
      exact Or.inl ⟨g - 1, hgl', by congr 1; omega⟩
    · intro op hop
      rcases mem_thread_emit hop with ⟨nd, _, hb⟩ | ⟨h0, _⟩
      · have := (rank_block (pos := pos) (N := N) hb).1
        have h0 : rankOf pos N (.spawn g) = 0 := rfl
        omega
      · omega
  egwaitAfter := by
    intro g hg0 op hop
    rcases mem_thread_emit hop with ⟨nd, hnd, hb⟩ | ⟨h0, _⟩
    · have h1 := (rank_block (pos := pos) (N := N) hb).2
      have h3 := hf.posLt g nd hnd
      have h0 : rankOf pos N .egwait = 4 * N + 5 := rfl
      omega
    · omega
  egwaitMain := by
    intro t h
    rcases mem_thread_emit h with ⟨nd, _, hb⟩ | ⟨h0, _⟩
    · simp only [block, waitsOf, closesOf, enterOf, exitOf, List.mem_append, List.mem_map,
        List.mem_filter, List.mem_cons, List.mem_nil_iff, or_false] at hb
      rcases hb with ⟨a, _, h⟩ | (h | h) | ⟨r, _, h⟩ <;> cases h
    · exact h0

/-! ### data-flow: plan-level facts ⇒ `WFData` of the emitted program -/

theorem enter_mem_block {nd : NodeInfo} {o : Nat} {args : List Nat} (h : Op.enter o args ∈ block nd) :
    o = nd.id ∧ args = nd.args.map (·.1) := by
  simp only [block, waitsOf, closesOf, enterOf, exitOf, List.mem_append, List.mem_map, List.mem_filter,
    List.mem_cons, List.mem_nil_iff, or_false] at h
  rcases h with ⟨a, _, h⟩ | (h | h) | ⟨r, _, h⟩
  · cases h
  · cases h; exact ⟨rfl, rfl⟩
  · cases h
  · cases h

theorem exit_mem_block {nd : NodeInfo} {o : Nat} {rets : List Nat} (h : Op.exit o rets ∈ block nd) :
    o = nd.id ∧ rets = nd.rets.map (·.1) := by
  simp only [block, waitsOf, closesOf, enterOf, exitOf, List.mem_append, List.mem_map, List.mem_filter,
    List.mem_cons, List.mem_nil_iff, or_false] at h
  rcases h with ⟨a, _, h⟩ | (h | h) | ⟨r, _, h⟩
  · cases h
  · cases h
  · cases h; exact ⟨rfl, rfl⟩
  · cases h

theorem close_mem_block {nd : NodeInfo} {o c : Nat} (h : Op.close o c ∈ block nd) :
    o = nd.id ∧ (c, true) ∈ nd.rets := by
  simp only [block, waitsOf, closesOf, enterOf, exitOf, List.mem_append, List.mem_map, List.mem_filter,
    List.mem_cons, List.mem_nil_iff, or_false] at h
  rcases h with ⟨a, _, h⟩ | (h | h) | ⟨r, ⟨hr, hr2⟩, h⟩
  · cases h
  · cases h
  · cases h
  · cases h
    have : r = (r.1, true) := by cases r; simp_all
    exact ⟨rfl, this ▸ hr⟩

theorem exit_in_block (nd : NodeInfo) : exitOf nd ∈ block nd := by
  simp [block]

theorem wait_in_block {nd : NodeInfo} {v : Nat} (h : (v, true) ∈ nd.args) : Op.wait nd.id v ∈ block nd := by
  simp only [block, waitsOf, List.mem_append, List.mem_map, List.mem_filter]
  exact Or.inl ⟨(v, true), ⟨h, rfl⟩, rfl⟩

theorem close_in_block {nd : NodeInfo} {v : Nat} (h : (v, true) ∈ nd.rets) : Op.close nd.id v ∈ block nd := by
  simp only [block, closesOf, List.mem_append, List.mem_map, List.mem_filter]
  exact Or.inr (Or.inr ⟨(v, true), ⟨h, rfl⟩, rfl⟩)

/-- an op of kind enter/exit/close found in a thread belongs to a node block of that thread -/
theorem block_of_mem {main : List NodeInfo} {gos : List (List NodeInfo)} {rv t : Nat} {op : Op}
    (h : op ∈ thread (emit main gos rv) t)
    (hk : (∃ o a, op = .enter o a) ∨ (∃ o r, op = .exit o r) ∨ (∃ o c, op = .close o c)) :
    ∃ nd ∈ threadNodes main gos t, op ∈ block nd := by
  rcases mem_thread_emit h with h1 | ⟨_, h1 | h1⟩
  · exact h1
  · simp only [spawns, List.mem_map] at h1
    obtain ⟨g, _, rfl⟩ := h1
    rcases hk with ⟨_, _, h⟩ | ⟨_, _, h⟩ | ⟨_, _, h⟩ <;> cases h
  · simp only [tailOps, List.mem_append, List.mem_singleton] at h1
    rcases h1 with h1 | rfl
    · split at h1
      · simp at h1
      · simp at h1; subst h1
        rcases hk with ⟨_, _, h⟩ | ⟨_, _, h⟩ | ⟨_, _, h⟩ <;> cases h
    · rcases hk with ⟨_, _, h⟩ | ⟨_, _, h⟩ | ⟨_, _, h⟩ <;> cases h

structure PlanData (main : List NodeInfo) (gos : List (List NodeInfo)) (pos : Nat → Nat) (isParam : Nat → Prop) : Prop where
  /-- a node id occurs in one thread only, once -/
  idsDistinct : ∀ t t' nd nd', nd ∈ threadNodes main gos t → nd' ∈ threadNodes main gos t' →
    nd.id = nd'.id → t = t' ∧ nd = nd'
  /-- a variable is written by one node only -/
  retsOwner : ∀ t t' nd nd' v b b', nd ∈ threadNodes main gos t → nd' ∈ threadNodes main gos t' →
    (v, b) ∈ nd.rets → (v, b') ∈ nd'.rets → nd.id = nd'.id
  /-- every non-parameter argument has an earlier producer, in the same thread or waited for -/
  reads : ∀ t nd, nd ∈ threadNodes main gos t → ∀ v w, (v, w) ∈ nd.args → ¬ isParam v →
    ∃ t' nd' c, nd' ∈ threadNodes main gos t' ∧ (v, c) ∈ nd'.rets ∧ pos nd'.id < pos nd.id ∧
      (t' = t ∨ (w = true ∧ c = true))

theorem emit_wfdata {main : List NodeInfo} {gos : List (List NodeInfo)} {pos : Nat → Nat} {N rv : Nat}
    {isParam : Nat → Prop} (hf : PlanFacts main gos pos N) (hd : PlanData main gos pos isParam) :
    WFData (emit main gos rv) (rankOf pos N) isParam where
  reads := by
    intro t o args v hen hv hnp
    obtain ⟨nd, hnd, hb⟩ := block_of_mem hen (Or.inl ⟨o, args, rfl⟩)
    obtain ⟨rfl, rfl⟩ := enter_mem_block hb
    simp only [List.mem_map] at hv
    obtain ⟨⟨v', w⟩, hvw, rfl⟩ := hv
    obtain ⟨t', nd', c, hnd', hret, hpos, hcase⟩ := hd.reads t nd hnd v' w hvw hnp
    have hexit : Op.exit nd'.id (nd'.rets.map (fun (x : Nat × Bool) => x.1)) ∈ block nd' := exit_in_block nd'
    refine ⟨t', nd'.id, nd'.rets.map (fun (x : Nat × Bool) => x.1), block_mem_thread hnd' hexit, ?_, ?_⟩
    · simp only [List.mem_map]; exact ⟨(v', c), hret, rfl⟩
    · rcases hcase with rfl | ⟨rfl, rfl⟩
      · left
        refine ⟨rfl, ?_⟩
        simp only [rankOf]; omega
      · right
        refine ⟨⟨nd.id, block_mem_thread hnd (wait_in_block hvw), ?_⟩,
                ⟨nd'.id, block_mem_thread hnd' (close_in_block hret), ?_⟩⟩
        · simp only [rankOf]; omega
        · simp only [rankOf]; omega
  closeUnique := by
    intro c t o t' o' h1 h2
    obtain ⟨nd, hnd, hb⟩ := block_of_mem h1 (Or.inr (Or.inr ⟨o, c, rfl⟩))
    obtain ⟨nd', hnd', hb'⟩ := block_of_mem h2 (Or.inr (Or.inr ⟨o', c, rfl⟩))
    obtain ⟨rfl, hr⟩ := close_mem_block hb
    obtain ⟨rfl, hr'⟩ := close_mem_block hb'
    have hid := hd.retsOwner t t' nd nd' c true true hnd hnd' hr hr'
    obtain ⟨ht, hn⟩ := hd.idsDistinct t t' nd nd' hnd hnd' hid
    exact ⟨ht, hid⟩
  exitStrict := by
    intro t
    -- generic fact about a flatMap of blocks over a strictly sorted node list
    have hblocks : ∀ l : List NodeInfo, l.Pairwise (fun a b => pos a.id < pos b.id) →
        (l.flatMap block).Pairwise (fun a b => ∀ o rets, a = Op.exit o rets → b ≠ Op.exit o rets) := by
      intro l hl
      rw [List.pairwise_flatMap]
      refine ⟨?_, ?_⟩
      · intro nd _
        simp only [block, waitsOf, closesOf, enterOf, exitOf]
        rw [List.pairwise_append]
        refine ⟨?_, ?_, ?_⟩
        · rw [List.pairwise_map]
          exact List.pairwise_of_forall (fun _ _ o rets h => by cases h)
        · simp only [List.cons_append, List.nil_append, List.pairwise_cons, List.mem_cons, List.mem_map,
            List.mem_filter]
          refine ⟨?_, ?_, ?_⟩
          · intro b _ o rets h; cases h
          · intro b hb o rets _ hb2
            obtain ⟨r, _, rfl⟩ := hb
            cases hb2
          · rw [List.pairwise_map]
            exact List.pairwise_of_forall (fun _ _ o rets h => by cases h)
        · intro a ha b _ o rets h
          simp only [List.mem_map, List.mem_filter] at ha
          obtain ⟨x, _, rfl⟩ := ha
          cases h
      · exact List.Pairwise.imp (fun {a b} hab x hx y hy o rets h1 h2 => by
          subst h1; subst h2
          have e1 := (exit_mem_block hx).1
          have e2 := (exit_mem_block hy).1
          rw [← e1, ← e2] at hab
          exact Nat.lt_irrefl _ hab) hl
    cases t with
    | zero =>
      rw [thread_emit_zero]
      simp only [mainThread]
      rw [List.pairwise_append]
      refine ⟨?_, ?_, ?_⟩
      · exact List.pairwise_of_forall_mem_list (fun a ha b _ o rets h => by
          simp only [spawns, List.mem_map] at ha
          obtain ⟨g, _, rfl⟩ := ha; cases h)
      · rw [List.pairwise_append]
        refine ⟨hblocks main (hf.sorted 0), ?_, ?_⟩
        · exact List.pairwise_of_forall_mem_list (fun a _ b hb o rets _ h2 => by
            subst h2
            simp only [tailOps, List.mem_append, List.mem_singleton] at hb
            rcases hb with hb | hb
            · split at hb <;> simp at hb
            · cases hb)
        · intro a _ b hb o rets _ h2
          subst h2
          simp only [tailOps, List.mem_append, List.mem_singleton] at hb
          rcases hb with hb | hb
          · split at hb <;> simp at hb
          · cases hb
      · intro a ha b _ o rets h
        simp only [spawns, List.mem_map] at ha
        obtain ⟨g, _, rfl⟩ := ha; cases h
    | succ g =>
      rw [thread_emit_succ]
      exact hblocks _ (hf.sorted (g + 1))
  singleWriter := by
    intro v t o rets t' o' rets' h1 hv h2 hv'
    obtain ⟨nd, hnd, hb⟩ := block_of_mem h1 (Or.inr (Or.inl ⟨o, rets, rfl⟩))
    obtain ⟨nd', hnd', hb'⟩ := block_of_mem h2 (Or.inr (Or.inl ⟨o', rets', rfl⟩))
    obtain ⟨rfl, rfl⟩ := exit_mem_block hb
    obtain ⟨rfl, rfl⟩ := exit_mem_block hb'
    simp only [List.mem_map] at hv hv'
    obtain ⟨⟨v1, b1⟩, hr1, rfl⟩ := hv
    obtain ⟨⟨v2, b2⟩, hr2, hv2⟩ := hv'
    simp only at hv2; subst hv2
    have hid := hd.retsOwner t t' nd nd' v2 b1 b2 hnd hnd' hr1 hr2
    obtain ⟨ht, hn⟩ := hd.idsDistinct t t' nd nd' hnd hnd' hid
    subst hn
    exact ⟨ht, rfl, rfl⟩

end T1
