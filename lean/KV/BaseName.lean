import KV.Dump
import KV.GenConv
/-! # Model of `VarPool.getBaseName` (internal/kessoku/var_pool.go)

`Get(t)` / `GetChannel(t)` derive the base of a variable name from the value's type before they ask `GetName` for a
fresh identifier: pointers are stripped, a named type gives its name with the leading capitals lowered
(`context.Context` gives `ctx`), a basic type gives a fixed word for its kind, everything else gives `val`.

Types are `GConv.Ty`; the declared type names of the driver protocol are `N<k>` (name `16 + k`), package `1000` stands
for `context` and name `16` in it for `Context`.  Tied to the code by the `B` lines of the drivers. -/
namespace BaseName
open GConv

/-- the word for a predeclared name (index into the driver's list of basic names) -/
def basicBase (n : Nat) : String :=
  match GConv.basicNames.getD n "" with
  | "string" => "str"
  | "bool" => "flag"
  | "error" => "error"                      -- a named type of the universe scope: its own name
  | "any" => "val"                          -- an alias (of the empty interface): no case of its own
  | "complex128" => "complex"
  | "uintptr" => "ptr"
  | _ => "num"                              -- every integer and float kind, byte and rune included

def contextPkg : Nat := 1000

/-- `getBaseName` -/
def baseName : Ty → String
  | .node .ptr [t] => baseName t
  | .node (.basic n) _ => basicBase n
  | .node (.named p name) _ => if p = contextPkg ∧ name = 16 then "ctx" else VP.toLowerCamel (GConv.nameStr name)
  | _ => "val"

/-- the base name is never empty for the names the protocol can express (`N<k>`, the basic words) -/
theorem basicBase_ne_empty (n : Nat) : basicBase n ≠ "" := by
  unfold basicBase; split <;> decide

end BaseName
