import KV.FopAsync
import KV.KahnZero
import KV.Kuhn
import KV.Pass1
/-! Prototype (scratch): plan-level core of C05 — a dependency-free Async provider is preceded in its
    pool (= thread) only by dependency-free synchronous providers; hence two of them never share a thread
    and none is sequenced after another Async provider. -/
namespace KV

def ZFirst (g : Graph) (st : P1St) : Prop :=
  ∀ i pre a post, st.pools.getD i [] = pre ++ a :: post → isAsyncNode g a = true → g.rev.getD a [] = [] →
    ∀ m ∈ pre, isAsyncNode g m = false ∧ g.rev.getD m [] = []

def PoolTotal (st : P1St) (done : List Nat) : Prop := (st.pools.map List.length).sum ≤ done.length

theorem sum_lengths_listModify (pools : List (List Nat)) (p n : Nat) (hp : p < pools.length) :
    ((listModify pools p (· ++ [n])).map List.length).sum = (pools.map List.length).sum + 1 := by
  induction pools generalizing p with
  | nil => simp at hp
  | cons x xs ih =>
    cases p with
    | zero => simp [listModify]; omega
    | succ k =>
      have hk : k < xs.length := by simpa using hp
      have := ih k hk
      simp only [listModify, List.getElem?_cons_succ] at this ⊢
      cases hx : xs[k]? with
      | none => rw [List.getElem?_eq_none_iff] at hx; omega
      | some y =>
        rw [hx] at this
        simp only [List.set_cons_succ, List.map_cons, List.sum_cons] at this ⊢
        omega

theorem all_nonempty_sum_ge (pools : List (List Nat)) (h : ∀ i, i < pools.length → pools.getD i [] ≠ []) :
    pools.length ≤ (pools.map List.length).sum := by
  induction pools with
  | nil => simp
  | cons x xs ih =>
    have hx : x ≠ [] := by simpa using h 0 (by simp)
    have hxs : ∀ i, i < xs.length → xs.getD i [] ≠ [] := by
      intro i hi
      have := h (i + 1) (by simpa using hi)
      simpa [List.getD_eq_getElem?_getD] using this
    have := ih hxs
    have hl : 0 < x.length := List.length_pos_iff.mpr hx
    simp only [List.length_cons, List.map_cons, List.sum_cons]
    omega

theorem p1Step_total {g : Graph} {st : P1St} {done : List Nat} (n : Nat) (h : PoolTotal st done) :
    PoolTotal (p1Step g st n) (done ++ [n]) := by
  unfold PoolTotal at *
  unfold p1Step
  by_cases ha : (g.nodes.getD n default).isArg = true
  · simp only [ha, ↓reduceIte, List.length_append, List.length_singleton]; omega
  · simp only [ha, Bool.false_eq_true, ↓reduceIte, List.length_append, List.length_singleton]
    by_cases hp : findOptimalPool2 g n st.pools st.poolProv < st.pools.length
    · rw [sum_lengths_listModify _ _ _ hp]; omega
    · rw [listModify_oob _ _ _ hp]; omega

/-- splitting `old ++ [n]` around an element -/
theorem snoc_split {α} (old pre post : List α) (n a : α) (h : old ++ [n] = pre ++ a :: post) :
    (∃ post', old = pre ++ a :: post') ∨ (pre = old ∧ a = n ∧ post = []) := by
  rcases List.append_eq_append_iff.mp h with ⟨as, h1, h2⟩ | ⟨bs, h1, h2⟩
  · cases as with
    | nil =>
      simp at h2
      right; exact ⟨by simpa using h1, h2.1.symm, h2.2⟩
    | cons x xs => simp at h2
  · cases bs with
    | nil =>
      simp at h2
      right; exact ⟨by simpa using h1.symm, h2.1, h2.2⟩
    | cons b bs' =>
      simp at h2
      left; exact ⟨bs', by rw [h1, h2.1]⟩

theorem p1Step_zfirst {g : Graph} {k : Nat} {done : List Nat} {st : P1St} {n : Nat}
    (h : P1Inv g k done st) (hz : ZFirst g st) (htot : PoolTotal st done)
    (hzero : g.rev.getD n [] = [] → ∀ m ∈ done, g.rev.getD m [] = [])
    (hroom : g.rev.getD n [] = [] → isAsyncNode g n = true → done.length + 1 ≤ k) :
    ZFirst g (p1Step g st n) := by
  unfold p1Step
  by_cases ha : (g.nodes.getD n default).isArg = true
  · simp only [ha, ↓reduceIte]; exact hz
  · simp only [ha, Bool.false_eq_true, ↓reduceIte]
    intro i pre a post hpool hasync hrev
    change (listModify st.pools (findOptimalPool2 g n st.pools st.poolProv) (· ++ [n])).getD i [] = pre ++ a :: post at hpool
    by_cases hip : i = findOptimalPool2 g n st.pools st.poolProv
    · by_cases hpl : i < st.pools.length
      · rw [hip] at hpool
        rw [getD_listModify_self _ _ _ _ (hip ▸ hpl)] at hpool
        rw [← hip] at hpool
        rcases snoc_split _ _ _ _ _ hpool with ⟨post', hold⟩ | ⟨hpre, han, _⟩
        · exact hz i pre a post' hold hasync hrev
        · -- a = n opens behind the whole old pool
          subst han; subst hpre
          have hk : 0 < st.pools.length := Nat.lt_of_le_of_lt (Nat.zero_le _) hpl
          intro m hm
          have hmdone : m ∈ done := (h.sub i).subset hm
          refine ⟨?_, hzero hrev m hmdone⟩
          rcases findOptimalPool2_async_zero g a st.pools st.poolProv hasync hrev hk with ⟨h0, hall⟩ | hemp | hfull
          · rw [← hip] at h0; subst h0; exact hall m hm
          · rw [← hip] at hemp; rw [hemp] at hm; cases hm
          · -- no empty pool: impossible, there are more pools than placed nodes
            exfalso
            have := all_nonempty_sum_ge st.pools hfull
            have hroom' := hroom hrev hasync
            unfold PoolTotal at htot
            rw [h.lenPools] at this
            omega
      · rw [listModify_oob _ _ _ (hip ▸ hpl)] at hpool
        exact hz i pre a post hpool hasync hrev
    · rw [getD_listModify_other _ _ _ _ _ hip] at hpool
      exact hz i pre a post hpool hasync hrev

theorem foldl_p1_zfirst {g : Graph} {k : Nat} (l : List Nat) (done : List Nat) (st : P1St)
    (h : P1Inv g k done st) (hz : ZFirst g st) (htot : PoolTotal st done)
    (hnd : (done ++ l).Nodup) (hlt : ∀ m ∈ l, m < g.nodes.length)
    (hzero : ∀ xs x ys, l = xs ++ x :: ys → g.rev.getD x [] = [] → ∀ m ∈ done ++ xs, g.rev.getD m [] = [])
    (hroom : ∀ xs x ys, l = xs ++ x :: ys → g.rev.getD x [] = [] → isAsyncNode g x = true →
      (done ++ xs).length + 1 ≤ k) :
    ZFirst g (l.foldl (p1Step g) st) := by
  induction l generalizing done st with
  | nil => exact hz
  | cons x xs ih =>
    simp only [List.foldl_cons]
    have hx : x ∉ done := by
      intro hxd
      exact (List.nodup_append.mp hnd).2.2 x hxd x (List.mem_cons_self ..) rfl
    have h1 := p1Step_inv h hx (hlt x (List.mem_cons_self ..))
    have hz1 := p1Step_zfirst h hz htot
      (fun hr m hm => hzero [] x xs rfl hr m (by simpa using hm))
      (fun hr ha => by simpa using hroom [] x xs rfl hr ha)
    apply ih (done ++ [x]) _ h1 hz1 (p1Step_total x htot) (by simpa [List.append_assoc] using hnd)
      (fun m hm => hlt m (List.mem_cons_of_mem _ hm))
    · intro ys y zs hsplit hr m hm
      have := hzero (x :: ys) y zs (by rw [hsplit]; rfl) hr m (by simpa [List.append_assoc] using hm)
      exact this
    · intro ys y zs hsplit hr ha
      have := hroom (x :: ys) y zs (by rw [hsplit]; rfl) hr ha
      simpa [List.append_assoc] using this

/-- **C05, plan level (prototype)**: in the pools computed for any well-formed graph, a dependency-free Async
    provider is preceded in its pool only by dependency-free synchronous providers. -/
theorem bpass1_zfirst {g : Graph} (hg : GWF g) :
    ZFirst g (bpass1 g (topoOrder g) (maxAntichain g)) := by
  obtain ⟨_, hnd, hlt⟩ := topoOrder_sound hg
  unfold bpass1
  apply foldl_p1_zfirst (topoOrder g) [] (p1Init g (maxAntichain g)) (p1Init_inv g _)
  · intro i pre a post hp
    have : (p1Init g (maxAntichain g)).pools.getD i [] = [] := by
      simp only [p1Init, List.getD_eq_getElem?_getD, List.getElem?_replicate]
      split <;> rfl
    rw [this] at hp
    cases pre <;> cases hp
  · simp [PoolTotal, p1Init]
  · simpa using hnd
  · exact hlt
  · intro xs x ys hsplit hr m hm
    exact topoOrder_zero_prefix hg xs ys x hsplit hr m (by simpa using hm)
  · intro xs x ys hsplit hr _
    -- xs ++ [x] is a duplicate-free list of dependency-free nodes, so it is no longer than their number
    have hsub : (xs ++ [x]) ⊆ (List.range g.nodes.length).filter (fun v => decide (g.rev.getD v [] = [])) := by
      intro m hm
      simp only [List.mem_append, List.mem_singleton] at hm
      have hmo : m ∈ topoOrder g := by
        rw [hsplit]
        rcases hm with hm | rfl
        · exact List.mem_append_left _ hm
        · exact List.mem_append_right _ (List.mem_cons_self ..)
      have hmz : g.rev.getD m [] = [] := by
        rcases hm with hm | rfl
        · exact topoOrder_zero_prefix hg xs ys x hsplit hr m hm
        · exact hr
      simp only [List.mem_filter, List.mem_range, decide_eq_true_eq]
      exact ⟨hlt m hmo, hmz⟩
    have hnd' : (xs ++ [x]).Nodup := by
      rw [hsplit] at hnd
      have : (xs ++ x :: ys) = (xs ++ [x]) ++ ys := by simp
      rw [this] at hnd
      exact (List.nodup_append.mp hnd).1
    have h1 := List.Nodup.length_le_of_subset hnd' hsub
    have h2 := maxAntichain_ge_zero_nodes hg
    simp only [List.nil_append]
    simp only [List.length_append, List.length_singleton] at h1
    omega

end KV
