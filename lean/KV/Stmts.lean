import KV.Plan2
import KV.Bfs
/-! Prototype (scratch): `buildStmts` in index form (which pools make up the main thread, which
    become goroutines, in emission order). Must agree with `KV.buildStmts`. -/
namespace KV

structure RSt where
  visited : List Nat        -- pool indices already emitted
  processed : List Nat      -- nodes of emitted pools (plus argument nodes)
  chainIdx : List Nat       -- goroutine pools, emission order
  parentIdx : List Nat      -- pools forming the main thread
  progress : Bool
deriving Repr

def argNodesOf (g : Graph) : List Nat :=
  (List.range g.nodes.length).filter (fun i => (g.nodes.getD i default).isArg)

def firstOf (pools : List (List Nat)) (i : Nat) : Nat := (pools.getD i []).headD 0

def isInitial (g : Graph) (pools : List (List Nat)) (i : Nat) : Bool :=
  !(pools.getD i []).isEmpty && depsIn g (firstOf pools i) (argNodesOf g)

def initStep (pools : List (List Nat)) (st : RSt) (i : Nat) : RSt :=
  if st.visited.contains i then st
  else { st with visited := st.visited ++ [i], processed := st.processed ++ pools.getD i [],
                 chainIdx := st.chainIdx ++ [i] }

def roundStep (g : Graph) (pools : List (List Nat)) (st : RSt) (i : Nat) : RSt :=
  if st.visited.contains i || (pools.getD i []).isEmpty then st
  else if depsIn g (firstOf pools i) st.processed then
    if isAsyncNode g (firstOf pools i) then
      { st with visited := st.visited ++ [i], processed := st.processed ++ pools.getD i [],
                chainIdx := st.chainIdx ++ [i], progress := true }
    else
      { st with visited := st.visited ++ [i], processed := st.processed ++ pools.getD i [],
                parentIdx := st.parentIdx ++ [i], progress := true }
  else st

def round (g : Graph) (pools : List (List Nat)) (st : RSt) : RSt :=
  (List.range pools.length).foldl (roundStep g pools) { st with progress := false }

def rounds (g : Graph) (pools : List (List Nat)) : Nat → RSt → RSt
  | 0, st => st
  | k + 1, st =>
    let st' := round g pools st
    if st'.progress then rounds g pools k st' else st'

def stmtsState (g : Graph) (pools : List (List Nat)) : Option RSt :=
  let initial := (List.range pools.length).filter (isInitial g pools)
  if initial.isEmpty then none
  else
    let pidx := (initial.find? (fun i => !isAsyncNode g (firstOf pools i))).getD (initial.headD 0)
    let st0 : RSt := { visited := [pidx], processed := argNodesOf g ++ pools.getD pidx [], chainIdx := [],
                       parentIdx := [pidx], progress := false }
    let st1 := initial.foldl (initStep pools) st0
    some (rounds g pools (pools.length + 1) st1)

def buildStmts2 (g : Graph) (pools : List (List Nat)) : Except PlanErr (List Nat × List (List Nat)) :=
  match stmtsState g pools with
  | none => .error .noInitial
  | some st => .ok (st.parentIdx.flatMap (pools.getD · []), st.chainIdx.map (pools.getD · []))

def planDump3 (provs : List PSpec) (ret : Nat) : String :=
  match newGraph2 provs ret with
  | .error e => s!"ERR {errStr e}"
  | .ok g =>
    match build2 g with
    | .error e => s!"ERR {errStr e}"
    | .ok b =>
      match buildStmts2 g b.pools with
      | .error e => s!"ERR {errStr e}"
      | .ok (parent, chains) =>
        let hasAsync := (List.range g.nodes.length).any (isAsyncNode g)
        let argTys := b.args.map (fun pi => (g.nodes.getD (b.params.getD pi default).node default).ty)
        let thr := fun (l : List Nat) => " ".intercalate (l.map (dumpCall false g b))
        s!"OK async={hasAsync} err={b.isErr} args={argTys} main=[{thr parent}] go=[{" | ".intercalate (chains.map thr)}]"

end KV
