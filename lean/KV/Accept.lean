import KV.AcceptBfs
import KV.AcceptDfs
import KV.AcceptKahn
import KV.AcceptStmts
import KV.Signature
/-! # C09, acceptance direction — acyclic, unambiguous, sourced declarations are accepted

Composition of

* (a) `bfsLoop_drained` (KV/AcceptBfs.lean): the BFS of `newGraph2` drains its queue with `bfsFuel`;
* (b) `detectCycles_sound` (KV/AcceptDfs.lean): the DFS reports a cycle only if the edge relation has one
  (fuel adequacy included); `cycle_needs` below turns a cycle of the built graph into a cycle of the `Needs`
  relation among providers reachable from the supplier of the requested type;
* (c) `topoOrder_complete` (KV/AcceptKahn.lean): Kahn's order of an acyclic graph contains every node;
* (d) `build2_ok`, `buildStmts2_ok` (KV/AcceptStmts.lean).

Main theorem: `accepted_of_acceptable`.  Together with `cycle_refused` (KV/Refuse.lean) this gives the exact
characterisation `accepted_iff_acyclic`. -/
namespace KV

/-! ## shape of the graph built by `newGraph2` -/

theorem edges_single_nil (n : Nat) : ([[]] : List (List Edge)).getD n [] = [] := by
  cases n <;> simp [List.getD_eq_getElem?_getD]

/-- the return node is node 0, it exists, and edges start at existing nodes -/
theorem graphOf_shape {provs : List PSpec} {sup : SupMap} (hsup : SupOK provs sup) {ret : Nat} {g : Graph}
    (hg : graphOf provs sup ret = .ok g) :
    g.retNode = 0 ∧ 0 < g.nodes.length ∧ (∀ n e, e ∈ g.edges.getD n [] → n < g.nodes.length) := by
  unfold graphOf at hg
  split at hg
  · simp only [pure, Except.pure] at hg
    cases hg
    refine ⟨rfl, by simp, ?_⟩
    intro n e he
    change e ∈ ([[]] : List (List Edge)).getD n [] at he
    rw [edges_single_nil] at he; cases he
  · rename_i rp ri hlook
    simp only at hg
    split at hg
    · cases hg
    · split at hg
      · cases hg
      · simp only [pure, Except.pure] at hg
        cases hg
        have hB := bfsLoop_inv hsup (bfsFuel provs) (bfsInit_inv provs rp)
        have hR : RootIs { isArg := false, prov := rp } (bfsLoop provs sup (bfsFuel provs) (bfsInit rp)) :=
          bfsLoop_root_sig hsup _ (bfsFuel provs) (bfsInit_inv provs rp) ⟨by simp [bfsInit], rfl⟩
        exact ⟨rfl, hR.1, fun n e he => (hB.edgeOK n e he).1⟩

theorem newGraph2_shape {provs0 : List PSpec} {ret : Nat} {g : Graph} (hg : newGraph2 provs0 ret = .ok g) :
    g.retNode = 0 ∧ 0 < g.nodes.length ∧ (∀ n e, e ∈ g.edges.getD n [] → n < g.nodes.length) := by
  obtain ⟨provs, sup, hs, hg'⟩ := supplierMap_of_newGraph2 hg
  exact graphOf_shape (supplierMap_supOK hs) hg'

/-! ## items (c)+(d): an accepted, acyclic graph with a provider node passes `build2` and `buildStmts2` -/

/-- **(c)+(d), general form**: for a well-formed graph without a cycle, whose return node exists, whose edges
    start at existing nodes and which has at least one provider node, `build2` and `buildStmts2` succeed. -/
theorem stages_ok_of_gwf {g : Graph} (hg : GWF2 g) (hret : g.retNode < g.nodes.length)
    (hsrc : ∀ n e, e ∈ g.edges.getD n [] → n < g.nodes.length) (hacyc : ∀ n, ¬ Path g n n)
    (hprov : ∃ n, n < g.nodes.length ∧ (g.nodes.getD n default).isArg = false) :
    ∃ b parent chains, build2 g = .ok b ∧ buildStmts2 g b.pools = .ok (parent, chains) := by
  have hall := topoOrder_complete hg hsrc hacyc
  obtain ⟨b, hb⟩ := build2_ok (hall _ hret)
  obtain ⟨n0, hn0, hna⟩ := hprov
  obtain ⟨parent, chains, hs⟩ := buildStmts2_ok hg hall hn0 hna hb
  exact ⟨b, parent, chains, hb, hs⟩

/-- **Item 1 ((c)+(d)) under the graph-level hypotheses.**  `_partial`: the requested statement has no
    `hprov` hypothesis, but without a provider node it is false — when nobody supplies the requested type the
    graph is a single argument node, no pool is non-empty and `buildStmts2` answers `noInitial` (the known
    deviation; see `no_supplier_refused` below for a concrete instance). -/
theorem stages_ok_of_acyclic_partial {provs0 : List PSpec} {ret : Nat} {g : Graph}
    (hg : newGraph2 provs0 ret = .ok g) (hacyc : ∀ n, ¬ Path g n n)
    (hprov : ∃ n, n < g.nodes.length ∧ (g.nodes.getD n default).isArg = false) :
    ∃ b parent chains, build2 g = .ok b ∧ buildStmts2 g b.pools = .ok (parent, chains) := by
  obtain ⟨hr, hpos, hsrc⟩ := newGraph2_shape hg
  exact stages_ok_of_gwf (newGraph2_gwf hg) (by rw [hr]; exact hpos) hsrc hacyc hprov

/-- the hypothesis `hprov` cannot be dropped: nobody supplies type 5, the graph is accepted by `newGraph2` and
    has no cycle, but the plan is refused with `noInitial` -/
theorem no_supplier_refused : RefuseExamples.errOf (plan [] 5) = some .noInitial := by decide

/-! ## item (b), second half: a cycle of the built graph is a cycle of `Needs` among reachable providers -/

theorem edge_needs {provs : List PSpec} {sup : SupMap} {st : BfsSt} (hp : EProv provs sup st) {d : Nat} {e : Edge}
    (he : e ∈ st.edges.getD d []) :
    (st.nodes.getD e.dst default).isArg = false ∧
    ((st.nodes.getD d default).isArg = false →
      Needs provs sup (st.nodes.getD e.dst default).prov (st.nodes.getD d default).prov) := by
  obtain ⟨t, ht, hpo⟩ := hp d e he
  have hna : (st.nodes.getD e.dst default).isArg = false := by
    cases hd : (st.nodes.getD e.dst default).isArg with
    | false => rfl
    | true => unfold reqOf at ht; rw [hd] at ht; simp at ht
  refine ⟨hna, ?_⟩
  intro hda
  have htm : t ∈ (provs.getD (st.nodes.getD e.dst default).prov default).requires := by
    have := List.mem_of_getElem? ht
    unfold reqOf at this; rw [hna] at this; simpa using this
  rcases hpo with ⟨p, gi, hls, _, hpp, _⟩ | ⟨_, hia, _, _⟩
  · exact ⟨t, htm, gi, by rw [hpp]; exact hls⟩
  · rw [hda] at hia; cases hia

/-- a walk `a → … → b` of the built graph (producer to consumer) is a chain of needs from `b`'s provider back to
    `a`'s provider -/
theorem path_needs {provs : List PSpec} {sup : SupMap} {st : BfsSt} {g : Graph} (hge : g.edges = st.edges)
    (hp : EProv provs sup st) {a b : Nat} (hpath : Path g a b) :
    (st.nodes.getD b default).isArg = false ∧
    ((st.nodes.getD a default).isArg = false →
      Relation.TransGen (Needs provs sup) (st.nodes.getD b default).prov (st.nodes.getD a default).prov) := by
  induction hpath with
  | single e he hm =>
    rw [hge] at he
    obtain ⟨h1, h2⟩ := edge_needs hp he
    rw [hm] at h1 h2
    exact ⟨h1, fun ha => Relation.TransGen.single (h2 ha)⟩
  | cons e he hm _ ih =>
    rw [hge] at he
    obtain ⟨h1, h2⟩ := edge_needs hp he
    rw [hm] at h1 h2
    exact ⟨ih.1, fun ha => Relation.TransGen.tail (ih.2 h1) (h2 ha)⟩

theorem path_src_edge {g : Graph} {a b : Nat} (hp : Path g a b) : ∃ e, e ∈ g.edges.getD a [] := by
  cases hp with
  | single e he _ => exact ⟨e, he⟩
  | cons e he _ _ => exact ⟨e, he⟩

theorem reach_of_needed {provs : List PSpec} {sup : SupMap} {ret rp ri : Nat} (hret : sup.lookup ret = some (rp, ri))
    {q : Nat} (h : Needed provs sup ret q) : Reach (Needs provs sup) rp q := by
  induction h with
  | root hl => rw [hret] at hl; cases hl; exact Reach.refl _
  | step _ ht hl ih => exact Reach.tail ih ⟨_, ht, _, hl⟩

/-- **(b), graph cycle ⇒ declaration cycle**: a cycle in the edges of the BFS state (any fuel) yields a
    provider reachable from the supplier of the requested type that lies on a cycle of the `Needs` relation. -/
theorem cycle_needs {provs : List PSpec} {sup : SupMap} (hsup : SupOK provs sup) {ret rp ri : Nat}
    (hret : sup.lookup ret = some (rp, ri)) {g : Graph}
    (hge : g.edges = (bfsLoop provs sup (bfsFuel provs) (bfsInit rp)).edges)
    (hq : (bfsLoop provs sup (bfsFuel provs) (bfsInit rp)).queue = [])
    {n : Nat} (hpath : Path g n n) :
    ∃ q, Reach (Needs provs sup) rp q ∧ Relation.TransGen (Needs provs sup) q q := by
  have hB0 := bfsInit_inv provs rp
  have hB := bfsLoop_inv hsup (bfsFuel provs) hB0
  have hP := bfsLoop_prov hsup (bfsFuel provs) hB0 (bfsInit_prov provs sup rp)
  have hO : OutBack (bfsLoop provs sup (bfsFuel provs) (bfsInit rp)) := by
    apply bfsLoop_outBack hsup (bfsFuel provs) hB0
    intro n h0 hn
    simp [bfsInit] at hn; omega
  have hR : RootIs { isArg := false, prov := rp } (bfsLoop provs sup (bfsFuel provs) (bfsInit rp)) :=
    bfsLoop_root_sig hsup _ (bfsFuel provs) hB0 ⟨by simp [bfsInit], rfl⟩
  generalize bfsLoop provs sup (bfsFuel provs) (bfsInit rp) = st at hge hq hB hP hO hR
  obtain ⟨hna, hcyc⟩ := path_needs hge hP hpath
  obtain ⟨e, he⟩ := path_src_edge hpath
  rw [hge] at he
  have hnl : n < st.nodes.length := (hB.edgeOK n e he).1
  refine ⟨(st.nodes.getD n default).prov, ?_, hcyc hna⟩
  exact reach_of_needed hret ((bfs_nodes_needed hret hB hP hO hq hR _).mp ⟨n, hnl, hna, rfl⟩)

/-! ## item 4: the acceptance theorem -/

/-- **C09, acceptance.**  A declaration whose supplier map exists (pass 1 and pass 2 succeed: no type has two
    suppliers, every struct expansion has a source), whose requested type has a supplier, and in which no
    provider reachable from that supplier lies on a cycle of the `Needs` relation, is accepted by the planner
    model: `newGraph2`, `build2` and `buildStmts2` all succeed. -/
theorem accepted_of_acceptable {provs0 : List PSpec} {ret : Nat} {provs : List PSpec} {sup : SupMap} {rp ri : Nat}
    (hexp : supplierMap provs0 = .ok (provs, sup))
    (hret : sup.lookup ret = some (rp, ri))
    (hacyc : ∀ q, Reach (Needs provs sup) rp q → ¬ Relation.TransGen (Needs provs sup) q q) :
    ∃ p, plan provs0 ret = .ok p := by
  have hsup' : SupOK' provs sup := supplierMap_supOK_sig hexp
  have hsup : SupOK provs sup := supOK_of_supOK' hsup'
  have hq := bfsLoop_drained hsup' rp
  have hB := bfsLoop_inv hsup (bfsFuel provs) (bfsInit_inv provs rp)
  have hroot := bfsLoop_root provs sup (bfsFuel provs) rp
  have hR : RootIs { isArg := false, prov := rp } (bfsLoop provs sup (bfsFuel provs) (bfsInit rp)) :=
    bfsLoop_root_sig hsup _ (bfsFuel provs) (bfsInit_inv provs rp) ⟨by simp [bfsInit], rfl⟩
  have hnocyc : ∀ g : Graph, g.edges = (bfsLoop provs sup (bfsFuel provs) (bfsInit rp)).edges → ∀ n, ¬ Path g n n := by
    intro g hge n hpath
    obtain ⟨q, hreach, hcyc⟩ := cycle_needs hsup hret hge hq hpath
    exact hacyc q hreach hcyc
  -- the graph `newGraph2` returns
  let g : Graph := { provs := provs, nodes := (bfsLoop provs sup (bfsFuel provs) (bfsInit rp)).nodes,
                     edges := (bfsLoop provs sup (bfsFuel provs) (bfsInit rp)).edges,
                     rev := (bfsLoop provs sup (bfsFuel provs) (bfsInit rp)).rev, retNode := 0, retIdx := ri }
  have hdc : detectCycles (bfsLoop provs sup (bfsFuel provs) (bfsInit rp)).edges
      (bfsLoop provs sup (bfsFuel provs) (bfsInit rp)).nodes.length = false := by
    cases hd : detectCycles (bfsLoop provs sup (bfsFuel provs) (bfsInit rp)).edges
      (bfsLoop provs sup (bfsFuel provs) (bfsInit rp)).nodes.length with
    | false => rfl
    | true =>
      exfalso
      obtain ⟨n, hn⟩ := detectCycles_sound g _ (fun n e he => hB.vLt _ (hB.edgeOK n e he).2.1) hd
      exact hnocyc g rfl n hn
  have hg : newGraph2 provs0 ret = .ok g := by
    rw [newGraph2_of_supplierMap ret hexp]
    unfold graphOf
    rw [hret]
    simp only [hq, hdc, List.isEmpty_nil, Bool.not_true, Bool.false_eq_true, ↓reduceIte]
    rfl
  obtain ⟨b, parent, chains, hb, hs⟩ := stages_ok_of_acyclic_partial hg (hnocyc g rfl)
    ⟨0, hR.1, by show ((bfsLoop provs sup (bfsFuel provs) (bfsInit rp)).nodes.getD 0 default).isArg = false; rw [hroot]⟩
  exact ⟨{ g := g, b := b, parent := parent, chains := chains }, by
    simp only [plan, bind, Except.bind, hg, hb, hs]; rfl⟩

/-- **C09, exact characterisation of acceptance** for a declaration with a supplier map and a supplied requested
    type: accepted iff no provider reachable from the supplier of the requested type lies on a `Needs` cycle. -/
theorem accepted_iff_acyclic {provs0 : List PSpec} {ret : Nat} {provs : List PSpec} {sup : SupMap} {rp ri : Nat}
    (hexp : supplierMap provs0 = .ok (provs, sup)) (hret : sup.lookup ret = some (rp, ri)) :
    (∃ p, plan provs0 ret = .ok p) ↔
      (∀ q, Reach (Needs provs sup) rp q → ¬ Relation.TransGen (Needs provs sup) q q) := by
  constructor
  · rintro ⟨p, hp⟩ q hreach hcyc
    obtain ⟨e, he⟩ := cycle_refused (provs0 := provs0) (ret := ret) hexp hret hreach hcyc
    rw [hp] at he; cases he
  · exact accepted_of_acceptable hexp hret

/-! ## the hypotheses are satisfiable: a small chain with an unsupplied leaf -/
namespace AcceptExamples

/-- provider 0 makes type 1 from types 2 and 3, provider 1 makes 2 from 3, provider 2 makes 3 from the
    unsupplied type 9 (a diamond) -/
def decl : List PSpec :=
  [{ provides := [[1]], requires := [2, 3] }, { provides := [[2]], requires := [3] }, { provides := [[3]], requires := [9] }]

def declSup : SupMap := [(1, (0, 0)), (2, (1, 0)), (3, (2, 0))]

theorem decl_exp : supplierMap decl = .ok (decl, declSup) := by rfl

theorem decl_needs_lt {a b : Nat} (h : Needs decl declSup a b) : a < b := by
  obtain ⟨t, ht, gi, hl⟩ := h
  match a, ht with
  | 0, ht =>
    simp [decl] at ht
    rcases ht with rfl | rfl
    · simp [declSup, List.lookup] at hl; omega
    · simp [declSup, List.lookup] at hl; omega
  | 1, ht =>
    simp [decl] at ht
    subst ht
    simp [declSup, List.lookup] at hl; omega
  | 2, ht =>
    simp [decl] at ht
    subst ht
    simp [declSup, List.lookup] at hl
  | n + 3, ht =>
    simp [decl] at ht
    change t ∈ ([] : List Nat) at ht
    cases ht

theorem decl_trans_lt {a b : Nat} (h : Relation.TransGen (Needs decl declSup) a b) : a < b := by
  induction h with
  | single h1 => exact decl_needs_lt h1
  | tail _ h2 ih => exact Nat.lt_trans ih (decl_needs_lt h2)

example : ∃ p, plan decl 1 = .ok p :=
  accepted_of_acceptable (rp := 0) (ri := 0) decl_exp rfl (fun _ _ hc => Nat.lt_irrefl _ (decl_trans_lt hc))

end AcceptExamples

end KV

#print axioms KV.bfsLoop_drained
#print axioms KV.detectCycles_sound
#print axioms KV.topoOrder_complete
#print axioms KV.stages_ok_of_gwf
#print axioms KV.stages_ok_of_acyclic_partial
#print axioms KV.cycle_needs
#print axioms KV.accepted_of_acceptable
#print axioms KV.accepted_iff_acyclic
