import KV.Refuse
/-! Fuel adequacy of the planner BFS: with `bfsFuel provs` iterations the queue is drained. -/
namespace KV

/-! ## A. counting: pops versus pushes -/

/-- `pickNode` either leaves `queue`/`nodes` alone or appends exactly one element to both -/
theorem pickNode_count (sup : SupMap) (t : Nat) (st : BfsSt) :
    (pickNode sup t st).1.queue.length + st.nodes.length
      = st.queue.length + (pickNode sup t st).1.nodes.length := by
  unfold pickNode
  split
  · split
    · rfl
    · simp only [addNode, List.length_append, List.length_cons, List.length_nil]; omega
  · split
    · rfl
    · simp only [addNode, List.length_append, List.length_cons, List.length_nil]; omega

theorem reqStep_count (sup : SupMap) (n1 i t : Nat) (st : BfsSt) :
    (reqStep sup n1 i t st).queue.length + st.nodes.length
      = st.queue.length + (reqStep sup n1 i t st).nodes.length :=
  pickNode_count sup t st

theorem bfsRequires_count (provs : List PSpec) (sup : SupMap) (n1 : Nat) (ts : List Nat) :
    ∀ (i : Nat) (st : BfsSt),
      (bfsRequires provs sup n1 i ts st).queue.length + st.nodes.length
        = st.queue.length + (bfsRequires provs sup n1 i ts st).nodes.length := by
  induction ts with
  | nil => intro i st; rfl
  | cons t ts ih =>
    intro i st
    rw [bfsRequires_cons]
    have h1 := ih (i + 1) (reqStep sup n1 i t st)
    have h2 := reqStep_count sup n1 i t st
    omega

/-- unless the queue empties, exactly `fuel` iterations run; each pops one entry and every created
node is pushed exactly once -/
theorem bfsLoop_count (provs : List PSpec) (sup : SupMap) :
    ∀ (fuel : Nat) (st : BfsSt),
      (bfsLoop provs sup fuel st).queue = [] ∨
      (bfsLoop provs sup fuel st).queue.length + st.nodes.length + fuel
        = st.queue.length + (bfsLoop provs sup fuel st).nodes.length := by
  intro fuel
  induction fuel with
  | zero => intro st; right; simp only [bfsLoop]; omega
  | succ k ih =>
    intro st
    simp only [bfsLoop]
    split
    · rename_i hq; exact Or.inl hq
    · rename_i n1 q hq
      have hql : st.queue.length = q.length + 1 := by rw [hq]; rfl
      split
      · rcases ih { st with queue := q } with h | h
        · exact Or.inl h
        · right
          have h' : (bfsLoop provs sup k { st with queue := q }).queue.length + st.nodes.length + k
              = q.length + (bfsLoop provs sup k { st with queue := q }).nodes.length := h
          omega
      · split
        · rcases ih { st with queue := q, visited := st.visited ++ [n1] } with h | h
          · exact Or.inl h
          · right
            have h' : (bfsLoop provs sup k { st with queue := q, visited := st.visited ++ [n1] }).queue.length
                  + st.nodes.length + k
                = q.length
                  + (bfsLoop provs sup k { st with queue := q, visited := st.visited ++ [n1] }).nodes.length := h
            omega
        · rename_i nd hsome
          split
          · rcases ih { st with queue := q, visited := st.visited ++ [n1] } with h | h
            · exact Or.inl h
            · right
              have h' : (bfsLoop provs sup k { st with queue := q, visited := st.visited ++ [n1] }).queue.length
                    + st.nodes.length + k
                  = q.length
                    + (bfsLoop provs sup k { st with queue := q, visited := st.visited ++ [n1] }).nodes.length := h
              omega
          · have hr := bfsRequires_count provs sup n1 (provs.getD nd.prov default).requires 0
              { st with queue := q, visited := st.visited ++ [n1] }
            have hr' : (bfsRequires provs sup n1 0 (provs.getD nd.prov default).requires
                  { st with queue := q, visited := st.visited ++ [n1] }).queue.length + st.nodes.length
                = q.length + (bfsRequires provs sup n1 0 (provs.getD nd.prov default).requires
                  { st with queue := q, visited := st.visited ++ [n1] }).nodes.length := hr
            rcases ih (bfsRequires provs sup n1 0 (provs.getD nd.prov default).requires
                { st with queue := q, visited := st.visited ++ [n1] }) with h | h
            · exact Or.inl h
            · right; omega

/-! ## B. the count invariant -/

/-- every node except the root is registered once in `provNode` or `argNode`, whose keys are distinct
provider indices resp. distinct required type keys -/
structure CountInv (provs : List PSpec) (st : BfsSt) : Prop where
  len : st.nodes.length = 1 + st.provNode.length + st.argNode.length
  pnd : (st.provNode.map (·.1)).Nodup
  plt : ∀ p ∈ st.provNode.map (·.1), p < provs.length
  and : (st.argNode.map (·.1)).Nodup
  areq : ∀ t ∈ st.argNode.map (·.1), t ∈ provs.flatMap (·.requires)

theorem countInv_init (provs : List PSpec) (rp : Nat) : CountInv provs (bfsInit rp) where
  len := rfl
  pnd := List.nodup_nil
  plt := fun _ h => nomatch h
  and := List.nodup_nil
  areq := fun _ h => nomatch h

theorem lookup_none_not_mem_keys (l : List (Nat × Nat)) (k : Nat) (h : l.lookup k = none) :
    k ∉ l.map (·.1) := by
  induction l with
  | nil => intro hm; cases hm
  | cons a l ih =>
    obtain ⟨a1, a2⟩ := a
    simp only [List.lookup] at h
    split at h
    · cases h
    · rename_i hne
      intro hm
      simp only [List.map_cons, List.mem_cons] at hm
      rcases hm with rfl | hm
      · simp at hne
      · exact ih h hm

theorem nodup_snoc {l : List Nat} {a : Nat} (h : l.Nodup) (ha : a ∉ l) : (l ++ [a]).Nodup := by
  rw [List.nodup_append]
  refine ⟨h, List.nodup_cons.mpr ⟨List.not_mem_nil, List.nodup_nil⟩, ?_⟩
  intro x hx y hy hxy
  simp only [List.mem_singleton] at hy
  subst hy; subst hxy
  exact ha hx

theorem pickNode_countInv {provs : List PSpec} {sup : SupMap} (hsup : SupOK' provs sup) {t : Nat}
    (ht : t ∈ provs.flatMap (·.requires)) {st : BfsSt} (h : CountInv provs st) :
    CountInv provs (pickNode sup t st).1 := by
  unfold pickNode
  split
  · rename_i p gi hl
    split
    · exact h
    · rename_i hnone
      have hp : p < provs.length := (hsup t p gi hl).1
      have hnm := lookup_none_not_mem_keys _ _ hnone
      refine { len := ?_, pnd := ?_, plt := ?_, and := h.and, areq := h.areq }
      · show (st.nodes ++ [_]).length = 1 + (st.provNode ++ [_]).length + st.argNode.length
        simp only [List.length_append, List.length_cons, List.length_nil]
        have := h.len; omega
      · show (List.map (fun x : Nat × Nat => x.1) (st.provNode ++ [_])).Nodup
        rw [List.map_append]
        exact nodup_snoc h.pnd hnm
      · show ∀ p' ∈ List.map (fun x : Nat × Nat => x.1) (st.provNode ++ [_]), p' < provs.length
        intro p' hp'
        rw [List.map_append, List.mem_append] at hp'
        rcases hp' with hp' | hp'
        · exact h.plt p' hp'
        · simp only [List.map_cons, List.map_nil, List.mem_singleton] at hp'
          subst hp'; exact hp
  · split
    · exact h
    · rename_i hnone
      have hnm := lookup_none_not_mem_keys _ _ hnone
      refine { len := ?_, pnd := h.pnd, plt := h.plt, and := ?_, areq := ?_ }
      · show (st.nodes ++ [_]).length = 1 + st.provNode.length + (st.argNode ++ [_]).length
        simp only [List.length_append, List.length_cons, List.length_nil]
        have := h.len; omega
      · show (List.map (fun x : Nat × Nat => x.1) (st.argNode ++ [_])).Nodup
        rw [List.map_append]
        exact nodup_snoc h.and hnm
      · show ∀ t' ∈ List.map (fun x : Nat × Nat => x.1) (st.argNode ++ [_]), t' ∈ provs.flatMap (·.requires)
        intro t' ht'
        rw [List.map_append, List.mem_append] at ht'
        rcases ht' with ht' | ht'
        · exact h.areq t' ht'
        · simp only [List.map_cons, List.map_nil, List.mem_singleton] at ht'
          subst ht'; exact ht

theorem reqStep_countInv {provs : List PSpec} {sup : SupMap} (hsup : SupOK' provs sup) (n1 i : Nat) {t : Nat}
    (ht : t ∈ provs.flatMap (·.requires)) {st : BfsSt} (h : CountInv provs st) :
    CountInv provs (reqStep sup n1 i t st) :=
  have h' := pickNode_countInv hsup ht h
  ⟨h'.len, h'.pnd, h'.plt, h'.and, h'.areq⟩

theorem bfsRequires_countInv {provs : List PSpec} {sup : SupMap} (hsup : SupOK' provs sup) (n1 : Nat)
    (ts : List Nat) :
    ∀ (i : Nat) {st : BfsSt}, (∀ t ∈ ts, t ∈ provs.flatMap (·.requires)) → CountInv provs st →
      CountInv provs (bfsRequires provs sup n1 i ts st) := by
  induction ts with
  | nil => intro i st _ h; exact h
  | cons t ts ih =>
    intro i st hts h
    rw [bfsRequires_cons]
    exact ih (i + 1) (fun t' ht' => hts t' (List.mem_cons_of_mem _ ht'))
      (reqStep_countInv hsup n1 i (hts t (List.mem_cons_self ..)) h)

theorem requires_mem_allReq (provs : List PSpec) (p : Nat) :
    ∀ t ∈ (provs.getD p default).requires, t ∈ provs.flatMap (·.requires) := by
  intro t ht
  by_cases hp : p < provs.length
  · rw [getD_eq_getElem' _ _ _ hp] at ht
    exact List.mem_flatMap.mpr ⟨provs[p], List.getElem_mem hp, ht⟩
  · have hd : provs.getD p default = default := by
      rw [List.getD_eq_getElem?_getD, List.getElem?_eq_none (by omega)]; rfl
    rw [hd] at ht
    exact nomatch ht

theorem bfsLoop_countInv {provs : List PSpec} {sup : SupMap} (hsup : SupOK' provs sup) :
    ∀ (fuel : Nat) {st : BfsSt}, CountInv provs st → CountInv provs (bfsLoop provs sup fuel st) := by
  intro fuel
  induction fuel with
  | zero => intro st h; simpa only [bfsLoop] using h
  | succ k ih =>
    intro st h
    simp only [bfsLoop]
    split
    · exact h
    · rename_i n1 q hq
      split
      · exact ih ⟨h.len, h.pnd, h.plt, h.and, h.areq⟩
      · have h1 : CountInv provs { st with queue := q, visited := st.visited ++ [n1] } :=
          ⟨h.len, h.pnd, h.plt, h.and, h.areq⟩
        split
        · exact ih h1
        · rename_i nd hsome
          split
          · exact ih h1
          · exact ih (bfsRequires_countInv hsup n1 _ 0 (requires_mem_allReq provs nd.prov) h1)

theorem countInv_nodes_le {provs : List PSpec} {st : BfsSt} (h : CountInv provs st) :
    st.nodes.length ≤ 1 + provs.length + (provs.flatMap (·.requires)).length := by
  have hp : (st.provNode.map (·.1)).length ≤ (List.range provs.length).length :=
    List.Nodup.length_le_of_subset h.pnd (fun p hp => List.mem_range.mpr (h.plt p hp))
  have ha : (st.argNode.map (·.1)).length ≤ (provs.flatMap (·.requires)).length :=
    List.Nodup.length_le_of_subset h.and (fun t ht => h.areq t ht)
  rw [List.length_map, List.length_range] at hp
  rw [List.length_map] at ha
  have := h.len
  omega

/-! ## C. the fuel bound -/

theorem foldl_requires_length (provs : List PSpec) :
    ∀ a : Nat, provs.foldl (fun a p => a + p.requires.length) a
      = a + (provs.flatMap (·.requires)).length := by
  induction provs with
  | nil => intro a; rfl
  | cons p ps ih =>
    intro a
    rw [List.foldl_cons, ih, List.flatMap_cons, List.length_append]
    omega

theorem bfsFuel_bound (provs : List PSpec) :
    1 + provs.length + (provs.flatMap (·.requires)).length < bfsFuel provs := by
  unfold bfsFuel
  rw [foldl_requires_length]
  omega

/-! ## D. the queue is drained -/

theorem bfsLoop_drained {provs : List PSpec} {sup : SupMap} (hsup : SupOK' provs sup) (rp : Nat) :
    (bfsLoop provs sup (bfsFuel provs) (bfsInit rp)).queue = [] := by
  rcases bfsLoop_count provs sup (bfsFuel provs) (bfsInit rp) with h | h
  · exact h
  · have hn := countInv_nodes_le (bfsLoop_countInv hsup (bfsFuel provs) (countInv_init provs rp))
    have hb := bfsFuel_bound provs
    have h1 : (bfsInit rp).nodes.length = 1 := rfl
    have h2 : (bfsInit rp).queue.length = 1 := rfl
    rw [h1, h2] at h
    exact List.eq_nil_of_length_eq_zero (by omega)

/-- the hypothesis is satisfiable on a small non-trivial instance, and the queue is indeed drained -/
example : (bfsLoop [{ requires := [7, 8], provides := [[1]] }, { requires := [8], provides := [[7]] }]
    [(1, (0, 0)), (7, (1, 0))]
    (bfsFuel [{ requires := [7, 8], provides := [[1]] }, { requires := [8], provides := [[7]] }])
    (bfsInit 0)).queue = [] := by decide

end KV
#print axioms KV.bfsLoop_drained
