import KV.GraphWF
import KV.StructRounds
/-! Prototype (scratch): the supplier map built by `newGraph` points at valid result groups. -/
namespace KV

def SupOK' (provs : List PSpec) (sup : SupMap) : Prop :=
  ∀ t p gi, sup.lookup t = some (p, gi) → p < provs.length ∧ gi < (provs.getD p default).provides.length

theorem pass1Types_ok {provs : List PSpec} {pi gi : Nat} (hpi : pi < provs.length)
    (hgi : gi < (provs.getD pi default).provides.length) (ts : List Nat) {m m' : SupMap}
    (h : SupOK' provs m) (hr : pass1Types pi gi ts m = .ok m') : SupOK' provs m' := by
  induction ts generalizing m with
  | nil => simp [pass1Types, pure, Except.pure] at hr; subst hr; exact h
  | cons t ts ih =>
    simp only [pass1Types] at hr
    split at hr
    · split at hr
      · cases hr
      · exact ih h hr
    · apply ih _ hr
      intro t' p g hl
      rcases lookup_snoc _ _ _ _ _ hl with hl' | ⟨_, _, hv⟩
      · exact h t' p g hl'
      · cases hv; exact ⟨hpi, hgi⟩

theorem pass1Groups_ok {provs : List PSpec} {pi : Nat} (hpi : pi < provs.length) (gs : List (List Nat)) {gi : Nat}
    (hlen : gi + gs.length = (provs.getD pi default).provides.length) {m m' : SupMap}
    (h : SupOK' provs m) (hr : pass1Groups pi gi gs m = .ok m') : SupOK' provs m' := by
  induction gs generalizing gi m with
  | nil => simp [pass1Groups, pure, Except.pure] at hr; subst hr; exact h
  | cons g gs ih =>
    simp only [pass1Groups, bind, Except.bind] at hr
    split at hr
    · cases hr
    · rename_i m1 h1
      simp only [List.length_cons] at hlen
      have hgi : gi < (provs.getD pi default).provides.length := by omega
      exact ih (by omega) (pass1Types_ok hpi hgi g h h1) hr

theorem pass1_ok {provs : List PSpec} (ps : List PSpec) {pi : Nat} (pre : List PSpec)
    (hsplit : provs = pre ++ ps) (hpi : pi = pre.length) {m m' : SupMap}
    (h : SupOK' provs m) (hr : pass1 pi ps m = .ok m') : SupOK' provs m' := by
  induction ps generalizing pi pre m with
  | nil => simp [pass1, pure, Except.pure] at hr; subst hr; exact h
  | cons p ps ih =>
    have hnext : provs = (pre ++ [p]) ++ ps := by rw [hsplit]; simp
    simp only [pass1] at hr
    split at hr
    · exact ih (pre ++ [p]) hnext (by simp [hpi]) h hr
    · simp only [bind, Except.bind] at hr
      split at hr
      · cases hr
      · rename_i m1 h1
        have hpil : pi < provs.length := by rw [hsplit, hpi]; simp
        have hget : provs.getD pi default = p := by
          rw [hsplit, hpi]; simp [List.getD_eq_getElem?_getD]
        have := pass1Groups_ok hpil p.provides (gi := 0) (by rw [hget]; simp) h h1
        exact ih (pre ++ [p]) hnext (by simp [hpi]) this hr

theorem supOK'_append {provs : List PSpec} {sup : SupMap} (h : SupOK' provs sup) (extra : List PSpec) :
    SupOK' (provs ++ extra) sup := by
  intro t p gi hl
  obtain ⟨h1, h2⟩ := h t p gi hl
  refine ⟨by simp; omega, ?_⟩
  rw [getD_append_left _ _ _ _ h1]; exact h2

def mkFieldProv (sty decl : Nat) (fname : String) (fty : Nat) : PSpec :=
  { kind := 2, requires := [sty], provides := [[fty]], structTy := sty, fieldName := fname, decl := decl }

theorem expandFields_ok (sty decl : Nat) (fs : List (String × Nat)) {provs provs' : List PSpec} {m m' : SupMap}
    (h : SupOK' provs m) (hr : expandFields sty decl fs provs m = .ok (provs', m')) :
    SupOK' provs' m' ∧ ∃ extra, provs' = provs ++ extra := by
  induction fs generalizing provs m with
  | nil =>
    simp [expandFields, pure, Except.pure] at hr
    obtain ⟨rfl, rfl⟩ := hr
    exact ⟨h, [], by simp⟩
  | cons f fs ih =>
    obtain ⟨fname, fty⟩ := f
    simp only [expandFields] at hr
    split at hr
    · cases hr
    · have hnew : SupOK' (provs ++ [mkFieldProv sty decl fname fty]) (m ++ [(fty, (provs.length, 0))]) := by
        intro t p gi hl
        rcases lookup_snoc _ _ _ _ _ hl with hl' | ⟨_, _, hv⟩
        · exact supOK'_append h _ t p gi hl'
        · cases hv
          refine ⟨by simp, ?_⟩
          simp [List.getD_eq_getElem?_getD, mkFieldProv]
      obtain ⟨h2, extra, he⟩ := ih hnew hr
      exact ⟨h2, mkFieldProv sty decl fname fty :: extra, by rw [he]; simp⟩

theorem pass2Ordered_ok (sps : List PSpec) {provs provs' : List PSpec} {m m' : SupMap}
    (h : SupOK' provs m) (hr : pass2Ordered sps provs m = .ok (provs', m')) : SupOK' provs' m' := by
  induction sps generalizing provs m with
  | nil =>
    simp [pass2Ordered, pure, Except.pure] at hr
    obtain ⟨rfl, rfl⟩ := hr; exact h
  | cons sp sps ih =>
    simp only [pass2Ordered] at hr
    split at hr
    · cases hr
    · simp only [bind, Except.bind] at hr
      split at hr
      · cases hr
      · rename_i r h1
        obtain ⟨provs1, m1⟩ := r
        exact ih (expandFields_ok _ _ _ h h1).1 hr

theorem pass2_ok (sps : List PSpec) {provs provs' : List PSpec} {m m' : SupMap}
    (h : SupOK' provs m) (hr : pass2 sps provs m = .ok (provs', m')) : SupOK' provs' m' := by
  obtain ⟨sps', _, ho⟩ := pass2_ok_ordered hr
  exact pass2Ordered_ok sps' h ho

end KV
