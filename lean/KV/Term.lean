import KV.T1
/-! Prototype (scratch): every run is finite — the number of steps is bounded by the number of ops. -/
namespace T1

/-- reachability with a step counter -/
inductive ReachN (P : Prog) : Nat → Pcs → Prop
  | init : ReachN P 0 (List.replicate P.threads.length 0)
  | step {n s t} : ReachN P n s → Enabled P s t → ReachN P (n + 1) (bump s t)

def total (P : Prog) : Nat := (P.threads.map List.length).sum

theorem sum_set_succ (s : List Nat) (t : Nat) (h : t < s.length) :
    (s.set t (s.getD t 0 + 1)).sum = s.sum + 1 := by
  induction s generalizing t with
  | nil => simp at h
  | cons a as ih =>
    cases t with
    | zero => simp [List.getD_eq_getElem?_getD]; omega
    | succ k =>
      simp only [List.length_cons] at h
      have := ih k (by omega)
      simp only [List.set_cons_succ, List.sum_cons, List.getD_eq_getElem?_getD, List.getElem?_cons_succ] at this ⊢
      omega

/-- pointwise bound of a list by another list of the same length bounds the sums -/
theorem sum_le_of_pointwise : ∀ (s l : List Nat), s.length = l.length → (∀ t, s.getD t 0 ≤ l.getD t 0) → s.sum ≤ l.sum
  | [], [], _, _ => Nat.le_refl _
  | [], _ :: _, h, _ => by simp at h
  | _ :: _, [], h, _ => by simp at h
  | a :: as, b :: bs, h, hp => by
    have h0 := hp 0
    simp [List.getD_eq_getElem?_getD] at h0
    have := sum_le_of_pointwise as bs (by simpa using h) (fun t => by
      have := hp (t + 1)
      simpa [List.getD_eq_getElem?_getD] using this)
    simp only [List.sum_cons]; omega

theorem reachN_inv {P : Prog} {n : Nat} {s : Pcs} (h : ReachN P n s) :
    s.length = P.threads.length ∧ s.sum = n ∧ ∀ t, pc s t ≤ (thread P t).length := by
  induction h with
  | init =>
    refine ⟨by simp, by simp, ?_⟩
    intro t
    simp [pc, List.getD_eq_getElem?_getD, List.getElem?_replicate]
    split <;> simp
  | @step n s t hr he ih =>
    obtain ⟨hlen, hsum, hle⟩ := ih
    have htl : t < s.length := by rw [hlen]; exact he.1
    refine ⟨by simp [bump, hlen], ?_, ?_⟩
    · simp only [bump, pc]
      rw [sum_set_succ s t htl, hsum]
    · intro u
      by_cases hu : u = t
      · subst hu
        rw [pc_bump_self htl]
        obtain ⟨_, op, hop, _, _⟩ := he
        have : pc s u < (thread P u).length := by
          apply Classical.byContradiction; intro hc
          simp [opAt, List.getElem?_eq_none (Nat.le_of_not_lt hc)] at hop
        omega
      · rw [pc_bump_other hu]; exact hle u

/-- **C03 (prototype), termination**: a run can take at most `total P` steps. -/
theorem steps_bounded {P : Prog} {n : Nat} {s : Pcs} (h : ReachN P n s) : n ≤ total P := by
  obtain ⟨hlen, hsum, hle⟩ := reachN_inv h
  rw [← hsum]
  unfold total
  apply sum_le_of_pointwise s (P.threads.map List.length) (by simp [hlen])
  intro t
  have := hle t
  simp only [pc, thread] at this
  by_cases ht : t < P.threads.length
  · simp only [List.getD_eq_getElem?_getD, List.getElem?_map, List.getElem?_eq_getElem ht, Option.map_some,
      Option.getD_some] at this ⊢
    exact this
  · have h1 : P.threads[t]? = none := by simp; omega
    have h2 : s[t]? = none := by simp; omega
    simp [List.getD_eq_getElem?_getD, h1, h2]

end T1
