import KV.Imports
import KV.ImportsProofs
/-! # Reserved local names of the import table (fix 42d40f3 of `NewTypeConverter`)

Since the repair the converter starts with names that no import may take: `kessoku` (the import the writer always
adds) and every identifier declared at package level in the package the file is written for.  In the model they are
entries of `used` that point at a pseudo path which is never imported. -/
namespace Imp

/-- the pseudo path reserved names point at (the Go code uses the empty string, which is no import path) -/
def reservedPath : Nat := 1000000

/-- the table `NewTypeConverter` starts from -/
def TC.withReserved (names : List String) : TC :=
  { imports := [], used := names.map (fun n => (n, reservedPath)), counters := [] }

/-- `Inv` with reserved names: the import table and the name table are inverse to each other on real paths, reserved
    names belong to no import -/
def InvR (tc : TC) : Prop :=
  (∀ p n, tc.imports.lookup p = some n → tc.used.lookup n = some p) ∧
  (∀ n p, tc.used.lookup n = some p → p ≠ reservedPath → tc.imports.lookup p = some n) ∧
  tc.imports.lookup reservedPath = none

end Imp
