import KV.Emit
/-! C03, "when it returns, every goroutine it started has already finished": the `ret` step of the main
    thread is only reached after `egwait`, which is enabled only when every goroutine thread is done. -/
namespace T1

theorem threadDone_mono {P : Prog} {s : Pcs} {t g : Nat} (h : threadDone P s g) : threadDone P (bump s t) g :=
  Nat.le_trans h (pc_mono_bump s t g)

def InvE (P : Prog) (s : Pcs) : Prop :=
  ∀ j, j < pc s 0 → opAt P 0 j = some .egwait → ∀ g, 0 < g → g < P.threads.length → threadDone P s g

theorem invE_reach {P : Prog} {s : Pcs} (h : Reach P s) : InvE P s := by
  induction h with
  | init =>
    intro j hj _
    simp [pc, List.getD_eq_getElem?_getD, List.getElem?_replicate] at hj
    split at hj <;> simp at hj
  | @step s u hr he ih =>
    intro j hj hop g hg hgl
    have hlen := reach_length hr
    by_cases hu : u = 0
    · subst hu
      have hl : 0 < s.length := by rw [hlen]; exact he.1
      rw [pc_bump_self hl] at hj
      by_cases hjl : j < pc s 0
      · exact threadDone_mono (ih j hjl hop g hg hgl)
      · have hjeq : j = pc s 0 := by omega
        subst hjeq
        obtain ⟨_, op, hop', _, hen⟩ := he
        rw [hop] at hop'
        cases hop'
        exact threadDone_mono (hen g hg hgl)
    · rw [pc_bump_other (Ne.symm hu)] at hj
      exact threadDone_mono (ih j hj hop g hg hgl)

/-- in a well-formed program whose main thread contains `egwait` ranked below `ret`, the injector can only
    be at its `ret` when all goroutines have finished -/
theorem joined_at_ret {P : Prog} {rank : Op → Nat} (hw : WF P rank) {s : Pcs} (hr : Reach P s) {v : Nat}
    (hret : opAt P 0 (pc s 0) = some (.ret v)) (heg : Op.egwait ∈ thread P 0) (hrk : rank .egwait < rank (.ret v))
    {g : Nat} (hg : 0 < g) (hgl : g < P.threads.length) : threadDone P s g := by
  obtain ⟨j, hj⟩ := mem_opAt heg
  have hlt : j < pc s 0 := idx_lt_of_rank_lt hw hj hret hrk
  exact invE_reach hr j hlt hj g hg hgl

theorem egwait_mem_emit (main : List NodeInfo) (gos : List (List NodeInfo)) (rv : Nat) (h : gos ≠ []) :
    Op.egwait ∈ thread (emit main gos rv) 0 := by
  have hl : gos.length ≠ 0 := by
    intro e; exact h (List.eq_nil_of_length_eq_zero e)
  simp [thread, emit, mainThread, tailOps, hl]

end T1
