/-! Prototype v2 (scratch): ops carry their owner node; rank = function of the op; WF is stated with
membership and `List.Pairwise`, so that emission (flatMap over node blocks) discharges it easily. -/
namespace T1

inductive Op where
  | wait  (o : Nat) (c : Nat)
  | enter (o : Nat) (args : List Nat)
  | exit  (o : Nat) (rets : List Nat)
  | close (o : Nat) (c : Nat)
  | spawn (g : Nat)
  | egwait
  | ret (v : Nat)
deriving DecidableEq, Repr

structure Prog where
  threads : List (List Op)

abbrev Pcs := List Nat

def thread (P : Prog) (t : Nat) : List Op := P.threads.getD t []
def opAt (P : Prog) (t j : Nat) : Option Op := (thread P t)[j]?
def pc (s : Pcs) (t : Nat) : Nat := s.getD t 0

def closed (P : Prog) (s : Pcs) (c : Nat) : Prop :=
  ∃ t j o, opAt P t j = some (.close o c) ∧ j < pc s t
def spawned (P : Prog) (s : Pcs) (g : Nat) : Prop :=
  g = 0 ∨ ∃ j, opAt P 0 j = some (.spawn g) ∧ j < pc s 0
def threadDone (P : Prog) (s : Pcs) (t : Nat) : Prop := (thread P t).length ≤ pc s t

def enabledOp (P : Prog) (s : Pcs) : Op → Prop
  | .wait _ c => closed P s c
  | .egwait => ∀ g, 0 < g → g < P.threads.length → threadDone P s g
  | _ => True

def Enabled (P : Prog) (s : Pcs) (t : Nat) : Prop :=
  t < P.threads.length ∧ ∃ op, opAt P t (pc s t) = some op ∧ spawned P s t ∧ enabledOp P s op

def bump (s : Pcs) (t : Nat) : Pcs := s.set t (pc s t + 1)

inductive Reach (P : Prog) : Pcs → Prop
  | init : Reach P (List.replicate P.threads.length 0)
  | step {s t} : Reach P s → Enabled P s t → Reach P (bump s t)

theorem pc_bump_self {s : Pcs} {t : Nat} (h : t < s.length) : pc (bump s t) t = pc s t + 1 := by
  simp [pc, bump, List.getD_eq_getElem?_getD, h]

theorem pc_bump_other {s : Pcs} {t u : Nat} (h : u ≠ t) : pc (bump s t) u = pc s u := by
  simp [pc, bump, List.getD_eq_getElem?_getD, Ne.symm h]

theorem pc_mono_bump (s : Pcs) (t u : Nat) : pc s u ≤ pc (bump s t) u := by
  by_cases h : u = t
  · subst h
    by_cases hl : u < s.length
    · rw [pc_bump_self hl]; omega
    · have : s[u]? = none := by simp at hl; simp [hl]
      simp [pc, bump, List.getD_eq_getElem?_getD, this]
  · rw [pc_bump_other h]; exact Nat.le_refl _

theorem reach_length {P : Prog} {s : Pcs} (h : Reach P s) : s.length = P.threads.length := by
  induction h with
  | init => simp
  | step _ _ ih => simpa [bump] using ih

theorem closed_mono {P : Prog} {s : Pcs} {t c : Nat} (h : closed P s c) : closed P (bump s t) c := by
  obtain ⟨t', j, o, h1, h2⟩ := h
  exact ⟨t', j, o, h1, Nat.lt_of_lt_of_le h2 (pc_mono_bump s t t')⟩

theorem opAt_mem {P : Prog} {t j : Nat} {op : Op} (h : opAt P t j = some op) : op ∈ thread P t := by
  simp only [opAt] at h
  exact List.mem_of_getElem? h

theorem mem_opAt {P : Prog} {t : Nat} {op : Op} (h : op ∈ thread P t) : ∃ j, opAt P t j = some op := by
  obtain ⟨j, hj, hget⟩ := List.getElem_of_mem h
  exact ⟨j, by simp [opAt, hj, hget]⟩

theorem thread_nonempty_lt {P : Prog} {t : Nat} {op : Op} (h : op ∈ thread P t) : t < P.threads.length := by
  apply Classical.byContradiction; intro hc
  have hnone : P.threads[t]? = none := by simp; omega
  have : thread P t = [] := by simp [thread, List.getD_eq_getElem?_getD, hnone]
  simp [this] at h

/-! ### rank-based well-formedness (membership + Pairwise) -/

structure WF (P : Prog) (rank : Op → Nat) : Prop where
  sorted : ∀ t, (thread P t).Pairwise (fun a b => rank a ≤ rank b)
  waitClose : ∀ t o c, Op.wait o c ∈ thread P t →
    ∃ t' o', Op.close o' c ∈ thread P t' ∧ rank (.close o' c) < rank (.wait o c)
  spawnBefore : ∀ g, 0 < g → g < P.threads.length →
    Op.spawn g ∈ thread P 0 ∧ ∀ op ∈ thread P g, rank (.spawn g) < rank op
  egwaitAfter : ∀ g, 0 < g → ∀ op ∈ thread P g, rank op < rank .egwait
  egwaitMain : ∀ t, Op.egwait ∈ thread P t → t = 0

/-- in a rank-sorted thread, an op of smaller-or-equal position has smaller-or-equal rank -/
theorem rank_le_of_idx_le {P : Prog} {rank : Op → Nat} (hw : WF P rank) {t i j : Nat} {a b : Op}
    (ha : opAt P t i = some a) (hb : opAt P t j = some b) (hij : i ≤ j) : rank a ≤ rank b := by
  by_cases h : i = j
  · subst h; rw [ha] at hb; cases hb; exact Nat.le_refl _
  · have hlt : i < j := by omega
    have hs := hw.sorted t
    rw [List.pairwise_iff_getElem] at hs
    simp only [opAt] at ha hb
    have hi : i < (thread P t).length := by
      apply Classical.byContradiction; intro hc
      simp [List.getElem?_eq_none (Nat.le_of_not_lt hc)] at ha
    have hj : j < (thread P t).length := by
      apply Classical.byContradiction; intro hc
      simp [List.getElem?_eq_none (Nat.le_of_not_lt hc)] at hb
    have := hs i j hi hj hlt
    rw [List.getElem?_eq_getElem hi] at ha
    rw [List.getElem?_eq_getElem hj] at hb
    cases ha; cases hb; exact this

/-- strictly smaller rank ⇒ strictly earlier position -/
theorem idx_lt_of_rank_lt {P : Prog} {rank : Op → Nat} (hw : WF P rank) {t i j : Nat} {a b : Op}
    (ha : opAt P t i = some a) (hb : opAt P t j = some b) (hr : rank a < rank b) : i < j := by
  apply Classical.byContradiction; intro hc
  have := rank_le_of_idx_le hw hb ha (by omega)
  omega

def Pending (P : Prog) (s : Pcs) (t : Nat) (op : Op) : Prop :=
  t < P.threads.length ∧ opAt P t (pc s t) = some op

/-- an op of thread `t` that is not yet executed dominates the pending op's rank -/
theorem pending_le {P : Prog} {rank : Op → Nat} (hw : WF P rank) {s : Pcs} {t j : Nat} {b : Op}
    (hb : opAt P t j = some b) (hj : ¬ j < pc s t) : ∃ a, Pending P s t a ∧ rank a ≤ rank b := by
  have hjl : j < (thread P t).length := by
    apply Classical.byContradiction; intro hc
    simp [opAt, List.getElem?_eq_none (Nat.le_of_not_lt hc)] at hb
  have hpl : pc s t < (thread P t).length := by omega
  have hpa : opAt P t (pc s t) = some (thread P t)[pc s t] := by
    simp only [opAt]; exact List.getElem?_eq_getElem hpl
  refine ⟨(thread P t)[pc s t], ⟨thread_nonempty_lt (opAt_mem hb), hpa⟩, ?_⟩
  exact rank_le_of_idx_le hw hpa hb (by omega)

theorem blocked_has_lower {P : Prog} {rank : Op → Nat} (hw : WF P rank) {s : Pcs} {t : Nat} {op : Op}
    (hp : Pending P s t op) (hne : ¬ Enabled P s t) :
    ∃ u b, Pending P s u b ∧ rank b < rank op := by
  obtain ⟨htl, hop⟩ := hp
  by_cases hsp : spawned P s t
  · have hop' : ¬ enabledOp P s op := fun h => hne ⟨htl, op, hop, hsp, h⟩
    cases op with
    | wait o c =>
      obtain ⟨t', o', hcl, hr⟩ := hw.waitClose t o c (opAt_mem hop)
      obtain ⟨j', hj'⟩ := mem_opAt hcl
      have hnot : ¬ j' < pc s t' := fun h => hop' ⟨t', j', o', hj', h⟩
      obtain ⟨a, ha, hle⟩ := pending_le hw hj' hnot
      exact ⟨t', a, ha, by omega⟩
    | egwait =>
      simp only [enabledOp] at hop'
      have : ∃ g, 0 < g ∧ g < P.threads.length ∧ ¬ threadDone P s g := by
        apply Classical.byContradiction; intro hc
        apply hop'
        intro g h1 h2
        apply Classical.byContradiction; intro h3
        exact hc ⟨g, h1, h2, h3⟩
      obtain ⟨g, hg0, hgl, hnd⟩ := this
      simp only [threadDone, Nat.not_le] at hnd
      refine ⟨g, (thread P g)[pc s g], ⟨hgl, by simp only [opAt]; exact List.getElem?_eq_getElem hnd⟩, ?_⟩
      exact hw.egwaitAfter g hg0 _ (List.getElem_mem hnd)
    | enter p a => exact absurd trivial hop'
    | exit p r => exact absurd trivial hop'
    | close o c => exact absurd trivial hop'
    | spawn g => exact absurd trivial hop'
    | ret v => exact absurd trivial hop'
  · have ht0 : 0 < t := by
      apply Classical.byContradiction; intro h
      have : t = 0 := by omega
      exact hsp (Or.inl this)
    obtain ⟨hsm, hrk⟩ := hw.spawnBefore t ht0 htl
    obtain ⟨j, hj⟩ := mem_opAt hsm
    have hnot : ¬ j < pc s 0 := fun h => hsp (Or.inr ⟨j, hj, h⟩)
    obtain ⟨a, ha, hle⟩ := pending_le hw hj hnot
    have := hrk op (opAt_mem hop)
    exact ⟨0, a, ha, by omega⟩

theorem progress {P : Prog} {rank : Op → Nat} (hw : WF P rank) {s : Pcs}
    (hp : ∃ t op, Pending P s t op) : ∃ t, Enabled P s t := by
  obtain ⟨t, op, ht⟩ := hp
  generalize hn : rank op = n
  induction n using Nat.strongRecOn generalizing t op with
  | _ n ih =>
    by_cases he : Enabled P s t
    · exact ⟨t, he⟩
    · obtain ⟨u, b, hu, hlt⟩ := blocked_has_lower hw ht he
      exact ih _ (hn ▸ hlt) u b hu rfl

/-! ### invariant, ordering, race freedom -/

def Inv (P : Prog) (s : Pcs) : Prop :=
  ∀ t j o c, j < pc s t → opAt P t j = some (.wait o c) → closed P s c

theorem inv_reach {P : Prog} {s : Pcs} (h : Reach P s) : Inv P s := by
  induction h with
  | init =>
    intro t j o c hj _
    simp [pc, List.getD_eq_getElem?_getD, List.getElem?_replicate] at hj
    split at hj <;> simp at hj
  | @step s u hr he ih =>
    intro t j o c hj hop
    have hlen := reach_length hr
    by_cases htu : t = u
    · subst htu
      have hl : t < s.length := by rw [hlen]; exact he.1
      rw [pc_bump_self hl] at hj
      by_cases hjl : j < pc s t
      · exact closed_mono (ih t j o c hjl hop)
      · have hjeq : j = pc s t := by omega
        subst hjeq
        obtain ⟨_, op, hop', _, hen⟩ := he
        rw [hop] at hop'
        cases hop'
        exact closed_mono hen
    · rw [pc_bump_other htu] at hj
      exact closed_mono (ih t j o c hj hop)

/-- data-flow well-formedness, membership + rank only -/
structure WFData (P : Prog) (rank : Op → Nat) (isParam : Nat → Prop) : Prop where
  reads : ∀ t o args v, Op.enter o args ∈ thread P t → v ∈ args → ¬ isParam v →
    ∃ t' o' rets, Op.exit o' rets ∈ thread P t' ∧ v ∈ rets ∧
      ((t' = t ∧ rank (.exit o' rets) < rank (.enter o args)) ∨
       (∃ ow, Op.wait ow v ∈ thread P t ∧ rank (.wait ow v) < rank (.enter o args)) ∧
        (∃ oc, Op.close oc v ∈ thread P t' ∧ rank (.exit o' rets) < rank (.close oc v)))
  closeUnique : ∀ c t o t' o', Op.close o c ∈ thread P t → Op.close o' c ∈ thread P t' → t = t' ∧ o = o'
  /-- two different positions of a thread never hold the same exit op -/
  exitStrict : ∀ t, (thread P t).Pairwise (fun a b => ∀ o rets, a = Op.exit o rets → b ≠ Op.exit o rets)
  singleWriter : ∀ v t o rets t' o' rets', Op.exit o rets ∈ thread P t → v ∈ rets →
    Op.exit o' rets' ∈ thread P t' → v ∈ rets' → t = t' ∧ o = o' ∧ rets = rets'

def written (P : Prog) (s : Pcs) (v : Nat) : Prop :=
  ∃ t j o rets, opAt P t j = some (.exit o rets) ∧ v ∈ rets ∧ j < pc s t

theorem exit_pos_unique {P : Prog} {rank : Op → Nat} {isParam : Nat → Prop} (hd : WFData P rank isParam)
    {t i j o : Nat} {rets : List Nat} (hi : opAt P t i = some (.exit o rets)) (hj : opAt P t j = some (.exit o rets)) :
    i = j := by
  have hp := hd.exitStrict t
  rw [List.pairwise_iff_getElem] at hp
  simp only [opAt] at hi hj
  have h1 : i < (thread P t).length := by
    apply Classical.byContradiction; intro hc
    simp [List.getElem?_eq_none (Nat.le_of_not_lt hc)] at hi
  have h2 : j < (thread P t).length := by
    apply Classical.byContradiction; intro hc
    simp [List.getElem?_eq_none (Nat.le_of_not_lt hc)] at hj
  rw [List.getElem?_eq_getElem h1] at hi
  rw [List.getElem?_eq_getElem h2] at hj
  have a1 := Option.some.inj hi
  have a2 := Option.some.inj hj
  apply Classical.byContradiction; intro hne
  rcases Nat.lt_or_gt_of_ne hne with hlt | hlt
  · exact hp i j h1 h2 hlt o rets a1 a2
  · exact hp j i h2 h1 hlt o rets a2 a1

theorem enter_after_writes {P : Prog} {rank : Op → Nat} {isParam : Nat → Prop}
    (hw : WF P rank) (hd : WFData P rank isParam) {s : Pcs} (hr : Reach P s)
    {t o : Nat} {args : List Nat} {v : Nat}
    (hop : opAt P t (pc s t) = some (.enter o args)) (hv : v ∈ args) (hnp : ¬ isParam v) :
    written P s v := by
  obtain ⟨t', o', rets, hex, hvr, hcase⟩ := hd.reads t o args v (opAt_mem hop) hv hnp
  obtain ⟨i, hi⟩ := mem_opAt hex
  rcases hcase with ⟨ht, hrk⟩ | ⟨⟨ow, hwt, hrw⟩, ⟨oc, hcl, hrc⟩⟩
  · subst ht
    exact ⟨t', i, o', rets, hi, hvr, idx_lt_of_rank_lt hw hi hop hrk⟩
  · obtain ⟨jw, hjw⟩ := mem_opAt hwt
    have hjw_lt : jw < pc s t := idx_lt_of_rank_lt hw hjw hop hrw
    obtain ⟨t'', k, oc', hk, hklt⟩ := inv_reach hr t jw ow v hjw_lt hjw
    obtain ⟨h1, h2⟩ := hd.closeUnique v t' oc t'' oc' hcl (opAt_mem hk)
    subst h1; subst h2
    have : i < k := idx_lt_of_rank_lt hw hi hk hrc
    exact ⟨t', i, o', rets, hi, hvr, by omega⟩

theorem no_race {P : Prog} {rank : Op → Nat} {isParam : Nat → Prop}
    (hw : WF P rank) (hd : WFData P rank isParam) {s : Pcs} (hr : Reach P s)
    {t t' o o' : Nat} {args rets : List Nat} {v : Nat}
    (hrd : opAt P t (pc s t) = some (.enter o args)) (hv : v ∈ args) (hnp : ¬ isParam v)
    (hwr : opAt P t' (pc s t') = some (.exit o' rets)) (hv' : v ∈ rets) : False := by
  obtain ⟨t'', i, o'', rets'', hi, hvr, hlt⟩ := enter_after_writes hw hd hr hrd hv hnp
  obtain ⟨h1, h2, h3⟩ := hd.singleWriter v t'' o'' rets'' t' o' rets (opAt_mem hi) hvr (opAt_mem hwr) hv'
  subst h1; subst h2; subst h3
  have := exit_pos_unique hd hi hwr
  omega

end T1
