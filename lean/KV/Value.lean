import KV.Eval
import KV.Top
import KV.PlanLemmas
/-! # C02 — the value wired by the planned graph is the reference evaluation; Async marking is irrelevant

* `supplierMap`, `graphOf`, `newGraph2_factor` : `newGraph2` = supplier map (pass 1 + pass 2), then graph construction.
* `plan_value` : whatever value the planned graph wires out of its return node is the reference evaluation
  (`Eval`) of the requested type key.
* `plan_value_exists` : such a value exists (the wiring is total and acyclic).
* `async_irrelevant` : the Async marking of providers influences neither acceptance, nor the error, nor the graph.
-/
namespace KV

/-! ## 1. the supplier map -/

/-- pass 1 (functions) then pass 2 (struct field expansion): the extended provider list and the supplier map -/
def supplierMap (provs0 : List PSpec) : Except PlanErr (List PSpec × SupMap) := do
  let sup1 ← pass1 0 provs0 []
  pass2 (provs0.filter (·.kind == 1)) provs0 sup1

/-- the rest of `newGraph2`: BFS from the supplier of `ret` (or the single argument node) -/
def graphOf (provs : List PSpec) (sup : SupMap) (ret : Nat) : Except PlanErr Graph :=
  match sup.lookup ret with
  | none =>
    pure { provs := provs, nodes := [{ isArg := true, ty := ret }], edges := [[]], rev := [[]],
           retNode := 0, retIdx := 0 }
  | some (rp, ri) =>
    let st := bfsLoop provs sup (bfsFuel provs) (bfsInit rp)
    if !st.queue.isEmpty then throw .invalid
    else if detectCycles st.edges st.nodes.length then throw .cycle
    else pure { provs := provs, nodes := st.nodes, edges := st.edges, rev := st.rev, retNode := 0, retIdx := ri }

/-- `newGraph2` factors through the supplier map -/
theorem newGraph2_factor (provs0 : List PSpec) (ret : Nat) :
    newGraph2 provs0 ret = (supplierMap provs0 >>= fun r => graphOf r.1 r.2 ret) := by
  simp only [newGraph2, supplierMap, graphOf, bind, Except.bind]
  cases pass1 0 provs0 [] with
  | error e => rfl
  | ok sup1 =>
    simp only
    cases pass2 (List.filter (fun x => x.kind == 1) provs0) provs0 sup1 with
    | error e => rfl
    | ok r => rfl

theorem newGraph2_of_supplierMap {provs0 provs : List PSpec} {sup : SupMap} (ret : Nat)
    (h : supplierMap provs0 = .ok (provs, sup)) : newGraph2 provs0 ret = graphOf provs sup ret := by
  rw [newGraph2_factor, h]; rfl

theorem supplierMap_of_newGraph2 {provs0 : List PSpec} {ret : Nat} {g : Graph} (h : newGraph2 provs0 ret = .ok g) :
    ∃ provs sup, supplierMap provs0 = .ok (provs, sup) ∧ graphOf provs sup ret = .ok g := by
  rw [newGraph2_factor] at h
  cases hs : supplierMap provs0 with
  | error e => rw [hs] at h; cases h
  | ok r => rw [hs] at h; exact ⟨r.1, r.2, rfl, h⟩

/-- the supplier map is sound: every supplier's result group exists -/
theorem supplierMap_supOK {provs0 provs : List PSpec} {sup : SupMap} (h : supplierMap provs0 = .ok (provs, sup)) :
    SupOK provs sup := by
  simp only [supplierMap, bind, Except.bind] at h
  split at h
  · cases h
  · rename_i sup1 hs1
    have hsup1 : SupOK' provs0 sup1 :=
      pass1_ok (provs := provs0) provs0 [] (by simp) rfl (by intro t p gi hl; simp at hl) hs1
    exact supOK_of_supOK' (pass2_ok _ hsup1 h)

/-! ## 2. the wired value is the reference evaluation -/

/-- the requirement list of node `n` of a graph (none for argument nodes) -/
def greqs (g : Graph) : Nat → List Nat :=
  fun n => if (g.nodes.getD n default).isArg then [] else (g.provs.getD (g.nodes.getD n default).prov default).requires

/-- "the value returned by the injector planned as `g` is `v`" -/
def GraphVal (g : Graph) (v : Val) : Prop := NVal g.nodes g.edges (greqs g) g.retNode g.retIdx v

theorem pickNode_nodes_prefix (sup : SupMap) (t : Nat) (st : BfsSt) : st.nodes <+: (pickNode sup t st).1.nodes := by
  unfold pickNode
  split
  · split
    · exact List.prefix_refl _
    · exact List.prefix_append _ _
  · split
    · exact List.prefix_refl _
    · exact List.prefix_append _ _

theorem bfsRequires_nodes_prefix (provs : List PSpec) (sup : SupMap) (n1 : Nat) (ts : List Nat) (i : Nat) (st : BfsSt)
    (l : List Node) (hl : l <+: st.nodes) : l <+: (bfsRequires provs sup n1 i ts st).nodes := by
  induction ts generalizing i st with
  | nil => exact hl
  | cons t ts ih =>
    rw [bfsRequires_cons]
    exact ih (i + 1) (reqStep sup n1 i t st) (List.IsPrefix.trans hl (pickNode_nodes_prefix sup t st))

theorem bfsLoop_nodes_prefix (provs : List PSpec) (sup : SupMap) (fuel : Nat) (st : BfsSt)
    (l : List Node) (hl : l <+: st.nodes) : l <+: (bfsLoop provs sup fuel st).nodes := by
  induction fuel generalizing st with
  | zero => exact hl
  | succ k ih =>
    simp only [bfsLoop]
    split
    · exact hl
    · split
      · exact ih _ hl
      · split
        · exact ih _ hl
        · split
          · exact ih _ hl
          · exact ih _ (bfsRequires_nodes_prefix provs sup _ _ _ _ l hl)

/-- the root node of the BFS stays the supplier of the requested key -/
theorem bfsLoop_root (provs : List PSpec) (sup : SupMap) (fuel rp : Nat) :
    (bfsLoop provs sup fuel (bfsInit rp)).nodes.getD 0 default = { isArg := false, prov := rp } := by
  obtain ⟨r, hr⟩ := bfsLoop_nodes_prefix provs sup fuel (bfsInit rp) _ (List.prefix_refl _)
  rw [← hr]
  rfl

/-- **C02, graph level.** Whatever value the graph built for `ret` wires out of its return node is the
    reference evaluation of `ret`. -/
theorem graphOf_value {provs : List PSpec} {sup : SupMap} (hsup : SupOK provs sup) {ret : Nat} {g : Graph}
    (hg : graphOf provs sup ret = .ok g) : g.provs = provs ∧ ∀ v, GraphVal g v → Eval provs sup ret v := by
  unfold graphOf at hg
  split at hg
  · rename_i hlook
    simp only [pure, Except.pure] at hg
    cases hg
    refine ⟨rfl, ?_⟩
    intro v hv
    unfold GraphVal at hv
    cases hv with
    | arg ha => exact Eval.arg hlook
    | app hna _ => cases hna
  · rename_i rp ri hlook
    simp only at hg
    split at hg
    · cases hg
    · split at hg
      · cases hg
      · simp only [pure, Except.pure] at hg
        cases hg
        refine ⟨rfl, ?_⟩
        intro v hv
        have hroot := bfsLoop_root provs sup (bfsFuel provs) rp
        refine bfs_value_is_reference hsup rp (n := 0) (gi := ri) (v := v) hv ret (Or.inl ⟨rp, hlook, ?_, ?_⟩)
        · rw [hroot]
        · rw [hroot]

/-- **C02 (`plan_value`).** For an accepted declaration, the provider list of the planned graph is the one
    of the supplier map, and whatever value the planned graph wires out of its return node (result group
    `retIdx`) is the reference evaluation — one provider at a time, arguments selected by type key — of `ret`. -/
theorem plan_value {provs0 : List PSpec} {ret : Nat} {p : PlanOut} {provs : List PSpec} {sup : SupMap}
    (hp : plan provs0 ret = .ok p) (hs : supplierMap provs0 = .ok (provs, sup)) :
    p.g.provs = provs ∧
    ∀ v, NVal p.g.nodes p.g.edges (fun n => if (p.g.nodes.getD n default).isArg then [] else
        (provs.getD (p.g.nodes.getD n default).prov default).requires) p.g.retNode p.g.retIdx v →
      Eval provs sup ret v := by
  obtain ⟨hg, _, _⟩ := plan_ok hp
  rw [newGraph2_of_supplierMap ret hs] at hg
  obtain ⟨h1, h2⟩ := graphOf_value (supplierMap_supOK hs) hg
  refine ⟨h1, fun v hv => h2 v ?_⟩
  unfold GraphVal greqs
  rw [h1]
  exact hv

/-! ## 3. the wired value exists -/

theorem greqs_length {g : Graph} (hg : GWF g) {m : Nat} (hm : m < g.nodes.length) :
    (greqs g m).length = (g.rev.getD m []).length := by
  rw [← hg.slotsEq m hm]
  unfold greqs nodeSlots
  rw [List.getElem?_eq_getElem hm, getD_eq_getElem' _ _ _ hm]
  simp only
  cases (g.nodes[m]).isArg <;> rfl

/-- if every slot of `m` has an incoming edge whose producer has a value, the slots of `m` have values -/
theorem nslots_exists {nodes : List Node} {edges : List (List Edge)} {reqs : Nat → List Nat} {m : Nat}
    (h : ∀ i, i < (reqs m).length →
      ∃ n2 e v, e ∈ edges.getD n2 [] ∧ e.dst = m ∧ e.slot = i ∧ NVal nodes edges reqs n2 e.src v) :
    ∀ k i, i + k = (reqs m).length → ∃ vs, NSlots nodes edges reqs m i vs := by
  intro k
  induction k with
  | zero => intro i hi; exact ⟨[], NSlots.done (by omega)⟩
  | succ k ih =>
    intro i hi
    obtain ⟨n2, e, v, he, hd, hsl, hv⟩ := h i (by omega)
    obtain ⟨vs, hvs⟩ := ih (i + 1) (by omega)
    exact ⟨v :: vs, NSlots.slot (by omega) he hd hsl hv hvs⟩

/-- every node of the Kahn order has a wired value, for every result group it has
    (recursion on the Kahn position: every slot is fed by a strictly earlier node of the order) -/
theorem nval_exists {g : Graph} (hg : GWF2 g) (hs : SoundL g (topoOrder g))
    (hlt : ∀ m ∈ topoOrder g, m < g.nodes.length) :
    ∀ k pre m post, topoOrder g = pre ++ m :: post → pre.length = k →
      ∀ gi, ((g.nodes.getD m default).isArg = true → gi = 0) → ∃ v, NVal g.nodes g.edges (greqs g) m gi v := by
  intro k
  induction k using Nat.strongRecOn with
  | _ k ih =>
    intro pre m post hsplit hk gi hgi
    have hm : m < g.nodes.length := hlt m (by rw [hsplit]; simp)
    cases harg : (g.nodes.getD m default).isArg with
    | true =>
      rw [hgi harg]
      exact ⟨_, NVal.arg harg⟩
    | false =>
      have hslots : ∀ i, i < (greqs g m).length →
          ∃ n2 e v, e ∈ g.edges.getD n2 [] ∧ e.dst = m ∧ e.slot = i ∧ NVal g.nodes g.edges (greqs g) n2 e.src v := by
        intro i hi
        rw [greqs_length hg.toGWF hm] at hi
        obtain ⟨n, hnpre, e, he, hed, hes⟩ := hs pre m post hsplit i hi
        obtain ⟨pre', post', hp⟩ := List.append_of_mem hnpre
        have hsplit' : topoOrder g = pre' ++ n :: (post' ++ m :: post) := by
          rw [hsplit, hp]; simp
        have hn : n < g.nodes.length := hlt n (by rw [hsplit']; simp)
        have hlen : pre'.length < k := by rw [← hk, hp]; simp
        have hsrc := hg.srcLt n e he hn
        obtain ⟨v, hv⟩ := ih pre'.length hlen pre' n _ hsplit' rfl e.src (by
          intro ha
          have : isArgNode g n = true := ha
          rw [this] at hsrc
          simp only [↓reduceIte] at hsrc
          omega)
        exact ⟨n, e, v, he, hed, hes, hv⟩
      obtain ⟨vs, hvs⟩ := nslots_exists hslots (greqs g m).length 0 (by omega)
      exact ⟨_, NVal.app harg hvs⟩

/-- the result group requested from the return node exists: an argument return node is read at group 0 -/
theorem graphOf_retIdx {provs : List PSpec} {sup : SupMap} {ret : Nat} {g : Graph}
    (hg : graphOf provs sup ret = .ok g) : (g.nodes.getD g.retNode default).isArg = true → g.retIdx = 0 := by
  unfold graphOf at hg
  split at hg
  · simp only [pure, Except.pure] at hg
    cases hg
    intro _; rfl
  · rename_i rp ri hlook
    simp only at hg
    split at hg
    · cases hg
    · split at hg
      · cases hg
      · simp only [pure, Except.pure] at hg
        cases hg
        intro ha
        have hroot := bfsLoop_root provs sup (bfsFuel provs) rp
        change ((bfsLoop provs sup (bfsFuel provs) (bfsInit rp)).nodes.getD 0 default).isArg = true at ha
        rw [hroot] at ha
        cases ha

/-- **C02 (`plan_value_exists`).** For an accepted declaration the wiring of the planned graph determines a
    value of the return node: every slot of every needed node has an incoming edge from a node that is
    strictly earlier in the Kahn order. -/
theorem plan_value_exists {provs0 : List PSpec} {ret : Nat} {p : PlanOut} (hp : plan provs0 ret = .ok p) :
    ∃ v, GraphVal p.g v := by
  obtain ⟨hg, hb, _⟩ := plan_ok hp
  have hgw := newGraph2_gwf hg
  obtain ⟨hs, _, hlt⟩ := topoOrder_sound hgw.toGWF
  obtain ⟨provs, sup, _, hgo⟩ := supplierMap_of_newGraph2 hg
  have hret : p.g.retNode ∈ topoOrder p.g := by
    simp only [build2] at hb
    split at hb
    · rename_i hc; simpa using hc
    · cases hb
  obtain ⟨pre, post, hsplit⟩ := List.append_of_mem hret
  exact nval_exists hgw hs hlt pre.length pre p.g.retNode post hsplit rfl p.g.retIdx (graphOf_retIdx hgo)

/-- `plan_value_exists` with the requirement function spelled out as in `plan_value` -/
theorem plan_value_exists' {provs0 : List PSpec} {ret : Nat} {p : PlanOut} {provs : List PSpec} {sup : SupMap}
    (hp : plan provs0 ret = .ok p) (hs : supplierMap provs0 = .ok (provs, sup)) :
    ∃ v, NVal p.g.nodes p.g.edges (fun n => if (p.g.nodes.getD n default).isArg then [] else
        (provs.getD (p.g.nodes.getD n default).prov default).requires) p.g.retNode p.g.retIdx v ∧
      Eval provs sup ret v := by
  obtain ⟨v, hv⟩ := plan_value_exists hp
  obtain ⟨h1, h2⟩ := plan_value hp hs
  have hv' : NVal p.g.nodes p.g.edges (fun n => if (p.g.nodes.getD n default).isArg then [] else
        (provs.getD (p.g.nodes.getD n default).prov default).requires) p.g.retNode p.g.retIdx v := by
    unfold GraphVal greqs at hv
    rw [h1] at hv
    exact hv
  exact ⟨v, hv', h2 v hv'⟩

/-- `plan_value` at the level of `newGraph2` (covers the case "`ret` has no supplier", where the graph is the
    single argument node; `plan` itself refuses that case later, in `buildStmts2`, with `noInitial`) -/
theorem newGraph2_value {provs0 : List PSpec} {ret : Nat} {g : Graph} {provs : List PSpec} {sup : SupMap}
    (hg : newGraph2 provs0 ret = .ok g) (hs : supplierMap provs0 = .ok (provs, sup)) :
    g.provs = provs ∧ ∀ v, GraphVal g v → Eval provs sup ret v := by
  rw [newGraph2_of_supplierMap ret hs] at hg
  exact graphOf_value (supplierMap_supOK hs) hg

/-- `plan_value_exists` at the level of `newGraph2`: it is enough that the return node is in the Kahn order -/
theorem newGraph2_value_exists {provs0 : List PSpec} {ret : Nat} {g : Graph}
    (hg : newGraph2 provs0 ret = .ok g) (hret : g.retNode ∈ topoOrder g) : ∃ v, GraphVal g v := by
  have hgw := newGraph2_gwf hg
  obtain ⟨hs, _, hlt⟩ := topoOrder_sound hgw.toGWF
  obtain ⟨provs, sup, _, hgo⟩ := supplierMap_of_newGraph2 hg
  obtain ⟨pre, post, hsplit⟩ := List.append_of_mem hret
  exact nval_exists hgw hs hlt pre.length pre g.retNode post hsplit rfl g.retIdx (graphOf_retIdx hgo)

/-! ## 4. Async marking is irrelevant -/

/-- forget the Async marking of a provider -/
def eraseAsync (q : PSpec) : PSpec := { q with isAsync := false }

/-- mark provider `i` Async iff `f i` -/
def setAsync (f : Nat → Bool) (provs : List PSpec) : List PSpec :=
  provs.mapIdx (fun i q => { q with isAsync := f i })

/-- two providers agree on every field except `isAsync` -/
def SameButAsync (q q' : PSpec) : Prop :=
  q.kind = q'.kind ∧ q.requires = q'.requires ∧ q.provides = q'.provides ∧ q.isErr = q'.isErr ∧
  q.structTy = q'.structTy ∧ q.fields = q'.fields ∧ q.fieldName = q'.fieldName ∧ q.decl = q'.decl

theorem eraseAsync_eq_iff (q q' : PSpec) : eraseAsync q = eraseAsync q' ↔ SameButAsync q q' := by
  cases q; cases q'
  simp only [eraseAsync, SameButAsync, PSpec.mk.injEq, true_and]

theorem setAsync_erase (f : Nat → Bool) (provs : List PSpec) :
    (setAsync f provs).map eraseAsync = provs.map eraseAsync := by
  apply List.ext_getElem?
  intro i
  simp only [setAsync, List.getElem?_map, List.getElem?_mapIdx]
  cases provs[i]? <;> rfl

theorem setAsync_length (f : Nat → Bool) (provs : List PSpec) : (setAsync f provs).length = provs.length := by
  simp only [setAsync, List.length_mapIdx]

/-- equality after erasing the marking, read field by field -/
theorem sameButAsync_of_erase_eq {ps qs : List PSpec} (h : ps.map eraseAsync = qs.map eraseAsync) :
    ps.length = qs.length ∧ ∀ i, SameButAsync (ps.getD i default) (qs.getD i default) := by
  refine ⟨by simpa using congrArg List.length h, ?_⟩
  intro i
  have hi := congrArg (fun l => l[i]?) h
  simp only [List.getElem?_map] at hi
  rw [List.getD_eq_getElem?_getD, List.getD_eq_getElem?_getD]
  cases hp : ps[i]? with
  | none =>
    cases hq : qs[i]? with
    | none => exact (eraseAsync_eq_iff _ _).mp rfl
    | some b => rw [hp, hq] at hi; cases hi
  | some a =>
    cases hq : qs[i]? with
    | none => rw [hp, hq] at hi; cases hi
    | some b =>
      rw [hp, hq] at hi
      exact (eraseAsync_eq_iff a b).mp (Option.some.inj hi)

theorem requires_of_erase_eq {ps qs : List PSpec} (h : ps.map eraseAsync = qs.map eraseAsync) (i : Nat) :
    (ps.getD i default).requires = (qs.getD i default).requires :=
  ((sameButAsync_of_erase_eq h).2 i).2.1

/-! ### the planner never looks at the marking -/

theorem pass1_erase (ps : List PSpec) : ∀ (pi : Nat) (m : SupMap), pass1 pi (ps.map eraseAsync) m = pass1 pi ps m := by
  induction ps with
  | nil => intro pi m; rfl
  | cons p ps ih =>
    intro pi m
    simp only [List.map_cons, pass1, eraseAsync, ih]

theorem filter_structs_erase (ps : List PSpec) :
    (ps.map eraseAsync).filter (·.kind == 1) = (ps.filter (·.kind == 1)).map eraseAsync := by
  rw [List.filter_map]; rfl

/-- what erasing does to the result of pass 2 / the supplier map -/
def eraseR (r : List PSpec × SupMap) : List PSpec × SupMap := (r.1.map eraseAsync, r.2)

theorem expandFields_erase (sty decl : Nat) (fs : List (String × Nat)) :
    ∀ (provs : List PSpec) (m : SupMap),
      expandFields sty decl fs (provs.map eraseAsync) m = (expandFields sty decl fs provs m).map eraseR := by
  induction fs with
  | nil => intro provs m; rfl
  | cons f fs ih =>
    intro provs m
    obtain ⟨fname, fty⟩ := f
    simp only [expandFields]
    split
    · rfl
    · rw [← ih]
      simp only [List.map_append, List.map_cons, List.map_nil, List.length_map]
      rfl

/-- what erasing does to the result of one round of pass 2 -/
def eraseR3 (r : List PSpec × SupMap × List PSpec) : List PSpec × SupMap × List PSpec :=
  (r.1.map eraseAsync, r.2.1, r.2.2.map eraseAsync)

theorem pass2Round_erase (sps : List PSpec) :
    ∀ (provs : List PSpec) (m : SupMap),
      pass2Round (sps.map eraseAsync) (provs.map eraseAsync) m = (pass2Round sps provs m).map eraseR3 := by
  induction sps with
  | nil => intro provs m; rfl
  | cons sp sps ih =>
    intro provs m
    have e1 : (eraseAsync sp).structTy = sp.structTy := rfl
    have e2 : (eraseAsync sp).decl = sp.decl := rfl
    have e3 : (eraseAsync sp).fields = sp.fields := rfl
    cases hl : List.lookup sp.structTy m with
    | none =>
      rw [List.map_cons, pass2Round_cons_none (sp := eraseAsync sp) _ _ hl, pass2Round_cons_none _ _ hl, ih]
      cases pass2Round sps provs m with
      | error e => rfl
      | ok r => rfl
    | some x =>
      rw [List.map_cons, pass2Round_cons_some (sp := eraseAsync sp) _ _ hl, pass2Round_cons_some _ _ hl, e1, e2, e3,
        expandFields_erase]
      cases expandFields sp.structTy sp.decl sp.fields provs m with
      | error e => rfl
      | ok r => exact ih r.1 r.2

theorem headD_map_erase (l : List PSpec) (d : PSpec) :
    ((l.map eraseAsync).headD (eraseAsync d)).structTy = (l.headD d).structTy := by
  cases l <;> rfl

theorem pass2Rounds_erase (fuel : Nat) :
    ∀ (sps provs : List PSpec) (m : SupMap),
      pass2Rounds fuel (sps.map eraseAsync) (provs.map eraseAsync) m = (pass2Rounds fuel sps provs m).map eraseR := by
  induction fuel with
  | zero =>
    intro sps provs m
    cases sps with
    | nil => rfl
    | cons sp sps => rfl
  | succ fuel ih =>
    intro sps provs m
    cases sps with
    | nil => rfl
    | cons sp sps =>
      rw [List.map_cons, pass2Rounds_succ_cons, pass2Rounds_succ_cons, ← List.map_cons, pass2Round_erase]
      cases pass2Round (sp :: sps) provs m with
      | error e => rfl
      | ok r =>
        simp only [Except.map, eraseR3, List.length_map, headD_map_erase]
        split
        · rfl
        · exact ih _ _ _

theorem pass2_erase (sps : List PSpec) :
    ∀ (provs : List PSpec) (m : SupMap),
      pass2 (sps.map eraseAsync) (provs.map eraseAsync) m = (pass2 sps provs m).map eraseR := by
  intro provs m
  unfold pass2
  rw [List.length_map]
  exact pass2Rounds_erase _ sps provs m

theorem supplierMap_erase (ps : List PSpec) :
    supplierMap (ps.map eraseAsync) = (supplierMap ps).map eraseR := by
  simp only [supplierMap, pass1_erase, filter_structs_erase, bind, Except.bind]
  cases pass1 0 ps [] with
  | error e => rfl
  | ok sup1 => exact pass2_erase _ ps sup1

theorem getD_erase_requires (provs : List PSpec) (i : Nat) :
    ((provs.map eraseAsync).getD i default).requires = (provs.getD i default).requires := by
  rw [List.getD_eq_getElem?_getD, List.getD_eq_getElem?_getD, List.getElem?_map]
  cases provs[i]? <;> rfl

theorem bfsRequires_provs (provs provs' : List PSpec) (sup : SupMap) (n1 : Nat) (ts : List Nat) :
    ∀ (i : Nat) (st : BfsSt), bfsRequires provs sup n1 i ts st = bfsRequires provs' sup n1 i ts st := by
  induction ts with
  | nil => intro i st; rfl
  | cons t ts ih => intro i st; rw [bfsRequires_cons, bfsRequires_cons]; exact ih _ _

theorem bfsLoop_erase (provs : List PSpec) (sup : SupMap) (fuel : Nat) :
    ∀ st : BfsSt, bfsLoop (provs.map eraseAsync) sup fuel st = bfsLoop provs sup fuel st := by
  induction fuel with
  | zero => intro st; rfl
  | succ k ih =>
    intro st
    simp only [bfsLoop, ih, getD_erase_requires, bfsRequires_provs (provs.map eraseAsync) provs]

theorem bfsFuel_erase (provs : List PSpec) : bfsFuel (provs.map eraseAsync) = bfsFuel provs := by
  simp only [bfsFuel, List.length_map, List.foldl_map]
  rfl

/-- what erasing does to a graph: only the provider table changes -/
def eraseG (g : Graph) : Graph := { g with provs := g.provs.map eraseAsync }

theorem graphOf_erase (provs : List PSpec) (sup : SupMap) (ret : Nat) :
    graphOf (provs.map eraseAsync) sup ret = (graphOf provs sup ret).map eraseG := by
  simp only [graphOf, bfsLoop_erase, bfsFuel_erase]
  split
  · rfl
  · split
    · rfl
    · split
      · rfl
      · rfl

theorem newGraph2_erase (ps : List PSpec) (ret : Nat) :
    newGraph2 (ps.map eraseAsync) ret = (newGraph2 ps ret).map eraseG := by
  rw [newGraph2_factor, newGraph2_factor, supplierMap_erase]
  cases supplierMap ps with
  | error e => rfl
  | ok r => exact graphOf_erase r.1 r.2 ret

/-- **Async marking is irrelevant (general form).** Two declarations that differ only in the Async marking of
    their providers are both refused with the same error, or both accepted with graphs that differ only in
    the Async marking of the provider table. -/
theorem async_irrelevant_gen {ps qs : List PSpec} (h : ps.map eraseAsync = qs.map eraseAsync) (ret : Nat) :
    (∃ e, newGraph2 ps ret = .error e ∧ newGraph2 qs ret = .error e) ∨
    (∃ g g', newGraph2 ps ret = .ok g ∧ newGraph2 qs ret = .ok g' ∧
      g.nodes = g'.nodes ∧ g.edges = g'.edges ∧ g.rev = g'.rev ∧ g.retNode = g'.retNode ∧ g.retIdx = g'.retIdx ∧
      g.provs.map eraseAsync = g'.provs.map eraseAsync) := by
  have hh : (newGraph2 ps ret).map eraseG = (newGraph2 qs ret).map eraseG := by
    rw [← newGraph2_erase, ← newGraph2_erase, h]
  cases h1 : newGraph2 ps ret with
  | error e =>
    cases h2 : newGraph2 qs ret with
    | error e' =>
      rw [h1, h2] at hh
      left
      refine ⟨e, rfl, ?_⟩
      simp only [Except.map] at hh
      cases hh; rfl
    | ok g' => rw [h1, h2] at hh; simp only [Except.map] at hh; cases hh
  | ok g =>
    cases h2 : newGraph2 qs ret with
    | error e' => rw [h1, h2] at hh; simp only [Except.map] at hh; cases hh
    | ok g' =>
      rw [h1, h2] at hh
      simp only [Except.map, Except.ok.injEq] at hh
      right
      refine ⟨g, g', rfl, rfl, ?_⟩
      cases g; cases g'
      simp only [eraseG, Graph.mk.injEq] at hh
      obtain ⟨hp, hn, he, hr, hrn, hri⟩ := hh
      exact ⟨hn, he, hr, hrn, hri, hp⟩

/-- **C02 (`async_irrelevant`).** Marking any subset `f` of the providers Async changes neither whether the
    declaration is accepted, nor the error it is refused with, nor the planned graph: same nodes, edges,
    reverse edges, return node and return group, and a provider table that agrees on every field except `isAsync`. -/
theorem async_irrelevant (f : Nat → Bool) (provs0 : List PSpec) (ret : Nat) :
    (∃ e, newGraph2 (setAsync f provs0) ret = .error e ∧ newGraph2 provs0 ret = .error e) ∨
    (∃ g' g, newGraph2 (setAsync f provs0) ret = .ok g' ∧ newGraph2 provs0 ret = .ok g ∧
      g'.nodes = g.nodes ∧ g'.edges = g.edges ∧ g'.rev = g.rev ∧ g'.retNode = g.retNode ∧ g'.retIdx = g.retIdx ∧
      g'.provs.length = g.provs.length ∧ ∀ i, SameButAsync (g'.provs.getD i default) (g.provs.getD i default)) := by
  rcases async_irrelevant_gen (setAsync_erase f provs0) ret with h | ⟨g', g, h1, h2, hn, he, hr, hrn, hri, hp⟩
  · exact Or.inl h
  · obtain ⟨hl, hs⟩ := sameButAsync_of_erase_eq hp
    exact Or.inr ⟨g', g, h1, h2, hn, he, hr, hrn, hri, hl, hs⟩

/-! ### consequences for the value -/

mutual
/-- the reference evaluation only reads the `requires` of the provider table -/
theorem eval_congr {provs provs' : List PSpec} {sup : SupMap}
    (h : ∀ p, (provs.getD p default).requires = (provs'.getD p default).requires) :
    ∀ {t : Nat} {v : Val}, Eval provs sup t v → Eval provs' sup t v
  | _, _, .arg hl => Eval.arg hl
  | _, _, .app (p := p) hl hs => Eval.app hl (by rw [← h p]; exact evalL_congr h hs)
theorem evalL_congr {provs provs' : List PSpec} {sup : SupMap}
    (h : ∀ p, (provs.getD p default).requires = (provs'.getD p default).requires) :
    ∀ {ts : List Nat} {vs : List Val}, EvalL provs sup ts vs → EvalL provs' sup ts vs
  | _, _, .nil => EvalL.nil
  | _, _, .cons hv hvs => EvalL.cons (eval_congr h hv) (evalL_congr h hvs)
end

mutual
/-- the reference evaluation is a function of the type key -/
theorem eval_unique {provs : List PSpec} {sup : SupMap} :
    ∀ {t : Nat} {v v' : Val}, Eval provs sup t v → Eval provs sup t v' → v = v'
  | _, _, _, .arg hl, h' => by
    cases h' with
    | arg _ => rfl
    | app hl' _ => rw [hl] at hl'; cases hl'
  | _, _, _, .app hl hs, h' => by
    cases h' with
    | arg hl' => rw [hl] at hl'; cases hl'
    | app hl' hs' =>
      rw [hl] at hl'; cases hl'
      rw [evalL_unique hs hs']
theorem evalL_unique {provs : List PSpec} {sup : SupMap} :
    ∀ {ts : List Nat} {vs vs' : List Val}, EvalL provs sup ts vs → EvalL provs sup ts vs' → vs = vs'
  | _, _, _, .nil, h' => by cases h'; rfl
  | _, _, _, .cons h1 h2, h' => by
    cases h' with
    | cons h1' h2' => rw [eval_unique h1 h1', evalL_unique h2 h2']
end

theorem eval_async {provs provs' : List PSpec} (sup : SupMap) (h : provs'.map eraseAsync = provs.map eraseAsync)
    (t : Nat) (v : Val) : Eval provs' sup t v ↔ Eval provs sup t v :=
  ⟨eval_congr (fun p => requires_of_erase_eq h p), eval_congr (fun p => (requires_of_erase_eq h p).symm)⟩

theorem greqs_congr {g g' : Graph} (hn : g'.nodes = g.nodes) (hp : g'.provs.map eraseAsync = g.provs.map eraseAsync) :
    greqs g' = greqs g := by
  funext n
  unfold greqs
  rw [hn, requires_of_erase_eq hp]

theorem graphVal_congr {g g' : Graph} (hn : g'.nodes = g.nodes) (he : g'.edges = g.edges)
    (hrn : g'.retNode = g.retNode) (hri : g'.retIdx = g.retIdx)
    (hp : g'.provs.map eraseAsync = g.provs.map eraseAsync) (v : Val) : GraphVal g' v ↔ GraphVal g v := by
  unfold GraphVal
  rw [greqs_congr hn hp, hn, he, hrn, hri]

/-- `plan_value` in terms of `GraphVal` -/
theorem plan_graphVal {provs0 : List PSpec} {ret : Nat} {p : PlanOut} {provs : List PSpec} {sup : SupMap}
    (hp : plan provs0 ret = .ok p) (hs : supplierMap provs0 = .ok (provs, sup)) (v : Val) (hv : GraphVal p.g v) :
    Eval provs sup ret v := by
  obtain ⟨h1, h2⟩ := plan_value hp hs
  apply h2
  unfold GraphVal greqs at hv
  rw [h1] at hv
  exact hv

/-- **C02, summary.** For an accepted declaration the planned graph wires exactly one value out of its
    return node, and it is the (unique) reference evaluation of the requested type. -/
theorem plan_value_spec {provs0 : List PSpec} {ret : Nat} {p : PlanOut} {provs : List PSpec} {sup : SupMap}
    (hp : plan provs0 ret = .ok p) (hs : supplierMap provs0 = .ok (provs, sup)) :
    ∃ v, GraphVal p.g v ∧ Eval provs sup ret v ∧ (∀ v', GraphVal p.g v' → v' = v) ∧
      (∀ v', Eval provs sup ret v' → v' = v) := by
  obtain ⟨v, hv⟩ := plan_value_exists hp
  have he := plan_graphVal hp hs v hv
  exact ⟨v, hv, he, fun v' hv' => eval_unique (plan_graphVal hp hs v' hv') he, fun v' hv' => eval_unique hv' he⟩

/-- the value wired by the graph is the same for every Async marking -/
theorem async_value_irrelevant (f : Nat → Bool) {provs0 : List PSpec} {ret : Nat} {g g' : Graph}
    (hg : newGraph2 provs0 ret = .ok g) (hg' : newGraph2 (setAsync f provs0) ret = .ok g') (v : Val) :
    GraphVal g' v ↔ GraphVal g v := by
  rcases async_irrelevant_gen (setAsync_erase f provs0) ret with
    ⟨e, h1, _⟩ | ⟨a, b, h1, h2, hn, he, _, hrn, hri, hp⟩
  · rw [hg'] at h1; cases h1
  · rw [hg'] at h1; rw [hg] at h2
    cases h1; cases h2
    exact graphVal_congr hn he hrn hri hp v

/-- the supplier map — hence the reference evaluation — is the same for every Async marking -/
theorem async_supplierMap (f : Nat → Bool) {provs0 provs : List PSpec} {sup : SupMap}
    (hs : supplierMap provs0 = .ok (provs, sup)) :
    ∃ provs', supplierMap (setAsync f provs0) = .ok (provs', sup) ∧
      provs'.map eraseAsync = provs.map eraseAsync ∧ ∀ t v, Eval provs' sup t v ↔ Eval provs sup t v := by
  have h := supplierMap_erase (setAsync f provs0)
  rw [setAsync_erase, supplierMap_erase, hs] at h
  cases h' : supplierMap (setAsync f provs0) with
  | error e => rw [h'] at h; simp only [Except.map] at h; cases h
  | ok r =>
    rw [h'] at h
    simp only [Except.map, Except.ok.injEq, eraseR, Prod.mk.injEq] at h
    obtain ⟨r1, r2⟩ := r
    obtain ⟨h1, h2⟩ := h
    simp only at h1 h2
    subst h2
    exact ⟨r1, rfl, h1.symm, eval_async _ h1.symm⟩

/-- **C02, Async corollary.** Mark any subset `f` of the providers Async: if the marked declaration is
    accepted, the value its graph wires out of the return node is the reference evaluation of the
    *unmarked* declaration. -/
theorem plan_value_async (f : Nat → Bool) {provs0 : List PSpec} {ret : Nat} {p' : PlanOut} {provs : List PSpec}
    {sup : SupMap} (hp : plan (setAsync f provs0) ret = .ok p') (hs : supplierMap provs0 = .ok (provs, sup))
    (v : Val) (hv : GraphVal p'.g v) : Eval provs sup ret v := by
  obtain ⟨provs', hs', _, hE⟩ := async_supplierMap f hs
  exact (hE ret v).mp (plan_graphVal hp hs' v hv)

/-! ## examples: the hypotheses are satisfiable -/

/-- `p0 : (5) → 1`, `p1 : (1) → 2` (Async), struct provider `p2` of type `2` with one field `F : 3` -/
def exProvs : List PSpec :=
  [ { requires := [5], provides := [[1]], decl := 0 },
    { requires := [1], provides := [[2]], isAsync := true, decl := 1 },
    { kind := 1, structTy := 2, fields := [("F", 3)], decl := 2 } ]

def exSup : SupMap := [(1, (0, 0)), (2, (1, 0)), (3, (3, 0))]

def exProvs' : List PSpec :=
  exProvs ++ [{ kind := 2, requires := [2], provides := [[3]], structTy := 2, fieldName := "F", decl := 2 }]

example : supplierMap exProvs = .ok (exProvs', exSup) := by rfl

example : ∃ p, plan exProvs 3 = .ok p := ⟨_, rfl⟩

example : (match newGraph2 exProvs 3 with
    | .ok g => g.nodes.length == 4 && g.retNode == 0 && g.retIdx == 0
    | .error _ => false) = true := by decide

/-- the reference evaluation of key `3`: field `F` of the struct made by `p1` from the result of `p0` applied to
    the injector argument of type `5` -/
theorem exEval : Eval exProvs' exSup 3 (.app 3 0 [.app 1 0 [.app 0 0 [.arg 5]]]) :=
  .app (p := 3) rfl (.cons (.app (p := 1) rfl (.cons (.app (p := 0) rfl (.cons (.arg rfl) .nil)) .nil)) .nil)

/-- ... and it is the value the planned graph wires, whatever the Async marking -/
example (f : Nat → Bool) (p : PlanOut) (hp : plan (setAsync f exProvs) 3 = .ok p) (v : Val) (hv : GraphVal p.g v) :
    v = .app 3 0 [.app 1 0 [.app 0 0 [.arg 5]]] :=
  eval_unique (plan_value_async f hp (by rfl : supplierMap exProvs = .ok (exProvs', exSup)) v hv) exEval

example : ∃ p, plan exProvs 3 = .ok p ∧ GraphVal p.g (.app 3 0 [.app 1 0 [.app 0 0 [.arg 5]]]) := by
  have hp : ∃ p, plan exProvs 3 = .ok p := ⟨_, rfl⟩
  obtain ⟨p, hp⟩ := hp
  obtain ⟨v, hv, _, _, hu⟩ := plan_value_spec hp (by rfl : supplierMap exProvs = .ok (exProvs', exSup))
  rw [hu _ exEval]
  exact ⟨p, hp, hv⟩

/-- an unsupplied key: the graph is the single argument node and the wired value is the argument -/
example : ∃ g, newGraph2 exProvs 7 = .ok g ∧ GraphVal g (.arg 7) :=
  ⟨_, rfl, NVal.arg rfl⟩

example : ∃ p, plan (setAsync (fun i => i == 0) exProvs) 3 = .ok p := ⟨_, rfl⟩


end KV

#print axioms KV.newGraph2_factor
#print axioms KV.plan_value
#print axioms KV.plan_value_exists
#print axioms KV.plan_value_exists'
#print axioms KV.newGraph2_value
#print axioms KV.newGraph2_value_exists
#print axioms KV.plan_value_spec
#print axioms KV.async_irrelevant_gen
#print axioms KV.async_irrelevant
#print axioms KV.async_value_irrelevant
#print axioms KV.async_supplierMap
#print axioms KV.plan_value_async
