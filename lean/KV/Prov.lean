import KV.GraphWF
/-! Prototype (scratch): edge provenance — the producer wired to an argument slot is the supplier of that
    slot's type key (or the argument node of that key when nobody supplies it).  Groundwork for C02 / C10. -/
namespace KV

def reqOf (provs : List PSpec) (st : BfsSt) (m : Nat) : List Nat :=
  if (st.nodes.getD m default).isArg then [] else (provs.getD (st.nodes.getD m default).prov default).requires

def ProvOK (sup : SupMap) (st : BfsSt) (n2 src t : Nat) : Prop :=
  (∃ p gi, sup.lookup t = some (p, gi) ∧ (st.nodes.getD n2 default).isArg = false ∧
      (st.nodes.getD n2 default).prov = p ∧ src = gi) ∨
  (sup.lookup t = none ∧ (st.nodes.getD n2 default).isArg = true ∧ (st.nodes.getD n2 default).ty = t ∧ src = 0)

def EProv (provs : List PSpec) (sup : SupMap) (st : BfsSt) : Prop :=
  ∀ n2 e, e ∈ st.edges.getD n2 [] →
    ∃ t, (reqOf provs st e.dst)[e.slot]? = some t ∧ ProvOK sup st n2 e.src t

/-- what `pickNode` returns is the supplier (or argument node) of the requested key -/
theorem pickNode_prov {provs : List PSpec} {sup : SupMap} {st : BfsSt} {cur : Option (Nat × Nat)} (t : Nat)
    (h : BInv provs st cur) :
    ProvOK sup (pickNode sup t st).1 (pickNode sup t st).2.1 (pickNode sup t st).2.2 t := by
  unfold pickNode
  split
  · rename_i p gi hlook
    split
    · rename_i n2 hpn
      obtain ⟨_, hnode⟩ := h.provNodeOK p n2 hpn
      left
      refine ⟨p, gi, hlook, ?_, ?_, rfl⟩
      · show (st.nodes.getD n2 default).isArg = false; rw [hnode]
      · show (st.nodes.getD n2 default).prov = p; rw [hnode]
    · left
      have hnew : (st.nodes ++ [({ isArg := false, prov := p } : Node)]).getD st.nodes.length default
          = { isArg := false, prov := p } := getD_append_right_new _ _ _
      refine ⟨p, gi, hlook, ?_, ?_, rfl⟩
      · show ((st.nodes ++ [_]).getD st.nodes.length default).isArg = false; rw [hnew]
      · show ((st.nodes ++ [_]).getD st.nodes.length default).prov = p; rw [hnew]
  · rename_i hlook
    have hlook' : sup.lookup t = none := hlook
    split
    · rename_i n2 han
      obtain ⟨_, h2, h3⟩ := h.argNodeOK t n2 han
      right; exact ⟨hlook', h2, h3, rfl⟩
    · right
      have hnew : (st.nodes ++ [({ isArg := true, ty := t } : Node)]).getD st.nodes.length default
          = { isArg := true, ty := t } := getD_append_right_new _ _ _
      refine ⟨hlook', ?_, ?_, rfl⟩
      · show ((st.nodes ++ [_]).getD st.nodes.length default).isArg = true; rw [hnew]
      · show ((st.nodes ++ [_]).getD st.nodes.length default).ty = t; rw [hnew]

/-- edges of `pickNode`'s state: the old ones (a fresh node has none) -/
theorem pickNode_edges {sup : SupMap} (t : Nat) (st : BfsSt) (n2 : Nat) (e : Edge) (hlen : st.edges.length = st.nodes.length)
    (he : e ∈ (pickNode sup t st).1.edges.getD n2 []) : e ∈ st.edges.getD n2 [] := by
  unfold pickNode at he
  have happ : ∀ e', e' ∈ (st.edges ++ [[]]).getD n2 [] → e' ∈ st.edges.getD n2 [] := by
    intro e' he'
    by_cases hn : n2 < st.edges.length
    · rw [getD_append_left _ _ _ _ hn] at he'; exact he'
    · by_cases heq : n2 = st.edges.length
      · subst heq; rw [getD_append_right_new] at he'; simp at he'
      · rw [getD_append_oob _ _ _ _ (by simp; omega)] at he'; simp at he'
  split at he
  · split at he
    · exact he
    · exact happ e he
  · split at he
    · exact he
    · exact happ e he

theorem reqOf_ext {provs : List PSpec} {st st' : BfsSt} (hx : Ext st st') (m : Nat) (hm : m < st.nodes.length) :
    reqOf provs st' m = reqOf provs st m := by
  unfold reqOf; rw [hx.nodesKeep m hm]

theorem provOK_ext {sup : SupMap} {st st' : BfsSt} (hx : Ext st st') {n2 src t : Nat} (hn : n2 < st.nodes.length)
    (h : ProvOK sup st n2 src t) : ProvOK sup st' n2 src t := by
  unfold ProvOK at *; rw [hx.nodesKeep n2 hn]; exact h

theorem reqStep_prov {provs : List PSpec} {sup : SupMap} (hsup : SupOK provs sup) {st : BfsSt} {n1 i : Nat} (t : Nat)
    (h : BInv provs st (some (n1, i))) (hn1 : n1 ∈ st.visited) (hp : EProv provs sup st)
    (hreq : (reqOf provs st n1)[i]? = some t) : EProv provs sup (reqStep sup n1 i t st) := by
  obtain ⟨h1, hext, hlt, hsrc⟩ := pickNode_inv hsup t h
  have hn1l : n1 < st.nodes.length := h.vLt n1 hn1
  intro n2 e he
  -- nodes of reqStep = nodes of pickNode's state
  have hnodes : (reqStep sup n1 i t st).nodes = (pickNode sup t st).1.nodes := rfl
  have hreqOf : ∀ m, reqOf provs (reqStep sup n1 i t st) m = reqOf provs (pickNode sup t st).1 m := fun m => rfl
  have hprovOK : ∀ a b c, ProvOK sup (pickNode sup t st).1 a b c → ProvOK sup (reqStep sup n1 i t st) a b c :=
    fun a b c hh => hh
  change e ∈ (listModify (pickNode sup t st).1.edges (pickNode sup t st).2.1
    (· ++ [{ dst := n1, src := (pickNode sup t st).2.2, slot := i }])).getD n2 [] at he
  have hcase : e ∈ (pickNode sup t st).1.edges.getD n2 [] ∨
      (n2 = (pickNode sup t st).2.1 ∧ e = { dst := n1, src := (pickNode sup t st).2.2, slot := i }) := by
    by_cases hn : n2 = (pickNode sup t st).2.1
    · rw [hn] at he
      by_cases hl : (pickNode sup t st).2.1 < (pickNode sup t st).1.edges.length
      · rw [getD_listModify_self _ _ _ _ hl] at he
        simp only [List.mem_append, List.mem_singleton] at he
        rcases he with he | he
        · exact Or.inl (hn ▸ he)
        · exact Or.inr ⟨hn, he⟩
      · rw [listModify_oob _ _ _ hl] at he; exact Or.inl (hn ▸ he)
    · rw [getD_listModify_other _ _ _ _ _ hn] at he; exact Or.inl he
  rcases hcase with hold | ⟨rfl, rfl⟩
  · have hold' := pickNode_edges t st n2 e h.lenE hold
    obtain ⟨t', ht', hpo⟩ := hp n2 e hold'
    obtain ⟨hn2l, hdv, _, _⟩ := h.edgeOK n2 e hold'
    have hdl := h.vLt _ hdv
    refine ⟨t', ?_, hprovOK _ _ _ (provOK_ext hext hn2l hpo)⟩
    rw [hreqOf, reqOf_ext hext _ hdl]; exact ht'
  · refine ⟨t, ?_, hprovOK _ _ _ (pickNode_prov t h)⟩
    show (reqOf provs (reqStep sup n1 i t st) n1)[i]? = some t
    rw [hreqOf, reqOf_ext hext _ hn1l]; exact hreq

theorem bfsRequires_prov {provs : List PSpec} {sup : SupMap} (hsup : SupOK provs sup) {n1 : Nat} (ts : List Nat)
    {i : Nat} {st : BfsSt} (h : BInv provs st (some (n1, i))) (hn1 : n1 ∈ st.visited) (hp : EProv provs sup st)
    (hdrop : (reqOf provs st n1).drop i = ts) : EProv provs sup (bfsRequires provs sup n1 i ts st) := by
  induction ts generalizing i st with
  | nil => simpa [bfsRequires] using hp
  | cons t ts ih =>
    rw [bfsRequires_cons]
    have hn1l : n1 < st.nodes.length := h.vLt n1 hn1
    have hreq : (reqOf provs st n1)[i]? = some t := by
      have := congrArg (fun l => l[0]?) hdrop
      simpa [List.getElem?_drop] using this
    obtain ⟨h1, hext1⟩ := reqStep_inv hsup t h hn1
    have hp1 := reqStep_prov hsup t h hn1 hp hreq
    apply ih h1 (by rw [hext1.visited]; exact hn1) hp1
    rw [reqOf_ext hext1 _ hn1l]
    have := congrArg List.tail hdrop
    simpa [List.tail_drop] using this

/-- `EProv` only talks about nodes and edges -/
theorem eprov_congr {provs : List PSpec} {sup : SupMap} {st st' : BfsSt} (hn : st'.nodes = st.nodes)
    (he : st'.edges = st.edges) (h : EProv provs sup st) : EProv provs sup st' := by
  intro n2 e hmem
  rw [he] at hmem
  obtain ⟨t, h1, h2⟩ := h n2 e hmem
  refine ⟨t, ?_, ?_⟩
  · simp only [reqOf, hn]; exact h1
  · simp only [ProvOK, hn]; exact h2

theorem bfsLoop_prov {provs : List PSpec} {sup : SupMap} (hsup : SupOK provs sup) (fuel : Nat) {st : BfsSt}
    (h : BInv provs st none) (hp : EProv provs sup st) : EProv provs sup (bfsLoop provs sup fuel st) := by
  induction fuel generalizing st with
  | zero => simpa [bfsLoop] using hp
  | succ k ih =>
    simp only [bfsLoop]
    split
    · exact hp
    · rename_i n1 q hq
      have hn1 : n1 < st.nodes.length := h.qLt n1 (by rw [hq]; exact List.mem_cons_self ..)
      split
      · rename_i hv
        have hv' : n1 ∈ st.visited := by simpa using hv
        apply ih
        · exact { lenE := h.lenE, lenR := h.lenR, vLt := h.vLt, edgeOK := h.edgeOK, revOK := h.revOK, uniq := h.uniq,
                  revLen := h.revLen, provNodeOK := h.provNodeOK, argNodeOK := h.argNodeOK,
                  qLt := fun m hm => h.qLt m (by rw [hq]; exact List.mem_cons_of_mem _ hm),
                  seen := by
                    intro m hm
                    rcases h.seen m hm with h1 | h1
                    · rw [hq] at h1
                      simp only [List.mem_cons] at h1
                      rcases h1 with rfl | h1
                      · exact Or.inr hv'
                      · exact Or.inl h1
                    · exact Or.inr h1 }
        · exact eprov_congr rfl rfl hp
      · rename_i hv
        have hnv : n1 ∉ st.visited := by simpa using hv
        have hvis := visit_inv h hq hnv
        have hpvis : EProv provs sup { st with queue := q, visited := st.visited ++ [n1] } := eprov_congr rfl rfl hp
        have hget : st.nodes[n1]? = some (st.nodes.getD n1 default) := by
          rw [List.getElem?_eq_getElem hn1, getD_eq_getElem' _ _ _ hn1]
        split
        · rename_i hnone
          rw [show ({ st with queue := q, visited := st.visited ++ [n1] } : BfsSt).nodes = st.nodes from rfl] at hnone
          rw [hget] at hnone; cases hnone
        · rename_i nd hsome
          rw [show ({ st with queue := q, visited := st.visited ++ [n1] } : BfsSt).nodes = st.nodes from rfl] at hsome
          rw [hget] at hsome
          have hnd : nd = st.nodes.getD n1 default := (Option.some.inj hsome).symm
          split
          · rename_i harg
            apply ih _ hpvis
            apply hvis.closeCur
            show 0 = slotsOfNode provs (st.nodes.getD n1 default)
            rw [← hnd]; simp [slotsOfNode, harg]
          · rename_i harg
            have hn1v : n1 ∈ ({ st with queue := q, visited := st.visited ++ [n1] } : BfsSt).visited := by simp
            obtain ⟨h2, hext⟩ := bfsRequires_inv hsup (provs.getD nd.prov default).requires hvis hn1v
            have hdrop : (reqOf provs { st with queue := q, visited := st.visited ++ [n1] } n1).drop 0
                = (provs.getD nd.prov default).requires := by
              simp only [List.drop_zero, reqOf]
              rw [← hnd]; simp [harg]
            have hp2 := bfsRequires_prov hsup (provs.getD nd.prov default).requires hvis hn1v hpvis hdrop
            apply ih _ hp2
            apply h2.closeCur
            rw [hext.nodesKeep n1 hn1]
            show 0 + _ = slotsOfNode provs (st.nodes.getD n1 default)
            rw [← hnd]; simp [slotsOfNode, harg]

theorem bfsInit_prov (provs : List PSpec) (sup : SupMap) (rp : Nat) : EProv provs sup (bfsInit rp) := by
  intro n2 e he
  have : (bfsInit rp).edges.getD n2 [] = [] := by
    cases n2 <;> simp [bfsInit, List.getD_eq_getElem?_getD]
  rw [this] at he; simp at he

end KV
