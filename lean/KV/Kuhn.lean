import KV.Kahn
/-! Prototype (scratch): a lower bound on the pool count computed by `findMaximumAntichainSize`
    (n minus the size of the matching found by Kuhn's algorithm): at least the number of nodes
    that have no incoming edge.  Only this bound — not maximality of the matching — is needed for C05. -/
namespace KV

def cnt (m : List (Option Nat)) : Nat := m.countP Option.isSome

def hasIn (adj : List (List Nat)) (v : Nat) : Prop := ∃ u, v ∈ adj.getD u []

structure AugSpec (adj : List (List Nat)) (used : List Bool) (m : List (Option Nat))
    (r : Bool × List Bool × List (Option Nat)) : Prop where
  len : r.2.2.length = m.length
  usedLen : r.2.1.length = used.length
  usedMono : ∀ v, used.getD v false = true → r.2.1.getD v false = true
  keep : ∀ v, used.getD v false = true → r.2.2.getD v none = m.getD v none
  someMono : ∀ v, (m.getD v none).isSome = true → (r.2.2.getD v none).isSome = true
  newIn : ∀ v, (r.2.2.getD v none).isSome = true → (m.getD v none).isSome = true ∨ hasIn adj v
  okCnt : r.1 = true → cnt r.2.2 = cnt m + 1
  failSame : r.1 = false → r.2.2 = m

theorem getD_set_opt {α} (l : List α) (i j : Nat) (a d : α) :
    (l.set i a).getD j d = if i = j ∧ i < l.length then a else l.getD j d := by
  simp only [List.getD_eq_getElem?_getD, List.getElem?_set]
  by_cases h : i = j
  · subst h
    by_cases hl : i < l.length
    · simp [hl]
    · simp [hl, List.getElem?_eq_none (Nat.le_of_not_lt hl)]
  · simp [h]

theorem cnt_set_none_some (m : List (Option Nat)) (v u : Nat) (hv : v < m.length) (hn : m.getD v none = none) :
    cnt (m.set v (some u)) = cnt m + 1 := by
  unfold cnt
  rw [List.countP_set hv]
  have : m[v] = none := by
    rw [← getD_eq_getElem'' m v none hv]; exact hn
  simp [this]
where
  getD_eq_getElem'' {α} (l : List α) (i : Nat) (d : α) (hi : i < l.length) : l.getD i d = l[i] := by
    simp only [List.getD_eq_getElem?_getD, List.getElem?_eq_getElem hi, Option.getD_some]

theorem cnt_set_some_some (m : List (Option Nat)) (v u w : Nat) (hv : v < m.length) (hs : m.getD v none = some w) :
    cnt (m.set v (some u)) = cnt m := by
  unfold cnt
  rw [List.countP_set hv]
  have hget : m[v] = some w := by
    have : m.getD v none = m[v] := by
      simp only [List.getD_eq_getElem?_getD, List.getElem?_eq_getElem hv, Option.getD_some]
    rw [← this]; exact hs
  have hpos : 0 < m.countP Option.isSome := by
    apply List.countP_pos_iff.mpr
    exact ⟨m[v], List.getElem_mem hv, by rw [hget]; rfl⟩
  simp [hget]; omega

theorem findAugU_spec (adj : List (List Nat)) (hadj : ∀ w v, v ∈ adj.getD w [] → True) :
    ∀ (fuel u : Nat) (vs : List Nat) (used : List Bool) (m : List (Option Nat)),
      used.length = m.length → (∀ v ∈ vs, v < m.length ∧ hasIn adj v) →
      (∀ w v, v ∈ adj.getD w [] → v < m.length) →
      AugSpec adj used m (findAugU adj fuel u vs used m) := by
  intro fuel
  induction fuel with
  | zero =>
    intro u vs used m _ _ _
    simp only [findAugU]
    exact { len := rfl, usedLen := rfl, usedMono := fun _ h => h, keep := fun _ _ => rfl, someMono := fun _ h => h,
            newIn := fun _ h => Or.inl h, okCnt := fun h => (by cases h), failSame := fun _ => rfl }
  | succ k ih =>
    intro u vs used m hul hvs hall
    cases vs with
    | nil =>
      simp only [findAugU]
      exact { len := rfl, usedLen := rfl, usedMono := fun _ h => h, keep := fun _ _ => rfl, someMono := fun _ h => h,
              newIn := fun _ h => Or.inl h, okCnt := fun h => (by cases h), failSame := fun _ => rfl }
    | cons v vs =>
      have hv := (hvs v (List.mem_cons_self ..)).1
      have hvin := (hvs v (List.mem_cons_self ..)).2
      have hvs' : ∀ x ∈ vs, x < m.length ∧ hasIn adj x := fun x hx => hvs x (List.mem_cons_of_mem _ hx)
      simp only [findAugU]
      split
      · exact ih u vs used m hul hvs' hall
      · rename_i hnu
        have hnu' : used.getD v false = false := by simpa using hnu
        have hvU : v < used.length := by rw [hul]; exact hv
        -- used with v marked
        have husedSet : ∀ x, used.getD x false = true → (used.set v true).getD x false = true := by
          intro x hx
          rw [getD_set_opt]; split
          · rfl
          · exact hx
        split
        · -- free right vertex: match it
          rename_i hnone
          refine { len := by simp, usedLen := by simp, usedMono := husedSet, keep := ?_, someMono := ?_, newIn := ?_,
                   okCnt := fun _ => cnt_set_none_some m v u hv hnone, failSame := fun h => (by cases h) }
          · intro x hx
            show (m.set v (some u)).getD x none = m.getD x none
            rw [getD_set_opt]; split
            · rename_i hc; obtain ⟨rfl, _⟩ := hc; rw [hnu'] at hx; cases hx
            · rfl
          · intro x hx
            show ((m.set v (some u)).getD x none).isSome = true
            rw [getD_set_opt]; split
            · rfl
            · exact hx
          · intro x hx
            change ((m.set v (some u)).getD x none).isSome = true at hx
            rw [getD_set_opt] at hx
            split at hx
            · rename_i hc; obtain ⟨rfl, _⟩ := hc; exact Or.inr hvin
            · exact Or.inl hx
        · -- matched to w: try to re-route w
          rename_i w hsome
          have hul' : (used.set v true).length = m.length := by simp [hul]
          have hw : ∀ x ∈ adj.getD w [], x < m.length ∧ hasIn adj x :=
            fun x hx => ⟨hall w x hx, ⟨w, hx⟩⟩
          have hrec := ih w (adj.getD w []) (used.set v true) m hul' hw hall
          generalize hr : findAugU adj k w (adj.getD w []) (used.set v true) m = r at hrec
          obtain ⟨ok, used1, m1⟩ := r
          have hvused : (used.set v true).getD v false = true := by
            rw [getD_set_opt]; simp [hvU]
          have hm1v : m1.getD v none = some w := by
            have := hrec.keep v hvused
            simp only at this
            rw [this]; exact hsome
          have hm1len : m1.length = m.length := hrec.len
          simp only
          split
          · -- inner success
            rename_i hok
            have hok' : ok = true := hok
            refine { len := by simp [hm1len], usedLen := by simpa using hrec.usedLen, usedMono := ?_, keep := ?_,
                     someMono := ?_, newIn := ?_, okCnt := ?_, failSame := fun h => (by cases h) }
            · intro x hx; exact hrec.usedMono x (husedSet x hx)
            · intro x hx
              show (m1.set v (some u)).getD x none = m.getD x none
              rw [getD_set_opt]; split
              · rename_i hc; obtain ⟨rfl, _⟩ := hc; rw [hnu'] at hx; cases hx
              · exact hrec.keep x (husedSet x hx)
            · intro x hx
              show ((m1.set v (some u)).getD x none).isSome = true
              rw [getD_set_opt]; split
              · rfl
              · exact hrec.someMono x hx
            · intro x hx
              change ((m1.set v (some u)).getD x none).isSome = true at hx
              rw [getD_set_opt] at hx
              split at hx
              · rename_i hc; obtain ⟨rfl, _⟩ := hc; exact Or.inr hvin
              · exact hrec.newIn x hx
            · intro _
              rw [cnt_set_some_some m1 v u w (by rw [hm1len]; exact hv) hm1v]
              exact hrec.okCnt hok'
          · -- inner failure: m1 = m, continue with the remaining neighbours
            rename_i hok
            have hok' : ok = false := by simpa using hok
            have hm1 : m1 = m := hrec.failSame hok'
            subst hm1
            have hul1 : used1.length = m1.length := by rw [hrec.usedLen]; exact hul'
            have hrest := ih u vs used1 m1 hul1 hvs' hall
            refine { len := hrest.len, usedLen := by rw [hrest.usedLen, hrec.usedLen]; simp, usedMono := ?_, keep := ?_,
                     someMono := hrest.someMono, newIn := hrest.newIn, okCnt := hrest.okCnt, failSame := hrest.failSame }
            · intro x hx; exact hrest.usedMono x (hrec.usedMono x (husedSet x hx))
            · intro x hx; exact hrest.keep x (hrec.usedMono x (husedSet x hx))

/-- counting: entries that are `some` plus indices known to hold `none` do not exceed the length -/
theorem cnt_add_none_le (m : List (Option Nat)) (q : Nat → Bool)
    (h : ∀ v, v < m.length → q v = true → m.getD v none = none) :
    cnt m + ((List.range m.length).filter q).length ≤ m.length := by
  induction m generalizing q with
  | nil => simp [cnt]
  | cons x xs ih =>
    have ih' := ih (fun v => q (v + 1)) (by
      intro v hv hq
      have := h (v + 1) (by simpa using hv) hq
      simpa [List.getD_eq_getElem?_getD] using this)
    simp only [List.length_cons, List.range_succ_eq_map, List.filter_cons, List.filter_map, List.length_map]
    have hx : q 0 = true → x = none := by
      intro hq
      have := h 0 (by simp) hq
      simpa [List.getD_eq_getElem?_getD] using this
    unfold cnt at ih' ⊢
    rw [List.countP_cons]
    have hcomp : (List.filter (q ∘ Nat.succ) (List.range xs.length)).length
        = (List.filter (fun v => q (v + 1)) (List.range xs.length)).length := rfl
    by_cases hq0 : q 0 = true
    · have := hx hq0; subst this
      simp only [hq0, ↓reduceIte, List.length_cons, Option.isSome_none, Bool.false_eq_true, List.length_map]
      rw [hcomp]; omega
    · simp only [hq0, Bool.false_eq_true, ↓reduceIte, List.length_map]
      rw [hcomp]
      split <;> omega

def adjOf (g : Graph) : List (List Nat) := g.edges.map (·.map (·.dst))

theorem mem_adjOf {g : Graph} {u v : Nat} (h : v ∈ (adjOf g).getD u []) : ∃ e ∈ g.edges.getD u [], e.dst = v := by
  simp only [adjOf, List.getD_eq_getElem?_getD, List.getElem?_map] at h
  cases he : g.edges[u]? with
  | none => simp [he] at h
  | some es =>
    simp only [he, Option.map_some, Option.getD_some, List.mem_map] at h
    obtain ⟨e, hem, rfl⟩ := h
    exact ⟨e, by simp [List.getD_eq_getElem?_getD, he, hem], rfl⟩

structure GoInv (g : Graph) (m : List (Option Nat)) (size : Nat) : Prop where
  len : m.length = g.nodes.length
  sum : size + cnt m = g.nodes.length
  inOnly : ∀ v, (m.getD v none).isSome = true → hasIn (adjOf g) v

theorem maxAntichain_go_inv {g : Graph} (hg : GWF g) (fuel : Nat) :
    ∀ (k u : Nat) (m : List (Option Nat)) (size : Nat), GoInv g m size →
      ∃ m', GoInv g m' (maxAntichain.go g.nodes.length (adjOf g) fuel k u m size) := by
  intro k
  induction k with
  | zero => intro u m size h; exact ⟨m, by simpa [maxAntichain.go] using h⟩
  | succ k ih =>
    intro u m size h
    simp only [maxAntichain.go]
    have hall : ∀ w v, v ∈ (adjOf g).getD w [] → v < m.length := by
      intro w v hv
      obtain ⟨e, he, rfl⟩ := mem_adjOf hv
      rw [h.len]; exact hg.dstLt w e he
    have hspec := findAugU_spec (adjOf g) (fun _ _ _ => trivial) fuel u ((adjOf g).getD u [])
      (List.replicate g.nodes.length false) m (by simp [h.len])
      (fun v hv => ⟨hall u v hv, ⟨u, hv⟩⟩) hall
    generalize hr : findAugU (adjOf g) fuel u ((adjOf g).getD u []) (List.replicate g.nodes.length false) m = r at hspec
    obtain ⟨ok, used1, m1⟩ := r
    simp only
    apply ih
    refine { len := by rw [hspec.len]; exact h.len, sum := ?_, inOnly := ?_ }
    · cases hok : ok with
      | true =>
        have hc := hspec.okCnt hok
        simp only at hc
        have hle : cnt m1 ≤ m1.length := List.countP_le_length
        have hl1 : m1.length = g.nodes.length := by rw [hspec.len]; exact h.len
        have := h.sum
        simp only [↓reduceIte]
        omega
      | false =>
        have := hspec.failSame hok
        simp only at this
        subst this
        simpa using h.sum
    · intro v hv
      rcases hspec.newIn v hv with h1 | h1
      · exact h.inOnly v h1
      · exact h1

/-- **pool-count lower bound**: at least as many pools as there are nodes without dependencies -/
theorem maxAntichain_ge_zero_nodes {g : Graph} (hg : GWF g) :
    ((List.range g.nodes.length).filter (fun v => decide (g.rev.getD v [] = []))).length ≤ maxAntichain g := by
  have hinit : GoInv g (List.replicate g.nodes.length none) g.nodes.length := {
    len := by simp
    sum := by simp [cnt, List.countP_replicate]
    inOnly := by
      intro v hv
      simp only [List.getD_eq_getElem?_getD, List.getElem?_replicate] at hv
      split at hv <;> simp at hv }
  obtain ⟨m', hm'⟩ := maxAntichain_go_inv hg
    ((g.nodes.length + 1) * (g.nodes.length + 1) * 4 +
      ((adjOf g).foldl (fun a l => a + l.length) 0) * (g.nodes.length + 1) + 8) g.nodes.length 0 _ _ hinit
  have hbound := cnt_add_none_le m' (fun v => decide (g.rev.getD v [] = [])) (by
    intro v hv hq
    have hq' : g.rev.getD v [] = [] := by simpa using hq
    cases hmv : m'.getD v none with
    | none => rfl
    | some w =>
      exfalso
      obtain ⟨u, hu⟩ := hm'.inOnly v (by rw [hmv]; rfl)
      obtain ⟨e, he, hed⟩ := mem_adjOf hu
      have := hg.slotLt u e he
      rw [hed, hq'] at this; simp at this)
  have hs := hm'.sum
  rw [hm'.len] at hbound
  show _ ≤ maxAntichain.go g.nodes.length (adjOf g) _ g.nodes.length 0 _ g.nodes.length
  simp only [adjOf] at hs ⊢
  omega

end KV
