/-! Prototype (scratch): C13 modelling probe — a small reference solver for google/wire provider sets, the
    `kessoku migrate` transformation on the same abstract configuration, kessoku's by-type evaluation of the
    migrated declaration, and concrete witnesses where they differ (all by kernel evaluation). -/
namespace Wire

/-- type keys: `val n` is the named type `Tn`, `ptr n` is `*Tn`, `iface n` an interface `In` -/
inductive Ty where
  | val (n : Nat) | ptr (n : Nat) | iface (n : Nat) | basic (n : Nat)
deriving DecidableEq, Repr

structure Func where
  name : Nat            -- function identity; by convention `ctorName n` is the name `New<Tn>`
  params : List Ty
  result : Ty
deriving DecidableEq, Repr

/-- elements of a wire provider set, already flattened -/
inductive Item where
  | func (f : Func)
  | bind (iface : Nat) (impl : Ty)                 -- wire.Bind(new(In), new(impl))
  | structP (n : Nat) (fields : List Ty)           -- wire.Struct(new(Tn), "*"): provides Tn and *Tn
  | fieldsOf (n : Nat) (ptrForm : Bool) (fields : List Ty)   -- wire.FieldsOf(new(Tn) | new(*Tn), …)
deriving DecidableEq, Repr

structure Cfg where
  items : List Item
  args : List Ty
  ret : Ty
  /-- every function declared in the package (constructor lookup by name sees all of them) -/
  pkgFuncs : List Func
deriving Repr

def ctorName (n : Nat) : Nat := 1000 + n       -- the name `New<Tn>`
def mkName (n : Nat) : Nat := 2000 + n         -- struct literal `Tn{…}`
def mkPtrName (n : Nat) : Nat := 3000 + n      -- `&Tn{…}`
def fieldName : Nat := 4000                    -- field read

/-- Herbrand values -/
inductive V where
  | arg (t : Ty)
  | call (name : Nat) (args : List V)
  | missing (t : Ty)
  | bot

mutual
def V.beq : V → V → Bool
  | .arg a, .arg b => a == b
  | .call n as, .call m bs => n == m && V.beqL as bs
  | .missing a, .missing b => a == b
  | .bot, .bot => true
  | _, _ => false
def V.beqL : List V → List V → Bool
  | [], [] => true
  | a :: as, b :: bs => V.beq a b && V.beqL as bs
  | _, _ => false
end

/-! ### google/wire: resolution by type over the provider set -/

def wireSupplier (items : List Item) (t : Ty) : Option (Nat × List Ty) :=
  items.findSome? fun
    | .func f => if f.result = t then some (f.name, f.params) else none
    | .structP n fs => if t = .val n then some (mkName n, fs)
                       else if t = .ptr n then some (mkPtrName n, fs) else none
    | .fieldsOf n ptrForm fs =>
        if fs.contains t then some (fieldName, [if ptrForm then Ty.ptr n else Ty.val n]) else none
    | .bind _ _ => none

def wireBinding (items : List Item) (t : Ty) : Option Ty :=
  match t with
  | .iface i => items.findSome? fun
      | .bind j impl => if i = j then some impl else none
      | _ => none
  | _ => none

def wireEval (c : Cfg) : Nat → Ty → V
  | 0, _ => .bot
  | fuel + 1, t =>
    if c.args.contains t then .arg t
    else match wireBinding c.items t with
      | some impl => wireEval c fuel impl
      | none =>
        match wireSupplier c.items t with
        | some (name, ps) => .call name (ps.map (wireEval c fuel))
        | none => .missing t

/-! ### kessoku migrate (transform_*.go), on the same abstract configuration -/

inductive KItem where
  | provide (f : Func)                       -- kessoku.Provide(f)
  | bindProvide (iface : Nat) (f : Func)     -- kessoku.Bind[In](kessoku.Provide(f))
deriving DecidableEq, Repr

def tyName : Ty → Option Nat
  | .val n => some n | .ptr n => some n | _ => none

/-- implementation types bound by some `wire.Bind` (one pointer level removed, as `collectBoundTypes`) -/
def boundTypes (items : List Item) : List Ty :=
  items.filterMap fun | .bind _ impl => some impl | _ => none

def migrateItem (c : Cfg) : Item → Option (List KItem)
  | .func f => if (boundTypes c.items).contains f.result then some [] else some [.provide f]
  | .bind i impl =>
      -- constructor looked up **by name** `New<T>` among the package's functions
      match tyName impl with
      | none => none
      | some n => (c.pkgFuncs.find? (fun f => f.name == ctorName n)).map (fun f => [.bindProvide i f])
  | .structP n fs => some [.provide { name := mkPtrName n, params := fs, result := .ptr n }]   -- always *T
  | .fieldsOf n _ fs => some (fs.map (fun ft => KItem.provide { name := fieldName, params := [.ptr n], result := ft }))  -- always *T receiver

def migrate (c : Cfg) : Option (List KItem) :=
  c.items.foldl (fun acc it => match acc, migrateItem c it with
    | some l, some k => some (l ++ k)
    | _, _ => none) (some [])

/-! ### kessoku: by-type evaluation of the migrated declaration (unsupplied types become arguments) -/

def kSupplier (ks : List KItem) (t : Ty) : Option (Nat × List Ty) :=
  ks.findSome? fun
    | .provide f => if f.result = t then some (f.name, f.params) else none
    | .bindProvide i f => if f.result = t ∨ t = .iface i then some (f.name, f.params) else none

def kEval (ks : List KItem) : Nat → Ty → V
  | 0, _ => .bot
  | fuel + 1, t =>
    match kSupplier ks t with
    | some (name, ps) => .call name (ps.map (kEval ks fuel))
    | none => .arg t

/-! ### witnesses -/

def provideRepoName : Nat := 1
def newAppName : Nat := 2
def newSvcName : Nat := 3

/-- `ProvideRepo(Config) *PgRepo`, an unrelated `NewT1(string, int) *PgRepo`, `Bind(Repo, *PgRepo)`, `NewApp(Repo) *App` -/
def cfgBindByName : Cfg :=
  let provideRepo : Func := { name := provideRepoName, params := [.val 0], result := .ptr 1 }
  let newPgRepo : Func := { name := ctorName 1, params := [.basic 0, .basic 1], result := .ptr 1 }
  let newApp : Func := { name := newAppName, params := [.iface 0], result := .ptr 2 }
  { items := [.structP 0 [.basic 0, .basic 1], .func provideRepo, .bind 0 (.ptr 1), .func newApp],
    args := [.basic 0, .basic 1], ret := .ptr 2, pkgFuncs := [provideRepo, newPgRepo, newApp] }

def migratedEval (c : Cfg) (fuel : Nat) : V :=
  match migrate c with
  | some ks => kEval ks fuel c.ret
  | none => .bot

/-- wire: `NewApp(ProvideRepo(Config{host, port}))` -/
theorem wire_calls_ProvideRepo :
    V.beq (wireEval cfgBindByName 8 (.ptr 2))
      (.call newAppName [.call provideRepoName [.call (mkName 0) [.arg (.basic 0), .arg (.basic 1)]]]) = true := by decide

/-- migrated: `NewApp(NewT1(host, port))` — the constructor found by name -/
theorem migrated_calls_NewT1 :
    V.beq (migratedEval cfgBindByName 8)
      (.call newAppName [.call (ctorName 1) [.arg (.basic 0), .arg (.basic 1)]]) = true := by decide

/-- **C13 is false of the current migration** (Bind resolved by constructor name): a different provider is invoked -/
theorem c13_bind_by_name_differs :
    V.beq (migratedEval cfgBindByName 8) (wireEval cfgBindByName 8 (.ptr 2)) = false := by decide

/-- value-form struct: `wire.Struct(new(T0), "*")` with a consumer of the *value* `T0` -/
def cfgStructValue : Cfg :=
  let useCfg : Func := { name := newSvcName, params := [.val 0], result := .ptr 1 }
  { items := [.structP 0 [.basic 0], .func useCfg], args := [.basic 0], ret := .ptr 1, pkgFuncs := [useCfg] }

/-- wire builds the struct; the migrated injector silently grows an extra parameter of type `T0` -/
theorem c13_struct_value_differs :
    V.beq (wireEval cfgStructValue 8 (.ptr 1)) (.call newSvcName [.call (mkName 0) [.arg (.basic 0)]]) = true ∧
    V.beq (migratedEval cfgStructValue 8) (.call newSvcName [.arg (.val 0)]) = true := by decide

/-! ### the subset of configurations on which the migration is faithful (definitions only; proofs in `KV/WireProofs.lean`) -/

mutual
/-- the term contains no `.bot`: the fuel sufficed -/
def V.noBot : V → Bool
  | .bot => false
  | .call _ as => V.noBotL as
  | _ => true
def V.noBotL : List V → Bool
  | [] => true
  | a :: as => V.noBot a && V.noBotL as
end

mutual
/-- the term contains no `.missing`: wire itself resolved every type -/
def V.noMissing : V → Bool
  | .missing _ => false
  | .call _ as => V.noMissingL as
  | _ => true
def V.noMissingL : List V → Bool
  | [] => true
  | a :: as => V.noMissing a && V.noMissingL as
end

def NoBot (v : V) : Prop := v.noBot = true
def NoMissing (v : V) : Prop := v.noMissing = true
instance (v : V) : Decidable (NoBot v) := inferInstanceAs (Decidable (v.noBot = true))
instance (v : V) : Decidable (NoMissing v) := inferInstanceAs (Decidable (v.noMissing = true))

/-- the types a provider-set item supplies to wire's solver (`Struct` supplies `T` and `*T`; a `Bind` supplies the interface) -/
def supplied : Item → List Ty
  | .func f => [f.result]
  | .bind i _ => [.iface i]
  | .structP n _ => [.val n, .ptr n]
  | .fieldsOf _ _ fs => fs

/-- the types an item asks the solver for, as written by the user (function parameters, struct fields).  The receiver of a
    `FieldsOf` and the implementation of a `Bind` are constrained separately by `itemOk`. -/
def consumed : Item → List Ty
  | .func f => f.params
  | .structP _ fs => fs
  | _ => []

/-- per-item restrictions.
    * `Bind(new(I), new(impl))`: `impl` is a named type `T`/`*T` (otherwise `migrate` refuses), the **by-name lookup** of
      `New<T>` among the package's functions succeeds, and the function it finds *is a provider listed in the set* whose result
      type is exactly `impl`.  Real-world restriction: the bound implementation is provided by its conventional constructor
      `New<T>`; any other provider (cf. `cfgBindByName`: `ProvideRepo`) is silently replaced by `New<T>`.
    * `FieldsOf`: pointer form only — the migration always emits a `*T` receiver. -/
def itemOk (c : Cfg) : Item → Bool
  | .bind _ impl =>
      match tyName impl with
      | none => false
      | some n =>
        match c.pkgFuncs.find? (fun f => f.name == ctorName n) with
        | some f => f.result == impl && c.items.contains (.func f)
        | none => false
  | .fieldsOf _ ptrForm _ => ptrForm
  | _ => true

/-- `t` is the value form `T` of some `wire.Struct(new(T), …)` in the set -/
def structVal (c : Cfg) (t : Ty) : Bool :=
  c.items.any fun | .structP n _ => t == .val n | _ => false

/-- Decidable subset of configurations on which `kessoku migrate` is faithful to google/wire.
    1. `itemOk` for every item (see there: `Bind` through the conventional constructor that is itself in the set; `FieldsOf`
       in pointer form).
    2. suppliers are unique: two *different* items never supply the same type.  This is wire's own "multiple bindings for
       type" rejection; in particular an interface is bound at most once, a bound interface is not also the result of a
       provider function or a `FieldsOf` field, and the constructor of a bound implementation is the only supplier of it.
    3. injector arguments are not supplied by any item (wire: "multiple bindings"; kessoku would prefer the provider and drop
       the argument, wire prefers the argument).
    4. the value form `T` of a `wire.Struct(new(T), …)` is never asked for (not the injector's result, not a parameter of a
       listed provider, not a field of a listed struct): the migration only emits the pointer form `*T`
       (cf. `cfgStructValue`). -/
def faithful (c : Cfg) : Bool :=
  c.items.all (itemOk c)
  && c.items.all (fun a => c.items.all fun b => a == b || (supplied a).all fun t => !(supplied b).contains t)
  && c.args.all (fun t => c.items.all fun a => !(supplied a).contains t)
  && (c.ret :: c.items.flatMap consumed).all (fun t => !structVal c t)

end Wire
