/-! Prototype (scratch): C13 modelling probe — a small reference solver for google/wire provider sets, the
    `kessoku migrate` transformation on the same abstract configuration, kessoku's by-type evaluation of the
    migrated declaration, and concrete witnesses where they differ (all by kernel evaluation). -/
namespace Wire

/-- type keys: `val n` is the named type `Tn`, `ptr n` is `*Tn`, `iface n` an interface `In` -/
inductive Ty where
  | val (n : Nat) | ptr (n : Nat) | iface (n : Nat) | basic (n : Nat)
deriving DecidableEq, Repr

structure Func where
  name : Nat            -- function identity; by convention `ctorName n` is the name `New<Tn>`
  params : List Ty
  result : Ty
deriving DecidableEq, Repr

/-- elements of a wire provider set, already flattened (`Cfg.parts` remembers which element list each was written in) -/
inductive Item where
  | func (f : Func)
  | bind (iface : Nat) (impl : Ty)                 -- wire.Bind(new(In), new(impl))
  | structP (n : Nat) (fields : List Ty)           -- wire.Struct(new(Tn), "*"): provides Tn and *Tn
  | fieldsOf (n : Nat) (ptrForm : Bool) (fields : List Ty)   -- wire.FieldsOf(new(Tn) | new(*Tn), …)
deriving DecidableEq, Repr

structure Cfg where
  items : List Item
  args : List Ty
  ret : Ty
  /-- every function declared in the package (constructor lookup by name sees all of them) -/
  pkgFuncs : List Func
  /-- element-list id of each item, in item order: the items come from several element lists (the arguments of one
      `wire.NewSet(...)` / `wire.Build(...)` each); `parts[i]` names the list the `i`-th item was written in.  Missing
      entries mean list `0`, so `parts := []` puts every item in one list. -/
  parts : List Nat := []
deriving Repr

/-- the element list the item at index `i` was written in -/
def partOf (c : Cfg) (i : Nat) : Nat := c.parts.getD i 0

def ctorName (n : Nat) : Nat := 1000 + n       -- the name `New<Tn>`
def mkName (n : Nat) : Nat := 2000 + n         -- struct literal `Tn{…}`
def mkPtrName (n : Nat) : Nat := 3000 + n      -- `&Tn{…}`
def fieldName : Nat := 4000                    -- field read

/-- Herbrand values -/
inductive V where
  | arg (t : Ty)
  | call (name : Nat) (args : List V)
  | missing (t : Ty)
  | bot

mutual
def V.beq : V → V → Bool
  | .arg a, .arg b => a == b
  | .call n as, .call m bs => n == m && V.beqL as bs
  | .missing a, .missing b => a == b
  | .bot, .bot => true
  | _, _ => false
def V.beqL : List V → List V → Bool
  | [], [] => true
  | a :: as, b :: bs => V.beq a b && V.beqL as bs
  | _, _ => false
end

/-! ### google/wire: resolution by type over the provider set -/

def wireSupplier (items : List Item) (t : Ty) : Option (Nat × List Ty) :=
  items.findSome? fun
    | .func f => if f.result = t then some (f.name, f.params) else none
    | .structP n fs => if t = .val n then some (mkName n, fs)
                       else if t = .ptr n then some (mkPtrName n, fs) else none
    | .fieldsOf n ptrForm fs =>
        if fs.contains t then some (fieldName, [if ptrForm then Ty.ptr n else Ty.val n]) else none
    | .bind _ _ => none

def wireBinding (items : List Item) (t : Ty) : Option Ty :=
  match t with
  | .iface i => items.findSome? fun
      | .bind j impl => if i = j then some impl else none
      | _ => none
  | _ => none

def wireEval (c : Cfg) : Nat → Ty → V
  | 0, _ => .bot
  | fuel + 1, t =>
    if c.args.contains t then .arg t
    else match wireBinding c.items t with
      | some impl => wireEval c fuel impl
      | none =>
        match wireSupplier c.items t with
        | some (name, ps) => .call name (ps.map (wireEval c fuel))
        | none => .missing t

/-! ### kessoku migrate (transform_*.go), on the same abstract configuration -/

inductive KItem where
  | provide (f : Func)                            -- kessoku.Provide(f)
  | bindProvide (ifaces : List Nat) (f : Func)    -- kessoku.Bind[Ik](…kessoku.Bind[I1](kessoku.Provide(f))…), ifaces = [I1, …, Ik]
deriving DecidableEq, Repr

def tyName : Ty → Option Nat
  | .val n => some n | .ptr n => some n | _ => none

/-- implementation types bound by some `wire.Bind` **written in element list `k`** (as `collectBoundTypes`, which
    `transformElements` calls on the direct elements of the one list it is transforming) -/
def boundTypesIn (c : Cfg) (k : Nat) : List Ty :=
  c.items.zipIdx.filterMap fun p => match p.1 with
    | .bind _ impl => if partOf c p.2 = k then some impl else none
    | _ => none

/-- the `wire.Bind`s on implementation `impl` written in element list `k`, as `(interface, item index)`, in item order -/
def bindsOn (c : Cfg) (k : Nat) (impl : Ty) : List (Nat × Nat) :=
  c.items.zipIdx.filterMap fun p => match p.1 with
    | .bind i impl' => if impl' = impl ∧ partOf c p.2 = k then some (i, p.2) else none
    | _ => none

/-- an earlier item of the element list of index `idx` is a `wire.Bind` on the same implementation `impl` -/
def hasEarlierBind (c : Cfg) (idx : Nat) (impl : Ty) : Bool :=
  (bindsOn c (partOf c idx) impl).any fun q => q.2 < idx

/-- the interfaces of the later `wire.Bind`s on `impl` in the element list of index `idx`, in item order -/
def laterIfaces (c : Cfg) (idx : Nat) (impl : Ty) : List Nat :=
  ((bindsOn c (partOf c idx) impl).filter fun q => idx < q.2).map (·.1)

/-- migration of the item at index `idx`.
    * a provider function is dropped when its result type is bound by a `wire.Bind` of **its own element list**;
    * the **first** `wire.Bind` on an implementation in its element list becomes one item
      `Bind[Ik](…Bind[I1](Provide(New<T>))…)` carrying its own interface followed by the interfaces of every later `Bind` on
      the same implementation in the same element list (the Go code wraps the earlier item once per later `Bind`); those
      later `Bind`s emit nothing.  The constructor is looked up by name and the migration refuses when it is missing; a
      later `Bind` on the same implementation would fail the very same lookup (same `impl`, same `pkgFuncs`), so refusing
      at the first `Bind` only is equivalent to refusing at each. -/
def migrateItem (c : Cfg) (idx : Nat) : Item → Option (List KItem)
  | .func f => if (boundTypesIn c (partOf c idx)).contains f.result then some [] else some [.provide f]
  | .bind i impl =>
      if hasEarlierBind c idx impl then some []     -- nested into the item of the first Bind on `impl` of this list
      else
      -- constructor looked up **by name** `New<T>` among the package's functions
      match tyName impl with
      | none => none
      | some n => (c.pkgFuncs.find? (fun f => f.name == ctorName n)).map
                    (fun f => [.bindProvide (i :: laterIfaces c idx impl) f])
  | .structP n fs => some [.provide { name := mkPtrName n, params := fs, result := .ptr n }]   -- always *T
  | .fieldsOf n _ fs => some (fs.map (fun ft => KItem.provide { name := fieldName, params := [.ptr n], result := ft }))  -- always *T receiver

/-- migrate the items `l`, the first of which has index `i`; output in item order -/
def migrateFrom (c : Cfg) : Nat → List Item → Option (List KItem)
  | _, [] => some []
  | i, it :: r =>
    match migrateItem c i it, migrateFrom c (i + 1) r with
    | some k, some l => some (k ++ l)
    | _, _ => none

def migrate (c : Cfg) : Option (List KItem) := migrateFrom c 0 c.items

/-! ### kessoku: by-type evaluation of the migrated declaration (unsupplied types become arguments) -/

def kSupplier (ks : List KItem) (t : Ty) : Option (Nat × List Ty) :=
  ks.findSome? fun
    | .provide f => if f.result = t then some (f.name, f.params) else none
    | .bindProvide is f => if f.result = t ∨ t ∈ is.map Ty.iface then some (f.name, f.params) else none

def kEval (ks : List KItem) : Nat → Ty → V
  | 0, _ => .bot
  | fuel + 1, t =>
    match kSupplier ks t with
    | some (name, ps) => .call name (ps.map (kEval ks fuel))
    | none => .arg t

/-- the types a migrated item supplies to kessoku (`Bind[J](Bind[I](Provide(f)))` supplies `f`'s result, `I` and `J`) -/
def kSupplied : KItem → List Ty
  | .provide f => [f.result]
  | .bindProvide is f => f.result :: is.map Ty.iface

/-- kessoku's "multiple providers provide T" refusal (`NewGraph`): two entries of the declaration — two *positions*, the
    provider identity there is the `ProviderSpec` pointer — supply a common type -/
def kAmbiguous : List KItem → Bool
  | [] => false
  | a :: r => r.any (fun b => (kSupplied a).any fun t => (kSupplied b).contains t) || kAmbiguous r

/-- the migration as the user experiences it: refused when `migrate` refuses **or** kessoku refuses the migrated
    declaration as ambiguous -/
def migrateChecked (c : Cfg) : Option (List KItem) :=
  match migrate c with
  | some ks => if kAmbiguous ks then none else some ks
  | none => none

/-! ### witnesses -/

def provideRepoName : Nat := 1
def newAppName : Nat := 2
def newSvcName : Nat := 3

/-- `ProvideRepo(Config) *PgRepo`, an unrelated `NewT1(string, int) *PgRepo`, `Bind(Repo, *PgRepo)`, `NewApp(Repo) *App` -/
def cfgBindByName : Cfg :=
  let provideRepo : Func := { name := provideRepoName, params := [.val 0], result := .ptr 1 }
  let newPgRepo : Func := { name := ctorName 1, params := [.basic 0, .basic 1], result := .ptr 1 }
  let newApp : Func := { name := newAppName, params := [.iface 0], result := .ptr 2 }
  { items := [.structP 0 [.basic 0, .basic 1], .func provideRepo, .bind 0 (.ptr 1), .func newApp],
    args := [.basic 0, .basic 1], ret := .ptr 2, pkgFuncs := [provideRepo, newPgRepo, newApp] }

def migratedEval (c : Cfg) (fuel : Nat) : V :=
  match migrateChecked c with
  | some ks => kEval ks fuel c.ret
  | none => .bot

/-- wire: `NewApp(ProvideRepo(Config{host, port}))` -/
theorem wire_calls_ProvideRepo :
    V.beq (wireEval cfgBindByName 8 (.ptr 2))
      (.call newAppName [.call provideRepoName [.call (mkName 0) [.arg (.basic 0), .arg (.basic 1)]]]) = true := by decide

/-- migrated: `NewApp(NewT1(host, port))` — the constructor found by name -/
theorem migrated_calls_NewT1 :
    V.beq (migratedEval cfgBindByName 8)
      (.call newAppName [.call (ctorName 1) [.arg (.basic 0), .arg (.basic 1)]]) = true := by decide

/-- **C13 is false of the current migration** (Bind resolved by constructor name): a different provider is invoked -/
theorem c13_bind_by_name_differs :
    V.beq (migratedEval cfgBindByName 8) (wireEval cfgBindByName 8 (.ptr 2)) = false := by decide

/-- value-form struct: `wire.Struct(new(T0), "*")` with a consumer of the *value* `T0` -/
def cfgStructValue : Cfg :=
  let useCfg : Func := { name := newSvcName, params := [.val 0], result := .ptr 1 }
  { items := [.structP 0 [.basic 0], .func useCfg], args := [.basic 0], ret := .ptr 1, pkgFuncs := [useCfg] }

/-- wire builds the struct; the migrated injector silently grows an extra parameter of type `T0` -/
theorem c13_struct_value_differs :
    V.beq (wireEval cfgStructValue 8 (.ptr 1)) (.call newSvcName [.call (mkName 0) [.arg (.basic 0)]]) = true ∧
    V.beq (migratedEval cfgStructValue 8) (.call newSvcName [.arg (.val 0)]) = true := by decide

/-! ### the subset of configurations on which the migration is faithful (definitions only; proofs in `KV/WireProofs.lean`) -/

mutual
/-- the term contains no `.bot`: the fuel sufficed -/
def V.noBot : V → Bool
  | .bot => false
  | .call _ as => V.noBotL as
  | _ => true
def V.noBotL : List V → Bool
  | [] => true
  | a :: as => V.noBot a && V.noBotL as
end

mutual
/-- the term contains no `.missing`: wire itself resolved every type -/
def V.noMissing : V → Bool
  | .missing _ => false
  | .call _ as => V.noMissingL as
  | _ => true
def V.noMissingL : List V → Bool
  | [] => true
  | a :: as => V.noMissing a && V.noMissingL as
end

def NoBot (v : V) : Prop := v.noBot = true
def NoMissing (v : V) : Prop := v.noMissing = true
instance (v : V) : Decidable (NoBot v) := inferInstanceAs (Decidable (v.noBot = true))
instance (v : V) : Decidable (NoMissing v) := inferInstanceAs (Decidable (v.noMissing = true))

/-- the types a provider-set item supplies to wire's solver (`Struct` supplies `T` and `*T`; a `Bind` supplies the interface) -/
def supplied : Item → List Ty
  | .func f => [f.result]
  | .bind i _ => [.iface i]
  | .structP n _ => [.val n, .ptr n]
  | .fieldsOf _ _ fs => fs

/-- the types an item asks the solver for, as written by the user (function parameters, struct fields).  The receiver of a
    `FieldsOf` and the implementation of a `Bind` are constrained separately by `itemOk`. -/
def consumed : Item → List Ty
  | .func f => f.params
  | .structP _ fs => fs
  | _ => []

/-- per-item restrictions.
    * `Bind(new(I), new(impl))`: `impl` is a named type `T`/`*T` (otherwise `migrate` refuses), the **by-name lookup** of
      `New<T>` among the package's functions succeeds, and the function it finds *is a provider listed in the set* whose result
      type is exactly `impl`.  Real-world restriction: the bound implementation is provided by its conventional constructor
      `New<T>`; any other provider (cf. `cfgBindByName`: `ProvideRepo`) is silently replaced by `New<T>`.
    * `FieldsOf`: pointer form only — the migration always emits a `*T` receiver. -/
def itemOk (c : Cfg) : Item → Bool
  | .bind _ impl =>
      match tyName impl with
      | none => false
      | some n =>
        match c.pkgFuncs.find? (fun f => f.name == ctorName n) with
        | some f => f.result == impl && c.items.contains (.func f)
        | none => false
  | .fieldsOf _ ptrForm _ => ptrForm
  | _ => true

/-- `t` is the value form `T` of some `wire.Struct(new(T), …)` in the set -/
def structVal (c : Cfg) (t : Ty) : Bool :=
  c.items.any fun | .structP n _ => t == .val n | _ => false

/-- every `wire.Bind` is written in the same element list as the listed provider function it stands for, and that
    function is listed in no other element list: each listed provider function whose result type is the bound
    implementation type sits in the `Bind`'s element list.  (By `itemOk` and supplier uniqueness that function is the
    conventional constructor `New<T>` the migrated `Bind[I](Provide(New<T>))` names.)  With `parts = []` every item is in
    list `0` and the condition holds trivially. -/
def bindTogether (c : Cfg) : Bool :=
  c.items.zipIdx.all fun p => match p.1 with
    | .bind _ impl => c.items.zipIdx.all fun q => match q.1 with
        | .func f => !(f.result == impl) || partOf c q.2 == partOf c p.2
        | _ => true
    | _ => true

def nodupTys : List Ty → Bool
  | [] => true
  | t :: r => !r.contains t && nodupTys r

/-- every type is supplied at one *position* only (the same item listed twice, or a `FieldsOf` naming two fields of one
    type, is wire's "multiple bindings" too — conjunct 2 of `faithful` compares items by value and lets these pass; one
    interface bound twice is excluded here as well: both `Bind`s supply the interface).
    Several `Bind`s on one implementation **in one element list** are fine: `Bind(I0, *T)`, `Bind(I1, *T)` migrate to the one
    item `Bind[I1](Bind[I0](Provide(NewT)))`.  `Bind`s on one implementation in two *different* element lists still migrate to
    two items that both supply `*T`; no separate conjunct is needed to exclude them: `itemOk` lists the constructor and
    `bindTogether` puts every `Bind` on its result type into the constructor's element list
    (`WireProofs.Faithful.bindSameList`; cf. `C13.cfgBindTwiceApart`). -/
def listedOnce (c : Cfg) : Bool :=
  nodupTys (c.items.flatMap supplied)

/-- Decidable subset of configurations on which `kessoku migrate` is faithful to google/wire.
    1. `itemOk` for every item (see there: `Bind` through the conventional constructor that is itself in the set; `FieldsOf`
       in pointer form).
    2. suppliers are unique: two *different* items never supply the same type.  This is wire's own "multiple bindings for
       type" rejection; in particular an interface is bound at most once, a bound interface is not also the result of a
       provider function or a `FieldsOf` field, and the constructor of a bound implementation is the only supplier of it.
    3. injector arguments are not supplied by any item (wire: "multiple bindings"; kessoku would prefer the provider and drop
       the argument, wire prefers the argument).
    4. the value form `T` of a `wire.Struct(new(T), …)` is never asked for (not the injector's result, not a parameter of a
       listed provider, not a field of a listed struct): the migration only emits the pointer form `*T`
       (cf. `cfgStructValue`).
    5. `bindTogether`: a `Bind` and the provider it stands for are written in the same element list, and only there
       (the migration collects bound types per element list; cf. `C13.cfgBindApart`).  Hence all `Bind`s on one
       implementation are written in one element list (cf. `C13.cfgBindTwiceApart`).
    6. `listedOnce`: position-wise uniqueness of suppliers.  Not needed for the equality of the computed terms (`kEval`
       takes the first supplier), needed for the migrated declaration not to be refused as ambiguous (`kAmbiguous`).
    An implementation type may be bound to several interfaces as long as those `Bind`s are written in one element list
    (they are nested around one provider); 1 and 5 together force exactly that. -/
def faithful (c : Cfg) : Bool :=
  c.items.all (itemOk c)
  && c.items.all (fun a => c.items.all fun b => a == b || (supplied a).all fun t => !(supplied b).contains t)
  && c.args.all (fun t => c.items.all fun a => !(supplied a).contains t)
  && (c.ret :: c.items.flatMap consumed).all (fun t => !structVal c t)
  && bindTogether c
  && listedOnce c

end Wire
