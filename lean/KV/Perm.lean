import KV.Accept
import KV.CallsValue
/-! # C02 — reordering the providers of a declaration changes neither acceptance nor the value

Positions in the (expanded) provider list change when the declaration is permuted, so values are compared
through position-independent labels (`LVal`, `label`): the label of a provider is `(decl, fieldName)`.

* `supplierMap_spec`: declarative description of the supplier map (who supplies a type key, and as which group).
* `perm_suppliers`: both orders have a supplier map ⇒ every type key has *the same provider* as its supplier.
* `perm_value`: … ⇒ the label-based reference value of every type key is the same.
* `supplierMap_ok_iff`, `perm_supplierMap_ok`: the supplier map exists iff the declaration is unambiguous and
  every struct expansion is sourced (`StructsSourced`: by a function provider, or — recursively — as a field of a
  sourced struct expansion) — an order-independent condition.
* `perm_accept`: acceptance is order-independent (distinct labels).

Since the repair of the planner (struct expansion iterates to a fixpoint, `pass2` in `KV/Plan.lean`) no proviso is
needed any more: the former hypothesis `NoFieldOnlyStruct` and the counterexample `nested_order_matters` (a struct
whose value is only a field of a struct expanded *later* used to be refused as `orphan`) are gone; both orders of
that example are accepted now (`PermExamples.nested_both_accepted`). -/
namespace KV

/-! ## pass 1, exactly -/

/-- index of the first result group containing `t` -/
def groupIdx (t : Nat) : List (List Nat) → Nat
  | [] => 0
  | g :: gs => if t ∈ g then 0 else groupIdx t gs + 1

theorem pass1Types_new {pi gi : Nat} (ts : List Nat) {m m' : SupMap} {t : Nat}
    (h : pass1Types pi gi ts m = .ok m') (hn : m.lookup t = none) (ht : t ∈ ts) :
    m'.lookup t = some (pi, gi) := by
  induction ts generalizing m with
  | nil => cases ht
  | cons t0 ts ih =>
    have hP := (pass1Types_spec (t0 :: ts) h).1
    simp only [pass1Types] at h
    split at h
    · rename_i p g hl
      split at h
      · cases h
      · have hne : t ≠ t0 := by
          intro hc; subst hc; rw [hn] at hl; cases hl
        rcases List.mem_cons.mp ht with rfl | ht'
        · exact absurd rfl hne
        · exact ih h hn ht'
    · rename_i hl
      by_cases hc : t = t0
      · subst hc
        exact (pass1Types_spec ts h).1 _ _ (lookup_snoc_new _ _ _ hl)
      · rcases List.mem_cons.mp ht with rfl | ht'
        · exact absurd rfl hc
        · exact ih h (lookup_snoc_none _ _ _ _ hn hc) ht'

theorem pass1Groups_new {pi : Nat} (gs : List (List Nat)) {gi : Nat} {m m' : SupMap} {t : Nat}
    (h : pass1Groups pi gi gs m = .ok m') (hn : m.lookup t = none) (ht : ∃ g ∈ gs, t ∈ g) :
    m'.lookup t = some (pi, gi + groupIdx t gs) := by
  induction gs generalizing gi m with
  | nil => obtain ⟨g, hg, _⟩ := ht; cases hg
  | cons g gs ih =>
    simp only [pass1Groups, bind, Except.bind] at h
    split at h
    · cases h
    · rename_i m1 h1
      by_cases hc : t ∈ g
      · have := pass1Types_new g h1 hn hc
        have h2 := (pass1Groups_spec gs h).1 _ _ this
        simp only [groupIdx, hc, ↓reduceIte, Nat.add_zero]
        exact h2
      · have hn1 : m1.lookup t = none := (pass1Types_spec g h1).2.2 t hc hn
        have ht' : ∃ g' ∈ gs, t ∈ g' := by
          obtain ⟨g', hg', htg⟩ := ht
          rcases List.mem_cons.mp hg' with rfl | hg'
          · exact absurd htg hc
          · exact ⟨g', hg', htg⟩
        have := ih h hn1 ht'
        simp only [groupIdx, hc, ↓reduceIte]
        rw [this]
        congr 2
        omega

/-- pass 1 registers type key `t` listed by the function provider at position `pi + k` with the index of the
    first group listing it -/
theorem pass1_exact (ps : List PSpec) {pi : Nat} {m m' : SupMap} (h : pass1 pi ps m = .ok m')
    {k : Nat} {q : PSpec} {t : Nat} (hk : ps[k]? = some q) (hq : q.kind ≠ 1) (hl : Lists q t)
    (hn : m.lookup t = none) : m'.lookup t = some (pi + k, groupIdx t q.provides) := by
  induction ps generalizing pi m k with
  | nil => simp at hk
  | cons p ps ih =>
    have hspec := pass1_spec (p :: ps) h
    simp only [pass1] at h
    split at h
    · rename_i hk1
      cases k with
      | zero =>
        simp at hk; subst hk
        exact absurd (by simpa using hk1) hq
      | succ k =>
        simp at hk
        have := ih h hk hn
        rw [this]; congr 2; omega
    · rename_i hk1
      simp only [bind, Except.bind] at h
      split at h
      · cases h
      · rename_i m1 h1
        obtain ⟨a1, a2, a3⟩ := pass1Groups_spec _ h1
        obtain ⟨b1, b2, b3⟩ := pass1_spec ps h
        cases k with
        | zero =>
          simp at hk; subst hk
          have := pass1Groups_new _ h1 hn hl
          rw [Nat.zero_add] at this
          exact b1 _ _ this
        | succ k =>
          simp at hk
          cases hm1 : m1.lookup t with
          | none =>
            have := ih h hk hm1
            rw [this]; congr 2; omega
          | some x =>
            exfalso
            have hpl : ∃ g ∈ p.provides, t ∈ g := by
              apply Classical.byContradiction
              intro hc
              have := a3 t (fun g hg htg => hc ⟨g, hg, htg⟩) hn
              rw [this] at hm1; cases hm1
            obtain ⟨g, hg, htg⟩ := hpl
            obtain ⟨k', hk'⟩ := a2 g hg t htg
            obtain ⟨gi, hgi⟩ := b2 k q hk hq t hl
            rw [b1 _ _ hk'] at hgi
            simp only [Option.some.injEq, Prod.mk.injEq] at hgi
            omega

/-! ## pass 1 succeeds on unambiguous declarations -/

theorem pass1Types_origin {pi gi : Nat} (ts : List Nat) {m m' : SupMap} (h : pass1Types pi gi ts m = .ok m')
    {t p g : Nat} (hl : m'.lookup t = some (p, g)) : m.lookup t = some (p, g) ∨ (p = pi ∧ t ∈ ts) := by
  induction ts generalizing m with
  | nil => simp [pass1Types, pure, Except.pure] at h; subst h; exact Or.inl hl
  | cons t0 ts ih =>
    simp only [pass1Types] at h
    split at h
    · split at h
      · cases h
      · rcases ih h with h1 | ⟨h1, h2⟩
        · exact Or.inl h1
        · exact Or.inr ⟨h1, List.mem_cons_of_mem _ h2⟩
    · rcases ih h with h1 | ⟨h1, h2⟩
      · rcases lookup_snoc _ _ _ _ _ h1 with h3 | ⟨_, h4, h5⟩
        · exact Or.inl h3
        · cases h5
          exact Or.inr ⟨rfl, by rw [h4]; exact List.mem_cons_self ..⟩
      · exact Or.inr ⟨h1, List.mem_cons_of_mem _ h2⟩

theorem pass1Types_succ {pi gi : Nat} (ts : List Nat) {m : SupMap}
    (hok : ∀ t ∈ ts, ∀ p g, m.lookup t = some (p, g) → p = pi) : ∃ m', pass1Types pi gi ts m = .ok m' := by
  induction ts generalizing m with
  | nil => exact ⟨m, rfl⟩
  | cons t0 ts ih =>
    simp only [pass1Types]
    split
    · rename_i p g hl
      have hp : p = pi := hok t0 (List.mem_cons_self ..) p g hl
      subst hp
      simp only [ne_eq, not_true_eq_false, ↓reduceIte]
      exact ih (fun t ht => hok t (List.mem_cons_of_mem _ ht))
    · apply ih
      intro t ht p g hl
      rcases lookup_snoc _ _ _ _ _ hl with h3 | ⟨_, _, h5⟩
      · exact hok t (List.mem_cons_of_mem _ ht) p g h3
      · cases h5; rfl

theorem pass1Groups_origin {pi : Nat} (gs : List (List Nat)) {gi : Nat} {m m' : SupMap}
    (h : pass1Groups pi gi gs m = .ok m') {t p g : Nat} (hl : m'.lookup t = some (p, g)) :
    m.lookup t = some (p, g) ∨ (p = pi ∧ ∃ g' ∈ gs, t ∈ g') := by
  induction gs generalizing gi m with
  | nil => simp [pass1Groups, pure, Except.pure] at h; subst h; exact Or.inl hl
  | cons g0 gs ih =>
    simp only [pass1Groups, bind, Except.bind] at h
    split at h
    · cases h
    · rename_i m1 h1
      rcases ih h with h2 | ⟨h2, g', hg', ht⟩
      · rcases pass1Types_origin g0 h1 h2 with h3 | ⟨h3, h4⟩
        · exact Or.inl h3
        · exact Or.inr ⟨h3, g0, List.mem_cons_self .., h4⟩
      · exact Or.inr ⟨h2, g', List.mem_cons_of_mem _ hg', ht⟩

theorem pass1Groups_succ {pi : Nat} (gs : List (List Nat)) {gi : Nat} {m : SupMap}
    (hok : ∀ g ∈ gs, ∀ t ∈ g, ∀ p k, m.lookup t = some (p, k) → p = pi) :
    ∃ m', pass1Groups pi gi gs m = .ok m' := by
  induction gs generalizing gi m with
  | nil => exact ⟨m, rfl⟩
  | cons g0 gs ih =>
    obtain ⟨m1, h1⟩ := pass1Types_succ (pi := pi) (gi := gi) g0 (hok g0 (List.mem_cons_self ..))
    have : ∀ g ∈ gs, ∀ t ∈ g, ∀ p k, m1.lookup t = some (p, k) → p = pi := by
      intro g hg t ht p k hl
      rcases pass1Types_origin g0 h1 hl with h3 | ⟨h3, _⟩
      · exact hok g (List.mem_cons_of_mem _ hg) t ht p k h3
      · exact h3
    obtain ⟨m', h2⟩ := ih (gi := gi + 1) this
    exact ⟨m', by simp only [pass1Groups, bind, Except.bind, h1, h2]⟩

/-- pass 1 succeeds when "position `p` lists `t`" (`Q t p`) holds of every entry of the map so far and of the
    providers still to come, and no type key is listed at two positions -/
theorem pass1_succ (Q : Nat → Nat → Prop) (ps : List PSpec) {pi : Nat} {m : SupMap}
    (hK : ∀ t p g, m.lookup t = some (p, g) → Q t p)
    (hQ : ∀ k q, ps[k]? = some q → q.kind ≠ 1 → ∀ t, Lists q t → Q t (pi + k))
    (hU : ∀ k q, ps[k]? = some q → q.kind ≠ 1 → ∀ t, Lists q t → ∀ p, Q t p → p = pi + k) :
    ∃ m', pass1 pi ps m = .ok m' := by
  induction ps generalizing pi m with
  | nil => exact ⟨m, rfl⟩
  | cons p ps ih =>
    have hQ' : ∀ k q, ps[k]? = some q → q.kind ≠ 1 → ∀ t, Lists q t → Q t (pi + 1 + k) := by
      intro k q hk hq t hl
      have := hQ (k + 1) q (by simpa using hk) hq t hl
      rw [show pi + 1 + k = pi + (k + 1) by omega]; exact this
    have hU' : ∀ k q, ps[k]? = some q → q.kind ≠ 1 → ∀ t, Lists q t → ∀ p, Q t p → p = pi + 1 + k := by
      intro k q hk hq t hl p' hp'
      have := hU (k + 1) q (by simpa using hk) hq t hl p' hp'
      omega
    simp only [pass1]
    split
    · exact ih hK hQ' hU'
    · rename_i hk1
      have hk1' : p.kind ≠ 1 := by simpa using hk1
      obtain ⟨m1, h1⟩ := pass1Groups_succ (pi := pi) (gi := 0) (m := m) p.provides (by
        intro g hg t ht p' k hl
        have := hU 0 p (by simp) hk1' t ⟨g, hg, ht⟩ p' (hK _ _ _ hl)
        omega)
      have hK1 : ∀ t p g, m1.lookup t = some (p, g) → Q t p := by
        intro t p' g hl
        rcases pass1Groups_origin _ h1 hl with h2 | ⟨h2, g', hg', ht⟩
        · exact hK _ _ _ h2
        · have := hQ 0 p (by simp) hk1' t ⟨g', hg', ht⟩
          rw [h2]; simpa using this
      obtain ⟨m', h2⟩ := ih hK1 hQ' hU'
      exact ⟨m', by simp only [bind, Except.bind, h1, h2]⟩

/-! ## pass 2 -/

theorem getElem?_append_of_some {α} {l r : List α} {i : Nat} {a : α} (h : l[i]? = some a) :
    (l ++ r)[i]? = some a := by
  have hi : i < l.length := by
    apply Classical.byContradiction; intro hc
    rw [List.getElem?_eq_none (Nat.le_of_not_lt hc)] at h; cases h
  rw [List.getElem?_append_left hi]; exact h

theorem expandFields_field {sty decl : Nat} (fs : List (String × Nat)) {provs provs' : List PSpec} {m m' : SupMap}
    (h : expandFields sty decl fs provs m = .ok (provs', m')) {fname : String} {t : Nat} (hf : (fname, t) ∈ fs) :
    ∃ idx, m'.lookup t = some (idx, 0) ∧ provs'[idx]? = some (mkFieldProv sty decl fname t) := by
  induction fs generalizing provs m with
  | nil => cases hf
  | cons f fs ih =>
    obtain ⟨fname0, fty⟩ := f
    simp only [expandFields] at h
    split at h
    · cases h
    · rename_i hl
      rcases List.mem_cons.mp hf with heq | hf'
      · cases heq
        refine ⟨provs.length, (expandFields_spec fs h).1 _ _ (lookup_snoc_new _ _ _ hl), ?_⟩
        obtain ⟨extra, he⟩ := expandFields_extends fs h
        rw [he]
        apply getElem?_append_of_some
        simp [mkFieldProv]
      · exact ih h hf'

theorem pass2Ordered_field (sps : List PSpec) {provs provs' : List PSpec} {m m' : SupMap}
    (h : pass2Ordered sps provs m = .ok (provs', m')) {sp : PSpec} (hsp : sp ∈ sps) {fname : String} {t : Nat}
    (hf : (fname, t) ∈ sp.fields) :
    ∃ idx, m'.lookup t = some (idx, 0) ∧ provs'[idx]? = some (mkFieldProv sp.structTy sp.decl fname t) := by
  induction sps generalizing provs m with
  | nil => cases hsp
  | cons sp0 sps ih =>
    simp only [pass2Ordered] at h
    split at h
    · cases h
    · simp only [bind, Except.bind] at h
      split at h
      · cases h
      · rename_i r h1
        obtain ⟨provs1, m1⟩ := r
        rcases List.mem_cons.mp hsp with rfl | hsp'
        · obtain ⟨idx, h2, h3⟩ := expandFields_field _ h1 hf
          obtain ⟨extra, he⟩ := pass2Ordered_extends sps h
          refine ⟨idx, (pass2Ordered_spec sps h).1 _ _ h2, ?_⟩
          rw [he]
          exact getElem?_append_of_some h3
        · exact ih h hsp'

theorem pass2Ordered_structs (sps : List PSpec) {provs provs' : List PSpec} {m m' : SupMap}
    (h : pass2Ordered sps provs m = .ok (provs', m')) : ∀ sp ∈ sps, ∃ v, m'.lookup sp.structTy = some v := by
  induction sps generalizing provs m with
  | nil => intro sp hsp; cases hsp
  | cons sp0 sps ih =>
    have hP := (pass2Ordered_spec (sp0 :: sps) h).1
    simp only [pass2Ordered] at h
    split at h
    · cases h
    · rename_i v hl
      simp only [bind, Except.bind] at h
      split at h
      · cases h
      · rename_i r h1
        obtain ⟨provs1, m1⟩ := r
        intro sp hsp
        rcases List.mem_cons.mp hsp with rfl | hsp'
        · exact ⟨v, hP _ _ hl⟩
        · exact ih h sp hsp'

theorem pass2_field (sps : List PSpec) {provs provs' : List PSpec} {m m' : SupMap}
    (h : pass2 sps provs m = .ok (provs', m')) {sp : PSpec} (hsp : sp ∈ sps) {fname : String} {t : Nat}
    (hf : (fname, t) ∈ sp.fields) :
    ∃ idx, m'.lookup t = some (idx, 0) ∧ provs'[idx]? = some (mkFieldProv sp.structTy sp.decl fname t) := by
  obtain ⟨sps', hp, ho⟩ := pass2_ok_ordered h
  exact pass2Ordered_field sps' ho (hp.mem_iff.mpr hsp) hf

/-- after a successful pass 2 every expanded struct type has a supplier -/
theorem pass2_structs (sps : List PSpec) {provs provs' : List PSpec} {m m' : SupMap}
    (h : pass2 sps provs m = .ok (provs', m')) : ∀ sp ∈ sps, ∃ v, m'.lookup sp.structTy = some v := by
  obtain ⟨sps', hp, ho⟩ := pass2_ok_ordered h
  intro sp hsp
  exact pass2Ordered_structs sps' ho sp (hp.mem_iff.mpr hsp)

theorem expandFields_succ {sty decl : Nat} (fs : List (String × Nat)) {provs : List PSpec} {m : SupMap}
    (hnd : (fs.map (·.2)).Nodup) (hdis : ∀ t ∈ fs.map (·.2), m.lookup t = none) :
    ∃ r, expandFields sty decl fs provs m = .ok r := by
  induction fs generalizing provs m with
  | nil => exact ⟨(provs, m), rfl⟩
  | cons f fs ih =>
    obtain ⟨fname, fty⟩ := f
    simp only [List.map_cons, List.nodup_cons] at hnd
    have h0 : m.lookup fty = none := hdis fty (by simp)
    simp only [expandFields]
    split
    · rename_i hl; rw [h0] at hl; cases hl
    · apply ih hnd.2
      intro t ht
      apply lookup_snoc_none _ _ _ _ (hdis t (by simp only [List.map_cons]; exact List.mem_cons_of_mem _ ht))
      intro hc; subst hc; exact hnd.1 ht

/-- with duplicate-free field types that nobody supplies yet, the ordered expansion never reports `dup` -/
theorem pass2Ordered_err_not_dup (sps : List PSpec) {provs : List PSpec} {m : SupMap} {e : PlanErr}
    (h : pass2Ordered sps provs m = .error e) (hnd : (allFieldTys sps).Nodup)
    (hdis : ∀ t ∈ allFieldTys sps, m.lookup t = none) : ∀ t, e ≠ .dup t := by
  induction sps generalizing provs m with
  | nil => simp [pass2Ordered, pure, Except.pure] at h
  | cons sp sps ih =>
    rw [allFieldTys_cons] at hnd hdis
    obtain ⟨hnd1, hnd2, hnd3⟩ := List.nodup_append.mp hnd
    simp only [pass2Ordered] at h
    split at h
    · cases h; intro t hc; cases hc
    · obtain ⟨r, h1⟩ := expandFields_succ (sty := sp.structTy) (decl := sp.decl) sp.fields (provs := provs) (m := m)
        hnd1 (fun t ht => hdis t (List.mem_append_left _ ht))
      obtain ⟨provs1, m1⟩ := r
      simp only [bind, Except.bind, h1] at h
      obtain ⟨_, _, _, a4⟩ := expandFields_spec _ h1
      apply ih h hnd2
      intro t ht
      exact (a4 t).mpr ⟨hdis t (List.mem_append_right _ ht), fun hc => hnd3 t hc t ht rfl⟩

/-- with duplicate-free field types that nobody supplies yet, pass 2 never reports `dup` -/
theorem pass2_err_not_dup (sps : List PSpec) {provs : List PSpec} {m : SupMap} {e : PlanErr}
    (h : pass2 sps provs m = .error e) (hnd : (allFieldTys sps).Nodup)
    (hdis : ∀ t ∈ allFieldTys sps, m.lookup t = none) : ∀ t, e ≠ .dup t := by
  obtain ⟨ord, pend, hp, hc⟩ := pass2_err_cases h
  rcases hc with ⟨ho, _⟩ | ⟨r, sp, _, _, _, he⟩
  · have hperm := allFieldTys_perm hp
    rw [allFieldTys_append] at hperm
    have hnd' : (allFieldTys ord ++ allFieldTys pend).Nodup := hperm.nodup_iff.mpr hnd
    apply pass2Ordered_err_not_dup ord ho (List.nodup_append.mp hnd').1
    intro t ht
    exact hdis t (hperm.mem_iff.mp (List.mem_append_left _ ht))
  · intro t hc; rw [he] at hc; cases hc

/-- pass 2 on duplicate-free, unsupplied field types can only fail with the `orphan` of a struct provider whose
    struct type never gets a supplier (`Avail`: neither from pass 1 nor as a field of an expandable struct) -/
theorem pass2_err_orphan (sps : List PSpec) {provs : List PSpec} {m : SupMap} {e : PlanErr}
    (h : pass2 sps provs m = .error e) (hnd : (allFieldTys sps).Nodup)
    (hdis : ∀ t ∈ allFieldTys sps, m.lookup t = none) :
    ∃ sp ∈ sps, e = .orphan sp.structTy ∧ ¬ Avail m sps sp.structTy := by
  rcases pass2_err sps h with ⟨t, _, he⟩ | h'
  · exact absurd he (pass2_err_not_dup sps h hnd hdis t)
  · exact h'

/-- pass 2 succeeds when the field types are duplicate-free, not supplied by pass 1, and every struct type
    eventually gets a supplier (from pass 1, or as a field of another expandable struct — in any order) -/
theorem pass2_succ (sps : List PSpec) {provs : List PSpec} {m : SupMap} (hnd : (allFieldTys sps).Nodup)
    (hdis : ∀ t ∈ allFieldTys sps, m.lookup t = none)
    (hsrc : ∀ sp ∈ sps, Avail m sps sp.structTy) : ∃ r, pass2 sps provs m = .ok r := by
  cases h : pass2 sps provs m with
  | ok r => exact ⟨r, rfl⟩
  | error e =>
    exfalso
    obtain ⟨sp, hsp, _, hna⟩ := pass2_err_orphan sps h hnd hdis
    exact hna (hsrc sp hsp)

/-- **pass 2 succeeds exactly when** the field types are duplicate-free and unsupplied so far, and every struct
    type eventually gets a supplier — a condition on the *set* of struct providers, not on their order -/
theorem pass2_ok_iff (sps : List PSpec) (provs : List PSpec) (m : SupMap) :
    (∃ r, pass2 sps provs m = .ok r) ↔
      ((allFieldTys sps).Nodup ∧ (∀ t ∈ allFieldTys sps, m.lookup t = none) ∧ ∀ sp ∈ sps, Avail m sps sp.structTy) := by
  constructor
  · rintro ⟨⟨provs', m'⟩, h⟩
    obtain ⟨_, a2, a3, _⟩ := pass2_spec sps h
    exact ⟨a2, a3, pass2_avail sps h⟩
  · rintro ⟨h1, h2, h3⟩
    exact pass2_succ sps h1 h2 h3

/-! ## the supplier map, declaratively -/

theorem supplierMap_ok {provs0 provs : List PSpec} {sup : SupMap} (h : supplierMap provs0 = .ok (provs, sup)) :
    ∃ sup1, pass1 0 provs0 [] = .ok sup1 ∧ pass2 (structsOf provs0) provs0 sup1 = .ok (provs, sup) :=
  expand_ok h

/-- what a successful `supplierMap` looks like -/
structure SupSpec (provs0 provs : List PSpec) (sup : SupMap) : Prop where
  /-- the expanded list extends the declared one -/
  ext : ∃ extra, provs = provs0 ++ extra
  /-- a key listed by a function provider is supplied by it, as the first group listing it -/
  fn : ∀ k q t, provs0[k]? = some q → q.kind ≠ 1 → Lists q t → sup.lookup t = some (k, groupIdx t q.provides)
  /-- a field of an expanded struct is supplied by its field-access provider -/
  field : ∀ sp fname t, sp ∈ structsOf provs0 → (fname, t) ∈ sp.fields →
    ∃ idx, sup.lookup t = some (idx, 0) ∧ provs[idx]? = some (mkFieldProv sp.structTy sp.decl fname t)
  /-- nothing else is supplied -/
  none : ∀ t, (∀ q ∈ provs0, q.kind ≠ 1 → ¬ Lists q t) → t ∉ allFieldTys (structsOf provs0) → sup.lookup t = none
  structs : ∀ sp ∈ structsOf provs0, ∃ v, sup.lookup sp.structTy = some v
  nodup : (allFieldTys (structsOf provs0)).Nodup
  disj : ∀ q ∈ provs0, q.kind ≠ 1 → ∀ t, Lists q t → t ∉ allFieldTys (structsOf provs0)
  uniq : ∀ (i j : Nat) qi qj t, provs0[i]? = some qi → provs0[j]? = some qj → qi.kind ≠ 1 → qj.kind ≠ 1 →
    Lists qi t → Lists qj t → i = j

theorem supplierMap_spec {provs0 provs : List PSpec} {sup : SupMap} (h : supplierMap provs0 = .ok (provs, sup)) :
    SupSpec provs0 provs sup := by
  obtain ⟨sup1, h1, h2⟩ := supplierMap_ok h
  obtain ⟨c1, c2, c3, c4⟩ := pass2_spec _ h2
  obtain ⟨_, b2, b3⟩ := pass1_spec provs0 h1
  have hfn1 : ∀ k q t, provs0[k]? = some q → q.kind ≠ 1 → Lists q t →
      sup1.lookup t = some (k, groupIdx t q.provides) := by
    intro k q t hk hq hl
    have := pass1_exact provs0 h1 hk hq hl rfl
    rw [Nat.zero_add] at this; exact this
  have hfn : ∀ k q t, provs0[k]? = some q → q.kind ≠ 1 → Lists q t →
      sup.lookup t = some (k, groupIdx t q.provides) :=
    fun k q t hk hq hl => c1 _ _ (hfn1 k q t hk hq hl)
  refine ⟨pass2_extends _ h2, hfn, ?_, ?_, pass2_structs _ h2, c2, ?_, ?_⟩
  · intro sp fname t hsp hf
    exact pass2_field _ h2 hsp hf
  · intro t hnf hnot
    exact (c4 t).mpr ⟨b3 t hnf rfl, hnot⟩
  · intro q hq hk t hl hc
    obtain ⟨k, hk'⟩ := List.mem_iff_getElem?.mp hq
    have := hfn1 k q t hk' hk hl
    rw [c3 t hc] at this; cases this
  · intro i j qi qj t hi hj hki hkj hli hlj
    have h3 := hfn i qi t hi hki hli
    have h4 := hfn j qj t hj hkj hlj
    rw [h3] at h4
    simp only [Option.some.injEq, Prod.mk.injEq] at h4
    exact h4.1

/-! ## 2. the supplier relation is order-independent -/

theorem getD_of_getElem? {α} {l : List α} {i : Nat} {a d : α} (h : l[i]? = some a) : l.getD i d = a := by
  rw [List.getD_eq_getElem?_getD, h]; rfl

theorem getD_of_ext {provs0 provs : List PSpec} (hx : ∃ extra, provs = provs0 ++ extra) {k : Nat} {q : PSpec}
    (hk : provs0[k]? = some q) : provs.getD k default = q := by
  obtain ⟨extra, he⟩ := hx
  rw [he]; exact getD_of_getElem? (getElem?_append_of_some hk)

/-- the two supplier maps agree on type key `t`: nobody supplies it in either, or it is supplied as the same result
    group by *the same provider* — equal `PSpec`s, hence the same label (`decl`, `fieldName`), `requires`,
    `provides`, `isErr`, … — whatever its position in the two expanded lists -/
def SameSup (provs' : List PSpec) (sup' : SupMap) (provs : List PSpec) (sup : SupMap) (t : Nat) : Prop :=
  (sup'.lookup t = none ∧ sup.lookup t = none) ∨
  ∃ p' p gi, sup'.lookup t = some (p', gi) ∧ sup.lookup t = some (p, gi) ∧
    provs'.getD p' default = provs.getD p default

theorem perm_structsOf {provs0' provs0 : List PSpec} (hperm : provs0'.Perm provs0) :
    (structsOf provs0').Perm (structsOf provs0) := hperm.filter _

theorem perm_allFieldTys {provs0' provs0 : List PSpec} (hperm : provs0'.Perm provs0) :
    (allFieldTys (structsOf provs0')).Perm (allFieldTys (structsOf provs0)) :=
  List.Perm.flatMap_right fieldTys (perm_structsOf hperm)

/-- **Suppliers are order-independent** (struct expansion included; no distinctness hypothesis is needed): if both
    orders of a declaration have a supplier map, every type key has the same supplier in both. -/
theorem perm_suppliers {provs0' provs0 provs' provs : List PSpec} {sup' sup : SupMap} (hperm : provs0'.Perm provs0)
    (hs' : supplierMap provs0' = .ok (provs', sup')) (hs : supplierMap provs0 = .ok (provs, sup)) (t : Nat) :
    SameSup provs' sup' provs sup t := by
  have S' := supplierMap_spec hs'
  have S := supplierMap_spec hs
  by_cases hfn : ∃ q ∈ provs0, q.kind ≠ 1 ∧ Lists q t
  · obtain ⟨q, hq, hk, hl⟩ := hfn
    have hq' := hperm.mem_iff.mpr hq
    obtain ⟨k, hk0⟩ := List.mem_iff_getElem?.mp hq
    obtain ⟨k', hk0'⟩ := List.mem_iff_getElem?.mp hq'
    right
    refine ⟨k', k, groupIdx t q.provides, S'.fn k' q t hk0' hk hl, S.fn k q t hk0 hk hl, ?_⟩
    rw [getD_of_ext S'.ext hk0', getD_of_ext S.ext hk0]
  · by_cases hfd : t ∈ allFieldTys (structsOf provs0)
    · obtain ⟨sp, hsp, htf⟩ := List.mem_flatMap.mp hfd
      obtain ⟨f, hf, hft⟩ := List.mem_map.mp htf
      obtain ⟨fname, ft⟩ := f
      simp only at hft
      subst hft
      have hsp' := (perm_structsOf hperm).mem_iff.mpr hsp
      obtain ⟨idx, h1, h2⟩ := S.field sp fname _ hsp hf
      obtain ⟨idx', h1', h2'⟩ := S'.field sp fname _ hsp' hf
      right
      exact ⟨idx', idx, 0, h1', h1, by rw [getD_of_getElem? h2', getD_of_getElem? h2]⟩
    · left
      refine ⟨S'.none t ?_ ?_, S.none t ?_ hfd⟩
      · intro q hq hk hl
        exact hfn ⟨q, hperm.mem_iff.mp hq, hk, hl⟩
      · intro hc
        exact hfd ((perm_allFieldTys hperm).mem_iff.mp hc)
      · intro q hq hk hl
        exact hfn ⟨q, hq, hk, hl⟩

/-! ## 1., 3. label-based values; the value is order-independent -/

/-- values with position-independent provider identities: `(decl, fieldName)` instead of a position -/
inductive LVal where
  | arg (t : Nat)
  | app (decl : Nat) (field : String) (gi : Nat) (args : List LVal)

mutual
/-- replace every provider position by the label of the provider at that position -/
def label (provs : List PSpec) : Val → LVal
  | .arg t => .arg t
  | .app p gi args => .app (provs.getD p default).decl (provs.getD p default).fieldName gi (labelL provs args)
def labelL (provs : List PSpec) : List Val → List LVal
  | [] => []
  | v :: vs => label provs v :: labelL provs vs
end

mutual
theorem label_eval_eq {provs' provs : List PSpec} {sup' sup : SupMap}
    (hsame : ∀ t, SameSup provs' sup' provs sup t) :
    ∀ {t : Nat} {v' v : Val}, Eval provs' sup' t v' → Eval provs sup t v → label provs' v' = label provs v
  | t, _, _, .arg hl', h => by
    cases h with
    | arg _ => rfl
    | app hl _ =>
      rcases hsame t with ⟨_, h2⟩ | ⟨p1', p1, gi1, h1, _, _⟩
      · rw [hl] at h2; cases h2
      · rw [hl'] at h1; cases h1
  | t, _, _, .app (p := p') (gi := gi') hl' hs', h => by
    cases h with
    | arg hl =>
      rcases hsame t with ⟨h1, _⟩ | ⟨p1', p1, gi1, _, h2, _⟩
      · rw [hl'] at h1; cases h1
      · rw [hl] at h2; cases h2
    | @app _ p gi vs hl hs =>
      have key : gi' = gi ∧ provs'.getD p' default = provs.getD p default := by
        rcases hsame t with ⟨h1, _⟩ | ⟨p1', p1, gi1, h1, h2, h3⟩
        · rw [hl'] at h1; cases h1
        · rw [hl'] at h1; rw [hl] at h2
          simp only [Option.some.injEq, Prod.mk.injEq] at h1 h2
          obtain ⟨a1, a2⟩ := h1
          obtain ⟨b1, b2⟩ := h2
          refine ⟨by omega, ?_⟩
          rw [a1, b1]; exact h3
      obtain ⟨k1, k2⟩ := key
      rw [← k2] at hs
      have := labelL_eval_eq hsame hs' hs
      simp only [label]
      rw [this, k1, k2]
theorem labelL_eval_eq {provs' provs : List PSpec} {sup' sup : SupMap}
    (hsame : ∀ t, SameSup provs' sup' provs sup t) :
    ∀ {ts : List Nat} {vs' vs : List Val}, EvalL provs' sup' ts vs' → EvalL provs sup ts vs →
      labelL provs' vs' = labelL provs vs
  | _, _, _, .nil, h => by cases h; rfl
  | _, _, _, .cons h1 h2, h => by
    cases h with
    | cons h1' h2' =>
      simp only [labelL]
      rw [label_eval_eq hsame h1 h1', labelL_eval_eq hsame h2 h2']
end

/-- **The value is order-independent**: the reference evaluations of any type key over the supplier maps of two
    orders of the same declaration are the same label-based value. -/
theorem perm_value {provs0' provs0 provs' provs : List PSpec} {sup' sup : SupMap} (hperm : provs0'.Perm provs0)
    (hs' : supplierMap provs0' = .ok (provs', sup')) (hs : supplierMap provs0 = .ok (provs, sup))
    {t : Nat} {v' v : Val} (he' : Eval provs' sup' t v') (he : Eval provs sup t v) :
    label provs' v' = label provs v :=
  label_eval_eq (perm_suppliers hperm hs' hs) he' he

/-- **The returned value is order-independent**: if both orders are accepted, the variables returned by the two
    emitted injectors hold (each exactly one symbolic value, and) the same label-based value. -/
theorem perm_returned_value {provs0' provs0 : List PSpec} {ret : Nat} {p' p : PlanOut} (hperm : provs0'.Perm provs0)
    (hp' : plan provs0' ret = .ok p') (hp : plan provs0 ret = .ok p) :
    ∃ x' x, VarVal p' p'.b.retParam x' ∧ (∀ y, VarVal p' p'.b.retParam y → y = x') ∧ GraphVal p'.g x' ∧
      VarVal p p.b.retParam x ∧ (∀ y, VarVal p p.b.retParam y → y = x) ∧ GraphVal p.g x ∧
      label p'.g.provs x' = label p.g.provs x := by
  obtain ⟨provs', sup', hs', _⟩ := supplierMap_of_newGraph2 (plan_ok hp').1
  obtain ⟨provs, sup, hs, _⟩ := supplierMap_of_newGraph2 (plan_ok hp).1
  obtain ⟨x', a1, a2, a3, a4⟩ := returned_value hp' hs'
  obtain ⟨x, b1, b2, b3, b4⟩ := returned_value hp hs
  have e' := (newGraph2_value (plan_ok hp').1 hs').1
  have e := (newGraph2_value (plan_ok hp).1 hs).1
  refine ⟨x', x, a1, a4, a2, b1, b4, b2, ?_⟩
  rw [e', e]
  exact perm_value hperm hs' hs a3 b3

/-! ## 2., second half: existence of the supplier map is order-independent -/

/-- every struct expansion has its struct type listed by a function provider -/
def FnSourced (provs0 : List PSpec) : Prop :=
  ∀ sp ∈ provs0, sp.kind = 1 → ∃ q ∈ provs0, q.kind ≠ 1 ∧ Lists q sp.structTy

/-- unambiguous: no type key is listed by two function providers, by two expanded struct fields, or by a function
    provider and an expanded struct field -/
def Unamb (provs0 : List PSpec) : Prop :=
  (∀ q1 ∈ provs0, ∀ q2 ∈ provs0, q1.kind ≠ 1 → q2.kind ≠ 1 → ∀ t, Lists q1 t → Lists q2 t → q1 = q2) ∧
  (allFieldTys (structsOf provs0)).Nodup ∧
  (∀ q ∈ provs0, q.kind ≠ 1 → ∀ t, Lists q t → t ∉ allFieldTys (structsOf provs0))

theorem supplierMap_unamb {provs0 provs : List PSpec} {sup : SupMap} (h : supplierMap provs0 = .ok (provs, sup)) :
    Unamb provs0 := by
  have S := supplierMap_spec h
  refine ⟨?_, S.nodup, S.disj⟩
  intro q1 hq1 q2 hq2 hk1 hk2 t hl1 hl2
  obtain ⟨i, hi⟩ := List.mem_iff_getElem?.mp hq1
  obtain ⟨j, hj⟩ := List.mem_iff_getElem?.mp hq2
  have := S.uniq i j q1 q2 t hi hj hk1 hk2 hl1 hl2
  subst this
  rw [hi] at hj
  exact Option.some.inj hj

/-- in a declaration with a supplier map every struct expansion is sourced -/
theorem supplierMap_sourced {provs0 provs : List PSpec} {sup : SupMap} (h : supplierMap provs0 = .ok (provs, sup)) :
    StructsSourced provs0 := by
  obtain ⟨sup1, h1, h2⟩ := supplierMap_ok h
  intro sp hsp hk
  exact (sourced_iff_avail h1 _).mpr (pass2_avail _ h2 sp (mem_structsOf hsp hk))

/-- … in particular every struct type is listed by a function provider or is a field of an expanded struct -/
theorem supplierMap_sourced' {provs0 provs : List PSpec} {sup : SupMap} (h : supplierMap provs0 = .ok (provs, sup))
    {sp : PSpec} (hsp : sp ∈ provs0) (hk : sp.kind = 1) :
    (∃ q ∈ provs0, q.kind ≠ 1 ∧ Lists q sp.structTy) ∨ sp.structTy ∈ allFieldTys (structsOf provs0) := by
  cases supplierMap_sourced h sp hsp hk with
  | fn q hq hqk hl => exact Or.inl ⟨q, hq, hqk, hl⟩
  | field sp' hsp' hk' _ ht => exact Or.inr (List.mem_flatMap.mpr ⟨sp', mem_structsOf hsp' hk', ht⟩)

/-- an unambiguous declaration with distinct labels has a supplier map, unless some struct expansion is refused as
    `orphan` because its struct type never gets a source -/
theorem supplierMap_of_unamb' {provs0 : List PSpec} (hnd : (provs0.map (·.decl)).Nodup) (hu : Unamb provs0) :
    (∃ r, supplierMap provs0 = .ok r) ∨
    (∃ sp ∈ provs0, sp.kind = 1 ∧ supplierMap provs0 = .error (.orphan sp.structTy) ∧
      ¬ Sourced provs0 sp.structTy) := by
  obtain ⟨hu1, hu2, hu3⟩ := hu
  obtain ⟨sup1, h1⟩ := pass1_succ (fun t p => ∃ q, provs0[p]? = some q ∧ q.kind ≠ 1 ∧ Lists q t) provs0
    (pi := 0) (m := [])
    (by intro t p g hl; simp [List.lookup] at hl)
    (by intro k q hk hq t hl; exact ⟨q, by simpa using hk, hq, hl⟩)
    (by
      intro k q hk hq t hl p hp
      obtain ⟨q', hp', hq', hl'⟩ := hp
      have hqq : q' = q := hu1 q' (List.mem_of_getElem? hp') q (List.mem_of_getElem? hk) hq' hq t hl' hl
      subst hqq
      rw [Nat.zero_add]
      apply nodup_getElem?_inj hnd (x := q'.decl)
      · simp only [List.getElem?_map, hp', Option.map_some]
      · simp only [List.getElem?_map, hk, Option.map_some])
  obtain ⟨_, b2, b3⟩ := pass1_spec provs0 h1
  have hdis : ∀ t ∈ allFieldTys (structsOf provs0), sup1.lookup t = none := by
    intro t ht
    exact b3 t (fun q hq hk hl => hu3 q hq hk t hl ht) rfl
  cases h2 : pass2 (structsOf provs0) provs0 sup1 with
  | ok r =>
    left
    refine ⟨r, ?_⟩
    unfold supplierMap
    simp only [bind, Except.bind, h1]
    exact h2
  | error e =>
    right
    obtain ⟨sp, hsp, he, hn⟩ := pass2_err_orphan _ h2 hu2 hdis
    obtain ⟨hsp0, hk⟩ := mem_structsOf_iff.mp hsp
    refine ⟨sp, hsp0, hk, ?_, ?_⟩
    · unfold supplierMap
      simp only [bind, Except.bind, h1]
      rw [← he]; exact h2
    · intro hc
      exact hn ((sourced_iff_avail h1 _).mp hc)

theorem supplierMap_of_unamb {provs0 : List PSpec} (hnd : (provs0.map (·.decl)).Nodup) (hu : Unamb provs0)
    (hsrc : StructsSourced provs0) : ∃ r, supplierMap provs0 = .ok r := by
  rcases supplierMap_of_unamb' hnd hu with h | ⟨sp, hsp, hk, _, hno⟩
  · exact h
  · exact absurd (hsrc sp hsp hk) hno

/-- the simplest way of being sourced: every struct type is listed by a function provider -/
theorem structsSourced_of_fnSourced {provs0 : List PSpec} (h : FnSourced provs0) : StructsSourced provs0 := by
  intro sp hsp hk
  obtain ⟨q, hq, hqk, hl⟩ := h sp hsp hk
  exact .fn q hq hqk hl

/-- **When does the supplier map exist?**  Iff the declaration is unambiguous and every struct expansion is sourced
    (by a function provider, or recursively as a field of a sourced struct expansion) — a condition that does not
    mention positions.  (Before the repair of the planner this needed the proviso `NoFieldOnlyStruct`.) -/
theorem supplierMap_ok_iff {provs0 : List PSpec} (hnd : (provs0.map (·.decl)).Nodup) :
    (∃ r, supplierMap provs0 = .ok r) ↔ (Unamb provs0 ∧ StructsSourced provs0) := by
  constructor
  · rintro ⟨⟨provs, sup⟩, h⟩
    exact ⟨supplierMap_unamb h, supplierMap_sourced h⟩
  · rintro ⟨hu, hs⟩
    exact supplierMap_of_unamb hnd hu hs

theorem Unamb.perm {provs0' provs0 : List PSpec} (hperm : provs0'.Perm provs0) (h : Unamb provs0) : Unamb provs0' := by
  obtain ⟨h1, h2, h3⟩ := h
  refine ⟨?_, (perm_allFieldTys hperm).nodup_iff.mpr h2, ?_⟩
  · intro q1 hq1 q2 hq2
    exact h1 q1 (hperm.mem_iff.mp hq1) q2 (hperm.mem_iff.mp hq2)
  · intro q hq hk t hl hc
    exact h3 q (hperm.mem_iff.mp hq) hk t hl ((perm_allFieldTys hperm).mem_iff.mp hc)

theorem FnSourced.perm {provs0' provs0 : List PSpec} (hperm : provs0'.Perm provs0) (h : FnSourced provs0) :
    FnSourced provs0' := by
  intro sp hsp hk
  obtain ⟨q, hq, hqk, hl⟩ := h sp (hperm.mem_iff.mp hsp) hk
  exact ⟨q, hperm.mem_iff.mpr hq, hqk, hl⟩

theorem Sourced.perm {provs0' provs0 : List PSpec} (hperm : provs0'.Perm provs0) {t : Nat} (h : Sourced provs0 t) :
    Sourced provs0' t := by
  induction h with
  | fn q hq hk hl => exact .fn q (hperm.mem_iff.mpr hq) hk hl
  | field sp hsp hk _ ht ih => exact .field sp (hperm.mem_iff.mpr hsp) hk ih ht

theorem StructsSourced.perm {provs0' provs0 : List PSpec} (hperm : provs0'.Perm provs0) (h : StructsSourced provs0) :
    StructsSourced provs0' :=
  fun sp hsp hk => (h sp (hperm.mem_iff.mp hsp) hk).perm hperm

theorem nodup_decl_perm {provs0' provs0 : List PSpec} (hperm : provs0'.Perm provs0)
    (hnd : (provs0.map (·.decl)).Nodup) : (provs0'.map (·.decl)).Nodup :=
  (hperm.map _).nodup_iff.mpr hnd

/-- **Existence of the supplier map is order-independent** (distinct labels; no proviso any more); the error may
    differ. -/
theorem perm_supplierMap_ok {provs0' provs0 : List PSpec} (hperm : provs0'.Perm provs0)
    (hnd : (provs0.map (·.decl)).Nodup) :
    (∃ r', supplierMap provs0' = .ok r') ↔ (∃ r, supplierMap provs0 = .ok r) := by
  rw [supplierMap_ok_iff hnd, supplierMap_ok_iff (nodup_decl_perm hperm hnd)]
  constructor
  · rintro ⟨h1, h2⟩; exact ⟨h1.perm hperm.symm, h2.perm hperm.symm⟩
  · rintro ⟨h1, h2⟩; exact ⟨h1.perm hperm, h2.perm hperm⟩

/-- one direction of `perm_supplierMap_ok`, kept under its old name: if one order has a supplier map, any other
    order has one too.  (Before the repair of the planner the other order could instead be refused with the
    `orphan` of a struct expansion whose struct type is only a field of a struct expanded later; that alternative
    no longer exists.) -/
theorem perm_supplierMap_ok_or_orphan {provs0' provs0 provs : List PSpec} {sup : SupMap} (hperm : provs0'.Perm provs0)
    (hnd : (provs0.map (·.decl)).Nodup) (hs : supplierMap provs0 = .ok (provs, sup)) :
    ∃ r', supplierMap provs0' = .ok r' :=
  (perm_supplierMap_ok hperm hnd).mpr ⟨_, hs⟩

/-! ## 4. acceptance is order-independent -/

theorem plan_err_of_supplierMap_err {provs0 : List PSpec} {e : PlanErr} (ret : Nat)
    (h : supplierMap provs0 = .error e) : plan provs0 ret = .error e :=
  plan_err_of_newGraph2_err (expand_err ret h)

/-- a requested type that nobody supplies is refused (the recorded finding `identity-injector-refused`) -/
theorem plan_err_of_unsupplied {provs0 provs : List PSpec} {sup : SupMap} {ret : Nat}
    (hs : supplierMap provs0 = .ok (provs, sup)) (hret : sup.lookup ret = none) (p : PlanOut) :
    plan provs0 ret ≠ .ok p := by
  intro hp
  obtain ⟨n, hn, hna⟩ := plan_has_provider_node hp
  have hg := (plan_ok hp).1
  rw [newGraph2_of_supplierMap ret hs] at hg
  unfold graphOf at hg
  rw [hret] at hg
  simp only [pure, Except.pure, Except.ok.injEq] at hg
  rw [← hg] at hn hna
  simp only [List.length_cons, List.length_nil, Nat.zero_add, Nat.lt_one_iff] at hn
  subst hn
  simp at hna

/-- type-key form of `Needs`: the supplier of `t` requires `t'` -/
def TNeeds (provs : List PSpec) (sup : SupMap) (t t' : Nat) : Prop :=
  ∃ p gi, sup.lookup t = some (p, gi) ∧ t' ∈ (provs.getD p default).requires

/-- no type key reachable from the requested one lies on a cycle of `TNeeds` -/
def TAcyclic (provs : List PSpec) (sup : SupMap) (ret : Nat) : Prop :=
  ∀ t, Reach (TNeeds provs sup) ret t → ¬ Relation.TransGen (TNeeds provs sup) t t

theorem reach_needs_to_types {provs : List PSpec} {sup : SupMap} {ret rp ri : Nat}
    (hret : sup.lookup ret = some (rp, ri)) {q : Nat} (h : Reach (Needs provs sup) rp q) :
    ∃ t gi, sup.lookup t = some (q, gi) ∧ Reach (TNeeds provs sup) ret t := by
  induction h with
  | refl => exact ⟨ret, ri, hret, Reach.refl _⟩
  | tail _ hn ih =>
    obtain ⟨tb, gb, hb, hr⟩ := ih
    obtain ⟨t', ht', gi', hl'⟩ := hn
    exact ⟨t', gi', hl', Reach.tail hr ⟨_, gb, hb, ht'⟩⟩

theorem transGen_needs_to_types {provs : List PSpec} {sup : SupMap} {a b : Nat}
    (h : Relation.TransGen (Needs provs sup) a b) :
    ∀ ta ga, sup.lookup ta = some (a, ga) → ∃ tb gb, sup.lookup tb = some (b, gb) ∧
      Relation.TransGen (TNeeds provs sup) ta tb := by
  induction h with
  | single hn =>
    intro ta ga ha
    obtain ⟨t', ht', gi', hl'⟩ := hn
    exact ⟨t', gi', hl', Relation.TransGen.single ⟨_, ga, ha, ht'⟩⟩
  | tail _ hn ih =>
    intro ta ga ha
    obtain ⟨tb, gb, hb, hr⟩ := ih ta ga ha
    obtain ⟨t', ht', gi', hl'⟩ := hn
    exact ⟨t', gi', hl', Relation.TransGen.tail hr ⟨_, gb, hb, ht'⟩⟩

theorem transGen_head_congr {α : Type} {r : α → α → Prop} {a a' b : α} (h : Relation.TransGen r a b)
    (hh : ∀ x, r a x → r a' x) : Relation.TransGen r a' b := by
  induction h with
  | single h1 => exact Relation.TransGen.single (hh _ h1)
  | tail _ h2 ih => exact Relation.TransGen.tail ih h2

theorem reach_types_to_needs {provs : List PSpec} {sup : SupMap} {ret rp ri : Nat}
    (hret : sup.lookup ret = some (rp, ri)) {t : Nat} (h : Reach (TNeeds provs sup) ret t) :
    ∀ q gi, sup.lookup t = some (q, gi) → Reach (Needs provs sup) rp q := by
  induction h with
  | refl =>
    intro q gi hl
    rw [hret] at hl; cases hl
    exact Reach.refl _
  | tail _ hn ih =>
    intro q gi hl
    obtain ⟨p, gp, hp, hreq⟩ := hn
    exact Reach.tail (ih p gp hp) ⟨_, hreq, gi, hl⟩

theorem transGen_types_to_needs {provs : List PSpec} {sup : SupMap} {t t' : Nat}
    (h : Relation.TransGen (TNeeds provs sup) t t') :
    ∀ q gi q' gi', sup.lookup t = some (q, gi) → sup.lookup t' = some (q', gi') →
      Relation.TransGen (Needs provs sup) q q' := by
  induction h with
  | single hn =>
    intro q gi q' gi' hl hl'
    obtain ⟨p, gp, hp, hreq⟩ := hn
    rw [hl] at hp; cases hp
    exact Relation.TransGen.single ⟨_, hreq, gi', hl'⟩
  | tail _ hn ih =>
    intro q gi q' gi' hl hl'
    obtain ⟨p, gp, hp, hreq⟩ := hn
    exact Relation.TransGen.tail (ih q gi p gp hl hp) ⟨_, hreq, gi', hl'⟩

/-- the acyclicity condition of `C09_accept_iff`, in terms of type keys -/
theorem acyclic_iff_tacyclic {provs : List PSpec} {sup : SupMap} {ret rp ri : Nat}
    (hret : sup.lookup ret = some (rp, ri)) :
    (∀ q, Reach (Needs provs sup) rp q → ¬ Relation.TransGen (Needs provs sup) q q) ↔ TAcyclic provs sup ret := by
  constructor
  · intro h t hr hc
    have hsup : ∃ q gi, sup.lookup t = some (q, gi) := by
      cases hc with
      | single h1 => obtain ⟨p, gp, hp, _⟩ := h1; exact ⟨p, gp, hp⟩
      | tail h1 h2 =>
        have : ∀ {a b}, Relation.TransGen (TNeeds provs sup) a b → ∃ q gi, sup.lookup a = some (q, gi) := by
          intro a b hab
          induction hab with
          | single h1 => obtain ⟨p, gp, hp, _⟩ := h1; exact ⟨p, gp, hp⟩
          | tail _ _ ih => exact ih
        exact this h1
    obtain ⟨q, gi, hl⟩ := hsup
    exact h q (reach_types_to_needs hret hr q gi hl) (transGen_types_to_needs hc q gi q gi hl hl)
  · intro h q hr hc
    obtain ⟨t, gi, hl, hrt⟩ := reach_needs_to_types hret hr
    obtain ⟨tb, gb, hb, hcb⟩ := transGen_needs_to_types hc t gi hl
    have hr' : Reach (TNeeds provs sup) ret tb := by
      have : ∀ {a b}, Relation.TransGen (TNeeds provs sup) a b → Reach (TNeeds provs sup) ret a →
          Reach (TNeeds provs sup) ret b := by
        intro a b hab
        induction hab with
        | single h1 => intro ha; exact Reach.tail ha h1
        | tail _ h2 ih => intro ha; exact Reach.tail (ih ha) h2
      exact this hcb hrt
    refine h tb hr' (transGen_head_congr hcb ?_)
    intro x hx
    obtain ⟨p, gp, hp, hreq⟩ := hx
    rw [hl] at hp; cases hp
    exact ⟨_, gb, hb, hreq⟩

theorem tneeds_of_sameSup {provs' provs : List PSpec} {sup' sup : SupMap}
    (hsame : ∀ t, SameSup provs' sup' provs sup t) {t t' : Nat} :
    TNeeds provs' sup' t t' ↔ TNeeds provs sup t t' := by
  constructor
  · rintro ⟨p', g', hl', hreq⟩
    rcases hsame t with ⟨h1, _⟩ | ⟨p1', p1, gi1, h1, h2, h3⟩
    · rw [hl'] at h1; cases h1
    · rw [hl'] at h1; cases h1
      exact ⟨p1, _, h2, by rw [← h3]; exact hreq⟩
  · rintro ⟨p, g, hl, hreq⟩
    rcases hsame t with ⟨_, h2⟩ | ⟨p1', p1, gi1, h1, h2, h3⟩
    · rw [hl] at h2; cases h2
    · rw [hl] at h2; cases h2
      exact ⟨p1', _, h1, by rw [h3]; exact hreq⟩

theorem tacyclic_of_sameSup {provs' provs : List PSpec} {sup' sup : SupMap}
    (hsame : ∀ t, SameSup provs' sup' provs sup t) (ret : Nat) :
    TAcyclic provs' sup' ret ↔ TAcyclic provs sup ret := by
  constructor
  · intro h t hr hc
    exact h t (Reach.mono (fun _ _ => (tneeds_of_sameSup hsame).mpr) hr)
      (transGen_mono (fun _ _ => (tneeds_of_sameSup hsame).mpr) hc)
  · intro h t hr hc
    exact h t (Reach.mono (fun _ _ => (tneeds_of_sameSup hsame).mp) hr)
      (transGen_mono (fun _ _ => (tneeds_of_sameSup hsame).mp) hc)

/-- **Acceptance is order-independent, given both supplier maps** (struct expansion included, no distinctness
    hypothesis). -/
theorem perm_accept_of_ok {provs0' provs0 provs' provs : List PSpec} {sup' sup : SupMap} (ret : Nat)
    (hperm : provs0'.Perm provs0)
    (hs' : supplierMap provs0' = .ok (provs', sup')) (hs : supplierMap provs0 = .ok (provs, sup)) :
    (∃ p', plan provs0' ret = .ok p') ↔ (∃ p, plan provs0 ret = .ok p) := by
  have hsame := perm_suppliers hperm hs' hs
  rcases hsame ret with ⟨h1, h2⟩ | ⟨rp', rp, ri, h1, h2, _⟩
  · constructor
    · rintro ⟨p', hp'⟩; exact absurd hp' (plan_err_of_unsupplied hs' h1 p')
    · rintro ⟨p, hp⟩; exact absurd hp (plan_err_of_unsupplied hs h2 p)
  · rw [accepted_iff_acyclic hs' h1, accepted_iff_acyclic hs h2, acyclic_iff_tacyclic h1, acyclic_iff_tacyclic h2]
    exact tacyclic_of_sameSup hsame ret

/-- **Acceptance is order-independent** for declarations with distinct labels (struct expansions included, nested
    ones too; no proviso any more). -/
theorem perm_accept {provs0' provs0 : List PSpec} (ret : Nat) (hperm : provs0'.Perm provs0)
    (hnd : (provs0.map (·.decl)).Nodup) :
    (∃ p', plan provs0' ret = .ok p') ↔ (∃ p, plan provs0 ret = .ok p) := by
  have hiff := perm_supplierMap_ok hperm hnd
  cases hs : supplierMap provs0 with
  | ok r =>
    obtain ⟨⟨provs', sup'⟩, hs'⟩ := hiff.mpr ⟨r, hs⟩
    obtain ⟨provs, sup⟩ := r
    exact perm_accept_of_ok ret hperm hs' hs
  | error e =>
    cases hs' : supplierMap provs0' with
    | ok r' =>
      obtain ⟨r, hr⟩ := hiff.mp ⟨r', hs'⟩
      rw [hs] at hr; cases hr
    | error e' =>
      constructor
      · rintro ⟨p', hp'⟩; rw [plan_err_of_supplierMap_err ret hs'] at hp'; cases hp'
      · rintro ⟨p, hp⟩; rw [plan_err_of_supplierMap_err ret hs] at hp; cases hp

/-! ## 5. examples -/
namespace PermExamples
open RefuseExamples (isOk errOf)

/-! ### a three-provider declaration (type keys and labels are `Nat`s; no struct expansion) and a rotation of it -/

/-- makes 1 from 2 and 3 -/
def p0 : PSpec := { provides := [[1]], requires := [2, 3], decl := 10 }
/-- makes 2 (bound to interface 7) from 3 -/
def p1 : PSpec := { provides := [[2, 7]], requires := [3], decl := 11 }
/-- returns two values, 4 and 3, from the unsupplied 9 -/
def p2 : PSpec := { provides := [[4], [3]], requires := [9], decl := 12 }

def declA : List PSpec := [p0, p1, p2]
def declB : List PSpec := [p2, p0, p1]

theorem declB_perm : declB.Perm declA :=
  (List.Perm.swap p0 p2 [p1]).trans (List.Perm.cons p0 (List.Perm.swap p1 p2 []))

theorem declA_distinct : (declA.map (·.decl)).Nodup := by decide

def supA : SupMap := [(1, (0, 0)), (2, (1, 0)), (7, (1, 0)), (4, (2, 0)), (3, (2, 1))]
def supB : SupMap := [(4, (0, 0)), (3, (0, 1)), (1, (1, 0)), (2, (2, 0)), (7, (2, 0))]

theorem declA_sup : supplierMap declA = .ok (declA, supA) := by rfl
theorem declB_sup : supplierMap declB = .ok (declB, supB) := by rfl

/-- the reference value of type 1 in the first order: positions 0, 1, 2 -/
def valA : Val := .app 0 0 [.app 1 0 [.app 2 1 [.arg 9]], .app 2 1 [.arg 9]]
/-- … and in the rotated order: positions 1, 2, 0 -/
def valB : Val := .app 1 0 [.app 2 0 [.app 0 1 [.arg 9]], .app 0 1 [.arg 9]]

theorem valA_eval : Eval declA supA 1 valA :=
  Eval.app (p := 0) (gi := 0) rfl (EvalL.cons
    (Eval.app (p := 1) (gi := 0) rfl (EvalL.cons (Eval.app (p := 2) (gi := 1) rfl (EvalL.cons (Eval.arg rfl) EvalL.nil)) EvalL.nil))
    (EvalL.cons (Eval.app (p := 2) (gi := 1) rfl (EvalL.cons (Eval.arg rfl) EvalL.nil)) EvalL.nil))

theorem valB_eval : Eval declB supB 1 valB :=
  Eval.app (p := 1) (gi := 0) rfl (EvalL.cons
    (Eval.app (p := 2) (gi := 0) rfl (EvalL.cons (Eval.app (p := 0) (gi := 1) rfl (EvalL.cons (Eval.arg rfl) EvalL.nil)) EvalL.nil))
    (EvalL.cons (Eval.app (p := 0) (gi := 1) rfl (EvalL.cons (Eval.arg rfl) EvalL.nil)) EvalL.nil))

/-- the two position-based values differ … -/
example : valB ≠ valA := by intro h; cases h
/-- … their label-based forms are the same term (checked by evaluation) -/
example : label declB valB = .app 10 "" 0 [.app 11 "" 0 [.app 12 "" 1 [.arg 9]], .app 12 "" 1 [.arg 9]] := by rfl
example : label declA valA = .app 10 "" 0 [.app 11 "" 0 [.app 12 "" 1 [.arg 9]], .app 12 "" 1 [.arg 9]] := by rfl
example : label declB valB = label declA valA := by rfl
/-- the same from the theorem -/
example : label declB valB = label declA valA := perm_value declB_perm declB_sup declA_sup valB_eval valA_eval
/-- both orders are accepted (checked by evaluation, and from the theorem) -/
example : isOk (plan declB 1) = true ∧ isOk (plan declA 1) = true := by decide
example : (∃ p', plan declB 1 = .ok p') ↔ (∃ p, plan declA 1 = .ok p) :=
  perm_accept 1 declB_perm declA_distinct
/-- suppliers: type 3 is result group 1 of the provider labelled 12, at position 2 resp. 0 -/
example : SameSup declB supB declA supA 3 := perm_suppliers declB_perm declB_sup declA_sup 3
example : supB.lookup 3 = some (0, 1) ∧ supA.lookup 3 = some (2, 1) ∧ declB.getD 0 default = declA.getD 2 default :=
  ⟨rfl, rfl, rfl⟩

/-! ### nested struct expansion: a struct whose value is a field of another expanded struct -/

/-- returns struct 8 -/
def fnS : PSpec := { provides := [[8]], decl := 0 }
/-- `Struct[8]`, with field `x` of struct type 5 -/
def stB : PSpec := { kind := 1, structTy := 8, fields := [("x", 5)], decl := 1 }
/-- `Struct[5]`, with field `y` of type 6 -/
def stA : PSpec := { kind := 1, structTy := 5, fields := [("y", 6)], decl := 2 }

/-- the outer struct expansion is declared first -/
def nestedOuterFirst : List PSpec := [fnS, stB, stA]
/-- the inner struct expansion is declared first (refused with `orphan 5` before the repair of the planner) -/
def nestedInnerFirst : List PSpec := [fnS, stA, stB]

theorem nested_perm : nestedInnerFirst.Perm nestedOuterFirst := List.Perm.cons fnS (List.Perm.swap stB stA [])
theorem nested_distinct : (nestedOuterFirst.map (·.decl)).Nodup := by decide

theorem nestedOuterFirst_accepted : isOk (plan nestedOuterFirst 6) = true := by decide
theorem nestedInnerFirst_accepted : isOk (plan nestedInnerFirst 6) = true := by decide
theorem nestedOuterFirst_sup : isOk (supplierMap nestedOuterFirst) = true := by decide
theorem nestedInnerFirst_sup : isOk (supplierMap nestedInnerFirst) = true := by decide

/-- **Both orders of the nested example are accepted** (checked by evaluation). -/
theorem nested_both_accepted :
    isOk (plan nestedOuterFirst 6) = true ∧ isOk (plan nestedInnerFirst 6) = true := by decide

/-- the synthetic field providers are appended in expansion order — `x` (of `Struct[8]`) before `y` (of `Struct[5]`)
    in both orders, since `Struct[5]` has to wait for `x` — and the supplier maps coincide -/
theorem nested_supplierMaps :
    supplierMap nestedOuterFirst =
      .ok (nestedOuterFirst ++ [mkFieldProv 8 1 "x" 5, mkFieldProv 5 2 "y" 6], [(8, (0, 0)), (5, (3, 0)), (6, (4, 0))]) ∧
    supplierMap nestedInnerFirst =
      .ok (nestedInnerFirst ++ [mkFieldProv 8 1 "x" 5, mkFieldProv 5 2 "y" 6], [(8, (0, 0)), (5, (3, 0)), (6, (4, 0))]) :=
  ⟨rfl, rfl⟩

/-- the same from the theorem -/
example : (∃ p', plan nestedInnerFirst 6 = .ok p') ↔ (∃ p, plan nestedOuterFirst 6 = .ok p) :=
  perm_accept 6 nested_perm nested_distinct

/-- a struct expansion that is a field only of itself / of a struct that is never expanded stays an orphan, in every
    order -/
example : errOf (plan [fnS, stA] 6) = some (.orphan 5) ∧
    errOf (plan [{ kind := 1, structTy := 5, fields := [("y", 6)], decl := 2 },
                 { kind := 1, structTy := 6, fields := [("x", 5)], decl := 1 }] 6) = some (.orphan 5) := by decide

end PermExamples

/-- the unrestricted statements (only distinct labels assumed) -/
def perm_accept_unrestricted_statement : Prop :=
  ∀ (provs0' provs0 : List PSpec) (ret : Nat), provs0'.Perm provs0 → (provs0.map (·.decl)).Nodup →
    ((∃ p', plan provs0' ret = .ok p') ↔ (∃ p, plan provs0 ret = .ok p))

def perm_supplierMap_ok_unrestricted_statement : Prop :=
  ∀ (provs0' provs0 : List PSpec), provs0'.Perm provs0 → (provs0.map (·.decl)).Nodup →
    ((∃ r', supplierMap provs0' = .ok r') ↔ (∃ r, supplierMap provs0 = .ok r))

/-- … **hold** in the model of the repaired planner (they were false before: struct expansions used to be processed
    strictly in declaration order) -/
theorem perm_accept_unrestricted : perm_accept_unrestricted_statement :=
  fun _ _ ret hperm hnd => perm_accept ret hperm hnd

theorem perm_supplierMap_ok_unrestricted : perm_supplierMap_ok_unrestricted_statement :=
  fun _ _ hperm hnd => perm_supplierMap_ok hperm hnd

end KV

#print axioms KV.supplierMap_spec
#print axioms KV.perm_suppliers
#print axioms KV.perm_value
#print axioms KV.perm_returned_value
#print axioms KV.supplierMap_ok_iff
#print axioms KV.perm_supplierMap_ok
#print axioms KV.perm_supplierMap_ok_or_orphan
#print axioms KV.perm_accept_of_ok
#print axioms KV.perm_accept
#print axioms KV.pass2_ok_iff
#print axioms KV.PermExamples.nested_both_accepted
#print axioms KV.perm_accept_unrestricted
#print axioms KV.perm_supplierMap_ok_unrestricted
