import KV.T1
/-! Prototype (scratch): constructing schedules — every vector of targets whose prefixes consist of
    "free" ops (no wait, no eg.Wait) is reachable.  This is the Tier 1 half of C05's "there is an execution
    in which all of them are inside their provider function at the same time". -/
namespace T1

def freeOp : Op → Prop
  | .wait _ _ => False
  | .egwait => False
  | _ => True

theorem enabled_of_free {P : Prog} {s : Pcs} {t : Nat} {op : Op} (htl : t < P.threads.length)
    (hop : opAt P t (pc s t) = some op) (hsp : spawned P s t) (hf : freeOp op) : Enabled P s t := by
  refine ⟨htl, op, hop, hsp, ?_⟩
  cases op <;> simp [freeOp] at hf <;> trivial

/-- run thread `t` alone from its current counter up to `k`, if everything in between is free -/
theorem advance_thread {P : Prog} {s : Pcs} (hr : Reach P s) {t : Nat} (htl : t < P.threads.length)
    (hsp : spawned P s t) (k : Nat) (hk : pc s t ≤ k)
    (hfree : ∀ j, pc s t ≤ j → j < k → ∃ op, opAt P t j = some op ∧ freeOp op) :
    ∃ s', Reach P s' ∧ pc s' t = k ∧ (∀ u, u ≠ t → pc s' u = pc s u) := by
  generalize hd : k - pc s t = d
  induction d generalizing s with
  | zero => exact ⟨s, hr, by omega, fun _ _ => rfl⟩
  | succ d ih =>
    obtain ⟨op, hop, hf⟩ := hfree (pc s t) (Nat.le_refl _) (by omega)
    have hen := enabled_of_free htl hop hsp hf
    have hlen := reach_length hr
    have hl : t < s.length := by rw [hlen]; exact htl
    have hr1 : Reach P (bump s t) := Reach.step hr hen
    have hpc1 : pc (bump s t) t = pc s t + 1 := pc_bump_self hl
    have hsp1 : spawned P (bump s t) t := by
      rcases hsp with h0 | ⟨j, hj, hlt⟩
      · exact Or.inl h0
      · exact Or.inr ⟨j, hj, Nat.lt_of_lt_of_le hlt (pc_mono_bump s t 0)⟩
    obtain ⟨s', hr', hpc', hoth⟩ := ih hr1 hsp1 (by rw [hpc1]; omega)
      (fun j h1 h2 => hfree j (by rw [hpc1] at h1; omega) h2) (by rw [hpc1]; omega)
    exact ⟨s', hr', hpc', fun u hu => by rw [hoth u hu, pc_bump_other hu]⟩

/-- all goroutines whose spawn lies in the free prefix of the main thread, and the main thread itself,
    can be driven to their targets one after the other -/
theorem reach_targets {P : Prog} (target : Nat → Nat) (h0 : 0 < P.threads.length)
    (hfree : ∀ t, t < P.threads.length → ∀ j, j < target t → ∃ op, opAt P t j = some op ∧ freeOp op)
    (hspawn : ∀ g, 0 < g → g < P.threads.length → 0 < target g → ∃ j, opAt P 0 j = some (.spawn g) ∧ j < target 0) :
    ∀ n, n ≤ P.threads.length → ∃ s, Reach P s ∧ (∀ t, t < n → pc s t = target t) ∧
      (∀ t, n ≤ t → pc s t = 0) ∧ (0 < n → pc s 0 = target 0) := by
  intro n
  induction n with
  | zero =>
    intro _
    refine ⟨_, Reach.init, by intro t ht; omega, ?_, by intro h; omega⟩
    intro t _
    simp only [pc, List.getD_eq_getElem?_getD, List.getElem?_replicate]
    split <;> rfl
  | succ n ih =>
    intro hn
    obtain ⟨s, hr, hdone, hrest, hmain⟩ := ih (by omega)
    have htl : n < P.threads.length := by omega
    have hpc0 : pc s n = 0 := hrest n (Nat.le_refl _)
    by_cases htz : target n = 0
    · -- nothing to do for this thread
      refine ⟨s, hr, ?_, fun t ht => hrest t (by omega), ?_⟩
      · intro t ht
        by_cases htn : t = n
        · subst htn; rw [hpc0, htz]
        · exact hdone t (by omega)
      · intro _
        by_cases hn0 : n = 0
        · subst hn0; rw [hpc0, htz]
        · exact hmain (by omega)
    · have hsp : spawned P s n := by
        by_cases hn0 : n = 0
        · exact Or.inl hn0
        · obtain ⟨j, hj, hlt⟩ := hspawn n (by omega) htl (by omega)
          exact Or.inr ⟨j, hj, by rw [hmain (by omega)]; exact hlt⟩
      obtain ⟨s', hr', hpc', hoth⟩ := advance_thread hr htl hsp (target n) (by omega)
        (fun j _ h2 => hfree n htl j h2)
      refine ⟨s', hr', ?_, ?_, ?_⟩
      · intro t ht
        by_cases htn : t = n
        · subst htn; exact hpc'
        · rw [hoth t htn]; exact hdone t (by omega)
      · intro t ht
        rw [hoth t (by omega)]; exact hrest t (by omega)
      · intro _
        by_cases hn0 : n = 0
        · subst hn0; exact hpc'
        · rw [hoth 0 (fun e => hn0 e.symm)]; exact hmain (by omega)

/-- **C05, Tier 1 half (prototype)**: if every thread's target is preceded only by free ops and every goroutine
    with a non-trivial target is spawned within the main thread's target, then there is an execution reaching
    all targets simultaneously. -/
theorem all_targets_reachable {P : Prog} (target : Nat → Nat) (h0 : 0 < P.threads.length)
    (hfree : ∀ t, t < P.threads.length → ∀ j, j < target t → ∃ op, opAt P t j = some op ∧ freeOp op)
    (hspawn : ∀ g, 0 < g → g < P.threads.length → 0 < target g → ∃ j, opAt P 0 j = some (.spawn g) ∧ j < target 0) :
    ∃ s, Reach P s ∧ ∀ t, t < P.threads.length → pc s t = target t := by
  obtain ⟨s, hr, hall, _, _⟩ := reach_targets target h0 hfree hspawn P.threads.length (Nat.le_refl _)
  exact ⟨s, hr, hall⟩

end T1
