import KV.StmtsProof
/-! Prototype (scratch): putting the pieces together. -/
namespace KV

theorem depsClosed_of_sound {g : Graph} (hg : GWF2 g) (hs : SoundL g (topoOrder g)) :
    DepsClosed g (topoOrder g) := by
  intro pre m post hsplit d hd
  obtain ⟨i, hil, hget⟩ := List.getElem_of_mem hd
  have hget? : (g.rev.getD m [])[i]? = some d := by rw [List.getElem?_eq_getElem hil, hget]
  obtain ⟨e, he, hed, hes⟩ := hg.revEdge m i d hget?
  obtain ⟨n, hnpre, e', he', hed', hes'⟩ := hs pre m post hsplit i hil
  obtain ⟨hnn, _⟩ := hg.edgeUnique d n e e' he he' (by rw [hed, hed']) (by rw [hes, hes'])
  rw [hnn]; exact hnpre

theorem poolFacts_of_build {g : Graph} (hg : GWF2 g) (k : Nat) :
    PoolFacts g (topoOrder g) (bpass1 g (topoOrder g) k).pools := by
  obtain ⟨hsound, hnd, hlt⟩ := topoOrder_sound hg.toGWF
  have h1 := bpass1_inv (g := g) (topoOrder g) k hnd hlt
  have hdc := depsClosed_of_sound hg hsound
  have hsf := bpass1_sync (g := g) (topoOrder g) k hnd hlt hdc
  refine { nodup := hnd, lt := hlt, sub := h1.sub, closed := hdc, placed := ?_, syncInit := ?_ }
  · intro hk0 n hn hna
    rw [h1.lenPools] at hk0
    obtain ⟨q, hq, hnq⟩ := h1.placed n hn hna hk0
    exact ⟨q, by rw [h1.lenPools]; exact hq, hnq⟩
  · intro i hi hne hsync
    obtain ⟨hfmem, rest, hfcons⟩ := head_mem_of_ne_nil hne
    have hargs := hsf i (firstOf _ i) rest hfcons hsync
    simp only [isInitial, Bool.and_eq_true, Bool.not_eq_true']
    refine ⟨?_, ?_⟩
    · cases hp : (bpass1 g (topoOrder g) k).pools.getD i [] with
      | nil => exact absurd hp hne
      | cons a as => rfl
    · simp only [depsIn, List.all_eq_true]
      intro d hd
      have hfo : firstOf (bpass1 g (topoOrder g) k).pools i ∈ topoOrder g := (h1.sub i).subset hfmem
      obtain ⟨pre, post, hsplit⟩ := List.append_of_mem hfo
      have hdpre := hdc pre _ post hsplit d hd
      have hdo : d ∈ topoOrder g := by rw [hsplit]; exact List.mem_append_left _ hdpre
      have := mem_argNodesOf (hlt d hdo) (hargs d hd)
      simpa using this

theorem build2_pools {g : Graph} {b : BuildOut} (hb : build2 g = .ok b) :
    b.pools = (bpass1 g (topoOrder g) (maxAntichain g)).pools := by
  simp only [build2] at hb
  split at hb
  · cases hb; rfl
  · cases hb

/-- **No deadlock for every successful plan over a well-formed graph** (prototype; `GWF2 g` is what
    remains to be derived from `newGraph`). -/
theorem plan_no_deadlock_of_gwf {g : Graph} {b : BuildOut} {parent : List Nat} {chains : List (List Nat)}
    (hg : GWF2 g) (hb : build2 g = .ok b) (hs : buildStmts2 g b.pools = .ok (parent, chains))
    {s : T1.Pcs} (hpend : ∃ t op, T1.Pending (emitPlan b parent chains) s t op) :
    ∃ t, T1.Enabled (emitPlan b parent chains) s t := by
  have hpf : PoolFacts g (topoOrder g) b.pools := by
    rw [build2_pools hb]; exact poolFacts_of_build hg _
  obtain ⟨hsf, hk⟩ := stmtFacts_of_buildStmts2 hpf hs
  exact plan_no_deadlock (planOK_of_build2 hg hb hsf hk) hpend

end KV
