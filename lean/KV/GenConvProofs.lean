import KV.GenConv
/-! # Proofs about the `createASTTypeExpr` model (`KV/GenConv.lean`)

`render` is total, keeps the invariant of the import table (`Inv`: every imported name is in use in the pool and no two
packages share a name), only ever adds entries, and — for the types of `WF` — the expression it produces denotes, in the
file it is written to, the type it was made from.  The local names it gives to imports were not in use in the pool, and
every import it adds is mentioned by the expression.

One statement of the task is **false as stated** (`render_mono`, first conjunct; counterexample `render_mono_false`
below): `Inv` speaks about the entries `List.lookup` can see only, so a table may hold a *shadowed* entry whose name is
not in use, and that name may be handed out again.  `render_mono_partial` is the closest true statement (the qualifier
is in use in the pool); it needs no `Inv`. -/
namespace GConv
open VP

/-! ### association lists -/

theorem lookup_cons_ne {α β} [BEq α] [LawfulBEq α] (k k' : α) (v : β) (l : List (α × β)) (h : k ≠ k') :
    ((k', v) :: l).lookup k = l.lookup k := by
  simp only [List.lookup]
  have : (k == k') = false := by simpa using h
  rw [this]

theorem lookup_cons_self {α β} [BEq α] [LawfulBEq α] (k : α) (v : β) (l : List (α × β)) :
    ((k, v) :: l).lookup k = some v := by
  simp [List.lookup]

theorem pathOf_cons_self (p : Nat) (n : String) (l : List (Nat × String)) : pathOf ((p, n) :: l) n = some p := by
  simp [pathOf, List.find?]

theorem pathOf_cons_ne (p : Nat) (n q : String) (l : List (Nat × String)) (h : n ≠ q) :
    pathOf ((p, n) :: l) q = pathOf l q := by
  have : (n == q) = false := by simpa using h
  simp [pathOf, List.find?, this]

/-! ### what a run of the generator may do to the state

`Ext st st'`: table entries are kept, names in use stay in use, a qualifier that is in use keeps its meaning, and every
entry that is new has a name that was not in use. -/

def Ext (st st' : St) : Prop :=
  (∀ p n, st.imports.lookup p = some n → st'.imports.lookup p = some n) ∧
  (∀ k, 0 < count st.pool k → 0 < count st'.pool k) ∧
  (∀ q p, pathOf st.imports q = some p → 0 < count st.pool q → pathOf st'.imports q = some p) ∧
  (∀ p n, st'.imports.lookup p = some n → st.imports.lookup p = some n ∨ count st.pool n = 0)

theorem Ext.refl (st : St) : Ext st st :=
  ⟨fun _ _ h => h, fun _ h => h, fun _ _ h _ => h, fun _ _ h => Or.inl h⟩

theorem Ext.trans {a b c : St} (h1 : Ext a b) (h2 : Ext b c) : Ext a c := by
  obtain ⟨l1, c1, p1, n1⟩ := h1
  obtain ⟨l2, c2, p2, n2⟩ := h2
  refine ⟨fun p n h => l2 p n (l1 p n h), fun k h => c2 k (c1 k h),
    fun q p h hc => p2 q p (p1 q p h hc) (c1 q hc), ?_⟩
  intro p n h
  rcases n2 p n h with h | h
  · exact n1 p n h
  · right
    rcases Nat.eq_zero_or_pos (count a.pool n) with hz | hpos
    · exact hz
    · have := c1 n hpos; omega

/-! ### `addImport` -/

theorem addImport_cases {st st' : St} {p : Nat} {d n : String} (ha : addImport st p d = some (st', n)) :
    (st' = st ∧ st.imports.lookup p = some n) ∨
    (st.imports.lookup p = none ∧ ∃ pool', getNameFix st.pool d = some (pool', n) ∧
      st' = { pool := pool', imports := (p, n) :: st.imports }) := by
  unfold addImport at ha
  split at ha
  · rename_i m hl
    cases ha
    exact Or.inl ⟨rfl, hl⟩
  · rename_i hl
    split at ha
    · cases ha
    · rename_i pool' m hg
      cases ha
      exact Or.inr ⟨hl, pool', hg, rfl⟩

theorem addImport_total (st : St) (p : Nat) (d : String) : addImport st p d ≠ none := by
  unfold addImport
  split
  · simp
  · split
    · rename_i h; exact absurd h (getNameFix_total _ _)
    · simp

/-- the returned name is the table's name of the package -/
theorem addImport_lookup {st st' : St} {p : Nat} {d n : String} (ha : addImport st p d = some (st', n)) :
    st'.imports.lookup p = some n := by
  rcases addImport_cases ha with ⟨rfl, hl⟩ | ⟨_, pool', _, rfl⟩
  · exact hl
  · exact lookup_cons_self _ _ _

theorem addImport_inv {st st' : St} {p : Nat} {d n : String} (hi : Inv st) (ha : addImport st p d = some (st', n)) :
    Inv st' := by
  rcases addImport_cases ha with ⟨rfl, _⟩ | ⟨_, pool', hg, rfl⟩
  · exact hi
  · obtain ⟨hz, hpos, hmono⟩ := getNameFix_spec _ _ _ _ hg
    constructor
    · intro p' n' hl
      dsimp only at hl ⊢
      by_cases hp : p' = p
      · rw [hp, lookup_cons_self] at hl
        cases hl; exact hpos
      · rw [lookup_cons_ne _ _ _ _ hp] at hl
        exact hmono _ (hi.1 _ _ hl)
    · intro p' n' hl
      dsimp only at hl ⊢
      by_cases hp : p' = p
      · rw [hp, lookup_cons_self] at hl
        cases hl; rw [hp]; exact pathOf_cons_self _ _ _
      · rw [lookup_cons_ne _ _ _ _ hp] at hl
        have hpos' := hi.1 _ _ hl
        have hne : n ≠ n' := by intro e; rw [e] at hz; omega
        rw [pathOf_cons_ne _ _ _ _ hne]
        exact hi.2 _ _ hl

theorem addImport_ext {st st' : St} {p : Nat} {d n : String} (ha : addImport st p d = some (st', n)) :
    Ext st st' := by
  rcases addImport_cases ha with ⟨rfl, _⟩ | ⟨hnone, pool', hg, rfl⟩
  · exact Ext.refl _
  · obtain ⟨hz, _, hmono⟩ := getNameFix_spec _ _ _ _ hg
    refine ⟨?_, hmono, ?_, ?_⟩
    · intro p' n' hl
      have hp : p' ≠ p := by intro e; rw [e, hnone] at hl; cases hl
      show List.lookup p' (_ :: _) = _
      rw [lookup_cons_ne _ _ _ _ hp]; exact hl
    · intro q p' hq hc
      have hne : n ≠ q := by intro e; rw [e] at hz; omega
      show pathOf (_ :: _) q = _
      rw [pathOf_cons_ne _ _ _ _ hne]; exact hq
    · intro p' n' hl
      dsimp only at hl
      by_cases hp : p' = p
      · rw [hp, lookup_cons_self] at hl
        cases hl; exact Or.inr hz
      · rw [lookup_cons_ne _ _ _ _ hp] at hl; exact Or.inl hl

/-- the only import a call can add is the one it returns -/
theorem addImport_new {st st' : St} {p : Nat} {d n : String} (ha : addImport st p d = some (st', n)) :
    ∀ p' n', st'.imports.lookup p' = some n' → st.imports.lookup p' = some n' ∨ n' = n := by
  rcases addImport_cases ha with ⟨rfl, _⟩ | ⟨_, pool', _, rfl⟩
  · exact fun _ _ h => Or.inl h
  · intro p' n' hl
    dsimp only at hl
    by_cases hp : p' = p
    · rw [hp, lookup_cons_self] at hl; exact Or.inr (Option.some.inj hl).symm
    · rw [lookup_cons_ne _ _ _ _ hp] at hl; exact Or.inl hl

/-! ### one node -/

theorem renderTag_total (cur : Nat) (pname : Nat → String) (st : St) (tag : Tag) :
    renderTag cur pname st tag ≠ none := by
  cases tag with
  | named p name =>
    simp only [renderTag]
    split
    · simp
    · split
      · rename_i h; exact absurd h (addImport_total _ _ _)
      · simp
  | _ => simp [renderTag]

/-- either the node is stateless and not a selector, or it is a named type of a foreign package -/
theorem renderTag_cases {cur : Nat} {pname : Nat → String} {st st1 : St} {tag : Tag} {etag : ETag}
    (h : renderTag cur pname st tag = some (st1, etag)) :
    (st1 = st ∧ ∀ q n, etag ≠ .sel q n) ∨
    (∃ p name q, tag = .named p name ∧ p ≠ cur ∧
      addImport st p (pname p) = some (st1, q) ∧ etag = .sel q name) := by
  cases tag with
  | named p name =>
    simp only [renderTag] at h
    split at h
    · cases h; exact Or.inl ⟨rfl, by intro q n e; cases e⟩
    · rename_i hne
      split at h
      · cases h
      · rename_i st' q ha
        cases h
        exact Or.inr ⟨p, name, q, rfl, hne, ha, rfl⟩
  | _ =>
    simp only [renderTag] at h
    cases h
    exact Or.inl ⟨rfl, by intro q n e; cases e⟩

theorem renderTag_inv {cur : Nat} {pname : Nat → String} {st st1 : St} {tag : Tag} {etag : ETag}
    (hi : Inv st) (h : renderTag cur pname st tag = some (st1, etag)) : Inv st1 := by
  rcases renderTag_cases h with ⟨rfl, _⟩ | ⟨p, name, q, _, _, ha, _⟩
  · exact hi
  · exact addImport_inv hi ha

theorem renderTag_ext {cur : Nat} {pname : Nat → String} {st st1 : St} {tag : Tag} {etag : ETag}
    (h : renderTag cur pname st tag = some (st1, etag)) : Ext st st1 := by
  rcases renderTag_cases h with ⟨rfl, _⟩ | ⟨p, name, q, _, _, ha, _⟩
  · exact Ext.refl _
  · exact addImport_ext ha

/-- a qualifier that is written is the table's name of some package -/
theorem renderTag_sel {cur : Nat} {pname : Nat → String} {st st1 : St} {tag : Tag} {q : String} {name : Nat}
    (h : renderTag cur pname st tag = some (st1, .sel q name)) : ∃ p, st1.imports.lookup p = some q := by
  rcases renderTag_cases h with ⟨_, hns⟩ | ⟨p, name', q', _, _, ha, he⟩
  · exact absurd rfl (hns q name)
  · cases he
    exact ⟨p, addImport_lookup ha⟩

theorem renderTag_new {cur : Nat} {pname : Nat → String} {st st1 : St} {tag : Tag} {etag : ETag}
    (h : renderTag cur pname st tag = some (st1, etag)) :
    ∀ p n, st1.imports.lookup p = some n → st.imports.lookup p = some n ∨ ∃ name, etag = .sel n name := by
  rcases renderTag_cases h with ⟨rfl, _⟩ | ⟨p, name, q, _, _, ha, he⟩
  · exact fun _ _ h => Or.inl h
  · intro p' n' hl
    rcases addImport_new ha p' n' hl with h1 | h1
    · exact Or.inl h1
    · subst h1; exact Or.inr ⟨name, he⟩

/-- the per-node part of `WF` -/
def tagWF : Tag → Bool
  | .basic n => decide (n < 16)
  | .named _ name => decide (16 ≤ name)
  | _ => true

theorem WF_node (tag : Tag) (kids : List Ty) : WF (.node tag kids) = (tagWF tag && WFList kids) := by
  cases tag <;> simp [WF, tagWF]

/-- the node is read back as what it was spelled from, in every later state of the table that satisfies `Inv` -/
theorem renderTag_roundtrip {cur : Nat} {pname : Nat → String} {st st1 st2 : St} {tag : Tag} {etag : ETag}
    (hwf : tagWF tag = true) (h : renderTag cur pname st tag = some (st1, etag))
    (hi2 : Inv st2) (hm : ∀ p n, st1.imports.lookup p = some n → st2.imports.lookup p = some n) :
    resolveTag cur st2 etag = some tag := by
  cases tag with
  | basic n =>
    simp only [renderTag] at h; cases h
    have hn : n < 16 := by simpa [tagWF] using hwf
    simp [resolveTag, hn]
  | named p name =>
    have hn : 16 ≤ name := by simpa [tagWF] using hwf
    have hn' : ¬ name < 16 := by omega
    simp only [renderTag] at h
    split at h
    · rename_i hpc
      cases h
      simp [resolveTag, hn', hpc]
    · split at h
      · cases h
      · rename_i st' q ha
        cases h
        simp [resolveTag, hi2.2 _ _ (hm _ _ (addImport_lookup ha))]
  | _ => simp only [renderTag] at h; cases h; simp [resolveTag]

theorem resolveTag_mono {cur : Nat} {st st2 : St} {etag : ETag} {tag : Tag}
    (hm : ∀ q p, pathOf st.imports q = some p → pathOf st2.imports q = some p)
    (h : resolveTag cur st etag = some tag) : resolveTag cur st2 etag = some tag := by
  cases etag with
  | sel q name =>
    simp only [resolveTag] at h ⊢
    cases hq : pathOf st.imports q with
    | none => rw [hq] at h; cases h
    | some p => rw [hq] at h; rw [hm q p hq]; exact h
  | _ => simp only [resolveTag] at h ⊢; exact h

/-! ### inversion of the recursive definitions -/

theorem render_node_some {cur : Nat} {pname : Nat → String} {st st' : St} {tag : Tag} {kids : List Ty} {e : Ex}
    (h : render cur pname st (.node tag kids) = some (st', e)) :
    ∃ st1 etag es, renderTag cur pname st tag = some (st1, etag) ∧
      renderList cur pname st1 kids = some (st', es) ∧ e = .node etag es := by
  simp only [render] at h
  split at h
  · cases h
  · rename_i st1 etag h1
    split at h
    · cases h
    · rename_i st2 es h2
      cases h
      exact ⟨st1, etag, es, h1, h2, rfl⟩

theorem renderList_nil_some {cur : Nat} {pname : Nat → String} {st st' : St} {es : List Ex}
    (h : renderList cur pname st [] = some (st', es)) : st' = st ∧ es = [] := by
  simp only [renderList] at h
  cases h; exact ⟨rfl, rfl⟩

theorem renderList_cons_some {cur : Nat} {pname : Nat → String} {st st' : St} {t : Ty} {ts : List Ty}
    {es : List Ex} (h : renderList cur pname st (t :: ts) = some (st', es)) :
    ∃ st1 e es', render cur pname st t = some (st1, e) ∧
      renderList cur pname st1 ts = some (st', es') ∧ es = e :: es' := by
  simp only [renderList] at h
  split at h
  · cases h
  · rename_i st1 e h1
    split at h
    · cases h
    · rename_i st2 es' h2
      cases h
      exact ⟨st1, e, es', h1, h2, rfl⟩

theorem resolve_node_some {cur : Nat} {st : St} {etag : ETag} {es : List Ex} {t : Ty}
    (h : resolve cur st (.node etag es) = some t) :
    ∃ tag ts, resolveTag cur st etag = some tag ∧ resolveList cur st es = some ts ∧ t = .node tag ts := by
  simp only [resolve] at h
  split at h
  · cases h
  · rename_i tag h1
    split at h
    · cases h
    · rename_i ts h2
      cases h
      exact ⟨tag, ts, h1, h2, rfl⟩

theorem resolve_node_of {cur : Nat} {st : St} {etag : ETag} {es : List Ex} {tag : Tag} {ts : List Ty}
    (h1 : resolveTag cur st etag = some tag) (h2 : resolveList cur st es = some ts) :
    resolve cur st (.node etag es) = some (.node tag ts) := by
  simp only [resolve, h1, h2]

theorem resolveList_cons_some {cur : Nat} {st : St} {e : Ex} {es : List Ex} {ts : List Ty}
    (h : resolveList cur st (e :: es) = some ts) :
    ∃ t ts', resolve cur st e = some t ∧ resolveList cur st es = some ts' ∧ ts = t :: ts' := by
  simp only [resolveList] at h
  split at h
  · cases h
  · rename_i t h1
    split at h
    · cases h
    · rename_i ts' h2
      cases h
      exact ⟨t, ts', h1, h2, rfl⟩

theorem resolveList_cons_of {cur : Nat} {st : St} {e : Ex} {es : List Ex} {t : Ty} {ts : List Ty}
    (h1 : resolve cur st e = some t) (h2 : resolveList cur st es = some ts) :
    resolveList cur st (e :: es) = some (t :: ts) := by
  simp only [resolveList, h1, h2]

theorem mem_quals_node {q : String} {etag : ETag} {es : List Ex} (h : q ∈ quals (.node etag es)) :
    (∃ name, etag = .sel q name) ∨ q ∈ qualsList es := by
  cases etag with
  | sel q' name =>
    simp only [quals, List.mem_cons] at h
    rcases h with rfl | h
    · exact Or.inl ⟨name, rfl⟩
    · exact Or.inr h
  | _ => simp only [quals] at h; exact Or.inr h

theorem mem_quals_sel (q : String) (name : Nat) (es : List Ex) : q ∈ quals (.node (.sel q name) es) := by
  simp [quals]

theorem mem_quals_of_list {q : String} (etag : ETag) {es : List Ex} (h : q ∈ qualsList es) :
    q ∈ quals (.node etag es) := by
  cases etag with
  | sel q' name => simp only [quals, List.mem_cons]; exact Or.inr h
  | _ => simp only [quals]; exact h

/-! ### 1. totality -/

mutual
theorem render_total (cur : Nat) (pname : Nat → String) :
    ∀ (st : St) (t : Ty), render cur pname st t ≠ none
  | st, .node tag kids => by
    simp only [render]
    split
    · rename_i h; exact absurd h (renderTag_total cur pname st tag)
    · rename_i st1 etag _
      split
      · rename_i h; exact absurd h (renderList_total cur pname st1 kids)
      · simp
theorem renderList_total (cur : Nat) (pname : Nat → String) :
    ∀ (st : St) (ts : List Ty), renderList cur pname st ts ≠ none
  | st, [] => by simp [renderList]
  | st, t :: ts => by
    simp only [renderList]
    split
    · rename_i h; exact absurd h (render_total cur pname st t)
    · rename_i st1 e _
      split
      · rename_i h; exact absurd h (renderList_total cur pname st1 ts)
      · simp
end

/-! ### 2. the invariant is kept -/

mutual
theorem render_inv {cur : Nat} {pname : Nat → String} :
    ∀ (t : Ty) (st st' : St) (e : Ex), Inv st → render cur pname st t = some (st', e) → Inv st'
  | .node tag kids, st, st', e, hi, h => by
    obtain ⟨st1, etag, es, h1, h2, _⟩ := render_node_some h
    exact renderList_inv kids st1 st' es (renderTag_inv hi h1) h2
theorem renderList_inv {cur : Nat} {pname : Nat → String} :
    ∀ (ts : List Ty) (st st' : St) (es : List Ex), Inv st → renderList cur pname st ts = some (st', es) → Inv st'
  | [], st, st', es, hi, h => by
    obtain ⟨rfl, _⟩ := renderList_nil_some h
    exact hi
  | t :: ts, st, st', es, hi, h => by
    obtain ⟨st1, e, es', h1, h2, _⟩ := renderList_cons_some h
    exact renderList_inv ts st1 st' es' (render_inv t st st1 e hi h1) h2
end

/-! ### 3. and 8. entries are only added, with names that were not in use (no `Inv` needed) -/

mutual
theorem render_ext {cur : Nat} {pname : Nat → String} :
    ∀ (t : Ty) (st st' : St) (e : Ex), render cur pname st t = some (st', e) → Ext st st'
  | .node tag kids, st, st', e, h => by
    obtain ⟨st1, etag, es, h1, h2, _⟩ := render_node_some h
    exact (renderTag_ext h1).trans (renderList_ext kids st1 st' es h2)
theorem renderList_ext {cur : Nat} {pname : Nat → String} :
    ∀ (ts : List Ty) (st st' : St) (es : List Ex), renderList cur pname st ts = some (st', es) → Ext st st'
  | [], st, st', es, h => by
    obtain ⟨rfl, _⟩ := renderList_nil_some h
    exact Ext.refl _
  | t :: ts, st, st', es, h => by
    obtain ⟨st1, e, es', h1, h2, _⟩ := renderList_cons_some h
    exact (render_ext t st st1 e h1).trans (renderList_ext ts st1 st' es' h2)
end

/- The statement of the task:

   theorem render_mono : Inv st → render cur pname st t = some (st', e) →
      (∀ q p, pathOf st.imports q = some p → pathOf st'.imports q = some p) ∧
      (∀ p n, st.imports.lookup p = some n → st'.imports.lookup p = some n) ∧
      (∀ k, 0 < count st.pool k → 0 < count st'.pool k)

   is false: `Inv` constrains only the entries `List.lookup` sees.  In the table `[(1, "a"), (1, "b")]` the entry
   `(1, "b")` is shadowed, `"b"` need not be in use, and it is handed out to package 2. -/

/-- counterexample to the first conjunct of `render_mono` as stated -/
theorem render_mono_false :
    let st : St := { pool := [("a", 1)], imports := [(1, "a"), (1, "b")] }
    Inv st ∧ pathOf st.imports "b" = some 1 ∧
    ∃ st' e, render 0 (fun _ => "b") st (.node (.named 2 16) []) = some (st', e) ∧
      pathOf st'.imports "b" = some 2 := by
  refine ⟨⟨?_, ?_⟩, by decide, ?_⟩
  · intro p n hl
    by_cases hp : p = 1
    · subst hp; rw [lookup_cons_self] at hl; cases hl; decide
    · rw [lookup_cons_ne _ _ _ _ hp, lookup_cons_ne _ _ _ _ hp] at hl; cases hl
  · intro p n hl
    by_cases hp : p = 1
    · subst hp; rw [lookup_cons_self] at hl; cases hl; decide
    · rw [lookup_cons_ne _ _ _ _ hp, lookup_cons_ne _ _ _ _ hp] at hl; cases hl
  · exact ⟨{ pool := [("a", 1), ("b", 1)], imports := [(2, "b"), (1, "a"), (1, "b")] },
      .node (.sel "b" 16) [], by rfl, by decide⟩

/-- closest true statement: a qualifier **that is in use in the pool** keeps its meaning (`Inv` is not needed) -/
theorem render_mono_partial {cur : Nat} {pname : Nat → String} (t : Ty) (st st' : St) (e : Ex)
    (h : render cur pname st t = some (st', e)) :
    (∀ q p, pathOf st.imports q = some p → 0 < count st.pool q → pathOf st'.imports q = some p) ∧
    (∀ p n, st.imports.lookup p = some n → st'.imports.lookup p = some n) ∧
    (∀ k, 0 < count st.pool k → 0 < count st'.pool k) :=
  let ⟨a, b, c, _⟩ := render_ext t st st' e h
  ⟨c, a, b⟩

theorem renderList_mono_partial {cur : Nat} {pname : Nat → String} (ts : List Ty) (st st' : St) (es : List Ex)
    (h : renderList cur pname st ts = some (st', es)) :
    (∀ q p, pathOf st.imports q = some p → 0 < count st.pool q → pathOf st'.imports q = some p) ∧
    (∀ p n, st.imports.lookup p = some n → st'.imports.lookup p = some n) ∧
    (∀ k, 0 < count st.pool k → 0 < count st'.pool k) :=
  let ⟨a, b, c, _⟩ := renderList_ext ts st st' es h
  ⟨c, a, b⟩

/-- in particular the name the table gives to a package (these are the qualifiers `Inv` speaks about) -/
theorem render_mono_lookup {cur : Nat} {pname : Nat → String} (t : Ty) (st st' : St) (e : Ex) (hi : Inv st)
    (h : render cur pname st t = some (st', e)) :
    ∀ q p, st.imports.lookup p = some q → pathOf st'.imports q = some p :=
  fun q p hl => (render_mono_partial t st st' e h).1 q p (hi.2 p q hl) (hi.1 p q hl)

theorem renderList_mono_lookup {cur : Nat} {pname : Nat → String} (ts : List Ty) (st st' : St) (es : List Ex)
    (hi : Inv st) (h : renderList cur pname st ts = some (st', es)) :
    ∀ q p, st.imports.lookup p = some q → pathOf st'.imports q = some p :=
  fun q p hl => (renderList_mono_partial ts st st' es h).1 q p (hi.2 p q hl) (hi.1 p q hl)

/-- and the statement of the task holds for tables all of whose names (shadowed or not) are in use — e.g. the empty one -/
theorem render_mono_of_allUsed {cur : Nat} {pname : Nat → String} (t : Ty) (st st' : St) (e : Ex)
    (hu : ∀ q p, pathOf st.imports q = some p → 0 < count st.pool q)
    (h : render cur pname st t = some (st', e)) :
    (∀ q p, pathOf st.imports q = some p → pathOf st'.imports q = some p) ∧
    (∀ p n, st.imports.lookup p = some n → st'.imports.lookup p = some n) ∧
    (∀ k, 0 < count st.pool k → 0 < count st'.pool k) :=
  let ⟨a, b, c⟩ := render_mono_partial t st st' e h
  ⟨fun q p hq => a q p hq (hu q p hq), b, c⟩

/-! ### 4. what an expression denotes does not change when the qualifiers keep their meaning -/

mutual
theorem resolve_mono {cur : Nat} {st st2 : St}
    (hm : ∀ q p, pathOf st.imports q = some p → pathOf st2.imports q = some p) :
    ∀ (e : Ex) (t : Ty), resolve cur st e = some t → resolve cur st2 e = some t
  | .node etag es, t, h => by
    obtain ⟨tag, ts, h1, h2, rfl⟩ := resolve_node_some h
    exact resolve_node_of (resolveTag_mono hm h1) (resolveList_mono hm es ts h2)
theorem resolveList_mono {cur : Nat} {st st2 : St}
    (hm : ∀ q p, pathOf st.imports q = some p → pathOf st2.imports q = some p) :
    ∀ (es : List Ex) (ts : List Ty), resolveList cur st es = some ts → resolveList cur st2 es = some ts
  | [], ts, h => by
    simp only [resolveList] at h ⊢; exact h
  | e :: es, ts, h => by
    obtain ⟨t, ts', h1, h2, rfl⟩ := resolveList_cons_some h
    exact resolveList_cons_of (resolve_mono hm e t h1) (resolveList_mono hm es ts' h2)
end

/-! ### 5. round trip

Proved for every later state of the table (`st2`: satisfies `Inv`, keeps the entries of `st'`): the name the table
gives to a package is read back as that package by `Inv`, so no statement about `pathOf` over time is needed. -/

mutual
theorem render_roundtrip_later {cur : Nat} {pname : Nat → String} :
    ∀ (t : Ty) (st st' st2 : St) (e : Ex), WF t = true → render cur pname st t = some (st', e) →
      Inv st2 → (∀ p n, st'.imports.lookup p = some n → st2.imports.lookup p = some n) →
      resolve cur st2 e = some t
  | .node tag kids, st, st', st2, e, hwf, h, hi2, hm => by
    obtain ⟨st1, etag, es, h1, h2, rfl⟩ := render_node_some h
    rw [WF_node, Bool.and_eq_true] at hwf
    have hl := (renderList_ext kids st1 st' es h2).1
    have r1 := renderTag_roundtrip hwf.1 h1 hi2 (fun p n hp => hm p n (hl p n hp))
    have r2 := renderList_roundtrip_later kids st1 st' st2 es hwf.2 h2 hi2 hm
    exact resolve_node_of r1 r2
theorem renderList_roundtrip_later {cur : Nat} {pname : Nat → String} :
    ∀ (ts : List Ty) (st st' st2 : St) (es : List Ex), WFList ts = true →
      renderList cur pname st ts = some (st', es) →
      Inv st2 → (∀ p n, st'.imports.lookup p = some n → st2.imports.lookup p = some n) →
      resolveList cur st2 es = some ts
  | [], st, st', st2, es, hwf, h, hi2, hm => by
    obtain ⟨_, rfl⟩ := renderList_nil_some h
    simp only [resolveList]
  | t :: ts, st, st', st2, es, hwf, h, hi2, hm => by
    obtain ⟨st1, e, es', h1, h2, rfl⟩ := renderList_cons_some h
    simp only [WFList, Bool.and_eq_true] at hwf
    have hl := (renderList_ext ts st1 st' es' h2).1
    have r1 := render_roundtrip_later t st st1 st2 e hwf.1 h1 hi2 (fun p n hp => hm p n (hl p n hp))
    have r2 := renderList_roundtrip_later ts st1 st' st2 es' hwf.2 h2 hi2 hm
    exact resolveList_cons_of r1 r2
end

theorem render_roundtrip {cur : Nat} {pname : Nat → String} (t : Ty) (st st' : St) (e : Ex) (hi : Inv st)
    (hwf : WF t = true) (h : render cur pname st t = some (st', e)) : resolve cur st' e = some t :=
  render_roundtrip_later t st st' st' e hwf h (render_inv t st st' e hi h) (fun _ _ hl => hl)

theorem renderList_roundtrip {cur : Nat} {pname : Nat → String} (ts : List Ty) (st st' : St) (es : List Ex)
    (hi : Inv st) (hwf : WFList ts = true) (h : renderList cur pname st ts = some (st', es)) :
    resolveList cur st' es = some ts :=
  renderList_roundtrip_later ts st st' st' es hwf h (renderList_inv ts st st' es hi h) (fun _ _ hl => hl)

/-! ### 6. every qualifier is imported -/

mutual
theorem render_quals_lookup {cur : Nat} {pname : Nat → String} :
    ∀ (t : Ty) (st st' : St) (e : Ex), render cur pname st t = some (st', e) →
      ∀ q ∈ quals e, ∃ p, st'.imports.lookup p = some q
  | .node tag kids, st, st', e, h => by
    obtain ⟨st1, etag, es, h1, h2, rfl⟩ := render_node_some h
    intro q hq
    rcases mem_quals_node hq with ⟨name, rfl⟩ | hq
    · obtain ⟨p, hp⟩ := renderTag_sel h1
      exact ⟨p, (renderList_ext kids st1 st' es h2).1 p q hp⟩
    · exact renderList_quals_lookup kids st1 st' es h2 q hq
theorem renderList_quals_lookup {cur : Nat} {pname : Nat → String} :
    ∀ (ts : List Ty) (st st' : St) (es : List Ex), renderList cur pname st ts = some (st', es) →
      ∀ q ∈ qualsList es, ∃ p, st'.imports.lookup p = some q
  | [], st, st', es, h => by
    obtain ⟨_, rfl⟩ := renderList_nil_some h
    intro q hq; simp [qualsList] at hq
  | t :: ts, st, st', es, h => by
    obtain ⟨st1, e, es', h1, h2, rfl⟩ := renderList_cons_some h
    intro q hq
    simp only [qualsList, List.mem_append] at hq
    rcases hq with hq | hq
    · obtain ⟨p, hp⟩ := render_quals_lookup t st st1 e h1 q hq
      exact ⟨p, (renderList_ext ts st1 st' es' h2).1 p q hp⟩
    · exact renderList_quals_lookup ts st1 st' es' h2 q hq
end

theorem render_quals_imported {cur : Nat} {pname : Nat → String} (t : Ty) (st st' : St) (e : Ex) (hi : Inv st)
    (h : render cur pname st t = some (st', e)) : ∀ q ∈ quals e, (pathOf st'.imports q).isSome := by
  intro q hq
  obtain ⟨p, hp⟩ := render_quals_lookup t st st' e h q hq
  rw [(render_inv t st st' e hi h).2 p q hp]; rfl

theorem renderList_quals_imported {cur : Nat} {pname : Nat → String} (ts : List Ty) (st st' : St) (es : List Ex)
    (hi : Inv st) (h : renderList cur pname st ts = some (st', es)) :
    ∀ q ∈ qualsList es, (pathOf st'.imports q).isSome := by
  intro q hq
  obtain ⟨p, hp⟩ := renderList_quals_lookup ts st st' es h q hq
  rw [(renderList_inv ts st st' es hi h).2 p q hp]; rfl

/-! ### 7. every import added while spelling a type is used by it -/

mutual
theorem render_no_unused {cur : Nat} {pname : Nat → String} :
    ∀ (t : Ty) (st st' : St) (e : Ex), render cur pname st t = some (st', e) →
      ∀ p n, st'.imports.lookup p = some n → st.imports.lookup p = some n ∨ n ∈ quals e
  | .node tag kids, st, st', e, h => by
    obtain ⟨st1, etag, es, h1, h2, rfl⟩ := render_node_some h
    intro p n hl
    rcases renderList_no_unused kids st1 st' es h2 p n hl with hl1 | hm
    · rcases renderTag_new h1 p n hl1 with hl0 | ⟨name, rfl⟩
      · exact Or.inl hl0
      · exact Or.inr (mem_quals_sel n name es)
    · exact Or.inr (mem_quals_of_list etag hm)
theorem renderList_no_unused {cur : Nat} {pname : Nat → String} :
    ∀ (ts : List Ty) (st st' : St) (es : List Ex), renderList cur pname st ts = some (st', es) →
      ∀ p n, st'.imports.lookup p = some n → st.imports.lookup p = some n ∨ n ∈ qualsList es
  | [], st, st', es, h => by
    obtain ⟨rfl, _⟩ := renderList_nil_some h
    exact fun _ _ hl => Or.inl hl
  | t :: ts, st, st', es, h => by
    obtain ⟨st1, e, es', h1, h2, rfl⟩ := renderList_cons_some h
    intro p n hl
    simp only [qualsList, List.mem_append]
    rcases renderList_no_unused ts st1 st' es' h2 p n hl with hl1 | hm
    · rcases render_no_unused t st st1 e h1 p n hl1 with hl0 | hm
      · exact Or.inl hl0
      · exact Or.inr (Or.inl hm)
    · exact Or.inr (Or.inr hm)
end

/-! ### 8. the local names given to imports were not in use -/

theorem render_names_fresh {cur : Nat} {pname : Nat → String} (t : Ty) (st st' : St) (e : Ex) (_hi : Inv st)
    (h : render cur pname st t = some (st', e)) :
    ∀ p n, st'.imports.lookup p = some n → st.imports.lookup p = some n ∨ count st.pool n = 0 :=
  (render_ext t st st' e h).2.2.2

theorem renderList_names_fresh {cur : Nat} {pname : Nat → String} (ts : List Ty) (st st' : St) (es : List Ex)
    (_hi : Inv st) (h : renderList cur pname st ts = some (st', es)) :
    ∀ p n, st'.imports.lookup p = some n → st.imports.lookup p = some n ∨ count st.pool n = 0 :=
  (renderList_ext ts st st' es h).2.2.2

/-! ### 9. non-vacuity -/

/-- `map[store0.N0]func(store1.N1[store0.N0]) int` seen from package 0: packages 1 and 2 both declare the name `store`,
    and the user's package already uses the identifier `store` -/
def exTy : Ty :=
  .node .map [.node (.named 1 16) [],
              .node (.func 1) [.node (.named 2 17) [.node (.named 1 16) []], .node (.basic 0) []]]

def exSt : St := { pool := [("store", 1)], imports := [] }

example : WF exTy = true := by decide

theorem exTy_render : render 0 (fun _ => "store") exSt exTy =
    some ({ pool := [("store", 3), ("store0", 1), ("store1", 1)], imports := [(2, "store1"), (1, "store0")] },
      .node .map [.node (.sel "store0" 16) [],
                  .node (.func 1) [.node (.sel "store1" 17) [.node (.sel "store0" 16) []], .node (.ident 0) []]]) := by
  rfl

/-- and the round trip holds for it -/
example : (render 0 (fun _ => "store") exSt exTy).bind (fun r => resolve 0 r.1 r.2) = some exTy := by
  rfl

end GConv

#print axioms GConv.render_total
#print axioms GConv.renderList_total
#print axioms GConv.render_inv
#print axioms GConv.renderList_inv
#print axioms GConv.render_mono_false
#print axioms GConv.render_mono_partial
#print axioms GConv.renderList_mono_partial
#print axioms GConv.render_mono_lookup
#print axioms GConv.renderList_mono_lookup
#print axioms GConv.render_mono_of_allUsed
#print axioms GConv.resolve_mono
#print axioms GConv.resolveList_mono
#print axioms GConv.render_roundtrip_later
#print axioms GConv.renderList_roundtrip_later
#print axioms GConv.render_roundtrip
#print axioms GConv.renderList_roundtrip
#print axioms GConv.render_quals_imported
#print axioms GConv.renderList_quals_imported
#print axioms GConv.render_no_unused
#print axioms GConv.renderList_no_unused
#print axioms GConv.render_names_fresh
#print axioms GConv.renderList_names_fresh
#print axioms GConv.exTy_render
