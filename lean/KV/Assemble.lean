import KV.Pass2
import KV.Emit
/-! Prototype (scratch): from the planner's output to the emitted micro-op program, and the
    conditional main theorem: plan facts ⇒ `T1.PlanFacts` ⇒ no deadlock. -/
namespace KV

/-- node block information read off the build output -/
def nodeInfo (b : BuildOut) (n : Nat) : T1.NodeInfo :=
  { id := n,
    args := (b.nodeArgs.getD n []).map (fun a => (a.param, a.isWait && (b.params.getD a.param default).withChan)),
    rets := (b.nodeRets.getD n []).map (fun r => (r, (b.params.getD r default).withChan)) }

def emitPlan (b : BuildOut) (parent : List Nat) (chains : List (List Nat)) : T1.Prog :=
  T1.emit (parent.map (nodeInfo b)) (chains.map (·.map (nodeInfo b))) b.retParam

def posOf (order : List Nat) (n : Nat) : Nat := order.idxOf n

/-- extra graph facts (to be established from `newGraph`) -/
structure GWF2 (g : Graph) : Prop extends GWF g where
  edgeUnique : ∀ n n' e e', e ∈ g.edges.getD n [] → e' ∈ g.edges.getD n' [] →
    e.dst = e'.dst → e.slot = e'.slot → n = n' ∧ e = e'
  srcLt : ∀ n e, e ∈ g.edges.getD n [] → n < g.nodes.length →
    e.src < (if isArgNode g n then 1 else (g.provs.getD (g.nodes.getD n default).prov default).provides.length)
  revEdge : ∀ m i d, (g.rev.getD m [])[i]? = some d → hasEdge g d m i

/-- what `buildStmts` must deliver (to be established) -/
structure StmtFacts (g : Graph) (pools : List (List Nat)) (parent : List Nat) (chains : List (List Nat)) : Prop where
  parentPool : ∃ pi, parent = pools.getD pi []
  chainPool : ∀ c ∈ chains, ∃ ci, c = pools.getD ci []
  cover : ∀ p n, n ∈ pools.getD p [] → n ∈ parent ∨ ∃ c ∈ chains, n ∈ c
  idx : ∃ pi cis, parent = pools.getD pi [] ∧ chains = cis.map (pools.getD · []) ∧ (pi :: cis).Nodup

theorem nodup_pairwise_idxOf {order : List Nat} (hnd : order.Nodup) :
    order.Pairwise (fun a b => order.idxOf a < order.idxOf b) := by
  rw [List.pairwise_iff_getElem]
  intro i j hi hj hij
  rw [hnd.idxOf_getElem i hi, hnd.idxOf_getElem j hj]
  exact hij

theorem sublist_pairwise_idxOf {order l : List Nat} (hnd : order.Nodup) (hs : l.Sublist order) :
    l.Pairwise (fun a b => order.idxOf a < order.idxOf b) :=
  (nodup_pairwise_idxOf hnd).sublist hs

theorem idxOf_lt_of_mem_pre {order pre post : List Nat} {m n : Nat} (hnd : order.Nodup)
    (ho : order = pre ++ m :: post) (hn : n ∈ pre) : order.idxOf n < order.idxOf m := by
  have hp := nodup_pairwise_idxOf hnd
  rw [ho] at hp ⊢
  rw [List.pairwise_append] at hp
  exact hp.2.2 n hn m (List.mem_cons_self ..)

/-- everything the assembly needs about one successful plan -/
structure PlanOK (g : Graph) (b : BuildOut) (parent : List Nat) (chains : List (List Nat)) : Prop where
  gwf : GWF2 g
  order_sound : SoundL g (topoOrder g)
  order_nodup : (topoOrder g).Nodup
  order_lt : ∀ m ∈ topoOrder g, m < g.nodes.length
  k_pos : 0 < b.pools.length
  p1 : ∃ st1 : P1St, P1Inv g b.pools.length (topoOrder g) st1 ∧ st1.pools = b.pools ∧ st1.nodeRets = b.nodeRets ∧
        st1.nodePool = b.nodePool ∧
        ∃ params0, P2Inv g st1 params0 (edgePairs g (topoOrder g)) { params := b.params, nodeArgs := b.nodeArgs } ∧
          params0.length = st1.params.length ∧
          (∀ v, (params0.getD v default).isArg = (st1.params.getD v default).isArg) ∧
          (∀ v, (params0.getD v default).node = (st1.params.getD v default).node)
  stmts : StmtFacts g b.pools parent chains
  argNoChan : ∀ v, (b.params.getD v default).isArg = true → (b.params.getD v default).withChan = false

theorem threadNodes_mem {b : BuildOut} {parent : List Nat} {chains : List (List Nat)} {t : Nat} {nd : T1.NodeInfo}
    (h : nd ∈ T1.threadNodes (parent.map (nodeInfo b)) (chains.map (·.map (nodeInfo b))) t) :
    ∃ n, nd = nodeInfo b n ∧ (n ∈ parent ∨ ∃ c ∈ chains, n ∈ c) := by
  cases t with
  | zero =>
    simp only [T1.threadNodes, List.mem_map] at h
    obtain ⟨n, hn, rfl⟩ := h
    exact ⟨n, rfl, Or.inl hn⟩
  | succ gI =>
    simp only [T1.threadNodes, List.getD_eq_getElem?_getD, List.getElem?_map] at h
    cases hc : chains[gI]? with
    | none => simp [hc] at h
    | some c =>
      simp only [hc, Option.map_some, Option.getD_some, List.mem_map] at h
      obtain ⟨n, hn, rfl⟩ := h
      exact ⟨n, rfl, Or.inr ⟨c, List.mem_of_getElem? hc, hn⟩⟩

theorem mem_thread_of_node {b : BuildOut} {parent : List Nat} {chains : List (List Nat)} {n : Nat}
    (h : n ∈ parent ∨ ∃ c ∈ chains, n ∈ c) :
    ∃ t, nodeInfo b n ∈ T1.threadNodes (parent.map (nodeInfo b)) (chains.map (·.map (nodeInfo b))) t := by
  rcases h with h | ⟨c, hc, hn⟩
  · exact ⟨0, by simp only [T1.threadNodes]; exact List.mem_map_of_mem h⟩
  · obtain ⟨gI, hgl, hget⟩ := List.getElem_of_mem hc
    refine ⟨gI + 1, ?_⟩
    simp only [T1.threadNodes, List.getD_eq_getElem?_getD, List.getElem?_map,
      List.getElem?_eq_getElem hgl, Option.map_some, Option.getD_some, hget]
    exact List.mem_map_of_mem hn

theorem planFacts_of_planOK {g : Graph} {b : BuildOut} {parent : List Nat} {chains : List (List Nat)}
    (hp : PlanOK g b parent chains) :
    T1.PlanFacts (parent.map (nodeInfo b)) (chains.map (·.map (nodeInfo b)))
      (posOf (topoOrder g)) (topoOrder g).length := by
  obtain ⟨st1, h1, hpools, hrets, hnpool, params0, h2, hplen, hpArg, hpNode⟩ := hp.p1
  -- every node of a thread lies in some pool, hence in the order
  have hInOrder : ∀ n, (n ∈ parent ∨ ∃ c ∈ chains, n ∈ c) → n ∈ topoOrder g := by
    intro n hn
    rcases hn with hn | ⟨c, hc, hn⟩
    · obtain ⟨pi, hpi⟩ := hp.stmts.parentPool
      rw [hpi, ← hpools] at hn
      exact (h1.sub pi).subset hn
    · obtain ⟨ci, hci⟩ := hp.stmts.chainPool c hc
      rw [hci, ← hpools] at hn
      exact (h1.sub ci).subset hn
  have hSubl : ∀ l, (l = parent ∨ l ∈ chains) → l.Sublist (topoOrder g) := by
    intro l hl
    rcases hl with rfl | hl
    · obtain ⟨pi, hpi⟩ := hp.stmts.parentPool
      rw [hpi, ← hpools]; exact h1.sub pi
    · obtain ⟨ci, hci⟩ := hp.stmts.chainPool l hl
      rw [hci, ← hpools]; exact h1.sub ci
  refine { posLt := ?_, sorted := ?_, waitCloser := ?_ }
  · intro t nd hnd
    obtain ⟨n, rfl, hn⟩ := threadNodes_mem hnd
    exact List.idxOf_lt_length_of_mem (hInOrder n hn)
  · intro t
    cases t with
    | zero =>
      simp only [T1.threadNodes]
      rw [List.pairwise_map]
      exact sublist_pairwise_idxOf hp.order_nodup (hSubl parent (Or.inl rfl))
    | succ gI =>
      simp only [T1.threadNodes, List.getD_eq_getElem?_getD, List.getElem?_map]
      cases hc : chains[gI]? with
      | none => simp
      | some c =>
        simp only [Option.map_some, Option.getD_some]
        rw [List.pairwise_map]
        exact sublist_pairwise_idxOf hp.order_nodup (hSubl c (Or.inr (List.mem_of_getElem? hc)))
  · intro t nd hnd v hv
    obtain ⟨m, rfl, hm⟩ := threadNodes_mem hnd
    have hmo := hInOrder m hm
    have hml := hp.order_lt m hmo
    -- the argument entry
    simp only [nodeInfo, List.mem_map] at hv
    obtain ⟨a, ha, hav⟩ := hv
    have hav1 : a.param = v := (Prod.mk.inj hav).1
    have hav2 : (a.isWait && (b.params.getD a.param default).withChan) = true := (Prod.mk.inj hav).2
    obtain ⟨i, hil, hget⟩ := List.getElem_of_mem ha
    have hslots : (b.nodeArgs.getD m []).length = nodeSlots g m := h2.slotLen m hml
    have hirev : i < (g.rev.getD m []).length := by
      rw [← hp.gwf.slotsEq m hml, ← hslots]; exact hil
    obtain ⟨pre, post, hsplit⟩ := List.append_of_mem hmo
    obtain ⟨n, hnpre, e, he, hed, hes⟩ := hp.order_sound pre m post hsplit i hirev
    have hno : n ∈ topoOrder g := by rw [hsplit]; exact List.mem_append_left _ hnpre
    have hpair : (n, e) ∈ edgePairs g (topoOrder g) := by
      simp only [edgePairs, List.mem_flatMap, List.mem_map]
      exact ⟨n, hno, e, he, rfl⟩
    obtain ⟨y, hy, hyd, hys, hval⟩ := h2.written (n, e) hpair (by simpa [hed] using hml)
      (by simp only [hed, hes]; rw [← hslots]; exact hil)
    -- uniqueness of the edge feeding (m, i)
    simp only [edgePairs, List.mem_flatMap, List.mem_map] at hy
    obtain ⟨n', hn'o, e', he', rfl⟩ := hy
    obtain ⟨hnn, hee⟩ := hp.gwf.edgeUnique n n' e e' he he' hyd.symm hys.symm
    subst hnn; subst hee
    -- so the entry equals argVal
    have hentry : a = argVal st1 n e := by
      simp only [hed, hes] at hval
      have : (b.nodeArgs.getD m []).getD i dfltArg = a := by
        rw [getD_eq_getElem' _ _ _ hil]; exact hget
      rw [← this]; exact hval
    have hv' : v = (b.nodeRets.getD n []).getD e.src 0 := by
      rw [← hav1, hentry]; simp only [argVal, hrets]
    have hwc : (b.params.getD v default).withChan = true := by
      rw [hav1] at hav2
      simp only [Bool.and_eq_true] at hav2
      exact hav2.2
    -- v is one of n's results
    have hnl := hp.order_lt n hno
    have hsrc := hp.gwf.srcLt n e he hnl
    have hlen := h1.retsLen n hno
    rw [hrets] at hlen
    have hsrc' : e.src < (b.nodeRets.getD n []).length := by rw [hlen]; exact hsrc
    have hvmem : v ∈ b.nodeRets.getD n [] := by
      rw [hv', getD_eq_getElem' _ _ _ hsrc']
      exact List.getElem_mem hsrc'
    -- n is a provider node (its result has a channel), hence placed in a pool, hence in a thread
    have hnArg : isArgNode g n = false := by
      have h3 := h1.retsArg n v (by rw [hrets]; exact hvmem)
      have h4 : (b.params.getD v default).isArg = (params0.getD v default).isArg := h2.pisArg v
      have h5 := hpArg v
      cases hia : isArgNode g n with
      | false => rfl
      | true =>
        have : (b.params.getD v default).isArg = true := by rw [h4, h5, h3, hia]
        have := hp.argNoChan v this
        rw [hwc] at this; cases this
    obtain ⟨p, hpk, hnp⟩ := h1.placed n hno hnArg hp.k_pos
    rw [hpools] at hnp
    obtain ⟨t', ht'⟩ := mem_thread_of_node (b := b) (hp.stmts.cover p n hnp)
    refine ⟨t', nodeInfo b n, ht', ?_, idxOf_lt_of_mem_pre hp.order_nodup hsplit hnpre⟩
    simp only [nodeInfo, List.mem_map]
    exact ⟨v, hvmem, by rw [hwc]⟩

/-- **Conditional main theorem (prototype)**: for a successful plan, the emitted program never deadlocks. -/
theorem plan_no_deadlock {g : Graph} {b : BuildOut} {parent : List Nat} {chains : List (List Nat)}
    (hp : PlanOK g b parent chains) {s : T1.Pcs}
    (hpend : ∃ t op, T1.Pending (emitPlan b parent chains) s t op) :
    ∃ t, T1.Enabled (emitPlan b parent chains) s t :=
  T1.progress (T1.emit_wf (planFacts_of_planOK hp)) hpend

theorem bpass1_pools_length (g : Graph) (order : List Nat) (k : Nat) (hnd : order.Nodup)
    (hlt : ∀ m ∈ order, m < g.nodes.length) : (bpass1 g order k).pools.length = k :=
  (bpass1_inv (g := g) order k hnd hlt).lenPools

theorem getD_listModify_fields (ps : List Param) (rp : Nat) (v : Nat) :
    ((listModify ps rp refBump).getD v default).isArg = (ps.getD v default).isArg ∧
    ((listModify ps rp refBump).getD v default).node = (ps.getD v default).node ∧
    ((listModify ps rp refBump).getD v default).withChan = (ps.getD v default).withChan := by
  by_cases hv : v = rp
  · subst hv
    by_cases hl : v < ps.length
    · rw [getD_listModify_self _ _ _ _ hl]; exact ⟨rfl, rfl, rfl⟩
    · rw [listModify_oob _ _ _ hl]; exact ⟨rfl, rfl, rfl⟩
  · rw [getD_listModify_other _ _ _ _ _ hv]; exact ⟨rfl, rfl, rfl⟩

/-- glue: a successful `build2` on a well-formed graph, together with the statement facts, gives `PlanOK` -/
theorem planOK_of_build2 {g : Graph} {b : BuildOut} {parent : List Nat} {chains : List (List Nat)}
    (hg : GWF2 g) (hb : build2 g = .ok b) (hs : StmtFacts g b.pools parent chains)
    (hk : 0 < b.pools.length) : PlanOK g b parent chains := by
  obtain ⟨hsound, hnd, hlt⟩ := topoOrder_sound hg.toGWF
  simp only [build2] at hb
  split at hb
  · cases hb
    have h1 := bpass1_inv (g := g) (topoOrder g) (maxAntichain g) hnd hlt
    refine { gwf := hg, order_sound := hsound, order_nodup := hnd, order_lt := hlt, k_pos := hk, p1 := ?_,
             stmts := hs, argNoChan := ?_ }
    · refine ⟨bpass1 g (topoOrder g) (maxAntichain g), ?_, rfl, rfl, rfl, _, bpass2_inv g (topoOrder g) _ _, ?_, ?_, ?_⟩
      · rw [h1.lenPools]; exact h1
      · simp [listModify_length]
      · intro v; exact (getD_listModify_fields _ _ v).1
      · intro v; exact (getD_listModify_fields _ _ v).2.1
    · have h2 := bpass2_inv g (topoOrder g) (bpass1 g (topoOrder g) (maxAntichain g))
        (listModify (bpass1 g (topoOrder g) (maxAntichain g)).params
          (retParamOf g (bpass1 g (topoOrder g) (maxAntichain g))) refBump)
      intro v hv
      exact h2.argNoChan (fun w => by rw [(getD_listModify_fields _ _ w).2.2]; exact h1.noChan w) v hv
  · cases hb

end KV
