import KV.T1F
import Std.Data.HashSet
/-! Executable version of the `T1F` interleaving semantics.

    * `closedB`, `spawnedB`, `runningB`: Boolean versions of the side conditions of `Step`;
    * `stepList P fails s`: all successors of `s` (`step_iff`: exactly the `Step` successors);
    * `outcomes P fails allowCancel fuel`: exhaustive search from `init P`, the outcomes of the terminal states;
    * `outcomes_sound`: every outcome printed is the outcome of a reachable terminal state. -/
namespace T1F

deriving instance DecidableEq for St
deriving instance Hashable for Err
deriving instance Hashable for Fin
deriving instance Hashable for St

/-! ### Boolean side conditions -/

def isCloseOf (c : Nat) : Op → Bool
  | .close _ c' => c' == c
  | _ => false

def isSpawnOf (g : Nat) : Op → Bool
  | .spawn g' => g' == g
  | _ => false

def closedB (P : Prog) (s : St) (c : Nat) : Bool :=
  (List.range P.threads.length).any fun t => ((thread P t).take (pc s t)).any (isCloseOf c)

def spawnedB (P : Prog) (s : St) (g : Nat) : Bool :=
  g == 0 || ((thread P 0).take (pc s 0)).any (isSpawnOf g)

def runningB (s : St) (t : Nat) : Bool := (finOf s t).isNone

theorem any_take_iff (l : List Op) (n : Nat) (p : Op → Bool) :
    (l.take n).any p = true ↔ ∃ j op, l[j]? = some op ∧ j < n ∧ p op = true := by
  rw [List.any_eq_true]
  constructor
  · rintro ⟨op, hm, hp⟩
    obtain ⟨j, hj⟩ := List.mem_iff_getElem?.mp hm
    rw [List.getElem?_take] at hj
    by_cases hlt : j < n
    · rw [if_pos hlt] at hj
      exact ⟨j, op, hj, hlt, hp⟩
    · rw [if_neg hlt] at hj
      cases hj
  · rintro ⟨j, op, hj, hlt, hp⟩
    refine ⟨op, ?_, hp⟩
    apply List.mem_iff_getElem?.mpr
    refine ⟨j, ?_⟩
    rw [List.getElem?_take, if_pos hlt]
    exact hj

theorem isCloseOf_iff {c : Nat} {op : Op} : isCloseOf c op = true ↔ ∃ o, op = .close o c := by
  cases op <;> simp [isCloseOf]

theorem isSpawnOf_iff {g : Nat} {op : Op} : isSpawnOf g op = true ↔ op = .spawn g := by
  cases op <;> simp [isSpawnOf]

theorem lt_of_opAt {P : Prog} {t j : Nat} {op : Op} (h : opAt P t j = some op) : t < P.threads.length :=
  thread_lt_of_mem (opAt_mem h)

theorem closedB_iff (P : Prog) (s : St) (c : Nat) : closedB P s c = true ↔ closed P s c := by
  unfold closedB closed
  rw [List.any_eq_true]
  constructor
  · rintro ⟨t, _, h⟩
    obtain ⟨j, op, hj, hlt, hp⟩ := (any_take_iff _ _ _).mp h
    obtain ⟨o, rfl⟩ := isCloseOf_iff.mp hp
    exact ⟨t, j, o, hj, hlt⟩
  · rintro ⟨t, j, o, hj, hlt⟩
    refine ⟨t, List.mem_range.mpr (lt_of_opAt hj), ?_⟩
    exact (any_take_iff _ _ _).mpr ⟨j, _, hj, hlt, isCloseOf_iff.mpr ⟨o, rfl⟩⟩

theorem spawnedB_iff (P : Prog) (s : St) (g : Nat) : spawnedB P s g = true ↔ spawned P s g := by
  unfold spawnedB spawned
  rw [Bool.or_eq_true, beq_iff_eq]
  apply or_congr Iff.rfl
  constructor
  · intro h
    obtain ⟨j, op, hj, hlt, hp⟩ := (any_take_iff _ _ _).mp h
    rw [isSpawnOf_iff.mp hp] at hj
    exact ⟨j, hj, hlt⟩
  · rintro ⟨j, hj, hlt⟩
    exact (any_take_iff _ _ _).mpr ⟨j, _, hj, hlt, isSpawnOf_iff.mpr rfl⟩

theorem runningB_iff (s : St) (t : Nat) : runningB s t = true ↔ running s t := by
  unfold runningB running
  exact Option.isNone_iff_eq_none

/-! ### successors -/

/-- every goroutine has finished (side condition of `egwait`) -/
def allGoDone (P : Prog) (s : St) : Bool :=
  (List.range P.threads.length).all fun g => g == 0 || (finOf s g).isSome

theorem allGoDone_iff (P : Prog) (s : St) :
    allGoDone P s = true ↔ ∀ g, 0 < g → g < P.threads.length → finOf s g ≠ none := by
  unfold allGoDone
  rw [List.all_eq_true]
  constructor
  · intro h g h0 hl
    have := h g (List.mem_range.mpr hl)
    rw [Bool.or_eq_true, beq_iff_eq] at this
    rcases this with h1 | h1
    · omega
    · intro hn
      rw [hn] at h1
      cases h1
  · intro h g hg
    rw [Bool.or_eq_true, beq_iff_eq]
    by_cases h0 : g = 0
    · exact Or.inl h0
    · right
      have := h g (Nat.pos_of_ne_zero h0) (List.mem_range.mp hg)
      cases hf : finOf s g with
      | none => exact absurd hf this
      | some _ => rfl

def egwaitSucc (s : St) : St := { (advance s 0) with egCanc := true }
def retSucc (P : Prog) (s : St) : St :=
  { (finish s 0 .ok) with result := some (if P.retErr then s.egErr else none) }
def cancelSucc (s : St) : St := { s with callerCanc := true }

/-- successors through thread `t` whose next operation is `op` (`none`: past the end) -/
def opSteps (P : Prog) (fails : List Nat) (s : St) (t : Nat) : Option Op → List St
  | some (.wait _ c k) =>
      (if closedB P s c then [advance s t] else []) ++
      (if k && ctxDone s then [finish s t (.err .ctx)] else [])
  | some (.enter _ _) => [advance s t]
  | some (.exit o _ f) => if f && fails.contains o then [finish s t (.err (.prov o))] else [advance s t]
  | some (.close _ _) => [advance s t]
  | some (.spawn _) => if t = 0 then [advance s t] else []
  | some .egwait => if t = 0 ∧ allGoDone P s = true then [egwaitSucc s] else []
  | some (.ret _) => if t = 0 then [retSucc P s] else []
  | none => if 0 < t then [finish s t .ok] else []

def threadSteps (P : Prog) (fails : List Nat) (s : St) (t : Nat) : List St :=
  if runningB s t && spawnedB P s t then opSteps P fails s t (opAt P t (pc s t)) else []

/-- the successors that are not the `cancel` step -/
def progSteps (P : Prog) (fails : List Nat) (s : St) : List St :=
  (List.range P.threads.length).flatMap (threadSteps P fails s)

/-- all successors: one candidate per thread and applicable constructor, plus the `cancel` successor -/
def stepList (P : Prog) (fails : List Nat) (s : St) : List St :=
  progSteps P fails s ++ [cancelSucc s]

/-- the environment in which exactly the providers of `fails` fail -/
def envOf (fails : List Nat) : Env := ⟨fun o => fails.contains o⟩

theorem step_of_mem_opSteps {P : Prog} {fails : List Nat} {s s' : St} {t : Nat}
    (ht : t < P.threads.length) (hr : running s t) (hs : spawned P s t)
    (h : s' ∈ opSteps P fails s t (opAt P t (pc s t))) : Step P (envOf fails) s s' := by
  generalize hop : opAt P t (pc s t) = op at h
  cases op with
  | none =>
    simp only [opSteps] at h
    split at h
    · rename_i h0
      rw [List.mem_singleton] at h
      subst h
      exact Step.goEnd h0 ht hr hs hop
    · cases h
  | some op =>
    cases op with
    | wait o c k =>
      simp only [opSteps, List.mem_append] at h
      rcases h with h | h
      · split at h
        · rename_i hc
          rw [List.mem_singleton] at h
          subst h
          exact Step.waitOk ht hr hs hop ((closedB_iff _ _ _).mp hc)
        · cases h
      · split at h
        · rename_i hc
          rw [Bool.and_eq_true] at hc
          rw [List.mem_singleton] at h
          subst h
          rw [hc.1] at hop
          exact Step.waitCtx ht hr hs hop hc.2
        · cases h
    | enter o args =>
      simp only [opSteps, List.mem_singleton] at h
      subst h
      exact Step.enter ht hr hs hop
    | exit o rets f =>
      simp only [opSteps] at h
      split at h
      · rename_i hc
        rw [Bool.and_eq_true] at hc
        rw [List.mem_singleton] at h
        subst h
        rw [hc.1] at hop
        exact Step.exitFail (env := envOf fails) ht hr hs hop hc.2
      · rename_i hc
        rw [List.mem_singleton] at h
        subst h
        exact Step.exitOk (env := envOf fails) ht hr hs hop (by simpa [envOf] using hc)
    | close o c =>
      simp only [opSteps, List.mem_singleton] at h
      subst h
      exact Step.close ht hr hs hop
    | spawn g =>
      simp only [opSteps] at h
      split at h
      · rename_i h0
        subst h0
        rw [List.mem_singleton] at h
        subst h
        exact Step.spawn hr hop
      · cases h
    | egwait =>
      simp only [opSteps] at h
      split at h
      · rename_i h0
        obtain ⟨h0, hall⟩ := h0
        subst h0
        rw [List.mem_singleton] at h
        subst h
        exact Step.egwait hr hop ((allGoDone_iff _ _).mp hall)
      · cases h
    | ret v =>
      simp only [opSteps] at h
      split at h
      · rename_i h0
        subst h0
        rw [List.mem_singleton] at h
        subst h
        exact Step.ret hr hop
      · cases h

theorem mem_threadSteps {P : Prog} {fails : List Nat} {s s' : St} {t : Nat} :
    s' ∈ threadSteps P fails s t ↔
      running s t ∧ spawned P s t ∧ s' ∈ opSteps P fails s t (opAt P t (pc s t)) := by
  unfold threadSteps
  split
  · rename_i h
    rw [Bool.and_eq_true, runningB_iff, spawnedB_iff] at h
    exact ⟨fun hm => ⟨h.1, h.2, hm⟩, fun hm => hm.2.2⟩
  · rename_i h
    rw [Bool.and_eq_true, runningB_iff, spawnedB_iff] at h
    exact ⟨fun hm => (by cases hm), fun hm => absurd ⟨hm.1, hm.2.1⟩ h⟩

theorem mem_progSteps {P : Prog} {fails : List Nat} {s s' : St} :
    s' ∈ progSteps P fails s ↔
      ∃ t, t < P.threads.length ∧ running s t ∧ spawned P s t ∧
        s' ∈ opSteps P fails s t (opAt P t (pc s t)) := by
  unfold progSteps
  rw [List.mem_flatMap]
  constructor
  · rintro ⟨t, ht, h⟩
    exact ⟨t, List.mem_range.mp ht, mem_threadSteps.mp h⟩
  · rintro ⟨t, ht, h⟩
    exact ⟨t, List.mem_range.mpr ht, mem_threadSteps.mpr h⟩

theorem mem_stepList {P : Prog} {fails : List Nat} {s s' : St} :
    s' ∈ stepList P fails s ↔ s' ∈ progSteps P fails s ∨ s' = cancelSucc s := by
  unfold stepList
  rw [List.mem_append, List.mem_singleton]

/-- **soundness**: every element of `stepList` is a `Step` successor -/
theorem step_of_mem {P : Prog} {fails : List Nat} {s s' : St} (h : s' ∈ stepList P fails s) :
    Step P (envOf fails) s s' := by
  rcases mem_stepList.mp h with h | h
  · obtain ⟨t, ht, hr, hs, hm⟩ := mem_progSteps.mp h
    exact step_of_mem_opSteps ht hr hs hm
  · subst h
    exact Step.cancel

/-- **completeness**: every `Step` successor other than `cancel`'s is in `progSteps` -/
theorem mem_of_step {P : Prog} {fails : List Nat} {s s' : St} (h : Step P (envOf fails) s s') :
    s' ∈ stepList P fails s := by
  rw [mem_stepList]
  cases h with
  | waitOk ht hr hs hop hc =>
    left
    refine mem_progSteps.mpr ⟨_, ht, hr, hs, ?_⟩
    rw [hop]
    simp only [opSteps, (closedB_iff _ _ _).mpr hc, if_true, List.mem_append, List.mem_singleton, true_or]
  | waitCtx ht hr hs hop hc =>
    left
    refine mem_progSteps.mpr ⟨_, ht, hr, hs, ?_⟩
    rw [hop]
    simp only [opSteps, hc, Bool.and_self, if_true, List.mem_append, List.mem_singleton, or_true]
  | enter ht hr hs hop =>
    left
    refine mem_progSteps.mpr ⟨_, ht, hr, hs, ?_⟩
    rw [hop]
    simp only [opSteps, List.mem_singleton]
  | exitOk ht hr hs hop hf =>
    left
    refine mem_progSteps.mpr ⟨_, ht, hr, hs, ?_⟩
    rw [hop]
    have hf' : (_ && fails.contains _) = false := hf
    simp only [opSteps, hf', Bool.false_eq_true, if_false, List.mem_singleton]
  | exitFail ht hr hs hop hf =>
    left
    refine mem_progSteps.mpr ⟨_, ht, hr, hs, ?_⟩
    rw [hop]
    have hf' : fails.contains _ = true := hf
    simp only [opSteps, hf', Bool.and_self, if_true, List.mem_singleton]
  | close ht hr hs hop =>
    left
    refine mem_progSteps.mpr ⟨_, ht, hr, hs, ?_⟩
    rw [hop]
    simp only [opSteps, List.mem_singleton]
  | spawn hr hop =>
    left
    refine mem_progSteps.mpr ⟨0, lt_of_opAt hop, hr, Or.inl rfl, ?_⟩
    rw [hop]
    simp only [opSteps, if_true, List.mem_singleton]
  | egwait hr hop hall =>
    left
    refine mem_progSteps.mpr ⟨0, lt_of_opAt hop, hr, Or.inl rfl, ?_⟩
    rw [hop]
    simp only [opSteps, (allGoDone_iff _ _).mpr hall, and_self, if_true, List.mem_singleton]
    rfl
  | ret hr hop =>
    left
    refine mem_progSteps.mpr ⟨0, lt_of_opAt hop, hr, Or.inl rfl, ?_⟩
    rw [hop]
    simp only [opSteps, if_true, List.mem_singleton]
    rfl
  | goEnd h0 ht hr hs hop =>
    left
    refine mem_progSteps.mpr ⟨_, ht, hr, hs, ?_⟩
    rw [hop]
    simp only [opSteps, h0, if_true, List.mem_singleton]
  | cancel => right; rfl

/-- **the executable successor function is the step relation** -/
theorem step_iff (P : Prog) (fails : List Nat) (s s' : St) :
    Step P ⟨fun o => fails.contains o⟩ s s' ↔ s' ∈ stepList P fails s :=
  ⟨mem_of_step, step_of_mem⟩

/-! ### outcomes -/

/-- what an observer sees of a terminal state: main's result (`none` = main never returns) and the threads
    that have not finished -/
structure Outcome where
  result : Option (Option Err)
  blocked : List Nat
deriving DecidableEq, Repr

def outcomeOf (P : Prog) (s : St) : Outcome :=
  { result := s.result, blocked := (List.range P.threads.length).filter (fun t => runningB s t) }

/-- no successor other than the `cancel` successor changes anything -/
def terminal (P : Prog) (fails : List Nat) (s : St) : Bool :=
  (progSteps P fails s).all (fun s' => s' == s)

/-- meaning of `terminal`, through completeness of `stepList` -/
theorem terminal_spec {P : Prog} {fails : List Nat} {s : St} (h : terminal P fails s = true) {s' : St}
    (hs : Step P (envOf fails) s s') : s' = s ∨ s' = cancelSucc s := by
  rcases mem_stepList.mp (mem_of_step hs) with hm | hm
  · left
    have := List.all_eq_true.mp h s' hm
    exact of_decide_eq_true this
  · exact Or.inr hm

/-- conversely: a state whose only `Step` successors are itself and its `cancel` successor is terminal -/
theorem terminal_of_spec {P : Prog} {fails : List Nat} {s : St}
    (h : ∀ s', Step P (envOf fails) s s' → s' = s ∨ s' = cancelSucc s) (hc : s.callerCanc = true) :
    terminal P fails s = true := by
  unfold terminal
  rw [List.all_eq_true]
  intro s' hm
  have hst : Step P (envOf fails) s s' := step_of_mem (mem_stepList.mpr (Or.inl hm))
  have hcs : cancelSucc s = s := by
    cases s
    simp only [cancelSucc] at hc ⊢
    rw [hc]
  rcases h s' hst with h1 | h1
  · exact decide_eq_true h1
  · exact decide_eq_true (h1.trans hcs)

/-- the successors the search follows: the `cancel` successor only when cancellation is allowed and not yet issued -/
def nexts (P : Prog) (fails : List Nat) (allowCancel : Bool) (s : St) : List St :=
  progSteps P fails s ++ (if allowCancel && !s.callerCanc then [cancelSucc s] else [])

/-- a state whose outcome is reported: terminal, and the cancellation (when allowed) has been issued -/
def isFinal (P : Prog) (fails : List Nat) (allowCancel : Bool) (s : St) : Bool :=
  terminal P fails s && (!allowCancel || s.callerCanc)

def addOutcome (o : Outcome) (acc : List Outcome) : List Outcome := if acc.contains o then acc else o :: acc

/-- worklist search; `vis` contains every state that has ever been put on the worklist.
    Returns the outcomes, "fuel exhausted", and the fuel left (fuel used = number of states expanded). -/
def search (P : Prog) (fails : List Nat) (allowCancel : Bool) :
    Nat → List St → Std.HashSet St → List Outcome → List Outcome × Bool × Nat
  | fuel, [], _, acc => (acc, false, fuel)
  | 0, _ :: _, _, acc => (acc, true, 0)
  | fuel + 1, s :: work, vis, acc =>
    let acc := if isFinal P fails allowCancel s then addOutcome (outcomeOf P s) acc else acc
    let new := (nexts P fails allowCancel s).filter (fun s' => !vis.contains s')
    search P fails allowCancel fuel (new ++ work) (vis.insertMany new) acc

def searchFrom (P : Prog) (fails : List Nat) (allowCancel : Bool) (fuel : Nat) : List Outcome × Bool × Nat :=
  search P fails allowCancel fuel [init P] (Std.HashSet.emptyWithCapacity.insert (init P)) []

/-- outcomes of all terminal states reachable from `init P` (de-duplicated), and "fuel exhausted" -/
def outcomes (P : Prog) (fails : List Nat) (allowCancel : Bool) (fuel : Nat) : List Outcome × Bool :=
  let r := searchFrom P fails allowCancel fuel
  (r.1, r.2.1)

/-- the same with the number of states expanded -/
def outcomesN (P : Prog) (fails : List Nat) (allowCancel : Bool) (fuel : Nat) : List Outcome × Bool × Nat :=
  let r := searchFrom P fails allowCancel fuel
  (r.1, r.2.1, fuel - r.2.2)

/-- reachable by the steps the search follows -/
def ReachS (P : Prog) (fails : List Nat) (allowCancel : Bool) (s : St) : Prop :=
  Reach P (envOf fails) s ∧ (allowCancel = false → s.callerCanc = false)

theorem callerCanc_advance (s : St) (t : Nat) : (advance s t).callerCanc = s.callerCanc := rfl

theorem callerCanc_of_mem_opSteps {P : Prog} {fails : List Nat} {s s' : St} {t : Nat} {op : Option Op}
    (h : s' ∈ opSteps P fails s t op) : s'.callerCanc = s.callerCanc := by
  cases op with
  | none =>
    simp only [opSteps] at h
    split at h
    · rw [List.mem_singleton] at h; subst h; exact finish_callerCanc _ _ _
    · cases h
  | some op =>
    cases op with
    | wait o c k =>
      simp only [opSteps, List.mem_append] at h
      rcases h with h | h <;> split at h
      · rw [List.mem_singleton] at h; subst h; rfl
      · cases h
      · rw [List.mem_singleton] at h; subst h; exact finish_callerCanc _ _ _
      · cases h
    | enter o args => simp only [opSteps, List.mem_singleton] at h; subst h; rfl
    | exit o rets f =>
      simp only [opSteps] at h
      split at h
      · rw [List.mem_singleton] at h; subst h; exact finish_callerCanc _ _ _
      · rw [List.mem_singleton] at h; subst h; rfl
    | close o c => simp only [opSteps, List.mem_singleton] at h; subst h; rfl
    | spawn g =>
      simp only [opSteps] at h
      split at h
      · rw [List.mem_singleton] at h; subst h; rfl
      · cases h
    | egwait =>
      simp only [opSteps] at h
      split at h
      · rw [List.mem_singleton] at h; subst h; rfl
      · cases h
    | ret v =>
      simp only [opSteps] at h
      split at h
      · rw [List.mem_singleton] at h; subst h
        show (finish s 0 .ok).callerCanc = _
        exact finish_callerCanc _ _ _
      · cases h

theorem reachS_nexts {P : Prog} {fails : List Nat} {allowCancel : Bool} {s s' : St}
    (hr : ReachS P fails allowCancel s) (h : s' ∈ nexts P fails allowCancel s) : ReachS P fails allowCancel s' := by
  unfold nexts at h
  rw [List.mem_append] at h
  rcases h with h | h
  · refine ⟨Reach.step hr.1 (step_of_mem (mem_stepList.mpr (Or.inl h))), fun ha => ?_⟩
    obtain ⟨t, _, _, _, hm⟩ := mem_progSteps.mp h
    rw [callerCanc_of_mem_opSteps hm]
    exact hr.2 ha
  · split at h
    · rename_i hc
      rw [Bool.and_eq_true] at hc
      rw [List.mem_singleton] at h
      subst h
      refine ⟨Reach.step hr.1 Step.cancel, fun ha => ?_⟩
      rw [ha] at hc
      exact absurd hc.1 (by decide)
    · cases h

/-- what is claimed of a reported outcome -/
def IsOutcome (P : Prog) (fails : List Nat) (allowCancel : Bool) (o : Outcome) : Prop :=
  ∃ s, Reach P (envOf fails) s ∧ (allowCancel = false → s.callerCanc = false) ∧
    terminal P fails s = true ∧ (allowCancel = true → s.callerCanc = true) ∧ outcomeOf P s = o

theorem search_sound (P : Prog) (fails : List Nat) (allowCancel : Bool) (fuel : Nat) :
    ∀ (work : List St) (vis : Std.HashSet St) (acc : List Outcome),
      (∀ s ∈ work, ReachS P fails allowCancel s) → (∀ o ∈ acc, IsOutcome P fails allowCancel o) →
      ∀ o ∈ (search P fails allowCancel fuel work vis acc).1, IsOutcome P fails allowCancel o := by
  induction fuel with
  | zero =>
    intro work vis acc _ hacc o ho
    cases work with
    | nil => exact hacc o ho
    | cons s work => exact hacc o ho
  | succ fuel ih =>
    intro work vis acc hwork hacc o ho
    cases work with
    | nil => exact hacc o ho
    | cons s work =>
      simp only [search] at ho
      have hs := hwork s (List.mem_cons_self)
      refine ih _ _ _ ?_ ?_ o ho
      · intro s' hs'
        rw [List.mem_append] at hs'
        rcases hs' with h | h
        · exact reachS_nexts hs (List.mem_filter.mp h).1
        · exact hwork s' (List.mem_cons_of_mem _ h)
      · intro o' ho'
        split at ho'
        · rename_i hfin
          unfold addOutcome at ho'
          split at ho'
          · exact hacc o' ho'
          · rw [List.mem_cons] at ho'
            rcases ho' with h | h
            · subst h
              unfold isFinal at hfin
              rw [Bool.and_eq_true, Bool.or_eq_true] at hfin
              refine ⟨s, hs.1, hs.2, hfin.1, fun ha => ?_, rfl⟩
              rcases hfin.2 with h1 | h1
              · rw [ha] at h1; cases h1
              · exact h1
            · exact hacc o' h
        · exact hacc o' ho'

/-- **soundness of the enumeration**: every outcome returned is the outcome of a state reachable in `P`
    under the environment of `fails`, which is terminal (its only `Step` successors are itself and its
    `cancel` successor, `terminal_spec`); without cancellation the caller's context was never cancelled,
    with cancellation it has been. -/
theorem outcomes_sound (P : Prog) (fails : List Nat) (allowCancel : Bool) (fuel : Nat) (o : Outcome)
    (h : o ∈ (outcomes P fails allowCancel fuel).1) :
    ∃ s, Reach P ⟨fun o => fails.contains o⟩ s ∧ (allowCancel = false → s.callerCanc = false) ∧
      terminal P fails s = true ∧ (allowCancel = true → s.callerCanc = true) ∧ outcomeOf P s = o := by
  refine search_sound P fails allowCancel fuel [init P] (Std.HashSet.emptyWithCapacity.insert (init P)) [] ?_ ?_ o h
  · intro s hs
    rw [List.mem_singleton] at hs
    subst hs
    exact ⟨Reach.init, fun _ => rfl⟩
  · intro o ho
    cases ho

end T1F
