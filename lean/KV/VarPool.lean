import Std.Data.String.ToNat
/-! Prototype (scratch): the name allocator (`internal/kessoku/var_pool.go`).
    Current scheme, a concrete collision witness, and a repaired scheme with a freshness proof. -/
namespace VP

abbrev Pool := List (String × Nat)

def count (p : Pool) (k : String) : Nat := (p.lookup k).getD 0

def setCount : Pool → String → Nat → Pool
  | [], k, n => [(k, n)]
  | (k', n') :: rest, k, n => if k' == k then (k', n) :: rest else (k', n') :: setCount rest k n

theorem count_setCount_self (p : Pool) (k : String) (n : Nat) : count (setCount p k n) k = n := by
  induction p with
  | nil => simp [setCount, count, List.lookup]
  | cons hd tl ih =>
    obtain ⟨k', n'⟩ := hd
    simp only [setCount]
    split
    · rename_i h
      have : k' = k := by simpa using h
      subst this
      simp [count, List.lookup]
    · rename_i h
      have hne : (k == k') = false := by
        have : ¬ k' = k := by simpa using h
        simp; exact fun e => this e.symm
      simp only [count, List.lookup, hne] at ih ⊢
      exact ih

theorem count_setCount_other (p : Pool) (k k2 : String) (n : Nat) (h : k2 ≠ k) :
    count (setCount p k n) k2 = count p k2 := by
  induction p with
  | nil =>
    have : (k2 == k) = false := by simpa using h
    simp [setCount, count, List.lookup, this]
  | cons hd tl ih =>
    obtain ⟨k', n'⟩ := hd
    simp only [setCount]
    split
    · rename_i h'
      have : k' = k := by simpa using h'
      subst this
      have hne : (k2 == k') = false := by simpa using h
      simp [count, List.lookup, hne]
    · by_cases hk : k2 = k'
      · subst hk; simp [count, List.lookup]
      · have hne : (k2 == k') = false := by simpa using hk
        simp only [count, List.lookup, hne] at ih ⊢
        exact ih

/-! ### the current scheme -/

def suffixed (base : String) (k : Nat) : String := base ++ toString k

def getNameCur (p : Pool) (base : String) : Pool × String :=
  let c := count p base
  (setCount p base (c + 1), if c == 0 then base else suffixed base (c - 1))

def runCur (p : Pool) : List String → Pool × List String
  | [] => (p, [])
  | b :: bs =>
    let (p1, n) := getNameCur p b
    let (p2, ns) := runCur p1 bs
    (p2, n :: ns)

/-- **C12 is false of the current allocator**: requesting `foo`, `foo`, `foo0` hands out `foo0` twice. -/
theorem cur_not_fresh : ¬ (runCur [] ["foo", "foo", "foo0"]).2.Nodup := by decide

/-! ### repaired scheme: skip candidates that are taken, register what is handed out -/

def candidate (base : String) (c : Nat) : String := if c == 0 then base else suffixed base (c - 1)

/-- try counts `c, c+1, …` until the candidate is unused -/
def findFree (p : Pool) (base : String) : Nat → Nat → Option (Nat × String)
  | 0, _ => none
  | fuel + 1, c =>
    if count p (candidate base c) == 0 then some (c, candidate base c) else findFree p base fuel (c + 1)

def getNameFix (p : Pool) (base : String) : Option (Pool × String) :=
  match findFree p base (p.length + 2) (count p base) with
  | none => none
  | some (c, name) =>
    let p1 := setCount p base (c + 1)
    let p2 := if name == base then p1 else setCount p1 name (count p1 name + 1)
    some (p2, name)

theorem findFree_spec (p : Pool) (base : String) (fuel c : Nat) (c' : Nat) (name : String)
    (h : findFree p base fuel c = some (c', name)) : count p name = 0 ∧ name = candidate base c' ∧ c ≤ c' := by
  induction fuel generalizing c with
  | zero => simp [findFree] at h
  | succ k ih =>
    simp only [findFree] at h
    split at h
    · rename_i hz
      cases h
      exact ⟨by simpa using hz, rfl, Nat.le_refl _⟩
    · obtain ⟨a, b, c2⟩ := ih (c + 1) h
      exact ⟨a, b, by omega⟩

/-- after a successful `getNameFix` the returned name was unused before and is used afterwards;
    used names stay used -/
theorem getNameFix_spec (p p' : Pool) (base name : String) (h : getNameFix p base = some (p', name)) :
    count p name = 0 ∧ 0 < count p' name ∧ ∀ k, 0 < count p k → 0 < count p' k := by
  unfold getNameFix at h
  cases hff : findFree p base (p.length + 2) (count p base) with
  | none => rw [hff] at h; cases h
  | some r =>
    obtain ⟨c, nm⟩ := r
    rw [hff] at h
    simp only [Option.some.injEq, Prod.mk.injEq] at h
    obtain ⟨hp', hname⟩ := h
    subst hname; subst hp'
    obtain ⟨hz, hn, hc⟩ := findFree_spec p base _ _ c nm hff
    refine ⟨hz, ?_, ?_⟩
    · split
      · rename_i he
        have : nm = base := by simpa using he
        subst this
        rw [count_setCount_self]; omega
      · rw [count_setCount_self]; omega
    · intro k hk
      split
      · by_cases hkb : k = base
        · subst hkb; rw [count_setCount_self]; omega
        · rw [count_setCount_other _ _ _ _ hkb]; exact hk
      · by_cases hkn : k = nm
        · subst hkn; rw [count_setCount_self]; omega
        · rw [count_setCount_other _ _ _ _ hkn]
          by_cases hkb : k = base
          · subst hkb; rw [count_setCount_self]; omega
          · rw [count_setCount_other _ _ _ _ hkb]; exact hk

def runFix (p : Pool) : List String → Option (Pool × List String)
  | [] => some (p, [])
  | b :: bs =>
    match getNameFix p b with
    | none => none
    | some (p1, n) =>
      match runFix p1 bs with
      | none => none
      | some (p2, ns) => some (p2, n :: ns)

/-- **C12 for the repaired allocator**: over any request history, the names handed out are pairwise
    distinct and none of them was in use (reserved word, predeclared identifier, package-level name)
    before the history started. -/
theorem runFix_fresh (p p' : Pool) (reqs outs : List String) (h : runFix p reqs = some (p', outs)) :
    outs.Nodup ∧ (∀ o ∈ outs, count p o = 0) ∧ (∀ k, 0 < count p k → 0 < count p' k) ∧ (∀ o ∈ outs, 0 < count p' o) := by
  induction reqs generalizing p p' outs with
  | nil =>
    simp [runFix] at h
    obtain ⟨rfl, rfl⟩ := h
    exact ⟨List.nodup_nil, by simp, fun _ hk => hk, by simp⟩
  | cons b bs ih =>
    simp only [runFix] at h
    split at h
    · cases h
    · rename_i p1 n hg
      split at h
      · cases h
      · rename_i p2 ns hr
        cases h
        obtain ⟨hz, hpos, hmono⟩ := getNameFix_spec p p1 b n hg
        obtain ⟨hnd, hunused, hmono2, hused⟩ := ih p1 p' ns hr
        refine ⟨?_, ?_, fun k hk => hmono2 k (hmono k hk), ?_⟩
        · rw [List.nodup_cons]
          refine ⟨?_, hnd⟩
          intro hmem
          have := hunused n hmem
          omega
        · intro o ho
          simp only [List.mem_cons] at ho
          rcases ho with rfl | ho
          · exact hz
          · have := hunused o ho
            apply Classical.byContradiction; intro hc
            have hpos' : 0 < count p o := by omega
            have := hmono o hpos'
            omega
        · intro o ho
          simp only [List.mem_cons] at ho
          rcases ho with rfl | ho
          · exact hmono2 _ hpos
          · exact hused o ho

/-! ### the repaired allocator always finds a name (totality): pigeonhole over the finite pool -/

theorem suffixed_inj (base : String) (a b : Nat) (h : suffixed base a = suffixed base b) : a = b := by
  simp only [suffixed] at h
  have := (String.append_right_inj base).mp h
  exact Nat.repr_inj.mp this

theorem count_pos_mem_keys (p : Pool) (k : String) (h : count p k ≠ 0) : k ∈ p.map (·.1) := by
  induction p with
  | nil => simp [count, List.lookup] at h
  | cons hd tl ih =>
    obtain ⟨k', n'⟩ := hd
    by_cases hk : k = k'
    · subst hk; simp
    · have hne : (k == k') = false := by simpa using hk
      simp only [count, List.lookup, hne] at h
      simp only [List.map_cons, List.mem_cons]
      exact Or.inr (ih h)

theorem findFree_none_all (p : Pool) (base : String) (fuel c : Nat) (h : findFree p base fuel c = none) :
    ∀ i, i < fuel → count p (candidate base (c + i)) ≠ 0 := by
  induction fuel generalizing c with
  | zero => intro i hi; omega
  | succ k ih =>
    simp only [findFree] at h
    split at h
    · cases h
    · rename_i hz
      intro i hi
      cases i with
      | zero => simpa using hz
      | succ j =>
        have := ih (c + 1) h j (by omega)
        rw [show c + 1 + j = c + (j + 1) by omega] at this
        exact this

theorem findFree_total (p : Pool) (base : String) (c : Nat) : findFree p base (p.length + 2) c ≠ none := by
  intro h
  have hall := findFree_none_all p base _ c h
  -- candidates c+1 … c+1+p.length are pairwise distinct suffixed names, all of them keys of the pool
  let L := (List.range (p.length + 1)).map (fun i => suffixed base (c + i))
  have hnd : L.Nodup := by
    show List.Pairwise (· ≠ ·) _
    rw [List.pairwise_map]
    exact List.Pairwise.imp (fun {a b} hab heq => hab (by
      have := suffixed_inj base _ _ heq; omega)) List.nodup_range
  have hsub : L ⊆ p.map (·.1) := by
    intro x hx
    simp only [L, List.mem_map, List.mem_range] at hx
    obtain ⟨i, hi, rfl⟩ := hx
    have := hall (i + 1) (by omega)
    have hc : candidate base (c + (i + 1)) = suffixed base (c + i) := by
      simp only [candidate]
      have : (c + (i + 1) == 0) = false := by simp
      rw [this]; simp only [Bool.false_eq_true, ↓reduceIte]
      congr 1
    rw [hc] at this
    exact count_pos_mem_keys p _ this
  have := List.Nodup.length_le_of_subset hnd hsub
  simp [L] at this
  omega

/-- the repaired allocator never fails -/
theorem getNameFix_total (p : Pool) (base : String) : getNameFix p base ≠ none := by
  unfold getNameFix
  cases hff : findFree p base (p.length + 2) (count p base) with
  | none => exact absurd hff (findFree_total p base _)
  | some r => simp

end VP
