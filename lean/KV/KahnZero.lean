import KV.Kahn
/-! Prototype (scratch): nodes without dependencies come first in the Kahn order (for C05). -/
namespace KV

def nz (g : Graph) (n : Nat) : Prop := g.rev.getD n [] ≠ []

/-- once a node with dependencies appears, every later one has dependencies -/
def ZSorted (g : Graph) (l : List Nat) : Prop := l.Pairwise (fun a b => nz g a → nz g b)

theorem topoEdges_queue {g : Graph} (hg : GWF g) {n : Nat} (es : List Edge)
    (hes : ∀ e ∈ es, e ∈ g.edges.getD n []) (st : TopoSt) :
    ∃ ps, (topoEdges es st).queue = st.queue ++ ps ∧ (∀ p ∈ ps, nz g p) ∧
      (topoEdges es st).out = st.out ∧ (topoEdges es st).visited = st.visited := by
  induction es generalizing st with
  | nil => exact ⟨[], by simp [topoEdges], by simp, rfl, rfl⟩
  | cons e es ih =>
    have he : e ∈ g.edges.getD n [] := hes e (List.mem_cons_self ..)
    have hes' : ∀ e' ∈ es, e' ∈ g.edges.getD n [] := fun e' h' => hes e' (List.mem_cons_of_mem _ h')
    have hnz : nz g e.dst := by
      have := hg.slotLt n e he
      intro hc; rw [hc] at this; simp at this
    simp only [topoEdges]
    split
    · exact ih hes' st
    · split
      · obtain ⟨ps, h1, h2, h3, h4⟩ := ih hes' { st with
            counts := st.counts.set e.dst (st.counts.getD e.dst 0 - 1),
            provided := st.provided.set e.dst ((st.provided.getD e.dst []).set e.slot true),
            queue := st.queue ++ [e.dst] }
        refine ⟨e.dst :: ps, ?_, ?_, h3, h4⟩
        · rw [h1]; simp
        · intro p hp
          simp only [List.mem_cons] at hp
          rcases hp with rfl | hp
          · exact hnz
          · exact h2 p hp
      · exact ih hes' _

theorem zsorted_append_nz {g : Graph} {l ps : List Nat} (h : ZSorted g l) (hps : ∀ p ∈ ps, nz g p) :
    ZSorted g (l ++ ps) := by
  unfold ZSorted at *
  rw [List.pairwise_append]
  refine ⟨h, ?_, ?_⟩
  · exact List.pairwise_of_forall_mem_list (fun a _ b hb _ => hps b hb)
  · intro a _ b hb _; exact hps b hb

theorem topoLoop_zsorted {g : Graph} (hg : GWF g) (fuel : Nat) (st : TopoSt)
    (h : ZSorted g (st.out ++ st.queue)) :
    ZSorted g ((topoLoop g fuel st).out ++ (topoLoop g fuel st).queue) := by
  induction fuel generalizing st with
  | zero => simpa [topoLoop] using h
  | succ k ih =>
    simp only [topoLoop]
    split
    · exact h
    · rename_i n q hq
      rw [hq] at h
      split
      · -- drop n
        apply ih
        show ZSorted g (st.out ++ q)
        exact List.Pairwise.sublist (List.Sublist.append (List.Sublist.refl _) (List.sublist_cons_self n q)) h
      · apply ih
        obtain ⟨ps, h1, h2, h3, h4⟩ := topoEdges_queue hg (g.edges.getD n []) (fun e he => he)
          { st with queue := q, visited := st.visited ++ [n] }
        show ZSorted g (((topoEdges (g.edges.getD n []) _).out ++ [n]) ++ (topoEdges (g.edges.getD n []) _).queue)
        rw [h3, h1]
        have : st.out ++ [n] ++ (q ++ ps) = (st.out ++ n :: q) ++ ps := by simp
        show ZSorted g (st.out ++ [n] ++ (q ++ ps))
        rw [this]
        exact zsorted_append_nz h h2

/-- **dependency-free nodes first**: in the Kahn order, everything before a node without dependencies
    has no dependencies either -/
theorem topoOrder_zero_prefix {g : Graph} (hg : GWF g) (pre post : List Nat) (n : Nat)
    (hsplit : topoOrder g = pre ++ n :: post) (hz : g.rev.getD n [] = []) :
    ∀ m ∈ pre, g.rev.getD m [] = [] := by
  have hinit : ZSorted g (([] : List Nat) ++
      (List.range g.nodes.length).filter (fun i => (g.rev.getD i []).length == 0)) := by
    simp only [List.nil_append]
    apply List.pairwise_of_forall_mem_list
    intro a ha b _ hnza
    simp only [List.mem_filter, List.mem_range, beq_iff_eq] at ha
    exact absurd (List.eq_nil_of_length_eq_zero ha.2) hnza
  have := topoLoop_zsorted hg (g.nodes.length + (g.edges.foldl (fun a l => a + l.length) 0) + 4)
    { queue := (List.range g.nodes.length).filter (fun i => (g.rev.getD i []).length == 0),
      counts := (List.range g.nodes.length).map (fun i => (g.rev.getD i []).length),
      provided := (List.range g.nodes.length).map (fun i => List.replicate (nodeSlots g i) false),
      visited := [], out := [] } hinit
  have hout : ZSorted g (topoOrder g) := by
    unfold ZSorted at this ⊢
    exact List.Pairwise.sublist (List.sublist_append_left _ _) this
  intro m hm
  unfold ZSorted at hout
  rw [hsplit, List.pairwise_append] at hout
  have := hout.2.2 m hm n (List.mem_cons_self ..)
  apply Classical.byContradiction; intro hc
  exact this hc hz

end KV
