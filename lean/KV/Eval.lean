import KV.Prov
/-! Prototype (scratch): C02 groundwork — the value wired into every argument slot is the reference
    evaluation (by type key) of that slot's type. Values are Herbrand terms. -/
namespace KV

inductive Val where
  | arg (t : Nat)
  | app (p gi : Nat) (args : List Val)

mutual
/-- reference evaluation "one provider at a time, arguments selected by type key" -/
inductive Eval (provs : List PSpec) (sup : SupMap) : Nat → Val → Prop
  | arg {t : Nat} : sup.lookup t = none → Eval provs sup t (.arg t)
  | app {t p gi : Nat} {vs : List Val} : sup.lookup t = some (p, gi) →
      EvalL provs sup (provs.getD p default).requires vs → Eval provs sup t (.app p gi vs)
inductive EvalL (provs : List PSpec) (sup : SupMap) : List Nat → List Val → Prop
  | nil : EvalL provs sup [] []
  | cons {t : Nat} {ts : List Nat} {v : Val} {vs : List Val} :
      Eval provs sup t v → EvalL provs sup ts vs → EvalL provs sup (t :: ts) (v :: vs)
end

mutual
/-- the value the planned graph wires out of (node `n`, result group `gi`) -/
inductive NVal (nodes : List Node) (edges : List (List Edge)) (reqs : Nat → List Nat) : Nat → Nat → Val → Prop
  | arg {n : Nat} : (nodes.getD n default).isArg = true → NVal nodes edges reqs n 0 (.arg (nodes.getD n default).ty)
  | app {n gi : Nat} {vs : List Val} : (nodes.getD n default).isArg = false →
      NSlots nodes edges reqs n 0 vs → NVal nodes edges reqs n gi (.app (nodes.getD n default).prov gi vs)
/-- values of the argument slots `i, i+1, …` of node `n` -/
inductive NSlots (nodes : List Node) (edges : List (List Edge)) (reqs : Nat → List Nat) : Nat → Nat → List Val → Prop
  | done {n i : Nat} : i = (reqs n).length → NSlots nodes edges reqs n i []
  | slot {n i n2 : Nat} {e : Edge} {v : Val} {vs : List Val} : i < (reqs n).length →
      e ∈ edges.getD n2 [] → e.dst = n → e.slot = i →
      NVal nodes edges reqs n2 e.src v → NSlots nodes edges reqs n (i + 1) vs → NSlots nodes edges reqs n i (v :: vs)
end

/-- provenance in graph form -/
def GProv (provs : List PSpec) (sup : SupMap) (nodes : List Node) (edges : List (List Edge)) (reqs : Nat → List Nat) : Prop :=
  ∀ n2 e, e ∈ edges.getD n2 [] → ∃ t, (reqs e.dst)[e.slot]? = some t ∧
    ((∃ p gi, sup.lookup t = some (p, gi) ∧ (nodes.getD n2 default).isArg = false ∧ (nodes.getD n2 default).prov = p ∧ e.src = gi) ∨
     (sup.lookup t = none ∧ (nodes.getD n2 default).isArg = true ∧ (nodes.getD n2 default).ty = t ∧ e.src = 0))

mutual
/-- the value wired out of a producer is the reference evaluation of any key it is the supplier of -/
theorem nval_eval {provs : List PSpec} {sup : SupMap} {nodes : List Node} {edges : List (List Edge)}
    {reqs : Nat → List Nat} (hg : GProv provs sup nodes edges reqs)
    (hreq : ∀ n, (nodes.getD n default).isArg = false → reqs n = (provs.getD (nodes.getD n default).prov default).requires) :
    ∀ {n gi : Nat} {v : Val}, NVal nodes edges reqs n gi v → ∀ t,
      ((∃ p, sup.lookup t = some (p, gi) ∧ (nodes.getD n default).isArg = false ∧ (nodes.getD n default).prov = p) ∨
       (sup.lookup t = none ∧ (nodes.getD n default).isArg = true ∧ (nodes.getD n default).ty = t)) →
      Eval provs sup t v
  | n, _, _, .arg ha, t, hp => by
    rcases hp with ⟨p, _, hna, _⟩ | ⟨hl, _, hty⟩
    · rw [ha] at hna; cases hna
    · rw [hty]; exact Eval.arg hl
  | n, gi, _, .app (vs := vs) hna hs, t, hp => by
    rcases hp with ⟨p, hl, _, hprov⟩ | ⟨_, ha, _⟩
    · rw [hprov]
      refine Eval.app hl ?_
      have hr := hreq n hna
      rw [hprov] at hr
      have := nslots_eval hg hreq hs
      rw [hr] at this
      simpa using this
    · rw [hna] at ha; cases ha

theorem nslots_eval {provs : List PSpec} {sup : SupMap} {nodes : List Node} {edges : List (List Edge)}
    {reqs : Nat → List Nat} (hg : GProv provs sup nodes edges reqs)
    (hreq : ∀ n, (nodes.getD n default).isArg = false → reqs n = (provs.getD (nodes.getD n default).prov default).requires) :
    ∀ {n i : Nat} {vs : List Val}, NSlots nodes edges reqs n i vs → EvalL provs sup ((reqs n).drop i) vs
  | n, i, _, .done hi => by
    rw [hi, List.drop_length]; exact EvalL.nil
  | n, i, _, .slot (n2 := n2) (e := e) (v := v) (vs := vs) hil he hd hsl hv hrest => by
    obtain ⟨t, ht, hp⟩ := hg n2 e he
    rw [hd, hsl] at ht
    have hdrop : (reqs n).drop i = t :: (reqs n).drop (i + 1) := by
      rw [List.drop_eq_getElem_cons hil]
      congr 1
      have := List.getElem?_eq_getElem hil
      rw [this] at ht
      exact Option.some.inj ht
    rw [hdrop]
    refine EvalL.cons ?_ (nslots_eval hg hreq hrest)
    apply nval_eval hg hreq hv t
    rcases hp with ⟨p, gi, hl, hna, hpr, hsrc⟩ | ⟨hl, ha, hty, hsrc⟩
    · left; exact ⟨p, by rw [hsrc]; exact hl, hna, hpr⟩
    · right; exact ⟨hl, ha, hty⟩
end

/-- `EProv` of a BFS state is `GProv` of the graph read off it -/
theorem gprov_of_eprov {provs : List PSpec} {sup : SupMap} {st : BfsSt} (h : EProv provs sup st) :
    GProv provs sup st.nodes st.edges (reqOf provs st) := by
  intro n2 e he
  obtain ⟨t, h1, h2⟩ := h n2 e he
  exact ⟨t, h1, h2⟩

theorem reqOf_spec (provs : List PSpec) (st : BfsSt) (n : Nat) (h : (st.nodes.getD n default).isArg = false) :
    reqOf provs st n = (provs.getD (st.nodes.getD n default).prov default).requires := by
  unfold reqOf; rw [h]; rfl

/-- **C02 core (prototype)**: in the graph built by the BFS, whatever value the wiring delivers out of the node
    that supplies key `t` (as result group `gi`) is the reference evaluation of `t`. -/
theorem bfs_value_is_reference {provs : List PSpec} {sup : SupMap} (hsup : SupOK provs sup) (rp : Nat) {n gi : Nat} {v : Val}
    (hv : NVal (bfsLoop provs sup (bfsFuel provs) (bfsInit rp)).nodes (bfsLoop provs sup (bfsFuel provs) (bfsInit rp)).edges
      (reqOf provs (bfsLoop provs sup (bfsFuel provs) (bfsInit rp))) n gi v)
    (t : Nat)
    (hp : (∃ p, sup.lookup t = some (p, gi) ∧
            ((bfsLoop provs sup (bfsFuel provs) (bfsInit rp)).nodes.getD n default).isArg = false ∧
            ((bfsLoop provs sup (bfsFuel provs) (bfsInit rp)).nodes.getD n default).prov = p) ∨
          (sup.lookup t = none ∧ ((bfsLoop provs sup (bfsFuel provs) (bfsInit rp)).nodes.getD n default).isArg = true ∧
            ((bfsLoop provs sup (bfsFuel provs) (bfsInit rp)).nodes.getD n default).ty = t)) :
    Eval provs sup t v := by
  have hB := bfsInit_inv provs rp
  have hP := bfsLoop_prov hsup (bfsFuel provs) hB (bfsInit_prov provs sup rp)
  exact nval_eval (gprov_of_eprov hP) (reqOf_spec provs _) hv t hp

end KV
