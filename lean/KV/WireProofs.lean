import KV.Wire
/-! # Proofs about the wire/kessoku-migrate model: the migration is faithful on `Wire.faithful` configurations -/
namespace Wire

/-! ### generic list lemmas -/

theorem findSome?_eq_some_of_unique {α β} (g : α → Option β) (l : List α) (v : β)
    (hex : ∃ x ∈ l, g x = some v) (hall : ∀ x ∈ l, ∀ w, g x = some w → w = v) :
    l.findSome? g = some v := by
  induction l with
  | nil => obtain ⟨x, hx, _⟩ := hex; cases hx
  | cons a l ih =>
    rw [List.findSome?_cons]
    cases hga : g a with
    | some w =>
      have := hall a (List.mem_cons_self ..) w hga
      simp [this]
    | none =>
      simp only
      apply ih
      · obtain ⟨x, hx, hgx⟩ := hex
        rcases List.mem_cons.1 hx with rfl | hx
        · rw [hga] at hgx; cases hgx
        · exact ⟨x, hx, hgx⟩
      · intro x hx; exact hall x (List.mem_cons_of_mem _ hx)

/-! ### `NoBot` / `NoMissing` on calls -/

theorem noBotL_map {α} (g : α → V) (l : List α) : V.noBotL (l.map g) = true → ∀ x ∈ l, V.noBot (g x) = true := by
  induction l with
  | nil => intro _ x hx; cases hx
  | cons a l ih =>
    intro h x hx
    simp only [List.map_cons, V.noBotL, Bool.and_eq_true] at h
    rcases List.mem_cons.1 hx with rfl | hx
    · exact h.1
    · exact ih h.2 x hx

theorem noMissingL_map {α} (g : α → V) (l : List α) :
    V.noMissingL (l.map g) = true → ∀ x ∈ l, V.noMissing (g x) = true := by
  induction l with
  | nil => intro _ x hx; cases hx
  | cons a l ih =>
    intro h x hx
    simp only [List.map_cons, V.noMissingL, Bool.and_eq_true] at h
    rcases List.mem_cons.1 hx with rfl | hx
    · exact h.1
    · exact ih h.2 x hx

theorem NoBot_call {α} {name : Nat} {g : α → V} {l : List α} (h : NoBot (.call name (l.map g))) :
    ∀ x ∈ l, NoBot (g x) := by
  unfold NoBot at h; rw [V.noBot] at h; exact noBotL_map g l h

theorem NoMissing_call {α} {name : Nat} {g : α → V} {l : List α} (h : NoMissing (.call name (l.map g))) :
    ∀ x ∈ l, NoMissing (g x) := by
  unfold NoMissing at h; rw [V.noMissing] at h; exact noMissingL_map g l h

/-! ### per-item supplier functions -/

def wireItemSup (t : Ty) : Item → Option (Nat × List Ty)
  | .func f => if f.result = t then some (f.name, f.params) else none
  | .structP n fs => if t = .val n then some (mkName n, fs)
                     else if t = .ptr n then some (mkPtrName n, fs) else none
  | .fieldsOf n ptrForm fs =>
      if fs.contains t then some (fieldName, [if ptrForm then Ty.ptr n else Ty.val n]) else none
  | .bind _ _ => none

theorem wireSupplier_eq (items : List Item) (t : Ty) :
    wireSupplier items t = items.findSome? (wireItemSup t) := by
  unfold wireSupplier; congr

def kItemSup (t : Ty) : KItem → Option (Nat × List Ty)
  | .provide f => if f.result = t then some (f.name, f.params) else none
  | .bindProvide is f => if f.result = t ∨ t ∈ is.map Ty.iface then some (f.name, f.params) else none

theorem kSupplier_eq (ks : List KItem) (t : Ty) :
    kSupplier ks t = ks.findSome? (kItemSup t) := by
  unfold kSupplier; congr

theorem wireItemSup_supplied {t : Ty} {it : Item} {w} (h : wireItemSup t it = some w) : t ∈ supplied it := by
  cases it with
  | func f =>
    simp only [wireItemSup] at h
    split at h
    · rename_i hr; simp [supplied, hr]
    · cases h
  | bind i impl => simp [wireItemSup] at h
  | structP n fs =>
    simp only [wireItemSup] at h
    split at h
    · rename_i hr; simp [supplied, hr]
    · split at h
      · rename_i hr; simp [supplied, hr]
      · cases h
  | fieldsOf n pf fs =>
    simp only [wireItemSup] at h
    split at h
    · rename_i hr; simpa [supplied] using hr
    · cases h

theorem wireBinding_some {items : List Item} {t impl : Ty} (h : wireBinding items t = some impl) :
    ∃ i, t = .iface i ∧ .bind i impl ∈ items := by
  cases t with
  | iface i =>
    simp only [wireBinding] at h
    obtain ⟨it, hit, hs⟩ := List.exists_of_findSome?_eq_some h
    cases it with
    | bind j impl' =>
      simp only at hs
      split at hs
      · rename_i hij; cases hs; subst hij; exact ⟨i, rfl, hit⟩
      · cases hs
    | _ => simp at hs
  | _ => simp [wireBinding] at h

theorem wireBinding_named {items : List Item} {t : Ty} {n : Nat} (h : tyName t = some n) :
    wireBinding items t = none := by
  cases t <;> simp [tyName] at h <;> rfl

/-! ### the migration recursion -/

theorem migrateFrom_cons_some {c : Cfg} {i : Nat} {a : Item} {r : List Item} {ks : List KItem}
    (h : migrateFrom c i (a :: r) = some ks) :
    ∃ ka lr, migrateItem c i a = some ka ∧ migrateFrom c (i + 1) r = some lr ∧ ks = ka ++ lr := by
  rw [migrateFrom] at h
  cases hga : migrateItem c i a with
  | none => simp [hga] at h
  | some ka =>
    cases hr : migrateFrom c (i + 1) r with
    | none => simp [hga, hr] at h
    | some lr =>
      simp only [hga, hr, Option.some.injEq] at h
      exact ⟨ka, lr, rfl, rfl, h.symm⟩

theorem migrateFrom_mem (c : Cfg) : ∀ (l : List Item) (i : Nat) (ks : List KItem), migrateFrom c i l = some ks →
    ∀ k, k ∈ ks ↔ ∃ j it out, l[j]? = some it ∧ migrateItem c (i + j) it = some out ∧ k ∈ out := by
  intro l
  induction l with
  | nil =>
    intro i ks h k
    simp only [migrateFrom, Option.some.injEq] at h
    subst h; simp
  | cons a r ih =>
    intro i ks h k
    obtain ⟨ka, lr, hga, hr, rfl⟩ := migrateFrom_cons_some h
    rw [List.mem_append, ih _ _ hr k]
    constructor
    · rintro (h1 | ⟨j, it, out, hj, ho, hk⟩)
      · exact ⟨0, a, ka, by simp, by simpa using hga, h1⟩
      · refine ⟨j + 1, it, out, by simpa using hj, ?_, hk⟩
        rw [← ho]; congr 1; omega
    · rintro ⟨j, it, out, hj, ho, hk⟩
      cases j with
      | zero =>
        simp only [List.getElem?_cons_zero, Option.some.injEq] at hj; subst hj
        rw [Nat.add_zero, hga] at ho; cases ho; exact Or.inl hk
      | succ j =>
        refine Or.inr ⟨j, it, out, by simpa using hj, ?_, hk⟩
        rw [← ho]; congr 1; omega

theorem migrateFrom_some (c : Cfg) : ∀ (l : List Item) (i : Nat),
    (∀ j it, l[j]? = some it → (migrateItem c (i + j) it).isSome) → (migrateFrom c i l).isSome := by
  intro l
  induction l with
  | nil => intro i _; rfl
  | cons a r ih =>
    intro i h
    have ha := h 0 a (by simp)
    have hr := ih (i + 1) (fun j it hj => by
      have := h (j + 1) it (by simpa using hj)
      rwa [show i + (j + 1) = i + 1 + j by omega] at this)
    rw [Nat.add_zero] at ha
    obtain ⟨ka, hka⟩ := Option.isSome_iff_exists.1 ha
    obtain ⟨lr, hlr⟩ := Option.isSome_iff_exists.1 hr
    rw [migrateFrom, hka, hlr]; rfl

/-- the migrated items in item order: pairwise statements reduce to statements about the outputs of two positions -/
theorem migrateFrom_pairwise (c : Cfg) (R : KItem → KItem → Prop) : ∀ (l : List Item) (i : Nat) (ks : List KItem),
    migrateFrom c i l = some ks →
    (∀ j it out, l[j]? = some it → migrateItem c (i + j) it = some out → out.Pairwise R) →
    (∀ j j' it it' out out', j < j' → l[j]? = some it → l[j']? = some it' →
       migrateItem c (i + j) it = some out → migrateItem c (i + j') it' = some out' → ∀ a ∈ out, ∀ b ∈ out', R a b) →
    ks.Pairwise R := by
  intro l
  induction l with
  | nil =>
    intro i ks h _ _
    simp only [migrateFrom, Option.some.injEq] at h
    subst h; exact List.Pairwise.nil
  | cons a r ih =>
    intro i ks h hin hcross
    obtain ⟨ka, lr, hga, hr, rfl⟩ := migrateFrom_cons_some h
    rw [List.pairwise_append]
    refine ⟨hin 0 a ka (by simp) (by simpa using hga), ?_, ?_⟩
    · apply ih (i + 1) lr hr
      · intro j it out hj ho
        exact hin (j + 1) it out (by simpa using hj) (by rw [← ho]; congr 1; omega)
      · intro j j' it it' out out' hjj hj hj' ho ho'
        exact hcross (j + 1) (j' + 1) it it' out out' (by omega) (by simpa using hj) (by simpa using hj')
          (by rw [← ho]; congr 1; omega) (by rw [← ho']; congr 1; omega)
    · intro x hx y hy
      obtain ⟨j, it, out, hj, ho, hk⟩ := (migrateFrom_mem c r (i + 1) lr hr y).1 hy
      exact hcross 0 (j + 1) a it ka out (by omega) (by simp) (by simpa using hj) (by simpa using hga)
        (by rw [← ho]; congr 1; omega) x hx y hk

theorem migrate_mem {c : Cfg} {ks : List KItem} (hm : migrate c = some ks) (k : KItem) :
    k ∈ ks ↔ ∃ j it out, c.items[j]? = some it ∧ migrateItem c j it = some out ∧ k ∈ out := by
  have := migrateFrom_mem c c.items 0 ks hm k
  simpa using this

theorem migrate_mem_intro {c : Cfg} {ks : List KItem} (hm : migrate c = some ks) {j : Nat} {it : Item}
    {out : List KItem} {k : KItem} (hj : c.items[j]? = some it) (ho : migrateItem c j it = some out) (hk : k ∈ out) :
    k ∈ ks :=
  (migrate_mem hm k).2 ⟨j, it, out, hj, ho, hk⟩

theorem mem_boundTypesIn {c : Cfg} {k : Nat} {t : Ty} :
    t ∈ boundTypesIn c k ↔ ∃ j i, c.items[j]? = some (.bind i t) ∧ partOf c j = k := by
  unfold boundTypesIn
  rw [List.mem_filterMap]
  constructor
  · rintro ⟨⟨it, j⟩, hp, hs⟩
    rw [List.mem_zipIdx_iff_getElem?] at hp
    cases it with
    | bind i impl =>
      simp only at hs
      split at hs
      · rename_i hk; cases hs; exact ⟨j, i, hp, hk⟩
      · cases hs
    | _ => simp at hs
  · rintro ⟨j, i, hj, hk⟩
    exact ⟨(.bind i t, j), List.mem_zipIdx_iff_getElem?.2 hj, by simp [hk]⟩

/-! ### several `Bind`s on one implementation in one element list: the first emits, the later ones are nested into it -/

theorem mem_bindsOn {c : Cfg} {k : Nat} {impl : Ty} {i j : Nat} :
    (i, j) ∈ bindsOn c k impl ↔ c.items[j]? = some (.bind i impl) ∧ partOf c j = k := by
  unfold bindsOn
  rw [List.mem_filterMap]
  constructor
  · rintro ⟨⟨it, j'⟩, hp, hs⟩
    rw [List.mem_zipIdx_iff_getElem?] at hp
    cases it with
    | bind i' impl' =>
      simp only at hs
      split at hs
      · rename_i hk
        simp only [Option.some.injEq, Prod.mk.injEq] at hs
        obtain ⟨rfl, rfl⟩ := hs
        obtain ⟨rfl, hk⟩ := hk
        exact ⟨hp, hk⟩
      · cases hs
    | _ => simp at hs
  · rintro ⟨hj, hk⟩
    exact ⟨(.bind i impl, j), List.mem_zipIdx_iff_getElem?.2 hj, by simp [hk]⟩

theorem hasEarlierBind_iff {c : Cfg} {idx : Nat} {impl : Ty} :
    hasEarlierBind c idx impl = true ↔
      ∃ j y, j < idx ∧ c.items[j]? = some (.bind y impl) ∧ partOf c j = partOf c idx := by
  unfold hasEarlierBind
  rw [List.any_eq_true]
  constructor
  · rintro ⟨⟨y, j⟩, hm, hlt⟩
    have := mem_bindsOn.1 hm
    exact ⟨j, y, by simpa using hlt, this.1, this.2⟩
  · rintro ⟨j, y, hlt, hj, hk⟩
    exact ⟨(y, j), mem_bindsOn.2 ⟨hj, hk⟩, by simpa using hlt⟩

theorem mem_laterIfaces {c : Cfg} {idx : Nat} {impl : Ty} {y : Nat} :
    y ∈ laterIfaces c idx impl ↔
      ∃ q, idx < q ∧ c.items[q]? = some (.bind y impl) ∧ partOf c q = partOf c idx := by
  unfold laterIfaces
  rw [List.mem_map]
  constructor
  · rintro ⟨⟨y', q⟩, hm, rfl⟩
    rw [List.mem_filter] at hm
    have := mem_bindsOn.1 hm.1
    exact ⟨q, by simpa using hm.2, this.1, this.2⟩
  · rintro ⟨q, hlt, hq, hk⟩
    exact ⟨(y, q), List.mem_filter.2 ⟨mem_bindsOn.2 ⟨hq, hk⟩, by simpa using hlt⟩, rfl⟩

theorem migrateItem_bind_later {c : Cfg} {idx x : Nat} {impl : Ty} (h : hasEarlierBind c idx impl = true) :
    migrateItem c idx (.bind x impl) = some [] := by
  simp [migrateItem, h]

theorem migrateItem_bind_first {c : Cfg} {idx x n : Nat} {impl : Ty} {f : Func} (h : hasEarlierBind c idx impl = false)
    (hn : tyName impl = some n) (hf : c.pkgFuncs.find? (fun f => f.name == ctorName n) = some f) :
    migrateItem c idx (.bind x impl) = some [.bindProvide (x :: laterIfaces c idx impl) f] := by
  simp [migrateItem, h, hn, hf]

/-- a `Bind` that emits something is the first on its implementation in its element list -/
theorem bind_emits_first {c : Cfg} {idx x : Nat} {impl : Ty} {out : List KItem} {a : KItem}
    (ho : migrateItem c idx (.bind x impl) = some out) (ha : a ∈ out) : hasEarlierBind c idx impl = false := by
  cases he : hasEarlierBind c idx impl with
  | false => rfl
  | true => rw [migrateItem_bind_later he] at ho; cases ho; cases ha

theorem exists_min_nat (P : Nat → Prop) : ∀ n, P n → ∃ m, m ≤ n ∧ P m ∧ ∀ m', m' < m → ¬ P m' := by
  intro n
  induction n using Nat.strongRecOn with
  | _ n ih =>
    intro hn
    by_cases h : ∃ m', m' < n ∧ P m'
    · obtain ⟨m', hlt, hp⟩ := h
      obtain ⟨m, hle, hpm, hmin⟩ := ih m' hlt hp
      exact ⟨m, by omega, hpm, hmin⟩
    · exact ⟨n, Nat.le_refl _, hn, fun m' hlt hp => h ⟨m', hlt, hp⟩⟩

/-- the item a `Bind` ends up in: the one emitted at the first `Bind` on the same implementation in the same element list,
    whose interface list contains the `Bind`'s interface -/
theorem bind_emitted {c : Cfg} {idx x n : Nat} {impl : Ty} {f : Func} (h : c.items[idx]? = some (.bind x impl))
    (hn : tyName impl = some n) (hf : c.pkgFuncs.find? (fun f => f.name == ctorName n) = some f) :
    ∃ j0 x0 is, j0 ≤ idx ∧ c.items[j0]? = some (.bind x0 impl) ∧ partOf c j0 = partOf c idx ∧
      migrateItem c j0 (.bind x0 impl) = some [.bindProvide is f] ∧ x ∈ is := by
  obtain ⟨j0, hle, ⟨x0, hj0, hp0⟩, hmin⟩ :=
    exists_min_nat (fun m => ∃ y, c.items[m]? = some (.bind y impl) ∧ partOf c m = partOf c idx) idx ⟨x, h, rfl⟩
  have he : hasEarlierBind c j0 impl = false := by
    cases he : hasEarlierBind c j0 impl with
    | false => rfl
    | true =>
      obtain ⟨j, y, hlt, hj, hk⟩ := hasEarlierBind_iff.1 he
      exact absurd ⟨y, hj, hk.trans hp0⟩ (hmin j hlt)
  refine ⟨j0, x0, x0 :: laterIfaces c j0 impl, hle, hj0, hp0, migrateItem_bind_first he hn hf, ?_⟩
  rcases Nat.lt_or_ge j0 idx with hlt | hge
  · exact List.mem_cons_of_mem _ (mem_laterIfaces.2 ⟨idx, hlt, h, hp0.symm⟩)
  · have : j0 = idx := by omega
    subst this
    rw [h] at hj0; cases hj0
    exact List.mem_cons_self ..

/-- two `Bind`s on one implementation in one element list: the later one emits nothing -/
theorem no_two_emitters {c : Cfg} {j j' x x' : Nat} {impl : Ty} {out' : List KItem} {b : KItem}
    (hj : c.items[j]? = some (.bind x impl)) (hlt : j < j') (hpart : partOf c j = partOf c j')
    (ho' : migrateItem c j' (.bind x' impl) = some out') (hb : b ∈ out') : False := by
  have h1 := bind_emits_first ho' hb
  have h2 : hasEarlierBind c j' impl = true := hasEarlierBind_iff.2 ⟨j, x, hlt, hj, hpart⟩
  rw [h1] at h2; cases h2

/-! ### `parts = []`: one element list, the former meaning -/

theorem partOf_nil_parts {c : Cfg} (h : c.parts = []) (i : Nat) : partOf c i = 0 := by
  simp [partOf, h]

/-- with `parts = []` the bound types seen by every item are those of **all** `Bind`s of the set -/
theorem mem_boundTypesIn_nil_parts {c : Cfg} (h : c.parts = []) (i : Nat) (t : Ty) :
    t ∈ boundTypesIn c (partOf c i) ↔ ∃ x, Item.bind x t ∈ c.items := by
  rw [mem_boundTypesIn]
  constructor
  · rintro ⟨j, x, hj, _⟩; exact ⟨x, List.mem_of_getElem? hj⟩
  · rintro ⟨x, hx⟩
    obtain ⟨j, hj⟩ := List.getElem?_of_mem hx
    exact ⟨j, x, hj, by rw [partOf_nil_parts h, partOf_nil_parts h]⟩

/-- conjunct 5 of `faithful` holds trivially when there is one element list -/
theorem bindTogether_nil_parts {c : Cfg} (h : c.parts = []) : bindTogether c = true := by
  unfold bindTogether
  rw [List.all_eq_true]
  intro p _
  split
  · rw [List.all_eq_true]
    intro q _
    split
    · simp [partOf_nil_parts h]
    · rfl
  · rfl

/-! ### `faithful` as propositions -/

/-- `t` is not the value form of a struct of the set -/
def okTy (c : Cfg) (t : Ty) : Prop := ∀ n fs, Item.structP n fs ∈ c.items → t ≠ .val n

structure Faithful (c : Cfg) : Prop where
  bindOk : ∀ i impl, Item.bind i impl ∈ c.items → ∃ n f, tyName impl = some n ∧
    c.pkgFuncs.find? (fun f => f.name == ctorName n) = some f ∧ f.result = impl ∧ Item.func f ∈ c.items
  fieldsPtr : ∀ n pf fs, Item.fieldsOf n pf fs ∈ c.items → pf = true
  uniq : ∀ a ∈ c.items, ∀ b ∈ c.items, ∀ t, t ∈ supplied a → t ∈ supplied b → a = b
  argsFresh : ∀ t ∈ c.args, ∀ a ∈ c.items, t ∉ supplied a
  retOk : okTy c c.ret
  consOk : ∀ a ∈ c.items, ∀ t ∈ consumed a, okTy c t
  /-- conjunct 5: a provider function of a bound implementation type sits in the `Bind`'s element list -/
  together : ∀ (j x : Nat) impl (m : Nat) f, c.items[j]? = some (.bind x impl) → c.items[m]? = some (.func f) → f.result = impl →
    partOf c m = partOf c j
  /-- conjunct 6: a type is supplied at one position only … -/
  onceIdx : ∀ (i j : Nat) a b t, c.items[i]? = some a → c.items[j]? = some b → t ∈ supplied a → t ∈ supplied b → i = j
  supNodup : ∀ a ∈ c.items, (supplied a).Nodup

/-- all `Bind`s on one implementation are written in one element list (the list of its constructor) -/
theorem Faithful.bindSameList {c : Cfg} (F : Faithful c) {i j x y : Nat} {impl : Ty}
    (hi : c.items[i]? = some (Item.bind x impl)) (hj : c.items[j]? = some (Item.bind y impl)) :
    partOf c i = partOf c j := by
  obtain ⟨n, f, _, _, hfr, hfi⟩ := F.bindOk x impl (List.mem_of_getElem? hi)
  obtain ⟨m, hm⟩ := List.getElem?_of_mem hfi
  rw [← F.together i x impl m f hi hm hfr, ← F.together j y impl m f hj hm hfr]

theorem structVal_false {c : Cfg} {t : Ty} (h : structVal c t = false) : okTy c t := by
  intro n fs hmem ht
  unfold structVal at h
  rw [List.any_eq_false] at h
  have := h _ hmem
  simp [ht] at this

theorem nodupTys_nodup : ∀ l : List Ty, nodupTys l = true → l.Nodup := by
  intro l
  induction l with
  | nil => intro _; exact List.nodup_nil
  | cons a r ih =>
    intro h
    simp only [nodupTys, Bool.and_eq_true, Bool.not_eq_true'] at h
    rw [List.nodup_cons]
    refine ⟨?_, ih h.2⟩
    intro hm
    have := List.contains_iff_mem.2 hm
    rw [h.1] at this; cases this

theorem pairwise_getElem? {α} {R : α → α → Prop} {l : List α} (h : l.Pairwise R) {i j : Nat} {a b : α}
    (hi : l[i]? = some a) (hj : l[j]? = some b) (hij : i < j) : R a b := by
  obtain ⟨hi', rfl⟩ := List.getElem?_eq_some_iff.1 hi
  obtain ⟨hj', rfl⟩ := List.getElem?_eq_some_iff.1 hj
  exact List.pairwise_iff_getElem.1 h i j hi' hj' hij

theorem bindTogether_spec {c : Cfg} (h : bindTogether c = true) :
    ∀ (j x : Nat) impl (m : Nat) f, c.items[j]? = some (.bind x impl) → c.items[m]? = some (.func f) → f.result = impl →
      partOf c m = partOf c j := by
  intro j x impl m f hj hm hr
  unfold bindTogether at h
  rw [List.all_eq_true] at h
  have h1 := h (.bind x impl, j) (List.mem_zipIdx_iff_getElem?.2 hj)
  simp only at h1
  rw [List.all_eq_true] at h1
  have h2 := h1 (.func f, m) (List.mem_zipIdx_iff_getElem?.2 hm)
  simp only [Bool.or_eq_true, Bool.not_eq_true', beq_eq_false_iff_ne, beq_iff_eq] at h2
  rcases h2 with h2 | h2
  · exact absurd hr h2
  · exact h2

theorem listedOnce_spec {c : Cfg} (h : listedOnce c = true) :
    (∀ (i j : Nat) a b t, c.items[i]? = some a → c.items[j]? = some b → t ∈ supplied a → t ∈ supplied b → i = j) ∧
    (∀ a ∈ c.items, (supplied a).Nodup) := by
  unfold listedOnce at h
  have h1 := nodupTys_nodup _ h
  rw [List.nodup_iff_pairwise_ne, List.pairwise_flatMap] at h1
  refine ⟨?_, h1.1⟩
  intro i j a b t hi hj hta htb
  rcases Nat.lt_trichotomy i j with hij | hij | hij
  · exact absurd rfl (pairwise_getElem? h1.2 hi hj hij t hta t htb)
  · exact hij
  · exact absurd rfl (pairwise_getElem? h1.2 hj hi hij t htb t hta)

theorem Faithful.of_bool {c : Cfg} (h : faithful c = true) : Faithful c := by
  unfold faithful at h
  rw [Bool.and_eq_true, Bool.and_eq_true] at h
  obtain ⟨⟨h, h5⟩, h6⟩ := h
  obtain ⟨h61, h62⟩ := listedOnce_spec h6
  simp only [Bool.and_eq_true, List.all_eq_true] at h
  obtain ⟨⟨⟨h1, h2⟩, h3⟩, h4⟩ := h
  refine ⟨?_, ?_, ?_, ?_, ?_, ?_, bindTogether_spec h5, h61, h62⟩
  · intro i impl hmem
    have := h1 _ hmem
    simp only [itemOk] at this
    split at this
    · cases this
    · rename_i n hn
      split at this
      · rename_i f hf
        simp only [Bool.and_eq_true, beq_iff_eq, List.contains_iff_mem] at this
        exact ⟨n, f, hn, hf, this.1, this.2⟩
      · cases this
  · intro n pf fs hmem
    have := h1 _ hmem
    simpa [itemOk] using this
  · intro a ha b hb t hta htb
    have := h2 a ha b hb
    simp only [Bool.or_eq_true, beq_iff_eq, List.all_eq_true, Bool.not_eq_true', ] at this
    rcases this with h | h
    · exact h
    · have := h t hta
      rw [← Bool.not_eq_true, List.contains_iff_mem] at this
      exact absurd htb this
  · intro t ht a ha hta
    have := h3 t ht a ha
    simp only [Bool.not_eq_true'] at this
    rw [← Bool.not_eq_true, List.contains_iff_mem] at this
    exact this hta
  · have := h4 c.ret (List.mem_cons_self ..)
    simp only [Bool.not_eq_true'] at this
    exact structVal_false this
  · intro a ha t hta
    have := h4 t (List.mem_cons_of_mem _ (List.mem_flatMap.2 ⟨a, ha, hta⟩))
    simp only [Bool.not_eq_true'] at this
    exact structVal_false this

/-! ### where the migrated items come from -/

theorem kItem_origin {c : Cfg} (F : Faithful c) {ks} (hm : migrate c = some ks) {k : KItem} (hk : k ∈ ks)
    {t : Ty} {w} (hs : kItemSup t k = some w) :
    ∃ it ∈ c.items, t ∈ supplied it ∧
      (wireItemSup t it = some w ∨
        ∃ j impl g, it = .bind j impl ∧ t = .iface j ∧ Item.func g ∈ c.items ∧ g.result = impl ∧
          w = (g.name, g.params)) := by
  obtain ⟨idx, it, l, hidx, hl, hkl⟩ := (migrate_mem hm k).1 hk
  have hit : it ∈ c.items := List.mem_of_getElem? hidx
  cases it with
  | func f =>
    simp only [migrateItem] at hl
    split at hl
    · cases hl; cases hkl
    · cases hl
      simp only [List.mem_singleton] at hkl; subst hkl
      simp only [kItemSup] at hs
      split at hs
      · rename_i hr
        refine ⟨_, hit, by simp [supplied, hr], Or.inl ?_⟩
        simpa [wireItemSup, hr] using hs
      · cases hs
  | bind j impl =>
    obtain ⟨n, f, hn, hf, hfr, hfi⟩ := F.bindOk j impl hit
    rw [migrateItem_bind_first (bind_emits_first hl hkl) hn hf] at hl
    cases hl
    simp only [List.mem_singleton] at hkl; subst hkl
    simp only [kItemSup] at hs
    split at hs
    · cases hs
      rename_i hor
      by_cases hr : f.result = t
      · exact ⟨.func f, hfi, by simp [supplied, hr], Or.inl (by simp [wireItemSup, hr])⟩
      · have ht := hor.resolve_left hr
        rw [List.mem_map] at ht
        obtain ⟨y, hy, rfl⟩ := ht
        rcases List.mem_cons.1 hy with rfl | hy
        · exact ⟨_, hit, by simp [supplied], Or.inr ⟨y, impl, f, rfl, rfl, hfi, hfr, rfl⟩⟩
        · obtain ⟨q, _, hq, _⟩ := mem_laterIfaces.1 hy
          exact ⟨.bind y impl, List.mem_of_getElem? hq, by simp [supplied],
            Or.inr ⟨y, impl, f, rfl, rfl, hfi, hfr, rfl⟩⟩
    · cases hs
  | structP n fs =>
    simp only [migrateItem] at hl; cases hl
    simp only [List.mem_singleton] at hkl; subst hkl
    simp only [kItemSup] at hs
    split at hs
    · rename_i hr; cases hs
      refine ⟨_, hit, by simp [supplied, ← hr], Or.inl ?_⟩
      simp [wireItemSup, ← hr]
    · cases hs
  | fieldsOf n pf fs =>
    have hpf := F.fieldsPtr n pf fs hit; subst hpf
    simp only [migrateItem] at hl; cases hl
    simp only [List.mem_map] at hkl
    obtain ⟨ft, hft, rfl⟩ := hkl
    simp only [kItemSup] at hs
    split at hs
    · rename_i hr; cases hs; subst hr
      refine ⟨_, hit, by simpa [supplied] using hft, Or.inl ?_⟩
      simp [wireItemSup, hft]
    · cases hs

theorem kSupplier_args {c : Cfg} (F : Faithful c) {ks} (hm : migrate c = some ks) {t : Ty} (ht : t ∈ c.args) :
    kSupplier ks t = none := by
  rw [kSupplier_eq, List.findSome?_eq_none_iff]
  intro k hk
  cases hs : kItemSup t k with
  | none => rfl
  | some w =>
    obtain ⟨it, hit, hsup, _⟩ := kItem_origin F hm hk hs
    exact absurd hsup (F.argsFresh t ht it hit)

theorem kSupplier_of_wire {c : Cfg} (F : Faithful c) {ks} (hm : migrate c = some ks) {t : Ty} (hok : okTy c t)
    {it : Item} (hit : it ∈ c.items) {v} (hs : wireItemSup t it = some v) : kSupplier ks t = some v := by
  rw [kSupplier_eq]
  apply findSome?_eq_some_of_unique
  · obtain ⟨idx, hidx⟩ := List.getElem?_of_mem hit
    cases it with
    | func f =>
      simp only [wireItemSup] at hs
      split at hs
      · rename_i hr; cases hs
        by_cases hb : (boundTypesIn c (partOf c idx)).contains f.result = true
        · rw [List.contains_iff_mem, mem_boundTypesIn] at hb
          obtain ⟨jb, j, hbj, _⟩ := hb
          have hbmem : Item.bind j f.result ∈ c.items := List.mem_of_getElem? hbj
          obtain ⟨n, g, hn, hg, hgr, hgi⟩ := F.bindOk j _ hbmem
          have : Item.func g = Item.func f :=
            F.uniq _ hgi _ hit f.result (by simp [supplied, hgr]) (by simp [supplied])
          cases this
          obtain ⟨j0, x0, is, _, hj0, _, hmig, _⟩ := bind_emitted hbj hn hg
          refine ⟨.bindProvide is f, migrate_mem_intro hm hj0 hmig (by simp), ?_⟩
          simp [kItemSup, hr]
        · have hb' : ¬ f.result ∈ boundTypesIn c (partOf c idx) := fun h => hb (List.contains_iff_mem.2 h)
          refine ⟨.provide f, migrate_mem_intro hm hidx (out := [.provide f]) (by simp [migrateItem, hb']) (by simp), ?_⟩
          simp [kItemSup, hr]
      · cases hs
    | bind => simp [wireItemSup] at hs
    | structP n fs =>
      simp only [wireItemSup] at hs
      split at hs
      · rename_i hr; exact absurd hr (hok n fs hit)
      · split at hs
        · rename_i hr; cases hs
          refine ⟨.provide ⟨mkPtrName n, fs, .ptr n⟩, migrate_mem_intro hm hidx rfl (by simp), ?_⟩
          simp [kItemSup, hr]
        · cases hs
    | fieldsOf n pf fs =>
      have hpf := F.fieldsPtr n pf fs hit; subst hpf
      simp only [wireItemSup] at hs
      split at hs
      · rename_i hr; cases hs
        rw [List.contains_iff_mem] at hr
        refine ⟨.provide ⟨fieldName, [.ptr n], t⟩, migrate_mem_intro hm hidx rfl ?_, ?_⟩
        · exact List.mem_map.2 ⟨t, hr, rfl⟩
        · simp [kItemSup]
      · cases hs
  · intro k hk w hw
    obtain ⟨it', hit', hsup', hor⟩ := kItem_origin F hm hk hw
    have : it' = it := F.uniq _ hit' _ hit t hsup' (wireItemSup_supplied hs)
    subst this
    rcases hor with h | ⟨j, impl, g, rfl, _⟩
    · rw [hs] at h; cases h; rfl
    · simp [wireItemSup] at hs

theorem kSupplier_bind {c : Cfg} (F : Faithful c) {ks} (hm : migrate c = some ks) {i : Nat} {impl : Ty}
    (hb : Item.bind i impl ∈ c.items) :
    ∃ n f, tyName impl = some n ∧ Item.func f ∈ c.items ∧ f.result = impl ∧
      kSupplier ks (.iface i) = some (f.name, f.params) := by
  obtain ⟨n, f, hn, hf, hfr, hfi⟩ := F.bindOk i impl hb
  obtain ⟨idx, hidx⟩ := List.getElem?_of_mem hb
  refine ⟨n, f, hn, hfi, hfr, ?_⟩
  rw [kSupplier_eq]
  apply findSome?_eq_some_of_unique
  · obtain ⟨j0, x0, is, _, hj0, _, hmig, hxi⟩ := bind_emitted hidx hn hf
    refine ⟨.bindProvide is f, migrate_mem_intro hm hj0 hmig (by simp), ?_⟩
    simp only [kItemSup]
    rw [if_pos (Or.inr (List.mem_map.2 ⟨i, hxi, rfl⟩))]
  · intro k hk w hw
    obtain ⟨it', hit', hsup', hor⟩ := kItem_origin F hm hk hw
    have : it' = .bind i impl := F.uniq _ hit' _ hb _ hsup' (by simp [supplied])
    subst this
    rcases hor with h | ⟨j, impl', g, heq, _, hgi, hgr, rfl⟩
    · simp [wireItemSup] at h
    · cases heq
      have : Item.func g = Item.func f :=
        F.uniq _ hgi _ hfi impl (by simp [supplied, hgr]) (by simp [supplied, hfr])
      cases this; rfl

theorem wireSupplier_of_item {c : Cfg} (F : Faithful c) {t : Ty} {it : Item} {v} (hit : it ∈ c.items)
    (hs : wireItemSup t it = some v) : wireSupplier c.items t = some v := by
  rw [wireSupplier_eq]
  apply findSome?_eq_some_of_unique
  · exact ⟨it, hit, hs⟩
  · intro it' hit' w hw
    have : it' = it := F.uniq _ hit' _ hit t (wireItemSup_supplied hw) (wireItemSup_supplied hs)
    subst this; rw [hs] at hw; cases hw; rfl

theorem params_ok {c : Cfg} (F : Faithful c) {t : Ty} {it : Item} {name ps} (hit : it ∈ c.items)
    (hs : wireItemSup t it = some (name, ps)) : ∀ p ∈ ps, okTy c p := by
  intro p hp
  cases it with
  | func f =>
    simp only [wireItemSup] at hs
    split at hs
    · cases hs; exact F.consOk _ hit p (by simpa [consumed] using hp)
    · cases hs
  | bind => simp [wireItemSup] at hs
  | structP n fs =>
    simp only [wireItemSup] at hs
    split at hs
    · cases hs; exact F.consOk _ hit p (by simpa [consumed] using hp)
    · split at hs
      · cases hs; exact F.consOk _ hit p (by simpa [consumed] using hp)
      · cases hs
  | fieldsOf n pf fs =>
    have hpf := F.fieldsPtr n pf fs hit; subst hpf
    simp only [wireItemSup] at hs
    split at hs
    · cases hs
      simp only [if_true, List.mem_singleton] at hp; subst hp
      intro m fs' _ h; cases h
    · cases hs

/-! ### the evaluators -/

theorem kEval_succ (ks : List KItem) (fuel : Nat) (t : Ty) : kEval ks (fuel + 1) t =
    match kSupplier ks t with
    | some (name, ps) => .call name (ps.map (kEval ks fuel))
    | none => .arg t := by rw [kEval]; rfl

theorem wireEval_succ (c : Cfg) (fuel : Nat) (t : Ty) : wireEval c (fuel + 1) t =
    if c.args.contains t then .arg t
    else match wireBinding c.items t with
      | some impl => wireEval c fuel impl
      | none =>
        match wireSupplier c.items t with
        | some (name, ps) => .call name (ps.map (wireEval c fuel))
        | none => .missing t := by rw [wireEval]; rfl

theorem not_NoBot_bot : ¬ NoBot V.bot := by simp [NoBot, V.noBot]

/-- kessoku's evaluator is monotone in the fuel once it has produced a `bot`-free term -/
theorem kEval_mono (ks : List KItem) : ∀ fuel t, NoBot (kEval ks fuel t) → kEval ks (fuel + 1) t = kEval ks fuel t := by
  intro fuel
  induction fuel with
  | zero => intro t h; rw [kEval] at h; exact absurd h not_NoBot_bot
  | succ fuel ih =>
    intro t h
    have e1 := kEval_succ ks (fuel + 1) t
    have e2 := kEval_succ ks fuel t
    cases hsup : kSupplier ks t with
    | none => simp only [hsup] at e1 e2; rw [e1, e2]
    | some v =>
      obtain ⟨name, ps⟩ := v
      simp only [hsup] at e1 e2
      rw [e2] at h ⊢; rw [e1]
      congr 1
      apply List.map_congr_left
      intro p hp
      exact ih p (NoBot_call h p hp)

theorem migrate_faithful_aux (c : Cfg) (F : Faithful c) (ks : List KItem) (hm : migrate c = some ks) :
    ∀ fuel t, okTy c t → NoBot (wireEval c fuel t) → NoMissing (wireEval c fuel t) →
      kEval ks fuel t = wireEval c fuel t := by
  intro fuel
  induction fuel using Nat.strongRecOn with
  | _ fuel ih =>
  intro t hok hb hmi
  cases fuel with
  | zero => rw [wireEval] at hb; exact absurd hb not_NoBot_bot
  | succ fuel =>
    have ew := wireEval_succ c fuel t
    have ek := kEval_succ ks fuel t
    by_cases hargs : c.args.contains t = true
    · rw [if_pos hargs] at ew
      rw [kSupplier_args F hm (List.contains_iff_mem.1 hargs)] at ek
      rw [ew, ek]
    · rw [if_neg hargs] at ew
      cases hbnd : wireBinding c.items t with
      | some impl =>
        simp only [hbnd] at ew
        obtain ⟨i, rfl, hbmem⟩ := wireBinding_some hbnd
        obtain ⟨n, f, hn, hfi, hfr, hks⟩ := kSupplier_bind F hm hbmem
        rw [ew] at hb hmi ⊢
        simp only [hks] at ek
        rw [ek]
        cases fuel with
        | zero => rw [wireEval] at hb; exact absurd hb not_NoBot_bot
        | succ fuel =>
          have ew2 := wireEval_succ c fuel impl
          have hnarg : ¬ c.args.contains impl = true := by
            intro h
            exact F.argsFresh impl (List.contains_iff_mem.1 h) _ hfi (by simp [supplied, hfr])
          rw [if_neg hnarg, wireBinding_named hn] at ew2
          have hws : wireSupplier c.items impl = some (f.name, f.params) :=
            wireSupplier_of_item F hfi (by simp [wireItemSup, hfr])
          simp only [hws] at ew2
          rw [ew2] at hb hmi ⊢
          congr 1
          apply List.map_congr_left
          intro p hp
          have hbp := NoBot_call hb p hp
          have hmp := NoMissing_call hmi p hp
          have hokp : okTy c p := F.consOk _ hfi p (by simpa [consumed] using hp)
          have e := ih fuel (by omega) p hokp hbp hmp
          rw [kEval_mono ks fuel p (by rw [e]; exact hbp), e]
      | none =>
        simp only [hbnd] at ew
        cases hsup : wireSupplier c.items t with
        | none =>
          simp only [hsup] at ew; rw [ew] at hmi
          simp [NoMissing, V.noMissing] at hmi
        | some v =>
          obtain ⟨name, ps⟩ := v
          simp only [hsup] at ew
          rw [wireSupplier_eq] at hsup
          obtain ⟨it, hit, hs⟩ := List.exists_of_findSome?_eq_some hsup
          have hks := kSupplier_of_wire F hm hok hit hs
          simp only [hks] at ek
          rw [ew] at hb hmi ⊢; rw [ek]
          congr 1
          apply List.map_congr_left
          intro p hp
          exact ih fuel (by omega) p (params_ok F hit hs p hp) (NoBot_call hb p hp) (NoMissing_call hmi p hp)

/-! ### the migrated declaration is not ambiguous -/

/-- no two positions of `ks` supply a common type -/
def KDisjoint (a b : KItem) : Prop := ∀ t, t ∈ kSupplied a → t ∉ kSupplied b

theorem kAmbiguous_false_of_pairwise : ∀ ks : List KItem, ks.Pairwise KDisjoint → kAmbiguous ks = false := by
  intro ks
  induction ks with
  | nil => intro _; rfl
  | cons a r ih =>
    intro h
    rw [List.pairwise_cons] at h
    rw [kAmbiguous, Bool.or_eq_false_iff]
    refine ⟨?_, ih h.2⟩
    rw [List.any_eq_false]
    intro b hb hany
    rw [List.any_eq_true] at hany
    obtain ⟨t, hta, htb⟩ := hany
    exact h.1 b hb t hta (List.contains_iff_mem.1 htb)

theorem kAmbiguous_false_iff (ks : List KItem) : kAmbiguous ks = false ↔ ks.Pairwise KDisjoint := by
  refine ⟨?_, kAmbiguous_false_of_pairwise ks⟩
  induction ks with
  | nil => intro _; exact List.Pairwise.nil
  | cons a r ih =>
    intro h
    rw [kAmbiguous, Bool.or_eq_false_iff] at h
    rw [List.pairwise_cons]
    refine ⟨?_, ih h.2⟩
    intro b hb t hta htb
    have := (List.any_eq_false.1 h.1) b hb
    apply this
    rw [List.any_eq_true]
    exact ⟨t, hta, List.contains_iff_mem.2 htb⟩

/-- who supplies, in wire's set, a type supplied by a migrated item: either an item at a position `q ≥ j` — the item the
    migrated item came from (`q = j`; if that is a provider function, it was not dropped) or, for a nested interface, a later
    `Bind` on the same implementation in the same element list — or, for the implementation type of a `Bind`, the listed
    provider function the `Bind` stands for -/
theorem kItem_owner {c : Cfg} (F : Faithful c) {j : Nat} {it : Item} {out : List KItem} {a : KItem} {t : Ty}
    (hj : c.items[j]? = some it) (ho : migrateItem c j it = some out) (ha : a ∈ out) (ht : t ∈ kSupplied a) :
    (∃ q itq, c.items[q]? = some itq ∧ t ∈ supplied itq ∧
        (∀ f, itq = .func f → f.result ∉ boundTypesIn c (partOf c q)) ∧ j ≤ q ∧
        (q = j ∨ ∃ x y impl, it = .bind x impl ∧ itq = .bind y impl ∧ partOf c q = partOf c j)) ∨
    (∃ (x p : Nat) (f : Func), it = .bind x t ∧ c.items[p]? = some (.func f) ∧ f.result = t) := by
  have hit : it ∈ c.items := List.mem_of_getElem? hj
  cases it with
  | func f =>
    simp only [migrateItem] at ho
    split at ho
    · cases ho; cases ha
    · rename_i hb
      cases ho
      simp only [List.mem_singleton] at ha; subst ha
      simp only [kSupplied, List.mem_singleton] at ht; subst ht
      refine Or.inl ⟨j, _, hj, by simp [supplied], ?_, Nat.le_refl _, Or.inl rfl⟩
      intro g hg; cases hg
      exact fun h => hb (List.contains_iff_mem.2 h)
  | bind x impl =>
    obtain ⟨n, f, hn, hf, hfr, hfi⟩ := F.bindOk x impl hit
    rw [migrateItem_bind_first (bind_emits_first ho ha) hn hf] at ho
    cases ho
    simp only [List.mem_singleton] at ha; subst ha
    simp only [kSupplied, List.mem_cons] at ht
    rcases ht with ht | ht
    · obtain ⟨p, hp⟩ := List.getElem?_of_mem hfi
      subst ht
      exact Or.inr ⟨x, p, f, by rw [hfr], hp, rfl⟩
    · have ht' : t ∈ (x :: laterIfaces c j impl).map Ty.iface := by simpa using ht
      rw [List.mem_map] at ht'
      obtain ⟨y, hy, rfl⟩ := ht'
      rcases List.mem_cons.1 hy with rfl | hy
      · exact Or.inl ⟨j, _, hj, by simp [supplied], (fun g hg => by cases hg), Nat.le_refl _, Or.inl rfl⟩
      · obtain ⟨q, hlt, hq, hpart⟩ := mem_laterIfaces.1 hy
        exact Or.inl ⟨q, .bind y impl, hq, by simp [supplied], (fun g hg => by cases hg), Nat.le_of_lt hlt,
          Or.inr ⟨x, y, impl, rfl, rfl, hpart⟩⟩
  | structP n fs =>
    simp only [migrateItem] at ho; cases ho
    simp only [List.mem_singleton] at ha; subst ha
    simp only [kSupplied, List.mem_singleton] at ht; subst ht
    exact Or.inl ⟨j, _, hj, by simp [supplied], (fun g hg => by cases hg), Nat.le_refl _, Or.inl rfl⟩
  | fieldsOf n pf fs =>
    simp only [migrateItem] at ho; cases ho
    simp only [List.mem_map] at ha
    obtain ⟨ft, hft, rfl⟩ := ha
    simp only [kSupplied, List.mem_singleton] at ht; subst ht
    exact Or.inl ⟨j, _, hj, by simpa [supplied] using hft, (fun g hg => by cases hg), Nat.le_refl _, Or.inl rfl⟩

/-- one half of the cross-position argument: `t` owned by the item at `j` (not a dropped provider function), and a `Bind`
    at `j'` supplying `t` as its implementation type -/
theorem owner_clash {c : Cfg} (F : Faithful c) {j j' : Nat} {it : Item} {t : Ty} {x p : Nat} {f : Func}
    (hj : c.items[j]? = some it) (hj' : c.items[j']? = some (.bind x t))
    (hown : t ∈ supplied it) (hkept : ∀ g, it = .func g → g.result ∉ boundTypesIn c (partOf c j))
    (hp : c.items[p]? = some (.func f)) (hfr : f.result = t) : False := by
  have hjp : j = p := F.onceIdx j p it (.func f) t hj hp hown (by simp [supplied, hfr])
  subst hjp
  rw [hj] at hp; cases hp
  have hpart := F.together j' x t j f hj' hj hfr
  exact hkept f rfl (by rw [hfr]; exact mem_boundTypesIn.2 ⟨j', x, hj', hpart.symm⟩)

theorem migrate_not_ambiguous_aux {c : Cfg} (F : Faithful c) {ks : List KItem} (hm : migrate c = some ks) :
    ks.Pairwise KDisjoint := by
  apply migrateFrom_pairwise c KDisjoint c.items 0 ks hm
  · intro j it out hj ho
    rw [Nat.zero_add] at ho
    have hit : it ∈ c.items := List.mem_of_getElem? hj
    cases it with
    | func f =>
      simp only [migrateItem] at ho
      split at ho <;> cases ho
      · exact List.Pairwise.nil
      · exact List.pairwise_singleton _ _
    | bind x impl =>
      obtain ⟨n, f, hn, hf, _, _⟩ := F.bindOk x impl hit
      cases he : hasEarlierBind c j impl with
      | true => rw [migrateItem_bind_later he] at ho; cases ho; exact List.Pairwise.nil
      | false => rw [migrateItem_bind_first he hn hf] at ho; cases ho; exact List.pairwise_singleton _ _
    | structP n fs =>
      simp only [migrateItem] at ho; cases ho; exact List.pairwise_singleton _ _
    | fieldsOf n pf fs =>
      simp only [migrateItem] at ho; cases ho
      rw [List.pairwise_map]
      have hnd : fs.Nodup := by simpa [supplied] using F.supNodup _ hit
      rw [List.nodup_iff_pairwise_ne] at hnd
      apply hnd.imp
      intro u v huv t htu htv
      simp only [kSupplied, List.mem_singleton] at htu htv
      exact huv (htu.symm.trans htv)
  · intro j j' it it' out out' hjj hj hj' ho ho' a ha b hb t hta htb
    rw [Nat.zero_add] at ho ho'
    rcases kItem_owner F hj ho ha hta with ⟨q, itq, hq, hown, hkept, hle, hwho⟩ | ⟨x, p, f, rfl, hp, hfr⟩
    · rcases kItem_owner F hj' ho' hb htb with ⟨q', itq', hq', hown', _, hle', hwho'⟩ | ⟨x', p', f', rfl, hp', hfr'⟩
      · have hqq := F.onceIdx q q' itq itq' t hq hq' hown hown'
        subst hqq
        rw [hq] at hq'; cases hq'
        rcases hwho with rfl | ⟨x, y, impl, rfl, rfl, hpart⟩
        · omega
        · rcases hwho' with rfl | ⟨x', y', impl', rfl, hy', hpart'⟩
          · rw [hq] at hj'; cases hj'
            exact no_two_emitters hj hjj hpart.symm ho' hb
          · cases hy'
            exact no_two_emitters hj hjj (hpart.symm.trans hpart') ho' hb
      · exact owner_clash F hq hj' hown hkept hp' hfr'
    · rcases kItem_owner F hj' ho' hb htb with ⟨q', itq', hq', hown', hkept', _, _⟩ | ⟨x', p', f', rfl, hp', hfr'⟩
      · exact owner_clash F hq' hj hown' hkept' hp hfr
      · exact no_two_emitters hj hjj (F.bindSameList hj hj') ho' hb

/-- **the migrated declaration of a faithful configuration is not refused as ambiguous** -/
theorem migrate_not_ambiguous (c : Cfg) (h : faithful c = true) (ks : List KItem) (hm : migrate c = some ks) :
    kAmbiguous ks = false :=
  kAmbiguous_false_of_pairwise ks (migrate_not_ambiguous_aux (Faithful.of_bool h) hm)

theorem migrateChecked_of_migrate {c : Cfg} {ks : List KItem} (hm : migrate c = some ks) (ha : kAmbiguous ks = false) :
    migrateChecked c = some ks := by
  simp [migrateChecked, hm, ha]

theorem migrateChecked_some {c : Cfg} {ks : List KItem} (h : migrateChecked c = some ks) :
    migrate c = some ks ∧ kAmbiguous ks = false := by
  unfold migrateChecked at h
  split at h
  · rename_i ks' hm
    split at h
    · cases h
    · rename_i ha
      cases h
      exact ⟨hm, by simpa using ha⟩
  · cases h

/-! ### main theorems -/

/-- on a faithful configuration the migration does not refuse -/
theorem migrate_faithful_some (c : Cfg) (h : faithful c = true) : (migrate c).isSome := by
  have F := Faithful.of_bool h
  apply migrateFrom_some
  intro j it hj
  have hit : it ∈ c.items := List.mem_of_getElem? hj
  cases it with
  | func f => simp only [migrateItem]; split <;> rfl
  | bind i impl =>
    obtain ⟨n, f, hn, hf, _, _⟩ := F.bindOk i impl hit
    cases he : hasEarlierBind c (0 + j) impl with
    | true => rw [migrateItem_bind_later he]; rfl
    | false => rw [migrateItem_bind_first he hn hf]; rfl
  | structP n fs => rfl
  | fieldsOf n pf fs => rfl

/-- **Faithfulness of the migration**, for every requested type `t` that is not the value form `T` of a listed
    `wire.Struct(new(T), …)` (that hypothesis is necessary: see `C13.cfgValRequest`). -/
theorem migrate_faithful (c : Cfg) (h : faithful c = true) (ks : List KItem) (hm : migrate c = some ks) :
    ∀ fuel t, structVal c t = false → NoBot (wireEval c fuel t) → NoMissing (wireEval c fuel t) →
      kEval ks fuel t = wireEval c fuel t :=
  fun fuel t ht => migrate_faithful_aux c (Faithful.of_bool h) ks hm fuel t (structVal_false ht)

/-- the injector's own result type needs no side condition: `faithful` already forbids requesting a struct value -/
theorem migrate_faithful_ret (c : Cfg) (h : faithful c = true) (ks : List KItem) (hm : migrate c = some ks) :
    ∀ fuel, NoBot (wireEval c fuel c.ret) → NoMissing (wireEval c fuel c.ret) →
      kEval ks fuel c.ret = wireEval c fuel c.ret :=
  fun fuel => migrate_faithful_aux c (Faithful.of_bool h) ks hm fuel c.ret (Faithful.of_bool h).retOk

/-! ### in the vocabulary of `C13_statement` -/

theorem migratedEval_of_migrate {c : Cfg} {ks : List KItem} (hm : migrate c = some ks) (ha : kAmbiguous ks = false)
    (fuel : Nat) : migratedEval c fuel = kEval ks fuel c.ret := by
  simp [migratedEval, migrateChecked_of_migrate hm ha]

/-- on a faithful configuration the migration is not refused — neither by `kessoku migrate` nor, as ambiguous, by kessoku -/
theorem migrateChecked_faithful_some (c : Cfg) (h : faithful c = true) : (migrateChecked c).isSome := by
  obtain ⟨ks, hm⟩ := Option.isSome_iff_exists.1 (migrate_faithful_some c h)
  rw [migrateChecked_of_migrate hm (migrate_not_ambiguous c h ks hm)]; rfl

/-- on a faithful configuration the migration succeeds and, whenever wire's own solver produces a complete term
    (enough fuel, nothing missing), the migrated injector computes the same term -/
theorem migratedEval_faithful (c : Cfg) (h : faithful c = true) :
    (migrate c).isSome ∧
    ∀ fuel, NoBot (wireEval c fuel c.ret) → NoMissing (wireEval c fuel c.ret) →
      migratedEval c fuel = wireEval c fuel c.ret := by
  have hs := migrate_faithful_some c h
  refine ⟨hs, ?_⟩
  obtain ⟨ks, hm⟩ := Option.isSome_iff_exists.1 hs
  intro fuel hb hmi
  rw [migratedEval_of_migrate hm (migrate_not_ambiguous c h ks hm)]
  exact migrate_faithful_ret c h ks hm fuel hb hmi

mutual
theorem V.beq_refl : ∀ v : V, V.beq v v = true
  | .arg a => by simp [V.beq]
  | .call n as => by simp [V.beq, V.beqL_refl as]
  | .missing a => by simp [V.beq]
  | .bot => by simp [V.beq]
theorem V.beqL_refl : ∀ l : List V, V.beqL l l = true
  | [] => by simp [V.beqL]
  | a :: as => by simp [V.beqL, V.beq_refl a, V.beqL_refl as]
end

end Wire
