import KV.Wire
/-! # Proofs about the wire/kessoku-migrate model: the migration is faithful on `Wire.faithful` configurations -/
namespace Wire

/-! ### generic list lemmas -/

theorem findSome?_eq_some_of_unique {α β} (g : α → Option β) (l : List α) (v : β)
    (hex : ∃ x ∈ l, g x = some v) (hall : ∀ x ∈ l, ∀ w, g x = some w → w = v) :
    l.findSome? g = some v := by
  induction l with
  | nil => obtain ⟨x, hx, _⟩ := hex; cases hx
  | cons a l ih =>
    rw [List.findSome?_cons]
    cases hga : g a with
    | some w =>
      have := hall a (List.mem_cons_self ..) w hga
      simp [this]
    | none =>
      simp only
      apply ih
      · obtain ⟨x, hx, hgx⟩ := hex
        rcases List.mem_cons.1 hx with rfl | hx
        · rw [hga] at hgx; cases hgx
        · exact ⟨x, hx, hgx⟩
      · intro x hx; exact hall x (List.mem_cons_of_mem _ hx)

/-! ### `NoBot` / `NoMissing` on calls -/

theorem noBotL_map {α} (g : α → V) (l : List α) : V.noBotL (l.map g) = true → ∀ x ∈ l, V.noBot (g x) = true := by
  induction l with
  | nil => intro _ x hx; cases hx
  | cons a l ih =>
    intro h x hx
    simp only [List.map_cons, V.noBotL, Bool.and_eq_true] at h
    rcases List.mem_cons.1 hx with rfl | hx
    · exact h.1
    · exact ih h.2 x hx

theorem noMissingL_map {α} (g : α → V) (l : List α) :
    V.noMissingL (l.map g) = true → ∀ x ∈ l, V.noMissing (g x) = true := by
  induction l with
  | nil => intro _ x hx; cases hx
  | cons a l ih =>
    intro h x hx
    simp only [List.map_cons, V.noMissingL, Bool.and_eq_true] at h
    rcases List.mem_cons.1 hx with rfl | hx
    · exact h.1
    · exact ih h.2 x hx

theorem NoBot_call {α} {name : Nat} {g : α → V} {l : List α} (h : NoBot (.call name (l.map g))) :
    ∀ x ∈ l, NoBot (g x) := by
  unfold NoBot at h; rw [V.noBot] at h; exact noBotL_map g l h

theorem NoMissing_call {α} {name : Nat} {g : α → V} {l : List α} (h : NoMissing (.call name (l.map g))) :
    ∀ x ∈ l, NoMissing (g x) := by
  unfold NoMissing at h; rw [V.noMissing] at h; exact noMissingL_map g l h

/-! ### per-item supplier functions -/

def wireItemSup (t : Ty) : Item → Option (Nat × List Ty)
  | .func f => if f.result = t then some (f.name, f.params) else none
  | .structP n fs => if t = .val n then some (mkName n, fs)
                     else if t = .ptr n then some (mkPtrName n, fs) else none
  | .fieldsOf n ptrForm fs =>
      if fs.contains t then some (fieldName, [if ptrForm then Ty.ptr n else Ty.val n]) else none
  | .bind _ _ => none

theorem wireSupplier_eq (items : List Item) (t : Ty) :
    wireSupplier items t = items.findSome? (wireItemSup t) := by
  unfold wireSupplier; congr

def kItemSup (t : Ty) : KItem → Option (Nat × List Ty)
  | .provide f => if f.result = t then some (f.name, f.params) else none
  | .bindProvide i f => if f.result = t ∨ t = .iface i then some (f.name, f.params) else none

theorem kSupplier_eq (ks : List KItem) (t : Ty) :
    kSupplier ks t = ks.findSome? (kItemSup t) := by
  unfold kSupplier; congr

theorem wireItemSup_supplied {t : Ty} {it : Item} {w} (h : wireItemSup t it = some w) : t ∈ supplied it := by
  cases it with
  | func f =>
    simp only [wireItemSup] at h
    split at h
    · rename_i hr; simp [supplied, hr]
    · cases h
  | bind i impl => simp [wireItemSup] at h
  | structP n fs =>
    simp only [wireItemSup] at h
    split at h
    · rename_i hr; simp [supplied, hr]
    · split at h
      · rename_i hr; simp [supplied, hr]
      · cases h
  | fieldsOf n pf fs =>
    simp only [wireItemSup] at h
    split at h
    · rename_i hr; simpa [supplied] using hr
    · cases h

theorem wireBinding_some {items : List Item} {t impl : Ty} (h : wireBinding items t = some impl) :
    ∃ i, t = .iface i ∧ .bind i impl ∈ items := by
  cases t with
  | iface i =>
    simp only [wireBinding] at h
    obtain ⟨it, hit, hs⟩ := List.exists_of_findSome?_eq_some h
    cases it with
    | bind j impl' =>
      simp only at hs
      split at hs
      · rename_i hij; cases hs; subst hij; exact ⟨i, rfl, hit⟩
      · cases hs
    | _ => simp at hs
  | _ => simp [wireBinding] at h

theorem wireBinding_named {items : List Item} {t : Ty} {n : Nat} (h : tyName t = some n) :
    wireBinding items t = none := by
  cases t <;> simp [tyName] at h <;> rfl

/-! ### the migration fold -/

def migStep (g : Item → Option (List KItem)) (acc : Option (List KItem)) (it : Item) : Option (List KItem) :=
  match acc, g it with
  | some l, some k => some (l ++ k)
  | _, _ => none

theorem migrate_eq (c : Cfg) : migrate c = c.items.foldl (migStep (migrateItem c)) (some []) := rfl

theorem foldl_migStep_none (g) (items : List Item) : items.foldl (migStep g) none = none := by
  induction items with
  | nil => rfl
  | cons a l ih => simpa [List.foldl_cons, migStep] using ih

theorem foldl_migStep_mem (g) (items : List Item) : ∀ (acc ks : List KItem),
    items.foldl (migStep g) (some acc) = some ks →
    ∀ k, k ∈ ks ↔ (k ∈ acc ∨ ∃ it ∈ items, ∃ l, g it = some l ∧ k ∈ l) := by
  induction items with
  | nil => intro acc ks h k; simp at h; subst h; simp
  | cons a l ih =>
    intro acc ks h k
    rw [List.foldl_cons] at h
    cases hga : g a with
    | none =>
      have : migStep g (some acc) a = none := by simp [migStep, hga]
      rw [this, foldl_migStep_none] at h; cases h
    | some la =>
      have : migStep g (some acc) a = some (acc ++ la) := by simp [migStep, hga]
      rw [this] at h
      rw [ih _ _ h k, List.mem_append]
      constructor
      · rintro (h1 | ⟨it, hit, l', hl', hk⟩)
        · rcases h1 with h1 | h1
          · exact Or.inl h1
          · exact Or.inr ⟨a, List.mem_cons_self .., la, hga, h1⟩
        · exact Or.inr ⟨it, List.mem_cons_of_mem _ hit, l', hl', hk⟩
      · rintro (h1 | ⟨it, hit, l', hl', hk⟩)
        · exact Or.inl (Or.inl h1)
        · rcases List.mem_cons.1 hit with rfl | hit
          · rw [hga] at hl'; cases hl'; exact Or.inl (Or.inr hk)
          · exact Or.inr ⟨it, hit, l', hl', hk⟩

theorem foldl_migStep_some (g) (items : List Item) : ∀ (acc : List KItem),
    (∀ it ∈ items, (g it).isSome) → (items.foldl (migStep g) (some acc)).isSome := by
  induction items with
  | nil => intro acc _; rfl
  | cons a l ih =>
    intro acc h
    rw [List.foldl_cons]
    have ha := h a (List.mem_cons_self ..)
    cases hga : g a with
    | none => rw [hga] at ha; cases ha
    | some la =>
      have : migStep g (some acc) a = some (acc ++ la) := by simp [migStep, hga]
      rw [this]
      exact ih _ (fun it hit => h it (List.mem_cons_of_mem _ hit))

theorem migrate_mem {c : Cfg} {ks : List KItem} (hm : migrate c = some ks) (k : KItem) :
    k ∈ ks ↔ ∃ it ∈ c.items, ∃ l, migrateItem c it = some l ∧ k ∈ l := by
  rw [migrate_eq] at hm
  have := foldl_migStep_mem _ _ _ _ hm k
  simpa using this

/-! ### `faithful` as propositions -/

/-- `t` is not the value form of a struct of the set -/
def okTy (c : Cfg) (t : Ty) : Prop := ∀ n fs, Item.structP n fs ∈ c.items → t ≠ .val n

structure Faithful (c : Cfg) : Prop where
  bindOk : ∀ i impl, Item.bind i impl ∈ c.items → ∃ n f, tyName impl = some n ∧
    c.pkgFuncs.find? (fun f => f.name == ctorName n) = some f ∧ f.result = impl ∧ Item.func f ∈ c.items
  fieldsPtr : ∀ n pf fs, Item.fieldsOf n pf fs ∈ c.items → pf = true
  uniq : ∀ a ∈ c.items, ∀ b ∈ c.items, ∀ t, t ∈ supplied a → t ∈ supplied b → a = b
  argsFresh : ∀ t ∈ c.args, ∀ a ∈ c.items, t ∉ supplied a
  retOk : okTy c c.ret
  consOk : ∀ a ∈ c.items, ∀ t ∈ consumed a, okTy c t

theorem structVal_false {c : Cfg} {t : Ty} (h : structVal c t = false) : okTy c t := by
  intro n fs hmem ht
  unfold structVal at h
  rw [List.any_eq_false] at h
  have := h _ hmem
  simp [ht] at this

theorem Faithful.of_bool {c : Cfg} (h : faithful c = true) : Faithful c := by
  unfold faithful at h
  simp only [Bool.and_eq_true, List.all_eq_true] at h
  obtain ⟨⟨⟨h1, h2⟩, h3⟩, h4⟩ := h
  refine ⟨?_, ?_, ?_, ?_, ?_, ?_⟩
  · intro i impl hmem
    have := h1 _ hmem
    simp only [itemOk] at this
    split at this
    · cases this
    · rename_i n hn
      split at this
      · rename_i f hf
        simp only [Bool.and_eq_true, beq_iff_eq, List.contains_iff_mem] at this
        exact ⟨n, f, hn, hf, this.1, this.2⟩
      · cases this
  · intro n pf fs hmem
    have := h1 _ hmem
    simpa [itemOk] using this
  · intro a ha b hb t hta htb
    have := h2 a ha b hb
    simp only [Bool.or_eq_true, beq_iff_eq, List.all_eq_true, Bool.not_eq_true', ] at this
    rcases this with h | h
    · exact h
    · have := h t hta
      rw [← Bool.not_eq_true, List.contains_iff_mem] at this
      exact absurd htb this
  · intro t ht a ha hta
    have := h3 t ht a ha
    simp only [Bool.not_eq_true'] at this
    rw [← Bool.not_eq_true, List.contains_iff_mem] at this
    exact this hta
  · have := h4 c.ret (List.mem_cons_self ..)
    simp only [Bool.not_eq_true'] at this
    exact structVal_false this
  · intro a ha t hta
    have := h4 t (List.mem_cons_of_mem _ (List.mem_flatMap.2 ⟨a, ha, hta⟩))
    simp only [Bool.not_eq_true'] at this
    exact structVal_false this

/-! ### where the migrated items come from -/

theorem kItem_origin {c : Cfg} (F : Faithful c) {ks} (hm : migrate c = some ks) {k : KItem} (hk : k ∈ ks)
    {t : Ty} {w} (hs : kItemSup t k = some w) :
    ∃ it ∈ c.items, t ∈ supplied it ∧
      (wireItemSup t it = some w ∨
        ∃ j impl g, it = .bind j impl ∧ t = .iface j ∧ Item.func g ∈ c.items ∧ g.result = impl ∧
          w = (g.name, g.params)) := by
  obtain ⟨it, hit, l, hl, hkl⟩ := (migrate_mem hm k).1 hk
  cases it with
  | func f =>
    simp only [migrateItem] at hl
    split at hl
    · cases hl; cases hkl
    · cases hl
      simp only [List.mem_singleton] at hkl; subst hkl
      simp only [kItemSup] at hs
      split at hs
      · rename_i hr
        refine ⟨_, hit, by simp [supplied, hr], Or.inl ?_⟩
        simpa [wireItemSup, hr] using hs
      · cases hs
  | bind j impl =>
    obtain ⟨n, f, hn, hf, hfr, hfi⟩ := F.bindOk j impl hit
    simp only [migrateItem, hn, hf, Option.map_some] at hl
    cases hl
    simp only [List.mem_singleton] at hkl; subst hkl
    simp only [kItemSup] at hs
    split at hs
    · cases hs
      rename_i hor
      by_cases hr : f.result = t
      · exact ⟨.func f, hfi, by simp [supplied, hr], Or.inl (by simp [wireItemSup, hr])⟩
      · have ht : t = .iface j := hor.resolve_left hr
        exact ⟨_, hit, by simp [supplied, ht], Or.inr ⟨j, impl, f, rfl, ht, hfi, hfr, rfl⟩⟩
    · cases hs
  | structP n fs =>
    simp only [migrateItem] at hl; cases hl
    simp only [List.mem_singleton] at hkl; subst hkl
    simp only [kItemSup] at hs
    split at hs
    · rename_i hr; cases hs
      refine ⟨_, hit, by simp [supplied, ← hr], Or.inl ?_⟩
      simp [wireItemSup, ← hr]
    · cases hs
  | fieldsOf n pf fs =>
    have hpf := F.fieldsPtr n pf fs hit; subst hpf
    simp only [migrateItem] at hl; cases hl
    simp only [List.mem_map] at hkl
    obtain ⟨ft, hft, rfl⟩ := hkl
    simp only [kItemSup] at hs
    split at hs
    · rename_i hr; cases hs; subst hr
      refine ⟨_, hit, by simpa [supplied] using hft, Or.inl ?_⟩
      simp [wireItemSup, hft]
    · cases hs

theorem kSupplier_args {c : Cfg} (F : Faithful c) {ks} (hm : migrate c = some ks) {t : Ty} (ht : t ∈ c.args) :
    kSupplier ks t = none := by
  rw [kSupplier_eq, List.findSome?_eq_none_iff]
  intro k hk
  cases hs : kItemSup t k with
  | none => rfl
  | some w =>
    obtain ⟨it, hit, hsup, _⟩ := kItem_origin F hm hk hs
    exact absurd hsup (F.argsFresh t ht it hit)

theorem kSupplier_of_wire {c : Cfg} (F : Faithful c) {ks} (hm : migrate c = some ks) {t : Ty} (hok : okTy c t)
    {it : Item} (hit : it ∈ c.items) {v} (hs : wireItemSup t it = some v) : kSupplier ks t = some v := by
  rw [kSupplier_eq]
  apply findSome?_eq_some_of_unique
  · cases it with
    | func f =>
      simp only [wireItemSup] at hs
      split at hs
      · rename_i hr; cases hs
        by_cases hb : (boundTypes c.items).contains f.result = true
        · rw [List.contains_iff_mem] at hb
          simp only [boundTypes, List.mem_filterMap] at hb
          obtain ⟨b, hbmem, hbe⟩ := hb
          cases b with
          | bind j impl =>
            simp only [Option.some.injEq] at hbe; subst hbe
            obtain ⟨n, g, hn, hg, hgr, hgi⟩ := F.bindOk j _ hbmem
            have : Item.func g = Item.func f :=
              F.uniq _ hgi _ hit f.result (by simp [supplied, hgr]) (by simp [supplied])
            cases this
            refine ⟨.bindProvide j f,
              (migrate_mem hm _).2 ⟨_, hbmem, [.bindProvide j f], by simp [migrateItem, hn, hg], by simp⟩, ?_⟩
            simp [kItemSup, hr]
          | _ => simp at hbe
        · have hb' : ¬ f.result ∈ boundTypes c.items := fun h => hb (List.contains_iff_mem.2 h)
          refine ⟨.provide f, (migrate_mem hm _).2 ⟨_, hit, [.provide f], by simp [migrateItem, hb'], by simp⟩, ?_⟩
          simp [kItemSup, hr]
      · cases hs
    | bind => simp [wireItemSup] at hs
    | structP n fs =>
      simp only [wireItemSup] at hs
      split at hs
      · rename_i hr; exact absurd hr (hok n fs hit)
      · split at hs
        · rename_i hr; cases hs
          refine ⟨.provide ⟨mkPtrName n, fs, .ptr n⟩, (migrate_mem hm _).2 ⟨_, hit, _, rfl, by simp⟩, ?_⟩
          simp [kItemSup, hr]
        · cases hs
    | fieldsOf n pf fs =>
      have hpf := F.fieldsPtr n pf fs hit; subst hpf
      simp only [wireItemSup] at hs
      split at hs
      · rename_i hr; cases hs
        rw [List.contains_iff_mem] at hr
        refine ⟨.provide ⟨fieldName, [.ptr n], t⟩, (migrate_mem hm _).2 ⟨_, hit, _, rfl, ?_⟩, ?_⟩
        · exact List.mem_map.2 ⟨t, hr, rfl⟩
        · simp [kItemSup]
      · cases hs
  · intro k hk w hw
    obtain ⟨it', hit', hsup', hor⟩ := kItem_origin F hm hk hw
    have : it' = it := F.uniq _ hit' _ hit t hsup' (wireItemSup_supplied hs)
    subst this
    rcases hor with h | ⟨j, impl, g, rfl, _⟩
    · rw [hs] at h; cases h; rfl
    · simp [wireItemSup] at hs

theorem kSupplier_bind {c : Cfg} (F : Faithful c) {ks} (hm : migrate c = some ks) {i : Nat} {impl : Ty}
    (hb : Item.bind i impl ∈ c.items) :
    ∃ n f, tyName impl = some n ∧ Item.func f ∈ c.items ∧ f.result = impl ∧
      kSupplier ks (.iface i) = some (f.name, f.params) := by
  obtain ⟨n, f, hn, hf, hfr, hfi⟩ := F.bindOk i impl hb
  refine ⟨n, f, hn, hfi, hfr, ?_⟩
  rw [kSupplier_eq]
  apply findSome?_eq_some_of_unique
  · exact ⟨.bindProvide i f,
      (migrate_mem hm _).2 ⟨_, hb, [.bindProvide i f], by simp [migrateItem, hn, hf], by simp⟩, by simp [kItemSup]⟩
  · intro k hk w hw
    obtain ⟨it', hit', hsup', hor⟩ := kItem_origin F hm hk hw
    have : it' = .bind i impl := F.uniq _ hit' _ hb _ hsup' (by simp [supplied])
    subst this
    rcases hor with h | ⟨j, impl', g, heq, _, hgi, hgr, rfl⟩
    · simp [wireItemSup] at h
    · cases heq
      have : Item.func g = Item.func f :=
        F.uniq _ hgi _ hfi impl (by simp [supplied, hgr]) (by simp [supplied, hfr])
      cases this; rfl

theorem wireSupplier_of_item {c : Cfg} (F : Faithful c) {t : Ty} {it : Item} {v} (hit : it ∈ c.items)
    (hs : wireItemSup t it = some v) : wireSupplier c.items t = some v := by
  rw [wireSupplier_eq]
  apply findSome?_eq_some_of_unique
  · exact ⟨it, hit, hs⟩
  · intro it' hit' w hw
    have : it' = it := F.uniq _ hit' _ hit t (wireItemSup_supplied hw) (wireItemSup_supplied hs)
    subst this; rw [hs] at hw; cases hw; rfl

theorem params_ok {c : Cfg} (F : Faithful c) {t : Ty} {it : Item} {name ps} (hit : it ∈ c.items)
    (hs : wireItemSup t it = some (name, ps)) : ∀ p ∈ ps, okTy c p := by
  intro p hp
  cases it with
  | func f =>
    simp only [wireItemSup] at hs
    split at hs
    · cases hs; exact F.consOk _ hit p (by simpa [consumed] using hp)
    · cases hs
  | bind => simp [wireItemSup] at hs
  | structP n fs =>
    simp only [wireItemSup] at hs
    split at hs
    · cases hs; exact F.consOk _ hit p (by simpa [consumed] using hp)
    · split at hs
      · cases hs; exact F.consOk _ hit p (by simpa [consumed] using hp)
      · cases hs
  | fieldsOf n pf fs =>
    have hpf := F.fieldsPtr n pf fs hit; subst hpf
    simp only [wireItemSup] at hs
    split at hs
    · cases hs
      simp only [if_true, List.mem_singleton] at hp; subst hp
      intro m fs' _ h; cases h
    · cases hs

/-! ### the evaluators -/

theorem kEval_succ (ks : List KItem) (fuel : Nat) (t : Ty) : kEval ks (fuel + 1) t =
    match kSupplier ks t with
    | some (name, ps) => .call name (ps.map (kEval ks fuel))
    | none => .arg t := by rw [kEval]; rfl

theorem wireEval_succ (c : Cfg) (fuel : Nat) (t : Ty) : wireEval c (fuel + 1) t =
    if c.args.contains t then .arg t
    else match wireBinding c.items t with
      | some impl => wireEval c fuel impl
      | none =>
        match wireSupplier c.items t with
        | some (name, ps) => .call name (ps.map (wireEval c fuel))
        | none => .missing t := by rw [wireEval]; rfl

theorem not_NoBot_bot : ¬ NoBot V.bot := by simp [NoBot, V.noBot]

/-- kessoku's evaluator is monotone in the fuel once it has produced a `bot`-free term -/
theorem kEval_mono (ks : List KItem) : ∀ fuel t, NoBot (kEval ks fuel t) → kEval ks (fuel + 1) t = kEval ks fuel t := by
  intro fuel
  induction fuel with
  | zero => intro t h; rw [kEval] at h; exact absurd h not_NoBot_bot
  | succ fuel ih =>
    intro t h
    have e1 := kEval_succ ks (fuel + 1) t
    have e2 := kEval_succ ks fuel t
    cases hsup : kSupplier ks t with
    | none => simp only [hsup] at e1 e2; rw [e1, e2]
    | some v =>
      obtain ⟨name, ps⟩ := v
      simp only [hsup] at e1 e2
      rw [e2] at h ⊢; rw [e1]
      congr 1
      apply List.map_congr_left
      intro p hp
      exact ih p (NoBot_call h p hp)

theorem migrate_faithful_aux (c : Cfg) (F : Faithful c) (ks : List KItem) (hm : migrate c = some ks) :
    ∀ fuel t, okTy c t → NoBot (wireEval c fuel t) → NoMissing (wireEval c fuel t) →
      kEval ks fuel t = wireEval c fuel t := by
  intro fuel
  induction fuel using Nat.strongRecOn with
  | _ fuel ih =>
  intro t hok hb hmi
  cases fuel with
  | zero => rw [wireEval] at hb; exact absurd hb not_NoBot_bot
  | succ fuel =>
    have ew := wireEval_succ c fuel t
    have ek := kEval_succ ks fuel t
    by_cases hargs : c.args.contains t = true
    · rw [if_pos hargs] at ew
      rw [kSupplier_args F hm (List.contains_iff_mem.1 hargs)] at ek
      rw [ew, ek]
    · rw [if_neg hargs] at ew
      cases hbnd : wireBinding c.items t with
      | some impl =>
        simp only [hbnd] at ew
        obtain ⟨i, rfl, hbmem⟩ := wireBinding_some hbnd
        obtain ⟨n, f, hn, hfi, hfr, hks⟩ := kSupplier_bind F hm hbmem
        rw [ew] at hb hmi ⊢
        simp only [hks] at ek
        rw [ek]
        cases fuel with
        | zero => rw [wireEval] at hb; exact absurd hb not_NoBot_bot
        | succ fuel =>
          have ew2 := wireEval_succ c fuel impl
          have hnarg : ¬ c.args.contains impl = true := by
            intro h
            exact F.argsFresh impl (List.contains_iff_mem.1 h) _ hfi (by simp [supplied, hfr])
          rw [if_neg hnarg, wireBinding_named hn] at ew2
          have hws : wireSupplier c.items impl = some (f.name, f.params) :=
            wireSupplier_of_item F hfi (by simp [wireItemSup, hfr])
          simp only [hws] at ew2
          rw [ew2] at hb hmi ⊢
          congr 1
          apply List.map_congr_left
          intro p hp
          have hbp := NoBot_call hb p hp
          have hmp := NoMissing_call hmi p hp
          have hokp : okTy c p := F.consOk _ hfi p (by simpa [consumed] using hp)
          have e := ih fuel (by omega) p hokp hbp hmp
          rw [kEval_mono ks fuel p (by rw [e]; exact hbp), e]
      | none =>
        simp only [hbnd] at ew
        cases hsup : wireSupplier c.items t with
        | none =>
          simp only [hsup] at ew; rw [ew] at hmi
          simp [NoMissing, V.noMissing] at hmi
        | some v =>
          obtain ⟨name, ps⟩ := v
          simp only [hsup] at ew
          rw [wireSupplier_eq] at hsup
          obtain ⟨it, hit, hs⟩ := List.exists_of_findSome?_eq_some hsup
          have hks := kSupplier_of_wire F hm hok hit hs
          simp only [hks] at ek
          rw [ew] at hb hmi ⊢; rw [ek]
          congr 1
          apply List.map_congr_left
          intro p hp
          exact ih fuel (by omega) p (params_ok F hit hs p hp) (NoBot_call hb p hp) (NoMissing_call hmi p hp)

/-! ### main theorems -/

/-- on a faithful configuration the migration does not refuse -/
theorem migrate_faithful_some (c : Cfg) (h : faithful c = true) : (migrate c).isSome := by
  have F := Faithful.of_bool h
  rw [migrate_eq]
  apply foldl_migStep_some
  intro it hit
  cases it with
  | func f => simp only [migrateItem]; split <;> rfl
  | bind i impl =>
    obtain ⟨n, f, hn, hf, _, _⟩ := F.bindOk i impl hit
    simp [migrateItem, hn, hf]
  | structP n fs => rfl
  | fieldsOf n pf fs => rfl

/-- **Faithfulness of the migration**, for every requested type `t` that is not the value form `T` of a listed
    `wire.Struct(new(T), …)` (that hypothesis is necessary: see `C13.cfgValRequest`). -/
theorem migrate_faithful (c : Cfg) (h : faithful c = true) (ks : List KItem) (hm : migrate c = some ks) :
    ∀ fuel t, structVal c t = false → NoBot (wireEval c fuel t) → NoMissing (wireEval c fuel t) →
      kEval ks fuel t = wireEval c fuel t :=
  fun fuel t ht => migrate_faithful_aux c (Faithful.of_bool h) ks hm fuel t (structVal_false ht)

/-- the injector's own result type needs no side condition: `faithful` already forbids requesting a struct value -/
theorem migrate_faithful_ret (c : Cfg) (h : faithful c = true) (ks : List KItem) (hm : migrate c = some ks) :
    ∀ fuel, NoBot (wireEval c fuel c.ret) → NoMissing (wireEval c fuel c.ret) →
      kEval ks fuel c.ret = wireEval c fuel c.ret :=
  fun fuel => migrate_faithful_aux c (Faithful.of_bool h) ks hm fuel c.ret (Faithful.of_bool h).retOk

/-! ### in the vocabulary of `C13_statement` -/

theorem migratedEval_of_migrate {c : Cfg} {ks : List KItem} (hm : migrate c = some ks) (fuel : Nat) :
    migratedEval c fuel = kEval ks fuel c.ret := by
  simp [migratedEval, hm]

/-- on a faithful configuration the migration succeeds and, whenever wire's own solver produces a complete term
    (enough fuel, nothing missing), the migrated injector computes the same term -/
theorem migratedEval_faithful (c : Cfg) (h : faithful c = true) :
    (migrate c).isSome ∧
    ∀ fuel, NoBot (wireEval c fuel c.ret) → NoMissing (wireEval c fuel c.ret) →
      migratedEval c fuel = wireEval c fuel c.ret := by
  have hs := migrate_faithful_some c h
  refine ⟨hs, ?_⟩
  obtain ⟨ks, hm⟩ := Option.isSome_iff_exists.1 hs
  intro fuel hb hmi
  rw [migratedEval_of_migrate hm]
  exact migrate_faithful_ret c h ks hm fuel hb hmi

mutual
theorem V.beq_refl : ∀ v : V, V.beq v v = true
  | .arg a => by simp [V.beq]
  | .call n as => by simp [V.beq, V.beqL_refl as]
  | .missing a => by simp [V.beq]
  | .bot => by simp [V.beq]
theorem V.beqL_refl : ∀ l : List V, V.beqL l l = true
  | [] => by simp [V.beqL]
  | a :: as => by simp [V.beqL, V.beq_refl a, V.beqL_refl as]
end

end Wire
