import KV.FailProps
/-! # Negation witnesses for the known defects K6 (C06), K7 (C07), K8 (C08)

Each witness is a concrete program **that is the emission of a concrete accepted declaration** (checked by
evaluating `KV.plan` and `KV.emittedF` in the kernel, `decide`), plus a concrete run given as a `T1F.Reach`
derivation built step by step, plus the stuckness claim proved by case analysis on `T1F.Step`.

Type keys: `0 = context.Context`; provider `i` of a declaration provides type `i + 1`. -/
namespace KV.Witness
open T1F

/-- what the kernel evaluates: threads, `retErr` and the side condition of the emitted program -/
def planSummary (provs : List PSpec) (ret : Nat) : Option (List (List Op) × Bool × Bool) :=
  match plan provs ret with
  | .ok p => some ((emittedF p).threads, (emittedF p).retErr, AllWaitsCtxAware p)
  | .error _ => none

theorem planSummary_spec {provs : List PSpec} {ret : Nat} {thr : List (List Op)} {re a : Bool}
    (h : planSummary provs ret = some (thr, re, a)) :
    ∃ p, plan provs ret = .ok p ∧ emittedF p = ⟨thr, re⟩ ∧ AllWaitsCtxAware p = a := by
  unfold planSummary at h
  split at h
  · rename_i p hp
    cases h
    exact ⟨p, hp, rfl, rfl⟩
  · cases h

/-! ## K6 — an errgroup cancellation is reported as `ctx.Err()` although the caller never cancelled

Declaration: `A` async, `B` async returning `error`, `C(A, B)`; the injector returns `(C, error)`.
`B` runs in the goroutine, `A` and `C` in the main thread; `C` waits (ctx-aware) for `B`'s channel. -/

def provsK6 : List PSpec :=
  [{ provides := [[1]], isAsync := true }, { provides := [[2]], isAsync := true, isErr := true },
   { requires := [1, 2], provides := [[3]] }]

def K6 : Prog :=
  ⟨[[.spawn 1, .enter 1 [], .exit 1 [0] false, .wait 0 1 true, .enter 0 [0, 1], .exit 0 [2] false, .egwait, .ret 2],
    [.enter 2 [], .exit 2 [1] true, .close 2 1]], true⟩

/-- `K6` is the program emitted for `provsK6` (an accepted declaration satisfying `AllWaitsCtxAware`) -/
theorem K6_is_emitted : ∃ p, plan provsK6 3 = .ok p ∧ emittedF p = K6 ∧ AllWaitsCtxAware p = true :=
  planSummary_spec (by decide +kernel)

/-- only `B` (node 2) fails -/
def envK6 : Env := ⟨fun o => o == 2⟩

def sK6 : St :=
  { pcs := [3, 1], fin := [some (.err .ctx), some (.err (.prov 2))], egErr := some (.prov 2), egCanc := true,
    callerCanc := false, result := some (some .ctx) }

theorem K6_reach : Reach K6 envK6 sK6 := by
  have h0 : Reach K6 envK6 ⟨[0, 0], [none, none], none, false, false, none⟩ := Reach.init
  -- main: go func
  have h1 : Reach K6 envK6 ⟨[1, 0], [none, none], none, false, false, none⟩ :=
    Reach.step h0 (Step.spawn (g := 1) rfl rfl)
  -- goroutine: call B
  have h2 : Reach K6 envK6 ⟨[1, 1], [none, none], none, false, false, none⟩ :=
    Reach.step h1 (Step.enter (t := 1) (o := 2) (args := []) (by decide) rfl (Or.inr ⟨0, rfl, by decide⟩) rfl)
  -- B fails: the errgroup records the error and cancels the derived context
  have h3 : Reach K6 envK6 ⟨[1, 1], [none, some (.err (.prov 2))], some (.prov 2), true, false, none⟩ :=
    Reach.step h2 (Step.exitFail (t := 1) (o := 2) (rets := [1]) (by decide) rfl (Or.inr ⟨0, rfl, by decide⟩) rfl rfl)
  -- main: A runs and returns
  have h4 : Reach K6 envK6 ⟨[2, 1], [none, some (.err (.prov 2))], some (.prov 2), true, false, none⟩ :=
    Reach.step h3 (Step.enter (t := 0) (o := 1) (args := []) (by decide) rfl (Or.inl rfl) rfl)
  have h5 : Reach K6 envK6 ⟨[3, 1], [none, some (.err (.prov 2))], some (.prov 2), true, false, none⟩ :=
    Reach.step h4 (Step.exitOk (t := 0) (o := 1) (rets := [0]) (f := false) (by decide) rfl (Or.inl rfl) rfl rfl)
  -- main: select { <-bCh ; <-ctx.Done(): return ctx.Err() } takes the second branch
  exact Reach.step h5 (Step.waitCtx (t := 0) (o := 0) (c := 1) (by decide) rfl (Or.inl rfl) rfl rfl)

/-- **K6**: a reachable state of an accepted declaration's program in which the injector returned the context
    error, the caller never cancelled, and the provider that did fail was `B` — the returned error is not the
    failed provider's error (the exception clause of `C06_identity_partial` is really needed). -/
theorem K6_witness :
    Reach K6 envK6 sK6 ∧ sK6.result = some (some .ctx) ∧ sK6.callerCanc = false ∧
    finOf sK6 1 = some (.err (.prov 2)) ∧ ¬ (∃ o, Err.ctx = .prov o ∧ envK6.fails o = true) :=
  ⟨K6_reach, rfl, rfl, rfl, fun ⟨_, h, _⟩ => by cases h⟩

/-! ## K7 — without an `error` result the main thread's waits are plain receives: it can block forever

Declaration: `A` async, `B(A)` async, `C(A)` async, `D(A, B, C)`; the injector returns `D` only (no `error`).
`A`, `B`, `D` are in the main thread, `C` in the goroutine; `C` waits (ctx-aware) for `A`'s channel, `D` waits
(plain receive — there is no error to return) for `C`'s channel. -/

def provsK7 : List PSpec :=
  [{ provides := [[1]], isAsync := true }, { requires := [1], provides := [[2]], isAsync := true },
   { requires := [1], provides := [[3]], isAsync := true }, { requires := [1, 2, 3], provides := [[4]] }]

def K7 : Prog :=
  ⟨[[.spawn 1, .enter 1 [], .exit 1 [0] false, .close 1 0, .enter 2 [0], .exit 2 [1] false, .wait 0 2 false,
     .enter 0 [0, 1, 2], .exit 0 [3] false, .egwait, .ret 3],
    [.wait 3 0 true, .enter 3 [0], .exit 3 [2] false, .close 3 2]], false⟩

/-- `K7` is the program emitted for `provsK7`; it violates `AllWaitsCtxAware` -/
theorem K7_is_emitted : ∃ p, plan provsK7 4 = .ok p ∧ emittedF p = K7 ∧ AllWaitsCtxAware p = false :=
  planSummary_spec (by decide +kernel)

def sK7 : St :=
  { pcs := [6, 0], fin := [none, some (.err .ctx)], egErr := some .ctx, egCanc := true,
    callerCanc := true, result := none }

theorem K7_reach (env : Env) : Reach K7 env sK7 := by
  have h0 : Reach K7 env ⟨[0, 0], [none, none], none, false, false, none⟩ := Reach.init
  have h1 : Reach K7 env ⟨[1, 0], [none, none], none, false, false, none⟩ :=
    Reach.step h0 (Step.spawn (g := 1) rfl rfl)
  -- the caller cancels
  have h2 : Reach K7 env ⟨[1, 0], [none, none], none, false, true, none⟩ := Reach.step h1 Step.cancel
  -- the goroutine leaves through its ctx-aware wait for A
  have h3 : Reach K7 env ⟨[1, 0], [none, some (.err .ctx)], some .ctx, true, true, none⟩ :=
    Reach.step h2 (Step.waitCtx (t := 1) (o := 3) (c := 0) (by decide) rfl (Or.inr ⟨0, rfl, by decide⟩) rfl rfl)
  -- main: A, close(aCh), B
  have h4 : Reach K7 env ⟨[2, 0], [none, some (.err .ctx)], some .ctx, true, true, none⟩ :=
    Reach.step h3 (Step.enter (t := 0) (o := 1) (args := []) (by decide) rfl (Or.inl rfl) rfl)
  have h5 : Reach K7 env ⟨[3, 0], [none, some (.err .ctx)], some .ctx, true, true, none⟩ :=
    Reach.step h4 (Step.exitOk (t := 0) (o := 1) (rets := [0]) (f := false) (by decide) rfl (Or.inl rfl) rfl rfl)
  have h6 : Reach K7 env ⟨[4, 0], [none, some (.err .ctx)], some .ctx, true, true, none⟩ :=
    Reach.step h5 (Step.close (t := 0) (o := 1) (c := 0) (by decide) rfl (Or.inl rfl) rfl)
  have h7 : Reach K7 env ⟨[5, 0], [none, some (.err .ctx)], some .ctx, true, true, none⟩ :=
    Reach.step h6 (Step.enter (t := 0) (o := 2) (args := [0]) (by decide) rfl (Or.inl rfl) rfl)
  exact Reach.step h7 (Step.exitOk (t := 0) (o := 2) (rets := [1]) (f := false) (by decide) rfl (Or.inl rfl) rfl rfl)

theorem K7_only_main {t : Nat} (htl : t < K7.threads.length) (hrun : running sK7 t) : t = 0 := by
  match t, htl, hrun with
  | 0, _, _ => rfl
  | 1, _, hrun => exact absurd hrun (by unfold running; decide)
  | _ + 2, htl, _ => exact absurd htl (by simp [K7])

theorem K7_op_main : opAt K7 0 (pc sK7 0) = some (.wait 0 2 false) := rfl

/-- the channel of `C` is never closed: the only `close` of channel 2 is the last op of the goroutine, which ended
    at its first op -/
theorem K7_not_closed : ¬ closed K7 sK7 2 := by
  intro ⟨t, j, o, h1, h2⟩
  match t, j, h1, h2 with
  | 0, 0, h1, _ => cases h1
  | 0, 1, h1, _ => cases h1
  | 0, 2, h1, _ => cases h1
  | 0, 3, h1, _ => cases h1
  | 0, 4, h1, _ => cases h1
  | 0, 5, h1, _ => cases h1
  | 0, _ + 6, _, h2 => exact absurd h2 (by simp [pc, sK7])
  | 1, _, _, h2 => exact absurd h2 (by simp [pc, sK7])
  | _ + 2, _, h1, _ => simp [opAt, thread, K7] at h1

/-- every step from `sK7` leads back to `sK7`: nothing ever changes again -/
theorem K7_stuck (env : Env) {s' : St} (h : Step K7 env sK7 s') : s' = sK7 := by
  cases h with
  | waitOk htl hrun _ hop hcl =>
    obtain rfl := K7_only_main htl hrun
    rw [K7_op_main] at hop; cases hop
    exact absurd hcl K7_not_closed
  | waitCtx htl hrun _ hop _ => obtain rfl := K7_only_main htl hrun; rw [K7_op_main] at hop; cases hop
  | enter htl hrun _ hop => obtain rfl := K7_only_main htl hrun; rw [K7_op_main] at hop; cases hop
  | exitOk htl hrun _ hop _ => obtain rfl := K7_only_main htl hrun; rw [K7_op_main] at hop; cases hop
  | exitFail htl hrun _ hop _ => obtain rfl := K7_only_main htl hrun; rw [K7_op_main] at hop; cases hop
  | close htl hrun _ hop => obtain rfl := K7_only_main htl hrun; rw [K7_op_main] at hop; cases hop
  | spawn _ hop => rw [K7_op_main] at hop; cases hop
  | egwait _ hop _ => rw [K7_op_main] at hop; cases hop
  | ret _ hop => rw [K7_op_main] at hop; cases hop
  | goEnd ht0 htl hrun _ _ => have := K7_only_main htl hrun; omega
  | cancel => rfl

/-- **K7**: a reachable state of an accepted declaration's program (for every failure set `env`) in which the
    injector has not returned, and never will: every step leaves the state unchanged, there is no `Progress`.
    So `C06_terminates` / `C07_with_error` are false without `AllWaitsCtxAware` (here: without an `error` result). -/
theorem K7_witness (env : Env) :
    Reach K7 env sK7 ∧ running sK7 0 ∧ sK7.result = none ∧ (∀ s', Step K7 env sK7 s' → s' = sK7) ∧
    ¬ Progress K7 env sK7 := by
  refine ⟨K7_reach env, rfl, rfl, fun s' h => K7_stuck env h, ?_⟩
  intro ⟨s', hs, hm⟩
  have := K7_stuck env hs
  subst this
  rcases hm with ⟨t, ht⟩ | ⟨t, h1, h2⟩
  · omega
  · exact h2 h1

/-! ## K8 — a failing main-thread provider returns without cancelling: a goroutine leaks

Declaration: `S` returning `error`, `A(S)` async, `B(S)` async, `C(A, B)`; the injector returns `(C, error)`.
`S` and `A` are in the main thread, `B` and `C` in the goroutine; `B` waits (ctx-aware) for `S`'s channel. -/

def provsK8 : List PSpec :=
  [{ provides := [[1]], isErr := true }, { requires := [1], provides := [[2]], isAsync := true },
   { requires := [1], provides := [[3]], isAsync := true }, { requires := [2, 3], provides := [[4]] }]

def K8 : Prog :=
  ⟨[[.spawn 1, .enter 3 [], .exit 3 [0] true, .close 3 0, .enter 1 [0], .exit 1 [1] false, .close 1 1, .egwait, .ret 3],
    [.wait 2 0 true, .enter 2 [0], .exit 2 [2] false, .wait 0 1 true, .enter 0 [1, 2], .exit 0 [3] false]], true⟩

/-- `K8` is the program emitted for `provsK8` (an accepted declaration satisfying `AllWaitsCtxAware`) -/
theorem K8_is_emitted : ∃ p, plan provsK8 4 = .ok p ∧ emittedF p = K8 ∧ AllWaitsCtxAware p = true :=
  planSummary_spec (by decide +kernel)

/-- only `S` (node 3) fails -/
def envK8 : Env := ⟨fun o => o == 3⟩

def sK8 : St :=
  { pcs := [2, 0], fin := [some (.err (.prov 3)), none], egErr := none, egCanc := false,
    callerCanc := false, result := some (some (.prov 3)) }

theorem K8_reach : Reach K8 envK8 sK8 := by
  have h0 : Reach K8 envK8 ⟨[0, 0], [none, none], none, false, false, none⟩ := Reach.init
  have h1 : Reach K8 envK8 ⟨[1, 0], [none, none], none, false, false, none⟩ :=
    Reach.step h0 (Step.spawn (g := 1) rfl rfl)
  have h2 : Reach K8 envK8 ⟨[2, 0], [none, none], none, false, false, none⟩ :=
    Reach.step h1 (Step.enter (t := 0) (o := 3) (args := []) (by decide) rfl (Or.inl rfl) rfl)
  -- S fails: `return zero, err` — the derived context is not cancelled
  exact Reach.step h2 (Step.exitFail (t := 0) (o := 3) (rets := [0]) (by decide) rfl (Or.inl rfl) rfl rfl)

theorem K8_only_go {t : Nat} (htl : t < K8.threads.length) (hrun : running sK8 t) : t = 1 := by
  match t, htl, hrun with
  | 0, _, hrun => exact absurd hrun (by unfold running; decide)
  | 1, _, _ => rfl
  | _ + 2, htl, _ => exact absurd htl (by simp [K8])

theorem K8_op_go : opAt K8 1 (pc sK8 1) = some (.wait 2 0 true) := rfl

theorem K8_not_closed : ¬ closed K8 sK8 0 := by
  intro ⟨t, j, o, h1, h2⟩
  match t, j, h1, h2 with
  | 0, 0, h1, _ => cases h1
  | 0, 1, h1, _ => cases h1
  | 0, _ + 2, _, h2 => exact absurd h2 (by simp [pc, sK8])
  | 1, _, _, h2 => exact absurd h2 (by simp [pc, sK8])
  | _ + 2, _, h1, _ => simp [opAt, thread, K8] at h1

/-- the only step possible from `sK8` is a cancellation by the caller -/
theorem K8_stuck {s' : St} (h : Step K8 envK8 sK8 s') : s' = { sK8 with callerCanc := true } := by
  cases h with
  | waitOk htl hrun _ hop hcl =>
    obtain rfl := K8_only_go htl hrun
    rw [K8_op_go] at hop; cases hop
    exact absurd hcl K8_not_closed
  | waitCtx htl hrun _ hop hcd =>
    obtain rfl := K8_only_go htl hrun
    exact absurd hcd (by decide)
  | enter htl hrun _ hop => obtain rfl := K8_only_go htl hrun; rw [K8_op_go] at hop; cases hop
  | exitOk htl hrun _ hop _ => obtain rfl := K8_only_go htl hrun; rw [K8_op_go] at hop; cases hop
  | exitFail htl hrun _ hop _ => obtain rfl := K8_only_go htl hrun; rw [K8_op_go] at hop; cases hop
  | close htl hrun _ hop => obtain rfl := K8_only_go htl hrun; rw [K8_op_go] at hop; cases hop
  | spawn hrun _ => exact absurd hrun (by unfold running; decide)
  | egwait hrun _ _ => exact absurd hrun (by unfold running; decide)
  | ret hrun _ => exact absurd hrun (by unfold running; decide)
  | goEnd _ htl hrun _ hop => obtain rfl := K8_only_go htl hrun; rw [K8_op_go] at hop; cases hop
  | cancel => rfl

/-- **K8**: a reachable state of an accepted declaration's program in which the injector has returned (the
    error of the failed main-thread provider), the caller has not cancelled, the derived context is not done,
    and the spawned goroutine is still running, blocked in its wait for the channel of the failed provider:
    no step but a caller cancellation is possible, there is no `Progress`.  This is exactly the case
    `ctxDone s = false` that `C08_partial` does not cover. -/
theorem K8_witness :
    Reach K8 envK8 sK8 ∧ sK8.result ≠ none ∧ sK8.callerCanc = false ∧ ctxDone sK8 = false ∧
    running sK8 1 ∧ spawned K8 sK8 1 ∧ opAt K8 1 (pc sK8 1) = some (.wait 2 0 true) ∧
    (∀ s', Step K8 envK8 sK8 s' → s' = { sK8 with callerCanc := true }) ∧ ¬ Progress K8 envK8 sK8 := by
  refine ⟨K8_reach, by decide, rfl, rfl, rfl, Or.inr ⟨0, rfl, by decide⟩, rfl, fun s' h => K8_stuck h, ?_⟩
  intro ⟨s', hs, hm⟩
  have := K8_stuck hs
  subst this
  rcases hm with ⟨t, ht⟩ | ⟨t, h1, h2⟩
  · have : pc { sK8 with callerCanc := true } t = pc sK8 t := rfl
    omega
  · exact h2 h1

end KV.Witness
