import KV.EmittedF
/-! # C06 / C07 / C08 — provider failures, errgroup cancellation and caller cancellation, for every accepted
    declaration

`KV.emittedF p` is the program the generator emits for the plan `p` **with** its failure / cancellation flags
(ctx-aware waits, fallible exits, `retErr`), `T1F.Reach (emittedF p) env s` is reachability under *every*
interleaving, *every* set of failing providers (`env.fails`) and *every* caller-cancellation point
(`Step.cancel` is enabled in every state).

Side conditions.  `AllWaitsCtxAware p` (decidable, on the plan; it is *equivalent* to the `waitsCtx` field of
`T1F.WF (emittedF p)`, see `KV.allWaitsCtxAware_iff`) is needed **only** by `C06_terminates` (and hence
`C07_with_error`, where it follows from `hasAsyncNodes ∧ isErr`) and by `C08_partial`; `C08_partial_go` needs only
the weaker `GoWaitsCtxAware p`.  `C06_nonnil`, `C06_identity_partial`, `C06_no_dependent*`, `C07_value_complete`
need no side condition at all. -/

namespace T1F

/-! ### two prototype theorems under weaker hypotheses than the full `WF` -/

theorem rank_le_of_idx_le_sorted {P : Prog} {rank : Op → Nat}
    (hs : ∀ t, (thread P t).Pairwise (fun a b => rank a ≤ rank b)) {t i j : Nat} {a b : Op}
    (ha : opAt P t i = some a) (hb : opAt P t j = some b) (hij : i ≤ j) : rank a ≤ rank b := by
  by_cases h : i = j
  · subst h; rw [ha] at hb; cases hb; exact Nat.le_refl _
  · have hlt : i < j := by omega
    have hs := hs t
    rw [List.pairwise_iff_getElem] at hs
    simp only [opAt] at ha hb
    have hi : i < (thread P t).length := by
      apply Classical.byContradiction; intro hc
      simp [List.getElem?_eq_none (Nat.le_of_not_lt hc)] at ha
    have hj : j < (thread P t).length := by
      apply Classical.byContradiction; intro hc
      simp [List.getElem?_eq_none (Nat.le_of_not_lt hc)] at hb
    have := hs i j hi hj hlt
    rw [List.getElem?_eq_getElem hi] at ha
    rw [List.getElem?_eq_getElem hj] at hb
    cases ha; cases hb; exact this

theorem idx_lt_of_rank_lt_sorted {P : Prog} {rank : Op → Nat}
    (hs : ∀ t, (thread P t).Pairwise (fun a b => rank a ≤ rank b)) {t i j : Nat} {a b : Op}
    (ha : opAt P t i = some a) (hb : opAt P t j = some b) (hr : rank a < rank b) : i < j := by
  apply Classical.byContradiction; intro hc
  have := rank_le_of_idx_le_sorted hs hb ha (by omega)
  omega

/-- `enter_after_writes` needs only the rank-sortedness of the threads, not the whole `WF` (in particular it
    does not need the waits to be ctx-aware). -/
theorem enter_after_writes_sorted {P : Prog} {env : Env} {rank : Op → Nat} {isParam : Nat → Prop}
    (hs : ∀ t, (thread P t).Pairwise (fun a b => rank a ≤ rank b)) (hd : WFData P rank isParam)
    {s : St} (hr : Reach P env s) {t o : Nat} {args : List Nat} {v : Nat}
    (hop : opAt P t (pc s t) = some (.enter o args)) (hv : v ∈ args) (hnp : ¬ isParam v) :
    written P s v := by
  obtain ⟨t', o', rets, f, hex, hvr, hcase⟩ := hd.reads t o args v (opAt_mem hop) hv hnp
  obtain ⟨i, hi⟩ := mem_opAt hex
  rcases hcase with ⟨ht, hrk⟩ | ⟨⟨ow, k, hwt, hrw⟩, ⟨oc, hcl, hrc⟩⟩
  · subst ht
    exact ⟨t', i, o', rets, f, hi, hvr, idx_lt_of_rank_lt_sorted hs hi hop hrk⟩
  · obtain ⟨jw, hjw⟩ := mem_opAt hwt
    have hjw_lt : jw < pc s t := idx_lt_of_rank_lt_sorted hs hjw hop hrw
    obtain ⟨t'', kk, oc', hk, hklt⟩ := invA_reach hr t jw ow v k hjw_lt hjw
    obtain ⟨h1, h2⟩ := hd.closeUnique v t' oc t'' oc' hcl (opAt_mem hk)
    subst h1; subst h2
    have : i < kk := idx_lt_of_rank_lt_sorted hs hi hk hrc
    exact ⟨t', i, o', rets, f, hi, hvr, by omega⟩

/-- an executed `exit` did not fail: a failing `exit` ends its thread without advancing the counter -/
def InvW (P : Prog) (env : Env) (s : St) : Prop :=
  ∀ t j o rets f, j < pc s t → opAt P t j = some (.exit o rets f) → (f && env.fails o) = false

theorem invW_advance {P : Prog} {env : Env} {s : St} {t : Nat} (h : InvW P env s) (hl : t < s.pcs.length)
    (hop : ∀ o rets f, opAt P t (pc s t) = some (.exit o rets f) → (f && env.fails o) = false) :
    InvW P env (advance s t) := by
  intro u j o rets f hj hw
  by_cases hu : u = t
  · subst hu
    rw [pc_advance_self hl] at hj
    by_cases hjl : j < pc s u
    · exact h u j o rets f hjl hw
    · have : j = pc s u := by omega
      subst this
      exact hop o rets f hw
  · rw [pc_advance_other hu] at hj
    exact h u j o rets f hj hw

theorem invW_samepcs {P : Prog} {env : Env} {s s' : St} (h : InvW P env s) (hp : ∀ u, pc s' u = pc s u) :
    InvW P env s' := by
  intro u j o rets f hj hw
  rw [hp u] at hj
  exact h u j o rets f hj hw

theorem invW_reach {P : Prog} {env : Env} {s : St} (h : Reach P env s) : InvW P env s := by
  induction h with
  | init =>
    intro t j o rets f hj
    rw [init_pc] at hj; omega
  | @step s s' hr hs ih =>
    have hsh := shape_reach hr
    cases hs with
    | @waitOk t o c k htl _ _ hop hcl =>
      apply invW_advance ih (by rw [hsh.lenP]; exact htl)
      intro o' r' f' h'; rw [hop] at h'; cases h'
    | waitCtx => exact invW_samepcs ih (fun u => pc_finish _ _ u _)
    | @enter t o args htl _ _ hop =>
      apply invW_advance ih (by rw [hsh.lenP]; exact htl)
      intro o' r' f' h'; rw [hop] at h'; cases h'
    | @exitOk t o rets f htl _ _ hop hok =>
      apply invW_advance ih (by rw [hsh.lenP]; exact htl)
      intro o' r' f' h'; rw [hop] at h'; cases h'; exact hok
    | exitFail => exact invW_samepcs ih (fun u => pc_finish _ _ u _)
    | @close t o c htl _ _ hop =>
      apply invW_advance ih (by rw [hsh.lenP]; exact htl)
      intro o' r' f' h'; rw [hop] at h'; cases h'
    | @spawn g _ hop =>
      have h0 : 0 < s.pcs.length := by rw [hsh.lenP]; exact zero_lt_of_opAt hop
      apply invW_advance ih h0
      intro o' r' f' h'; rw [hop] at h'; cases h'
    | @egwait _ hop _ =>
      have h0 : 0 < s.pcs.length := by rw [hsh.lenP]; exact zero_lt_of_opAt hop
      have := invW_advance (env := env) ih h0 (by intro o' r' f' h'; rw [hop] at h'; cases h')
      exact invW_samepcs this (fun u => rfl)
    | ret =>
      exact invW_samepcs ih (fun u => by
        show pc _ u = _
        unfold pc
        rw [show ({ (finish s 0 .ok) with result := _ } : St).pcs = (finish s 0 .ok).pcs from rfl, finish_pcs])
    | goEnd => exact invW_samepcs ih (fun u => pc_finish _ _ u _)
    | cancel => exact invW_samepcs ih (fun u => rfl)

/-- `v` was written by a provider call that **returned successfully** -/
def writtenOk (P : Prog) (env : Env) (s : St) (v : Nat) : Prop :=
  ∃ t j o rets f, opAt P t j = some (.exit o rets f) ∧ v ∈ rets ∧ j < pc s t ∧ (f && env.fails o) = false

theorem writtenOk_of_written {P : Prog} {env : Env} {s : St} (hr : Reach P env s) {v : Nat}
    (h : written P s v) : writtenOk P env s v := by
  obtain ⟨t, j, o, rets, f, h1, h2, h3⟩ := h
  exact ⟨t, j, o, rets, f, h1, h2, h3, invW_reach hr t j o rets f h3 h1⟩

/-- a running, spawned goroutine whose waits are ctx-aware can take a step **by itself** once the derived
    context is done (it advances or it ends). Needs `mainOnly` and the ctx-awareness of *its own* waits only. -/
theorem goroutine_self_moves {P : Prog} {env : Env}
    (hmain : ∀ t op, op ∈ thread P t → (op = .egwait ∨ (∃ v, op = .ret v) ∨ (∃ g, op = .spawn g)) → t = 0)
    {s : St} (hsh : Shape P s) (hcd : ctxDone s = true) {t : Nat} (ht0 : 0 < t) (htl : t < P.threads.length)
    (hctx : ∀ o c k, Op.wait o c k ∈ thread P t → k = true)
    (hrun : running s t) (hsp : spawned P s t) :
    ∃ s', Step P env s s' ∧ (pc s' t = pc s t + 1 ∨ finOf s' t ≠ none) := by
  have htP : t < s.pcs.length := by rw [hsh.lenP]; exact htl
  have htF : t < s.fin.length := by rw [hsh.lenF]; exact htl
  have hfin : ∀ f, finOf (finish s t f) t ≠ none := by
    intro f; rw [finOf_finish_self _ _ _ htF]; simp
  cases hop : opAt P t (pc s t) with
  | none => exact ⟨_, Step.goEnd ht0 htl hrun hsp hop, Or.inr (hfin _)⟩
  | some op =>
    cases op with
    | wait o c k =>
      have hk : k = true := hctx o c k (opAt_mem hop)
      subst hk
      exact ⟨_, Step.waitCtx htl hrun hsp hop hcd, Or.inr (hfin _)⟩
    | enter o args => exact ⟨_, Step.enter htl hrun hsp hop, Or.inl (pc_advance_self htP)⟩
    | exit o rets f =>
      by_cases hfail : (f && env.fails o) = true
      · simp only [Bool.and_eq_true] at hfail
        obtain ⟨hf, hfo⟩ := hfail
        subst hf
        exact ⟨_, Step.exitFail htl hrun hsp hop hfo, Or.inr (hfin _)⟩
      · exact ⟨_, Step.exitOk htl hrun hsp hop (by simpa using hfail), Or.inl (pc_advance_self htP)⟩
    | close o c => exact ⟨_, Step.close htl hrun hsp hop, Or.inl (pc_advance_self htP)⟩
    | spawn g =>
      have := hmain t _ (opAt_mem hop) (Or.inr (Or.inr ⟨g, rfl⟩)); omega
    | egwait =>
      have := hmain t _ (opAt_mem hop) (Or.inl rfl); omega
    | ret v =>
      have := hmain t _ (opAt_mem hop) (Or.inr (Or.inl ⟨v, rfl⟩)); omega

end T1F

open KV
