import KV.AcceptKahn
/-! # C09, acceptance direction — `build2` and `buildStmts2` do not fail on a complete Kahn order

* `build2_ok`: `build2` fails (with `noReturn`) only if the return node is missing from the Kahn order;
* `maxAntichain_pos`: a non-empty sound Kahn order starts with a node without requirements, so at least one pool
  is allocated;
* `buildStmts2_ok`: if every node is in the Kahn order and there is at least one provider node, the pool of the
  first provider node of the order is an initial pool, so `buildStmts2` does not fail with `noInitial`. -/
namespace KV

theorem split_first {α} (p : α → Prop) [DecidablePred p] (l : List α) (h : ∃ x ∈ l, p x) :
    ∃ pre x post, l = pre ++ x :: post ∧ p x ∧ ∀ y ∈ pre, ¬ p y := by
  induction l with
  | nil => obtain ⟨x, hx, _⟩ := h; cases hx
  | cons a as ih =>
    by_cases ha : p a
    · exact ⟨[], a, as, rfl, ha, fun y hy => by cases hy⟩
    · obtain ⟨x, hx, hpx⟩ := h
      rcases List.mem_cons.mp hx with hxa | hx
      · rw [hxa] at hpx; exact absurd hpx ha
      · obtain ⟨pre, y, post, hsplit, hy, hpre⟩ := ih ⟨x, hx, hpx⟩
        refine ⟨a :: pre, y, post, by rw [hsplit]; rfl, hy, ?_⟩
        intro z hz
        rcases List.mem_cons.mp hz with hza | hz
        · rw [hza]; exact ha
        · exact hpre z hz

theorem build2_ok {g : Graph} (hret : g.retNode ∈ topoOrder g) : ∃ b, build2 g = .ok b := by
  unfold build2
  simp only
  rw [if_pos (by simpa using hret)]
  exact ⟨_, rfl⟩

/-- a non-empty sound Kahn order starts with a node without requirements, hence at least one pool -/
theorem maxAntichain_pos {g : Graph} (hg : GWF g) {n : Nat} (hn : n ∈ topoOrder g) : 0 < maxAntichain g := by
  obtain ⟨hsound, _, hlt⟩ := topoOrder_sound hg
  cases ho : topoOrder g with
  | nil => rw [ho] at hn; cases hn
  | cons f post =>
    have hf : f < g.nodes.length := hlt f (by rw [ho]; exact List.mem_cons_self ..)
    have hrev : g.rev.getD f [] = [] := by
      cases hr : g.rev.getD f [] with
      | nil => rfl
      | cons a as =>
        obtain ⟨n', hn', _⟩ := hsound [] f post (by rw [ho]; rfl) 0 (by rw [hr]; simp)
        cases hn'
    have hmem : f ∈ (List.range g.nodes.length).filter (fun v => decide (g.rev.getD v [] = [])) :=
      List.mem_filter.mpr ⟨List.mem_range.mpr hf, by simpa using hrev⟩
    exact Nat.lt_of_lt_of_le (List.length_pos_of_mem hmem) (maxAntichain_ge_zero_nodes hg)

/-- **`buildStmts2` finds an initial pool**: with every node in the Kahn order and at least one provider node,
    the pool holding the first provider node of the order is initial. -/
theorem buildStmts2_ok {g : Graph} (hg : GWF2 g) (hall : ∀ m, m < g.nodes.length → m ∈ topoOrder g)
    {n0 : Nat} (hn0 : n0 < g.nodes.length) (hna : isArgNode g n0 = false) {b : BuildOut} (hb : build2 g = .ok b) :
    ∃ parent chains, buildStmts2 g b.pools = .ok (parent, chains) := by
  obtain ⟨hsound, hnd, hlt⟩ := topoOrder_sound hg.toGWF
  have hk : 0 < maxAntichain g := maxAntichain_pos hg.toGWF (hall n0 hn0)
  rw [build2_pools hb]
  have h1 := bpass1_inv (g := g) (topoOrder g) (maxAntichain g) hnd hlt
  have hdc := depsClosed_of_sound hg hsound
  generalize hpools : (bpass1 g (topoOrder g) (maxAntichain g)).pools = pools
  obtain ⟨pre, x, post, hsplit, hxna, hpre⟩ :=
    split_first (fun n => isArgNode g n = false) (topoOrder g) ⟨n0, hall n0 hn0, hna⟩
  have hxo : x ∈ topoOrder g := by rw [hsplit]; simp
  obtain ⟨q, hq, hxq⟩ := h1.placed x hxo hxna hk
  rw [hpools] at hxq
  have hne : pools.getD q [] ≠ [] := by
    intro hc; rw [hc] at hxq; cases hxq
  obtain ⟨hfmem, rest, hfcons⟩ := head_mem_of_ne_nil hne
  have hfna : isArgNode g (firstOf pools q) = false := by
    cases hfa : isArgNode g (firstOf pools q) with
    | false => rfl
    | true =>
      have h2 := h1.poolOf q (firstOf pools q) (by rw [hpools]; exact hfmem)
      rw [h1.argNoPool _ hfa] at h2
      cases h2
  have hsubq : (pools.getD q []).Sublist (topoOrder g) := by rw [← hpools]; exact h1.sub q
  have hfo : firstOf pools q ∈ topoOrder g := hsubq.subset hfmem
  have hfx : firstOf pools q = x := by
    have hfo' := hfo
    rw [hsplit] at hfo'
    rcases List.mem_append.mp hfo' with hf | hf
    · exact absurd hfna (hpre _ hf)
    · rcases List.mem_cons.mp hf with hf | hf
      · exact hf
      · exfalso
        have hp := nodup_pairwise_idxOf hnd
        have hp1 : (topoOrder g).idxOf x < (topoOrder g).idxOf (firstOf pools q) := by
          have hp' := hp
          rw [hsplit, List.pairwise_append] at hp'
          have := (List.pairwise_cons.mp hp'.2.1).1 _ hf
          rw [← hsplit] at this
          exact this
        have hxne : x ≠ firstOf pools q := by
          intro hc; rw [hc] at hp1; exact Nat.lt_irrefl _ hp1
        have hxrest : x ∈ rest := by
          rw [hfcons] at hxq
          rcases List.mem_cons.mp hxq with hc | hc
          · exact absurd hc hxne
          · exact hc
        have hp2 := sublist_pairwise_idxOf hnd hsubq
        rw [hfcons] at hp2
        have := (List.pairwise_cons.mp hp2).1 x hxrest
        omega
  have hinit : isInitial g pools q = true := by
    simp only [isInitial, Bool.and_eq_true, Bool.not_eq_true']
    refine ⟨?_, ?_⟩
    · cases hp : pools.getD q [] with
      | nil => exact absurd hp hne
      | cons a as => rfl
    · simp only [depsIn, List.all_eq_true]
      intro d hd
      rw [hfx] at hd
      have hdpre := hdc pre x post hsplit d hd
      have hdo : d ∈ topoOrder g := by rw [hsplit]; exact List.mem_append_left _ hdpre
      have hda : isArgNode g d = true := by
        cases hc : isArgNode g d with
        | true => rfl
        | false => exact absurd hc (hpre d hdpre)
      have := mem_argNodesOf (hlt d hdo) hda
      simpa using this
  have hqlen : q < pools.length := by rw [← hpools, h1.lenPools]; exact hq
  have hqin : q ∈ (List.range pools.length).filter (isInitial g pools) :=
    List.mem_filter.mpr ⟨List.mem_range.mpr hqlen, hinit⟩
  cases hst : stmtsState g pools with
  | none =>
    exfalso
    unfold stmtsState at hst
    simp only at hst
    split at hst
    · rename_i hemp
      have : (List.range pools.length).filter (isInitial g pools) = [] := by simpa using hemp
      rw [this] at hqin; cases hqin
    · cases hst
  | some st =>
    exact ⟨st.parentIdx.flatMap (pools.getD · []), st.chainIdx.map (pools.getD · []), by simp only [buildStmts2, hst]⟩

end KV

#print axioms KV.buildStmts2_ok
