import KV.Plan2
/-! Prototype (scratch): the two facts about `findOptimalPool` that safety needs:
    `range` (result is a valid pool index) and `sync-no-open`. -/
namespace KV

/-- general foldl invariant helper -/
theorem foldl_inv {α β} (P : β → Prop) (f : β → α → β) (l : List α) (b : β)
    (hb : P b) (hstep : ∀ b a, a ∈ l → P b → P (f b a)) : P (l.foldl f b) := by
  induction l generalizing b with
  | nil => exact hb
  | cons x xs ih =>
    simp only [List.foldl_cons]
    apply ih
    · exact hstep b x (List.mem_cons_self ..) hb
    · intro b' a ha hb'
      exact hstep b' a (List.mem_cons_of_mem _ ha) hb'

theorem fopCands_mem_lt (deps : List Nat) (async : Bool) (pools pp : List (List Nat)) :
    ∀ i ∈ (fopCands deps async pools pp).2, i < pools.length := by
  unfold fopCands
  refine foldl_inv (α := Nat) (β := Nat × List Nat) (fun acc => ∀ i ∈ acc.2, i < pools.length) _ _ _ ?_ ?_
  · intro i hi; simp at hi
  · intro acc a ha hacc
    have hal : a < pools.length := by simpa using ha
    simp only [fopStep]
    split
    · exact hacc
    · split
      · intro i hi; simp at hi; omega
      · split
        · intro i hi
          simp only [List.mem_append, List.mem_singleton] at hi
          rcases hi with hi | rfl
          · exact hacc i hi
          · exact hal
        · exact hacc

/-- for a synchronous node every candidate pool is non-empty -/
theorem fopCands_sync_nonempty (deps : List Nat) (pools pp : List (List Nat)) :
    ∀ i ∈ (fopCands deps false pools pp).2, (pools.getD i []).isEmpty = false := by
  unfold fopCands
  refine foldl_inv (α := Nat) (β := Nat × List Nat) (fun acc => ∀ i ∈ acc.2, (pools.getD i []).isEmpty = false) _ _ _ ?_ ?_
  · intro i hi; simp at hi
  · intro acc a _ hacc
    simp only [fopStep, Bool.not_false, Bool.true_and]
    split
    · exact hacc
    · rename_i hne
      have hne' : (pools.getD a []).isEmpty = false := by simpa using hne
      split
      · intro i hi; simp at hi; subst hi; exact hne'
      · split
        · intro i hi
          simp only [List.mem_append, List.mem_singleton] at hi
          rcases hi with hi | rfl
          · exact hacc i hi
          · exact hne'
        · exact hacc

/-- for a synchronous node: if no candidate was found then every pool is empty -/
theorem fopCands_sync_empty (deps : List Nat) (pools pp : List (List Nat))
    (h : (fopCands deps false pools pp).2 = []) : ∀ i, i < pools.length → (pools.getD i []).isEmpty = true := by
  -- invariant: candidates empty → max = 0 ∧ all pools seen so far empty; we prove the contrapositive shape
  have key : ∀ (l : List Nat) (acc : Nat × List Nat),
      (acc.2 = [] → acc.1 = 0) →
      ((l.foldl (fopStep deps false pools pp) acc).2 = [] →
        acc.2 = [] ∧ ∀ i ∈ l, (pools.getD i []).isEmpty = true) ∧
      ((l.foldl (fopStep deps false pools pp) acc).2 = [] → (l.foldl (fopStep deps false pools pp) acc).1 = 0) := by
    intro l
    induction l with
    | nil => intro acc hacc; exact ⟨fun h => ⟨h, by simp⟩, hacc⟩
    | cons a as ih =>
      intro acc hacc
      simp only [List.foldl_cons]
      have hstep : ((fopStep deps false pools pp acc a).2 = [] → (fopStep deps false pools pp acc a).1 = 0) ∧
          ((fopStep deps false pools pp acc a).2 = [] → acc.2 = [] ∧ (pools.getD a []).isEmpty = true) := by
        simp only [fopStep, Bool.not_false, Bool.true_and]
        split
        · rename_i he; exact ⟨hacc, fun h => ⟨h, he⟩⟩
        · split
          · exact ⟨fun h => by simp at h, fun h => by simp at h⟩
          · split
            · exact ⟨fun h => by simp at h, fun h => by simp at h⟩
            · rename_i h1 h2 h3
              -- cnt < acc.1, so acc.1 > 0 so acc.2 ≠ []
              refine ⟨hacc, fun h => ?_⟩
              have := hacc h
              simp at h2 h3
              omega
      obtain ⟨ih1, ih2⟩ := ih (fopStep deps false pools pp acc a) hstep.1
      refine ⟨fun h => ?_, ih2⟩
      obtain ⟨h1, h2⟩ := ih1 h
      obtain ⟨h3, h4⟩ := hstep.2 h1
      refine ⟨h3, ?_⟩
      intro i hi
      simp only [List.mem_cons] at hi
      rcases hi with rfl | hi
      · exact h4
      · exact h2 i hi
  intro i hi
  have := (key (List.range pools.length) (0, []) (fun _ => rfl)).1 h
  exact this.2 i (by simpa using hi)

theorem fopLoop_mem (g : Graph) (deps : List Nat) (async : Bool) (pools : List (List Nat)) (l : List Nat) (p : Nat)
    (h : fopLoop g deps async pools l = some p) : p ∈ l := by
  induction l with
  | nil => simp [fopLoop] at h
  | cons x xs ih =>
    simp only [fopLoop] at h
    split at h
    · cases h; exact List.mem_cons_self ..
    · split at h
      · cases h; exact List.mem_cons_self ..
      · split at h
        · rename_i hx
          cases h
          have : x = 0 := by simpa using hx
          subst this; exact List.mem_cons_self ..
        · exact List.mem_cons_of_mem _ (ih h)
      · exact List.mem_cons_of_mem _ (ih h)

theorem fopLoop_sync (g : Graph) (deps : List Nat) (pools : List (List Nat)) (x : Nat) (xs : List Nat) :
    fopLoop g deps false pools (x :: xs) = some x := by
  simp [fopLoop]

theorem fopMin_mem (async : Bool) (pools : List (List Nat)) (l : List Nat) (acc : Option Nat × Nat)
    (hacc : acc.1 = none ∨ acc.2 ∈ l ∨ True) :
    (l.foldl (fopMinStep async pools) acc).2 = acc.2 ∨ (l.foldl (fopMinStep async pools) acc).2 ∈ l := by
  induction l generalizing acc with
  | nil => exact Or.inl rfl
  | cons x xs ih =>
    simp only [List.foldl_cons]
    have hs : (fopMinStep async pools acc x).2 = acc.2 ∨ (fopMinStep async pools acc x).2 = x := by
      simp only [fopMinStep]
      split
      · exact Or.inl rfl
      · split
        · exact Or.inr rfl
        · split
          · exact Or.inr rfl
          · exact Or.inl rfl
    rcases ih (fopMinStep async pools acc x) (Or.inr (Or.inr trivial)) with h | h
    · rcases hs with hs | hs
      · exact Or.inl (h.trans hs)
      · exact Or.inr (by rw [h, hs]; exact List.mem_cons_self ..)
    · exact Or.inr (List.mem_cons_of_mem _ h)

/-- **range**: the chosen pool index is valid -/
theorem findOptimalPool2_lt (g : Graph) (n : Nat) (pools pp : List (List Nat)) (hk : 0 < pools.length) :
    findOptimalPool2 g n pools pp < pools.length := by
  simp only [findOptimalPool2]
  have hc := fopCands_mem_lt (g.rev.getD n []) (isAsyncNode g n) pools pp
  split
  · exact hk
  · split
    · rename_i p hp
      split at hp
      · exact hc p (fopLoop_mem _ _ _ _ _ _ hp)
      · cases hp
    · split
      · rename_i i hi
        split at hi
        · have := List.find?_some hi
          have hm := List.mem_of_find?_eq_some hi
          simpa using hm
        · cases hi
      · rcases fopMin_mem (isAsyncNode g n) pools _ (none, 0) (Or.inl rfl) with h | h
        · rw [h]; exact hk
        · exact hc _ h

/-- **sync-no-open**: a synchronous node never opens an empty pool unless every pool is empty -/
theorem findOptimalPool2_sync (g : Graph) (n : Nat) (pools pp : List (List Nat))
    (hs : isAsyncNode g n = false) :
    (pools.getD (findOptimalPool2 g n pools pp) []).isEmpty = false ∨
    (∀ i, i < pools.length → (pools.getD i []).isEmpty = true) := by
  simp only [findOptimalPool2, hs]
  have hne := fopCands_sync_nonempty (g.rev.getD n []) pools pp
  have hem := fopCands_sync_empty (g.rev.getD n []) pools pp
  generalize hc : fopCands (g.rev.getD n []) false pools pp = c at hne hem
  obtain ⟨c1, c2⟩ := c
  cases c2 with
  | nil => exact Or.inr (hem rfl)
  | cons x xs =>
    left
    simp only [List.isEmpty_cons, Bool.false_eq_true, ↓reduceIte]
    split
    · rename_i p hp
      split at hp
      · rw [fopLoop_sync] at hp
        cases hp
        exact hne x (List.mem_cons_self ..)
      · cases hp
    · -- first min step picks x (its pool is non-empty), afterwards the result stays in the list
      have hx := hne x (List.mem_cons_self ..)
      have hsz : ((pools.getD x []).length == 0) = false := by
        cases hpx : pools.getD x [] with
        | nil => rw [hpx] at hx; simp at hx
        | cons a as => rfl
      simp only [List.foldl_cons]
      have h1 : fopMinStep false pools (none, 0) x = (some (pools.getD x []).length, x) := by
        unfold fopMinStep
        simp only [Bool.not_false, Bool.true_and, hsz, Bool.false_eq_true, ↓reduceIte]
      rw [h1]
      rcases fopMin_mem false pools xs (some (pools.getD x []).length, x) (Or.inr (Or.inr trivial)) with h | h
      · rw [h]; exact hx
      · exact hne _ (List.mem_cons_of_mem _ h)

end KV
