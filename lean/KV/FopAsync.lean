import KV.Fop
/-! Prototype (scratch): where `findOptimalPool` puts an Async node with no dependencies (for C05). -/
namespace KV

theorem fopStep_zero (async : Bool) (pools pp : List (List Nat)) (acc : Nat × List Nat) (i : Nat)
    (hacc : acc.1 = 0) (ha : async = true) :
    fopStep [] async pools pp acc i = (0, acc.2 ++ [i]) := by
  simp [fopStep, ha, hacc]

theorem fopCands_zero (pools pp : List (List Nat)) :
    fopCands [] true pools pp = (0, List.range pools.length) := by
  unfold fopCands
  have key : ∀ (l : List Nat) (acc : Nat × List Nat), acc.1 = 0 →
      l.foldl (fopStep [] true pools pp) acc = (0, acc.2 ++ l) := by
    intro l
    induction l with
    | nil => intro acc h; simp; rw [← h]
    | cons x xs ih =>
      intro acc h
      simp only [List.foldl_cons]
      rw [fopStep_zero true pools pp acc x h rfl, ih _ rfl]
      simp
  have := key (List.range pools.length) (0, []) rfl
  simpa using this

/-- scanning with no dependencies: 2 iff the pool holds an Async node, else 0 -/
theorem fopScan_nil (g : Graph) (l : List Nat) :
    (fopScan g [] l = 2 ∧ ∃ m ∈ l, isAsyncNode g m = true) ∨ (fopScan g [] l = 0 ∧ ∀ m ∈ l, isAsyncNode g m = false) := by
  induction l with
  | nil => right; simp [fopScan]
  | cons x xs ih =>
    simp only [fopScan, List.contains_nil, Bool.false_eq_true, ↓reduceIte]
    by_cases hx : isAsyncNode g x = true
    · left; simp [hx]
    · have hx' : isAsyncNode g x = false := by simpa using hx
      simp only [hx', Bool.false_eq_true, ↓reduceIte]
      rcases ih with ⟨h1, m, hm, ha⟩ | ⟨h1, h2⟩
      · left; exact ⟨h1, m, List.mem_cons_of_mem _ hm, ha⟩
      · right
        refine ⟨h1, ?_⟩
        intro m hm
        simp only [List.mem_cons] at hm
        rcases hm with rfl | hm
        · exact hx'
        · exact h2 m hm

/-- with no dependencies the pool loop can only ever answer "pool 0", and only if pool 0 holds no Async node -/
theorem fopLoop_nil (g : Graph) (pools : List (List Nat)) (l : List Nat) (p : Nat)
    (h : fopLoop g [] true pools l = some p) : p = 0 ∧ ∀ m ∈ pools.getD 0 [], isAsyncNode g m = false := by
  induction l with
  | nil => simp [fopLoop] at h
  | cons x xs ih =>
    simp only [fopLoop, Bool.not_true, Bool.false_eq_true, ↓reduceIte] at h
    rcases fopScan_nil g (pools.getD x []).reverse with ⟨h2, _⟩ | ⟨h0, hall⟩
    · rw [h2] at h
      exact ih h
    · rw [h0] at h
      simp only at h
      split at h
      · rename_i hx
        have : x = 0 := by simpa using hx
        subst this
        cases h
        exact ⟨rfl, fun m hm => hall m (by simpa using hm)⟩
      · exact ih h

/-- **placement of a dependency-free Async node**: pool 0 if it holds no Async node, otherwise the first
    empty pool; only if no pool is empty does the size heuristic decide -/
theorem findOptimalPool2_async_zero (g : Graph) (n : Nat) (pools pp : List (List Nat))
    (ha : isAsyncNode g n = true) (hz : g.rev.getD n [] = []) (hk : 0 < pools.length) :
    (findOptimalPool2 g n pools pp = 0 ∧ ∀ m ∈ pools.getD 0 [], isAsyncNode g m = false) ∨
    (pools.getD (findOptimalPool2 g n pools pp) [] = []) ∨
    (∀ i, i < pools.length → pools.getD i [] ≠ []) := by
  simp only [findOptimalPool2, hz, ha, fopCands_zero]
  have hne : (List.range pools.length).isEmpty = false := by
    cases hp : pools.length with
    | zero => omega
    | succ k => simp [List.range_succ]
  simp only [hne, Bool.false_eq_true, ↓reduceIte, List.length_nil, beq_self_eq_true]
  split
  · rename_i p hp
    left
    exact fopLoop_nil g pools _ p hp
  · split
    · rename_i i hi
      right; left
      have := List.find?_some hi
      simpa using this
    · rename_i hnone
      right; right
      intro i hi hemp
      have := List.find?_eq_none.mp hnone i (by simpa using hi)
      rw [hemp] at this
      simp at this

end KV
