import KV.BfsProof
import KV.Assemble
/-! Prototype (scratch): `GWF2` for the graph produced by the BFS. -/
namespace KV

theorem bfsInit_inv (provs : List PSpec) (rp : Nat) : BInv provs (bfsInit rp) none where
  lenE := rfl
  lenR := rfl
  qLt := by intro m hm; simp [bfsInit] at hm; subst hm; simp [bfsInit]
  vLt := by intro m hm; simp [bfsInit] at hm
  seen := by
    intro m hm
    simp [bfsInit] at hm; subst hm
    exact Or.inl (by simp [bfsInit])
  edgeOK := by
    intro n2 e he
    have : (bfsInit rp).edges.getD n2 [] = [] := by
      cases n2 <;> simp [bfsInit, List.getD_eq_getElem?_getD]
    rw [this] at he; simp at he
  revOK := by
    intro m i d hr
    have : (bfsInit rp).rev.getD m [] = [] := by
      cases m <;> simp [bfsInit, List.getD_eq_getElem?_getD]
    rw [this] at hr; simp at hr
  uniq := by
    intro n n' e e' he
    have : (bfsInit rp).edges.getD n [] = [] := by
      cases n <;> simp [bfsInit, List.getD_eq_getElem?_getD]
    rw [this] at he; simp at he
  revLen := by
    intro m hm
    simp [bfsInit] at hm; subst hm
    simp [bfsInit, expectedRev, List.getD_eq_getElem?_getD]
  provNodeOK := by intro p n2 h; simp [bfsInit] at h
  argNodeOK := by intro t n2 h; simp [bfsInit] at h

/-- the graph read off a drained BFS state is well-formed -/
theorem gwf2_of_binv {provs : List PSpec} {st : BfsSt} (h : BInv provs st none) (hq : st.queue = []) (ri : Nat) :
    GWF2 { provs := provs, nodes := st.nodes, edges := st.edges, rev := st.rev, retNode := 0, retIdx := ri } := by
  have hallv : ∀ m, m < st.nodes.length → m ∈ st.visited := by
    intro m hm
    rcases h.seen m hm with h1 | h1
    · rw [hq] at h1; simp at h1
    · exact h1
  have hslot : ∀ n e, e ∈ st.edges.getD n [] → e.slot < (st.rev.getD e.dst []).length := by
    intro n e he
    obtain ⟨_, _, h3, _⟩ := h.edgeOK n e he
    apply Classical.byContradiction; intro hc
    rw [List.getElem?_eq_none (Nat.le_of_not_lt hc)] at h3; cases h3
  refine { slotLt := hslot, dstLt := ?_, revLen := h.lenR, slotsEq := ?_, edgeUnique := h.uniq, srcLt := ?_, revEdge := ?_ }
  · intro n e he
    exact h.vLt _ (h.edgeOK n e he).2.1
  · intro m hm
    show nodeSlots _ m = (st.rev.getD m []).length
    rw [h.revLen m hm]
    simp only [expectedRev, hallv m hm, ↓reduceIte, nodeSlots, slotsOfNode]
    rw [List.getElem?_eq_getElem hm, getD_eq_getElem' _ _ _ hm]
  · intro n e he hn
    exact (h.edgeOK n e he).2.2.2
  · intro m i d hr
    exact h.revOK m i d hr

end KV
