import KV.InstallModel
/-! Soundness of the symbolic interpretation of install step lists: whatever the previous destination,
    the content and the number of bytes a torn write got through, the concrete run is the
    concretisation of the symbolic run.  Hence the decidable checks `crashSafe`, `completes`,
    `faultSafe` — evaluated on the step list regenerated from the source — imply the ∀-statements of C15. -/
namespace Inst

/-- concretisation parameters: previous destination, new content, bytes written by a torn write -/
structure Ctx where
  old : Option FileV
  content : List Nat
  j : Nat

def gCont (x : Ctx) : Cont → List Nat
  | .empty => []
  | .part => x.content.take (min x.j x.content.length)
  | .full => x.content

def oldMode (x : Ctx) : Nat := (x.old.map (·.2)).getD 0

def gFile (x : Ctx) : SFile → Option FileV
  | .absent => none
  | .old none => x.old
  | .old (some m) => x.old.map (fun f => (f.1, m))
  | .new c (some m) => some (gCont x c, m)
  | .new c none => some (gCont x c, oldMode x)

def gSt (x : Ctx) (s : SSt) : St := { dest := gFile x s.dest, tmp := gFile x s.tmp }

def nOf (x : Ctx) : Cont → Nat
  | .empty => 0
  | .part => min x.j x.content.length
  | .full => x.content.length

theorem take_nOf (x : Ctx) (c : Cont) : x.content.take (nOf x c) = gCont x c := by
  cases c <;> simp [nOf, gCont]

/-- symbolic files that mention the previous file are only meaningful when it exists -/
def FileOK (x : Ctx) : SFile → Prop
  | .absent => True
  | .old _ => x.old.isSome
  | .new _ (some _) => True
  | .new _ none => x.old.isSome

/-- the temp file is never the previous file: it is absent or new bytes with an explicit mode -/
def TmpOK : SFile → Prop
  | .absent => True
  | .old _ => False
  | .new _ (some _) => True
  | .new _ none => False

theorem fileOK_of_tmpOK (x : Ctx) : ∀ f, TmpOK f → FileOK x f
  | .absent, _ => trivial
  | .old _, h => h.elim
  | .new _ (some _), _ => trivial
  | .new _ none, h => h.elim

structure StOK (x : Ctx) (s : SSt) : Prop where
  dest : FileOK x s.dest
  tmp : TmpOK s.tmp

theorem sApply_ok (x : Ctx) (c : Cont) (op : Op) (s : SSt) (h : StOK x s) : StOK x (sApply c op s) := by
  obtain ⟨hd, ht⟩ := h
  cases op with
  | mkdirAll => exact ⟨hd, ht⟩
  | createTemp => exact ⟨hd, trivial⟩
  | write t =>
    cases t with
    | tmp =>
      refine ⟨hd, ?_⟩
      simp only [sApply]
      cases hs : s.tmp with
      | absent => trivial
      | old m => rw [hs] at ht; exact ht.elim
      | new c' m => rw [hs] at ht; cases m <;> exact ht
    | final =>
      refine ⟨?_, ht⟩
      simp only [sApply]
      cases hs : s.dest with
      | absent => trivial
      | old m => rw [hs] at hd; cases m <;> first | exact hd | trivial
      | new c' m => rw [hs] at hd; cases m <;> exact hd
  | sync => exact ⟨hd, ht⟩
  | closeF => exact ⟨hd, ht⟩
  | chmod t m =>
    cases t with
    | tmp =>
      refine ⟨hd, ?_⟩
      simp only [sApply]
      cases hs : s.tmp with
      | absent => trivial
      | old m' => rw [hs] at ht; exact ht.elim
      | new c' m' => trivial
    | final =>
      refine ⟨?_, ht⟩
      simp only [sApply]
      cases hs : s.dest with
      | absent => trivial
      | old m' => rw [hs] at hd; exact hd
      | new c' m' => trivial
  | rename =>
    simp only [sApply]
    cases hs : s.tmp with
    | absent => exact ⟨hd, ht⟩
    | old m => rw [hs] at ht; exact ht.elim
    | new c' m => rw [hs] at ht; exact ⟨fileOK_of_tmpOK x _ ht, trivial⟩
  | remove t => cases t <;> simp only [sApply] <;> first | exact ⟨hd, trivial⟩ | exact ⟨trivial, ht⟩
  | unknown w => exact ⟨hd, ht⟩

theorem apply_sound (x : Ctx) (c : Cont) (op : Op) (s : SSt) (h : StOK x s) :
    gSt x (sApply c op s) = apply x.content (nOf x c) op (gSt x s) := by
  obtain ⟨hd, ht⟩ := h
  cases op with
  | mkdirAll => rfl
  | createTemp => simp [sApply, apply, gSt, gFile, gCont]
  | write t =>
    cases t with
    | tmp =>
      simp only [sApply, apply, gSt]
      cases hs : s.tmp with
      | absent => simp [gFile]
      | old m => rw [hs] at ht; exact ht.elim
      | new c' m => cases m <;> simp [gFile, take_nOf]
    | final =>
      simp only [sApply, apply, gSt]
      cases hs : s.dest with
      | absent => simp [gFile, take_nOf]
      | old m =>
        rw [hs] at hd
        obtain ⟨f, hf⟩ := Option.isSome_iff_exists.mp hd
        cases m <;> simp [gFile, hf, take_nOf, oldMode]
      | new c' m => cases m <;> simp [gFile, take_nOf]
  | sync => rfl
  | closeF => rfl
  | chmod t m =>
    cases t with
    | tmp =>
      simp only [sApply, apply, gSt]
      cases hs : s.tmp with
      | absent => simp [gFile]
      | old m' => rw [hs] at ht; exact ht.elim
      | new c' m' => cases m' <;> simp [gFile]
    | final =>
      simp only [sApply, apply, gSt]
      cases hs : s.dest with
      | absent => simp [gFile]
      | old m' => cases m' <;> simp [gFile, Option.map_map, Function.comp_def]
      | new c' m' => cases m' <;> simp [gFile]
  | rename =>
    simp only [sApply, apply, gSt]
    cases hs : s.tmp with
    | absent => simp [gFile, hs]
    | old m => rw [hs] at ht; exact ht.elim
    | new c' m => cases m <;> simp [gFile]
  | remove t => cases t <;> simp [sApply, apply, gSt, gFile]
  | unknown w => rfl



theorem runOps_sound (x : Ctx) (ops : List Op) (s : SSt) (h : StOK x s) :
    gSt x (sRunOps ops s) = runOps x.content ops (gSt x s) ∧ StOK x (sRunOps ops s) := by
  induction ops generalizing s with
  | nil => exact ⟨rfl, h⟩
  | cons op ops ih =>
    have h1 := apply_sound x .full op s h
    have h2 := sApply_ok x .full op s h
    obtain ⟨e, ok⟩ := ih (sApply .full op s) h2
    refine ⟨?_, ok⟩
    simp only [sRunOps, runOps, List.foldl_cons] at e ⊢
    rw [e, h1]; rfl

theorem runCleanup_sound (x : Ctx) (cl : List Cleanup) (closed failed : Bool) (s : SSt) (h : StOK x s) :
    gSt x (sRunCleanup cl closed failed s) = runCleanup x.content cl closed failed (gSt x s) ∧
    StOK x (sRunCleanup cl closed failed s) := by
  induction cl generalizing s with
  | nil => exact ⟨rfl, h⟩
  | cons c cl ih =>
    simp only [sRunCleanup, runCleanup, List.foldl_cons]
    by_cases hg : guardHolds closed failed c.guard = true
    · simp only [hg, if_true]
      have h1 := apply_sound x .full c.op s h
      have h2 := sApply_ok x .full c.op s h
      obtain ⟨e, ok⟩ := ih (sApply .full c.op s) h2
      simp only [sRunCleanup, runCleanup] at e ok
      refine ⟨?_, ok⟩
      rw [e, h1]; rfl
    · simp only [hg]
      exact ih s h

def ctxOf (old : Option FileV) (content : List Nat) (j : Nat) : Ctx := { old := old, content := content, j := j }

theorem gSt_sInit (old : Option FileV) (content : List Nat) (j : Nat) :
    gSt (ctxOf old content j) (sInit old.isSome) = { dest := old, tmp := none } := by
  cases old <;> simp [sInit, gSt, gFile, ctxOf]

theorem stOK_sInit (old : Option FileV) (content : List Nat) (j : Nat) :
    StOK (ctxOf old content j) (sInit old.isSome) := by
  cases old <;> exact ⟨by simp [sInit, FileOK, ctxOf], by simp [sInit, TmpOK]⟩

theorem nOf_part (x : Ctx) : nOf x .part = min x.j x.content.length := rfl
theorem nOf_full (x : Ctx) : nOf x .full = x.content.length := rfl

theorem torn_sound (x : Ctx) (op : Op) (s : SSt) (h : StOK x s) :
    gSt x (sTornApply .part op s) = tornApply x.content (min x.j x.content.length) op (gSt x s) ∧
    StOK x (sTornApply .part op s) := by
  cases op with
  | write t =>
    simp only [sTornApply, tornApply]
    exact ⟨by rw [apply_sound x .part (.write t) s h, nOf_part], sApply_ok x .part (.write t) s h⟩
  | mkdirAll => exact ⟨rfl, h⟩
  | createTemp => exact ⟨rfl, h⟩
  | sync => exact ⟨rfl, h⟩
  | closeF => exact ⟨rfl, h⟩
  | chmod t m => exact ⟨rfl, h⟩
  | rename => exact ⟨rfl, h⟩
  | remove t => exact ⟨rfl, h⟩
  | unknown w => exact ⟨rfl, h⟩

theorem runCrash_sound (x : Ctx) (steps : List Step) (k : Nat) (s : SSt) (h : StOK x s) :
    gSt x (sRunCrash steps k true s) = runCrash x.content steps k x.j (gSt x s) := by
  obtain ⟨e, ok⟩ := runOps_sound x ((steps.take k).map (·.op)) s h
  simp only [sRunCrash, runCrash]
  cases hk : steps[k]? with
  | none => simpa using e
  | some st =>
    simp only [contOf, if_true]
    rw [(torn_sound x st.op _ ok).1, e]

theorem runCrash_ge (content : List Nat) (steps : List Step) (k j : Nat) (s : St) (hk : steps.length ≤ k) :
    runCrash content steps k j s = runCrash content steps steps.length j s := by
  simp only [runCrash]
  rw [List.take_of_length_le hk, List.take_length]
  have h1 : steps[k]? = none := List.getElem?_eq_none hk
  have h2 : steps[steps.length]? = none := List.getElem?_eq_none (Nat.le_refl _)
  rw [h1, h2]

theorem mem_crashPoints (steps : List Step) (k : Nat) (p : Bool) (hk : k ≤ steps.length) :
    (k, p) ∈ crashPoints steps := by
  simp only [crashPoints, List.mem_flatMap, List.mem_range]
  exact ⟨k, by omega, by cases p <;> simp⟩

theorem mem_faultPoints (steps : List Step) (k : Nat) (p : Bool) (hk : k < steps.length) :
    (k, p) ∈ faultPoints steps := by
  simp only [faultPoints, List.mem_flatMap, List.mem_range]
  exact ⟨k, hk, by cases p <;> simp⟩

theorem gFile_eq_of_beq {x : Ctx} {a b : SFile} (h : (a == b) = true) : gFile x a = gFile x b := by
  have : a = b := by simpa using h
  rw [this]

/-- **C15 (crash), for any step list that passes the decidable check.**  Wherever the process dies —
    after any number `k` of complete steps and `j` bytes into a write — the destination is exactly what
    it was before (possibly absent) or the complete new content with mode `mode`. -/
theorem crash_atomic_of_safe (steps : List Step) (mode : Nat) (h : crashSafe steps mode = true)
    (old : Option FileV) (content : List Nat) (k j : Nat) :
    (runCrash content steps k j { dest := old, tmp := none }).dest = old ∨
    (runCrash content steps k j { dest := old, tmp := none }).dest = some (content, mode) := by
  have key : ∀ k, k ≤ steps.length →
      (runCrash content steps k j { dest := old, tmp := none }).dest = old ∨
      (runCrash content steps k j { dest := old, tmp := none }).dest = some (content, mode) := by
    intro k hk
    simp only [crashSafe, List.all_eq_true] at h
    have hex := h old.isSome (by cases old <;> simp)
    have hkp := hex (k, true) (mem_crashPoints steps k true hk)
    have hs := runCrash_sound (ctxOf old content j) steps k (sInit old.isSome) (stOK_sInit old content j)
    rw [gSt_sInit] at hs
    have hs' : (runCrash content steps k j { dest := old, tmp := none }).dest
        = gFile (ctxOf old content j) (sRunCrash steps k true (sInit old.isSome)).dest := by
      have := congrArg St.dest hs
      simp only [gSt, ctxOf] at this ⊢
      exact this.symm
    simp only [crashOKAt, Bool.or_eq_true] at hkp
    rcases hkp with hkp | hkp
    · left
      rw [hs', gFile_eq_of_beq hkp]
      cases old <;> simp [sInit, gFile, ctxOf]
    · right
      rw [hs', gFile_eq_of_beq hkp]
      simp [gFile, gCont, ctxOf]
  by_cases hk : k ≤ steps.length
  · exact key k hk
  · rw [runCrash_ge content steps k j _ (by omega)]
    exact key steps.length (Nat.le_refl _)

theorem runOK_sound (x : Ctx) (steps : List Step) (cl : List Cleanup) (s : SSt) (h : StOK x s) :
    gSt x (sRunOK steps cl s).st = (runOK x.content steps cl (gSt x s)).st ∧
    (sRunOK steps cl s).reported = (runOK x.content steps cl (gSt x s)).reported := by
  obtain ⟨e, ok⟩ := runOps_sound x (steps.map (·.op)) s h
  obtain ⟨e2, _⟩ := runCleanup_sound x cl (closedAfter (steps.map (·.op))) false _ ok
  simp only [sRunOK, runOK]
  exact ⟨by rw [e2, e], trivial⟩

/-- **C15 (a later successful run completes the installation)**: a run without crash or fault, from any
    previous destination state (in particular one left by a crashed run, which uses a different temp
    name), reports success, leaves the complete content with mode `mode` and no temp file. -/
theorem rerun_completes_of (steps : List Step) (cl : List Cleanup) (mode : Nat)
    (h : completes steps cl mode = true) (old : Option FileV) (content : List Nat) :
    runOK content steps cl { dest := old, tmp := none } =
      { st := { dest := some (content, mode), tmp := none }, reported := false } := by
  simp only [completes, List.all_eq_true] at h
  have hex := h old.isSome (by cases old <;> simp)
  simp only [Bool.and_eq_true] at hex
  obtain ⟨hd, ht⟩ := hex
  obtain ⟨e, _⟩ := runOK_sound (ctxOf old content 0) steps cl (sInit old.isSome) (stOK_sInit old content 0)
  rw [gSt_sInit] at e
  have e' : (runOK content steps cl { dest := old, tmp := none }).st =
      gSt (ctxOf old content 0) (sRunOK steps cl (sInit old.isSome)).st := by
    simp only [ctxOf] at e ⊢; exact e.symm
  have hst : (runOK content steps cl { dest := old, tmp := none }).st = { dest := some (content, mode), tmp := none } := by
    rw [e']
    simp only [gSt]
    rw [gFile_eq_of_beq hd, gFile_eq_of_beq ht]
    simp [gFile, gCont, ctxOf]
  have hrep : (runOK content steps cl { dest := old, tmp := none }).reported = false := rfl
  cases hr : runOK content steps cl { dest := old, tmp := none } with
  | mk st rep =>
    rw [hr] at hst hrep
    simp only at hst hrep
    rw [hst, hrep]

theorem runFail_sound (x : Ctx) (steps : List Step) (cl : List Cleanup) (i : Nat) (s : SSt) (h : StOK x s) :
    gSt x (sRunFail steps cl i true s).st = (runFail x.content steps cl i x.j (gSt x s)).st ∧
    (sRunFail steps cl i true s).reported = (runFail x.content steps cl i x.j (gSt x s)).reported := by
  obtain ⟨e, ok⟩ := runOps_sound x ((steps.take i).map (·.op)) s h
  simp only [sRunFail, runFail]
  cases hi : steps[i]? with
  | none => exact runOK_sound x steps cl s h
  | some st =>
    simp only [contOf, if_true]
    obtain ⟨e2, ok2⟩ := torn_sound x st.op _ ok
    by_cases hc : st.checked = true
    · simp only [hc, if_true]
      obtain ⟨e3, _⟩ := runCleanup_sound x cl (closedAfter ((steps.take i).map (·.op))) true _ ok2
      exact ⟨by rw [e3, e2, e], trivial⟩
    · have hc' : st.checked = false := by simpa using hc
      simp only [hc', Bool.false_eq_true, if_false]
      obtain ⟨e4, ok4⟩ := runOps_sound x ((steps.drop (i + 1)).map (·.op)) _ ok2
      obtain ⟨e5, _⟩ := runCleanup_sound x cl
        (closedAfter ((steps.take i).map (·.op) ++ (steps.drop (i + 1)).map (·.op))) false _ ok4
      exact ⟨by rw [e5, e4, e2, e], trivial⟩

/-- **C15 (single injected failure), for any step list that passes the decidable check.**  If step `i`
    fails (a failing write may have written `j` bytes first) the installer reports an error, the
    previous destination is intact and no temp file is left behind. -/
theorem fault_clean_of_safe (steps : List Step) (cl : List Cleanup) (h : faultSafe steps cl = true)
    (old : Option FileV) (content : List Nat) (i j : Nat) (hi : i < steps.length) :
    (runFail content steps cl i j { dest := old, tmp := none }).reported = true ∧
    (runFail content steps cl i j { dest := old, tmp := none }).st.dest = old ∧
    (runFail content steps cl i j { dest := old, tmp := none }).st.tmp = none := by
  simp only [faultSafe, List.all_eq_true] at h
  have hex := h old.isSome (by cases old <;> simp)
  have hip := hex (i, true) (mem_faultPoints steps i true hi)
  simp only [faultOKAt, Bool.and_eq_true] at hip
  obtain ⟨⟨hr, hd⟩, ht⟩ := hip
  obtain ⟨e, er⟩ := runFail_sound (ctxOf old content j) steps cl i (sInit old.isSome) (stOK_sInit old content j)
  rw [gSt_sInit] at e er
  simp only [ctxOf] at e er
  refine ⟨by rw [← er]; exact hr, ?_, ?_⟩
  · rw [← e]; simp only [gSt]
    rw [gFile_eq_of_beq hd]
    cases old <;> simp [sInit, gFile]
  · rw [← e]; simp only [gSt]
    rw [gFile_eq_of_beq ht]; rfl

end Inst
